(* C13, GLOBAL progress of the WebSocket subscription client (Rt/Ws.v).

   WsProofs.api_call_progress is LOCAL (the next step of each unfinished call is enabled).
   Here: from every reachable state the scheduler has a STRATEGY, made only of thread steps and
   application receives (no new API call, no server frame, no connection loss), that
     (A) makes EVERY API call return, and
     (B) once the client is closed or the connection is lost, makes the reader terminate,
   and the strategy wins against EVERY (adaptive) choice of the connection faults: [wins] below.
   The schedule-level statements (the continuation exists; it exists for every fault stream; in
   particular for the all-false one) are corollaries.

   (A) needs that at most one Close is inside UnsubscribeAll and that its collected ids are not
   exhausted ([unsub_ok]); this holds in every schedule with at most one LCallClose
   ([close_once]).  With two overlapping Close calls the MODEL deadlocks (they share the single
   field close_collected; the real code has one GetAllIDs snapshot per Close call):
   [two_closes_deadlock]. *)
From Verif Require Import Base.Str Rt.Ws Rt.WsSpec Proofs.WsProofs Proofs.WsOrder.
From Coq Require Import Arith Lia.
Local Open Scope nat_scope.

Definition run_from (s : st) (ls : list label) : st := fold_left step' ls s.

(* thread steps (the environment chooses the fault flag) and a helpful application *)
Definition internal (l : label) : Prop :=
  match l with LStep _ _ _ | LRecv _ | LRecvErr => True | _ => False end.

Lemma run_from_run ls ls' : run_from (run ls) ls' = run (ls ++ ls').
Proof. unfold run_from, run. rewrite fold_left_app. reflexivity. Qed.

Lemma reachable_step' s l : reachable s -> reachable (step' s l).
Proof. intros [ls <-]. exists (ls ++ [l]). apply run_app. Qed.

Lemma reachable_run_from s ls : reachable s -> reachable (run_from s ls).
Proof. intros [ls0 <-]. exists (ls0 ++ ls). symmetry. apply run_from_run. Qed.

(* ================= the game: scheduler against the fault adversary ================= *)
(* [wins P s]: the scheduler can drive s into P using thread steps and application receives
   only, choosing the thread (and, inside UnsubscribeAll, the id) at each step, WHATEVER fault
   flag the environment then picks for that step (the adversary sees the whole history). *)
Inductive wins (P : st -> Prop) : st -> Prop :=
| W_done s : P s -> wins P s
| W_step s t c :
    (forall fault, step s (LStep t c fault) <> None) ->
    (forall fault, wins P (step' s (LStep t c fault))) -> wins P s
| W_recv s i : wins P (step' s (LRecv i)) -> wins P s.

(* the k-th thread step of ls has the fault flag fa k *)
Fixpoint follows (fa : nat -> bool) (ls : list label) : Prop :=
  match ls with
  | [] => True
  | LStep _ _ f :: r => f = fa 0 /\ follows (fun k => fa (S k)) r
  | _ :: r => follows fa r
  end.

Fixpoint fault_free (ls : list label) : Prop :=
  match ls with
  | [] => True
  | LStep _ _ f :: r => f = false /\ fault_free r
  | _ :: r => fault_free r
  end.

Lemma follows_false ls : follows (fun _ => false) ls -> fault_free ls.
Proof.
  induction ls as [|l r IH]; intro H; [exact I|].
  destruct l; cbn in *; try (apply IH; exact H). destruct H as [H1 H2]. split; [exact H1 | apply IH; exact H2].
Qed.

Lemma wins_schedule P s : wins P s ->
  forall fa, exists ls, Forall internal ls /\ follows fa ls /\ P (run_from s ls).
Proof.
  induction 1 as [s HP | s t c Hen Hw IH | s i Hw IH]; intro fa.
  - exists []. split; [constructor | split; [exact I | exact HP]].
  - destruct (IH (fa 0) (fun k => fa (S k))) as (ls & Hi & Hf & HP).
    exists (LStep t c (fa 0) :: ls). split; [constructor; [exact I | exact Hi]|].
    split; [split; [reflexivity | exact Hf] | exact HP].
  - destruct (IH fa) as (ls & Hi & Hf & HP).
    exists (LRecv i :: ls). split; [constructor; [exact I | exact Hi]|].
    split; [exact Hf | exact HP].
Qed.

Lemma wins_weaken (P Q : st -> Prop) s : (forall s', P s' -> Q s') -> wins P s -> wins Q s.
Proof.
  intros HPQ H. induction H as [s HP | s t c Hen Hw IH | s i Hw IH].
  - apply W_done. apply HPQ. exact HP.
  - apply (W_step Q s t c); [exact Hen | exact IH].
  - apply (W_recv Q s i). exact IH.
Qed.

Lemma wins_bind (P Q : st -> Prop) s : wins P s -> (forall s', P s' -> wins Q s') -> wins Q s.
Proof.
  intros H HPQ. induction H as [s HP | s t c Hen Hw IH | s i Hw IH].
  - apply HPQ. exact HP.
  - apply (W_step Q s t c); [exact Hen | exact IH].
  - apply (W_recv Q s i). exact IH.
Qed.

Lemma wins_inv (I : st -> Prop) (P : st -> Prop) s :
  (forall s0 l, I s0 -> I (step' s0 l)) -> wins P s -> I s -> wins (fun s' => P s' /\ I s') s.
Proof.
  intros HI H. induction H as [s HP | s t c Hen Hw IH | s i Hw IH]; intro Is.
  - apply W_done. split; assumption.
  - apply (W_step _ s t c); [exact Hen|]. intro fault. apply IH. apply HI. exact Is.
  - apply (W_recv _ s i). apply IH. apply HI. exact Is.
Qed.

(* ================= bookkeeping on the call list ================= *)
Fixpoint total (w : apc -> nat) (l : list apc) : nat :=
  match l with [] => 0 | a :: r => w a + total w r end.

Lemma total_app w l1 l2 : total w (l1 ++ l2) = total w l1 + total w l2.
Proof. induction l1 as [|a r IH]; cbn; [reflexivity | rewrite IH; lia]. Qed.

Lemma total_upd w l n a b :
  nth_error l n = Some a -> total w (upd l n (fun _ => b)) + w a = total w l + w b.
Proof.
  revert n; induction l as [|x r IH]; intros [|n] H; cbn in *; try discriminate.
  - injection H as ->. lia.
  - specialize (IH _ H). lia.
Qed.

Lemma total_nth w l n a : nth_error l n = Some a -> w a <= total w l.
Proof.
  revert n; induction l as [|x r IH]; intros [|n] H; cbn in *; try discriminate.
  - injection H as ->. lia.
  - specialize (IH _ H). lia.
Qed.

(* remaining work of a call (the ids still to be released by UnsubscribeAll are counted apart) *)
Definition wt (a : apc) : nat :=
  match a with
  | ASubWrite _ => 1 | AUnsubWrite _ => 1 | ACloseUnsub _ => 3 | ACloseWrite _ => 2
  | ACloseLock _ => 1 | ADone _ => 0
  end.
Definition isU (a : apc) : nat := match a with ACloseUnsub _ => 1 | _ => 0 end.
Definition mbit (o : owner) : nat := match o with Free => 0 | HeldByReader => 1 end.

Definition work (s : st) : nat :=
  total wt (calls s) + List.length (close_collected s) + mbit (mutex s).

(* at most one Close is inside UnsubscribeAll, and then it still has an id to release *)
Definition unsub_ok (s : st) : Prop :=
  total isU (calls s) <= 1 /\ (total isU (calls s) = 1 -> close_collected s <> []).

Lemma not_all_done s : all_done s = false ->
  exists n a, nth_error (calls s) n = Some a /\ is_done a = false.
Proof.
  unfold all_done. induction (calls s) as [|a r IH]; cbn; intro H; [discriminate|].
  destruct (is_done a) eqn:D.
  - destruct (IH H) as (n & b & Hn & Hb). exists (S n), b. split; assumption.
  - exists 0, a. split; [reflexivity | exact D].
Qed.

Lemma remove_nat_length c l : mem_nat c l = true -> S (List.length (remove_nat c l)) = List.length l.
Proof.
  induction l as [|y r IH]; cbn; intro H; [discriminate|].
  destruct (Nat.eqb c y); cbn; [reflexivity|]. cbn in H. rewrite (IH H). reflexivity.
Qed.

Lemma filter_length {A} (f : A -> bool) l : List.length (filter f l) <= List.length l.
Proof. induction l as [|x r IH]; cbn; [lia|]. destruct (f x); cbn; lia. Qed.

(* what map_unsubscribe leaves alone (besides WsProofs.map_unsubscribe_frame) *)
Lemma map_unsubscribe_keep s i s' k :
  map_unsubscribe s i = (s', k) ->
  close_collected s' = close_collected s /\ is_closing s' = is_closing s /\ lost s' = lost s /\
  conn_closes s' = conn_closes s.
Proof.
  unfold map_unsubscribe. intro E.
  destruct (get_sub s i) as [e|]; [|injection E as <- _; repeat split].
  destruct (s_present e); [|injection E as <- _; repeat split].
  destruct (s_flag e); injection E as <- _; repeat split.
Qed.

(* ---------- one step of an API-call thread ---------- *)
Lemma step_call_shape s n c fault s' a :
  nth_error (calls s) n = Some a -> step_call s n c fault = Some s' ->
  exists b, calls s' = upd (calls s) n (fun _ => b) /\ mutex s' = mutex s /\
    match a with
    | ACloseUnsub _ =>
        List.length (close_collected s') < List.length (close_collected s) /\
        match b with
        | ACloseUnsub _ => close_collected s' <> []
        | ACloseWrite _ => True
        | _ => False
        end
    | ACloseWrite _ => close_collected s' = close_collected s /\ exists e, b = ACloseLock e
    | ADone _ => False
    | _ => close_collected s' = close_collected s /\ exists ok, b = ADone ok
    end.
Proof.
  intros Hn E. unfold step_call in E. rewrite Hn in E.
  destruct a as [i|i|err|err|err|ok].
  - destruct fault; injection E as <-; eexists; (split; [reflexivity|]); (split; [reflexivity|]);
      (split; [reflexivity | eexists; reflexivity]).
  - destruct fault.
    + injection E as <-. eexists. split; [reflexivity|]. split; [reflexivity|].
      split; [reflexivity | eexists; reflexivity].
    + destruct (map_unsubscribe (push_frame s (WComplete i)) i) as [s1 k] eqn:M. injection E as <-.
      pose proof (map_unsubscribe_frame _ _ _ _ M) as (_ & _ & _ & _ & _ & Hc & Hm & _).
      pose proof (map_unsubscribe_keep _ _ _ _ M) as (Hcol & _).
      eexists. cbn [calls mutex close_collected set_call set_calls].
      rewrite Hc, Hm, Hcol. split; [reflexivity|]. split; [reflexivity|].
      split; [reflexivity | eexists; reflexivity].
  - destruct (mem_nat c (close_collected s)) eqn:Hmem; [|discriminate].
    destruct (map_unsubscribe (if fault then s else push_frame s (WComplete c)) c) as [s1 k] eqn:M.
    injection E as <-.
    pose proof (map_unsubscribe_frame _ _ _ _ M) as (_ & _ & _ & _ & _ & Hc & Hm & _).
    assert (calls s1 = calls s) as Hc' by (rewrite Hc; destruct fault; reflexivity).
    assert (mutex s1 = mutex s) as Hm' by (rewrite Hm; destruct fault; reflexivity).
    eexists. cbn [calls mutex close_collected set_call set_calls set_collected].
    rewrite Hc', Hm'. split; [reflexivity|]. split; [reflexivity|].
    split.
    + pose proof (filter_length (fun k0 => negb (sub_ended s1 k0)) (remove_nat c (close_collected s))) as HL.
      pose proof (remove_nat_length _ _ Hmem) as HR. lia.
    + destruct (filter (fun k0 => negb (sub_ended s1 k0)) (remove_nat c (close_collected s))); [exact I | discriminate].
  - injection E as <-. eexists. cbn [calls mutex close_collected set_call set_calls].
    destruct fault; cbn; (split; [reflexivity|]); (split; [reflexivity|]);
      (split; [reflexivity | eexists; reflexivity]).
  - destruct (mutex s) eqn:Mx; [|discriminate]. injection E as <-. eexists.
    cbn [calls mutex close_collected set_call set_calls set_closing]. split; [reflexivity|].
    split; [congruence|]. split; [reflexivity | eexists; reflexivity].
  - discriminate.
Qed.

Lemma step_call_unsub_ok s n c fault s' :
  step_call s n c fault = Some s' -> unsub_ok s -> unsub_ok s'.
Proof.
  intros E [H1 H2].
  destruct (nth_error (calls s) n) as [a|] eqn:Hn; [|unfold step_call in E; rewrite Hn in E; discriminate].
  destruct (step_call_shape _ _ _ _ _ _ Hn E) as (b & Hc & _ & Hsh).
  pose proof (total_upd isU _ _ _ b Hn) as HT. pose proof (total_nth isU _ _ _ Hn) as HN.
  unfold unsub_ok. rewrite Hc.
  destruct a as [i|i|err|err|err|ok]; cbn [isU] in *.
  - destruct Hsh as (Hcol & ok & ->). cbn [isU] in HT. rewrite Hcol. split; [lia|]. intro X. apply H2. lia.
  - destruct Hsh as (Hcol & ok & ->). cbn [isU] in HT. rewrite Hcol. split; [lia|]. intro X. apply H2. lia.
  - destruct Hsh as (_ & Hb). destruct b as [j|j|e|e|e|o]; try (exfalso; exact Hb); cbn [isU] in HT.
    + split; [lia|]. intros _. exact Hb.
    + split; [lia|]. intro X. exfalso. lia.
  - destruct Hsh as (Hcol & e & ->). cbn [isU] in HT. rewrite Hcol. split; [lia|]. intro X. apply H2. lia.
  - destruct Hsh as (Hcol & ok & ->). cbn [isU] in HT. rewrite Hcol. split; [lia|]. intro X. apply H2. lia.
  - destruct Hsh.
Qed.

(* ---------- the reader in handleErr frees the mutex at its next step, whatever the fault ---------- *)
Lemma reader_frees s :
  reachable s -> mutex s = HeldByReader ->
  forall fault, exists s', step_reader s fault = Some s' /\ mutex s' = Free /\
                           calls s' = calls s /\ close_collected s' = close_collected s.
Proof.
  intros R Mx fault.
  pose proof (reader_never_stuck s R) as [HS HB]. pose proof (mutex_only_in_handle_err s R) as HM.
  apply HM in Mx. unfold step_reader. rewrite HS, Mx.
  destruct (is_closing s); [eexists; repeat split|].
  assert (err_buf s = 0) as -> by (apply HB; rewrite Mx; reflexivity).
  cbn. eexists; repeat split.
Qed.

(* ================= (A) every API call returns ================= *)
Lemma calls_win_measure m : forall s,
  work s < m -> reachable s -> unsub_ok s -> wins (fun s' => all_done s' = true) s.
Proof.
  induction m as [|m IH]; intros s Hm R HU; [lia|].
  destruct (all_done s) eqn:AD; [apply W_done; exact AD|].
  destruct (not_all_done s AD) as (n & a & Hn & Da).
  pose proof (api_call_progress s n a R Hn) as Prog.
  pose proof (total_nth wt _ _ _ Hn) as HWn. pose proof (total_nth isU _ _ _ Hn) as HUn.
  (* the common part: call n steps (with choice c), and the work left decreases *)
  assert (forall c, (forall fault, step s (LStep (TCall n) c fault) <> None) ->
                    wins (fun s' => all_done s' = true) s) as Go.
  { intros c Hen. apply (W_step _ s (TCall n) c); [exact Hen|].
    intro fault. unfold step'. specialize (Hen fault).
    destruct (step s (LStep (TCall n) c fault)) as [s'|] eqn:E; [|exfalso; apply Hen; reflexivity].
    assert (reachable s') as R'.
    { replace s' with (step' s (LStep (TCall n) c fault)) by (unfold step'; rewrite E; reflexivity).
      apply reachable_step'. exact R. }
    cbn [step] in E. apply IH; [|exact R'|exact (step_call_unsub_ok _ _ _ _ _ E HU)].
    destruct (step_call_shape _ _ _ _ _ _ Hn E) as (b & Hc & Hmx & Hsh).
    pose proof (total_upd wt _ _ _ b Hn) as HT.
    unfold work in *. rewrite Hc, Hmx.
    destruct a as [i|i|err|err|err|ok]; cbn [wt] in *.
    - destruct Hsh as (Hcol & ok & ->). cbn [wt] in HT. rewrite Hcol. lia.
    - destruct Hsh as (Hcol & ok & ->). cbn [wt] in HT. rewrite Hcol. lia.
    - destruct Hsh as (Hlen & Hb). destruct b as [j|j|e|e|e|o]; try (exfalso; exact Hb); cbn [wt] in HT; lia.
    - destruct Hsh as (Hcol & e & ->). cbn [wt] in HT. rewrite Hcol. lia.
    - destruct Hsh as (Hcol & ok & ->). cbn [wt] in HT. rewrite Hcol. lia.
    - destruct Hsh. }
  destruct a as [i|i|err|err|err|ok]; try discriminate Da.
  - apply (Go 0). intro fault. apply Prog.
  - apply (Go 0). intro fault. apply Prog.
  - (* inside UnsubscribeAll: release the first collected id *)
    destruct HU as [HU1 HU2]. cbn [isU] in HUn.
    destruct (close_collected s) as [|c0 rest] eqn:Col; [exfalso; apply HU2; [lia | reflexivity]|].
    apply (Go c0). intro fault. apply Prog. rewrite ?Col. cbn. rewrite Nat.eqb_refl. reflexivity.
  - apply (Go 0). intro fault. apply Prog.
  - (* at the lock: either it is free, or the reader (in handleErr) frees it first *)
    assert (mutex s = Free \/ mutex s = HeldByReader) as [Mx|Mx] by (destruct (mutex s); auto).
    + destruct Prog as [Prog | [Prog _]]; [|rewrite Mx in Prog; discriminate].
      apply (Go 0). intro fault. apply Prog.
    + apply (W_step _ s TReader 0).
      * intro fault. cbn [step]. destruct (reader_frees s R Mx fault) as (s' & E & _). rewrite E. discriminate.
      * intro fault. unfold step'. cbn [step].
        destruct (reader_frees s R Mx fault) as (s' & E & Hfree & Hc & Hcol). rewrite E.
        assert (reachable s') as R'.
        { replace s' with (step' s (LStep TReader 0 fault)) by (unfold step'; cbn [step]; rewrite E; reflexivity).
          apply reachable_step'. exact R. }
        apply IH; [|exact R'|].
        -- unfold work in *. rewrite Hc, Hcol, Hfree, Mx in *. cbn [mbit] in *. lia.
        -- unfold unsub_ok in *. rewrite Hc, Hcol. exact HU.
Qed.

(* From every reachable state in which at most one Close is inside UnsubscribeAll (with ids left
   to release), thread steps alone make every API call return -- whatever faults the
   connection operations released on the way suffer. *)
Theorem calls_complete_whatever_the_faults s :
  reachable s -> unsub_ok s -> wins (fun s' => all_done s' = true) s.
Proof. intros R HU. exact (calls_win_measure (S (work s)) s (Nat.lt_succ_diag_r _) R HU). Qed.

(* ---------- schedules with at most one Close satisfy unsub_ok ---------- *)
Fixpoint nclose (ls : list label) : nat :=
  match ls with [] => 0 | LCallClose :: r => S (nclose r) | _ :: r => nclose r end.
Definition close_once (ls : list label) : Prop := nclose ls <= 1.

Lemma nclose_app a b : nclose (a ++ b) = nclose a + nclose b.
Proof. induction a as [|l r IH]; cbn; [reflexivity|]. destruct l; cbn; rewrite IH; reflexivity. Qed.

Lemma step_reader_calls s fault s' : step_reader s fault = Some s' ->
  calls s' = calls s /\ close_collected s' = close_collected s.
Proof.
  intro E. unfold step_reader in E. destruct (reader_stuck s); [discriminate|].
  destruct (reader s) as [| |f found fl|j p| | | |].
  - destruct (mutex s); [|discriminate]. injection E as <-. split; reflexivity.
  - destruct (read_enabled s); [|discriminate]. destruct (inbound s) as [|f r]; [injection E as <-; split; reflexivity|].
    destruct fault; [injection E as <-; split; reflexivity|].
    destruct f; try (destruct (lookup _ _)); injection E as <-; split; reflexivity.
  - destruct (negb found); [injection E as <-; split; reflexivity|].
    destruct fl; [injection E as <-; split; reflexivity|].
    destruct f as [[j|] p|[j|]|[j|]|]; try (injection E as <-; split; reflexivity).
    destruct (map_unsubscribe s j) as [s1 k] eqn:M. injection E as <-.
    pose proof (map_unsubscribe_frame _ _ _ _ M) as (_ & _ & _ & _ & _ & Hc & _).
    pose proof (map_unsubscribe_keep _ _ _ _ M) as (Hcol & _). split; assumption.
  - discriminate.
  - destruct (mutex s); [|discriminate]. injection E as <-. split; reflexivity.
  - destruct (is_closing s); [injection E as <-; split; reflexivity|].
    destruct (Nat.ltb (err_buf s) 1); injection E as <-; split; reflexivity.
  - injection E as <-. split; reflexivity.
  - discriminate.
Qed.

(* a label other than LCallClose: no new call enters UnsubscribeAll *)
Lemma step_other_unsub s l s' :
  step s l = Some s' -> l <> LCallClose ->
  (total isU (calls s) = 0 -> total isU (calls s') = 0) /\ (unsub_ok s -> unsub_ok s').
Proof.
  intros E Hl. destruct l as [| i | | t c fault | f | | i |]; cbn [step] in E.
  - injection E as <-. unfold unsub_ok. cbn [calls close_collected set_calls set_subs].
    rewrite total_app. cbn. rewrite !Nat.add_0_r. split; auto.
  - injection E as <-. unfold unsub_ok. cbn [calls close_collected set_calls].
    rewrite total_app. destruct (sub_ended s i); cbn; rewrite !Nat.add_0_r; split; auto.
  - exfalso. apply Hl. reflexivity.
  - destruct t as [|n].
    + destruct (step_reader_calls _ _ _ E) as [Hc Hcol]. unfold unsub_ok. rewrite Hc, Hcol. split; auto.
    + split; [|exact (step_call_unsub_ok _ _ _ _ _ E)].
      intro Z. destruct (nth_error (calls s) n) as [a|] eqn:Hn;
        [|unfold step_call in E; rewrite Hn in E; discriminate].
      destruct (step_call_shape _ _ _ _ _ _ Hn E) as (b & Hc & _ & Hsh).
      pose proof (total_upd isU _ _ _ b Hn) as HT. pose proof (total_nth isU _ _ _ Hn) as HN.
      rewrite Hc.
      destruct a as [j|j|err|err|err|ok]; cbn [isU] in *; try lia.
      * destruct Hsh as (_ & ok & ->). cbn [isU] in HT. lia.
      * destruct Hsh as (_ & ok & ->). cbn [isU] in HT. lia.
      * destruct Hsh as (_ & e & ->). cbn [isU] in HT. lia.
      * destruct Hsh as (_ & ok & ->). cbn [isU] in HT. lia.
  - assert (calls s' = calls s /\ close_collected s' = close_collected s) as [Hc Hcol].
    { destruct (norm_frame s f) as [[j|] p|[j|]|[j|]|]; injection E as <-; split; reflexivity. }
    unfold unsub_ok. rewrite Hc, Hcol. split; auto.
  - injection E as <-. split; auto.
  - assert (calls s' = calls s /\ close_collected s' = close_collected s) as [Hc Hcol].
    { destruct (reader s) as [| |f found fl|j p| | | |]; try (injection E as <-; split; reflexivity).
      destruct (get_sub s i) as [e|]; [|injection E as <-; split; reflexivity].
      destruct (Nat.eqb i j); [|injection E as <-; split; reflexivity].
      destruct (Nat.ltb 0 (s_closes e)); injection E as <-; split; reflexivity. }
    unfold unsub_ok. rewrite Hc, Hcol. split; auto.
  - assert (calls s' = calls s /\ close_collected s' = close_collected s) as [Hc Hcol].
    { destruct (Nat.ltb 0 (err_buf s)); injection E as <-; split; reflexivity. }
    unfold unsub_ok. rewrite Hc, Hcol. split; auto.
Qed.

Lemma step_close_unsub s : total isU (calls s) = 0 -> unsub_ok (step' s LCallClose).
Proof.
  intro Z. unfold step'. cbn [step]. unfold unsub_ok. cbn [calls close_collected set_calls set_collected].
  rewrite total_app, Z. destruct (active_ids s) as [|i r]; cbn; split; try lia.
  intros _. discriminate.
Qed.

Lemma close_once_unsub_ok ls :
  (nclose ls = 0 -> total isU (calls (run ls)) = 0) /\ (nclose ls <= 1 -> unsub_ok (run ls)).
Proof.
  induction ls as [|l ls [IH0 IH1]] using rev_ind.
  - split; intros _; [reflexivity|]. split; cbn; [lia | intro X; discriminate X].
  - rewrite run_app, nclose_app.
    destruct (step (run ls) l) as [s'|] eqn:E.
    + assert (step' (run ls) l = s') as Hs by (unfold step'; rewrite E; reflexivity).
      destruct l as [| i | | t c fault | f | | i |];
        try (cbn [nclose]; rewrite Nat.add_0_r; rewrite Hs;
             assert (Hd : forall x y : label, x = y -> x = y) by auto;
             match type of E with step _ ?l = _ =>
               assert (l <> LCallClose) as Hne by discriminate;
               destruct (step_other_unsub _ _ _ E Hne) as [A B] end;
             split; [intro Z; apply A; apply IH0; exact Z | intro Z; apply B; apply IH1; exact Z]).
      cbn [nclose]. split; [lia|]. intro Z. apply step_close_unsub. apply IH0. lia.
    + assert (step' (run ls) l = run ls) as Hs by (unfold step'; rewrite E; reflexivity).
      rewrite Hs. split; intro Z; [apply IH0 | apply IH1]; lia.
Qed.

(* (A), schedule form: from every state reached by a schedule with at most one Close, a
   continuation of thread steps only makes every API call return *)
Theorem calls_can_always_complete ls :
  close_once ls -> exists ls', Forall internal ls' /\ all_done (run_from (run ls) ls') = true.
Proof.
  intro H1. assert (reachable (run ls)) as R by (exists ls; reflexivity).
  pose proof (calls_complete_whatever_the_faults _ R (proj2 (close_once_unsub_ok ls) H1)) as W.
  destruct (wins_schedule _ _ W (fun _ => false)) as (ls' & Hi & _ & HP). exists ls'. split; assumption.
Qed.

(* ... and such a continuation exists for EVERY assignment of faults to its connection
   operations (the k-th thread step fails iff fa k), in particular without any fault *)
Theorem calls_can_always_complete_any_faults ls :
  close_once ls -> forall fa : nat -> bool,
  exists ls', Forall internal ls' /\ follows fa ls' /\ all_done (run_from (run ls) ls') = true.
Proof.
  intros H1 fa. assert (reachable (run ls)) as R by (exists ls; reflexivity).
  exact (wins_schedule _ _ (calls_complete_whatever_the_faults _ R (proj2 (close_once_unsub_ok ls) H1)) fa).
Qed.

Corollary calls_can_always_complete_fault_free ls :
  close_once ls ->
  exists ls', Forall internal ls' /\ fault_free ls' /\ all_done (run_from (run ls) ls') = true.
Proof.
  intro H1. destruct (calls_can_always_complete_any_faults ls H1 (fun _ => false)) as (ls' & Hi & Hf & HP).
  exists ls'. split; [exact Hi|]. split; [apply follows_false; exact Hf | exact HP].
Qed.

(* state form (the side condition is on the state, not on its history) *)
Theorem calls_can_always_complete_state s :
  reachable s -> unsub_ok s -> forall fa : nat -> bool,
  exists ls, Forall internal ls /\ follows fa ls /\ all_done (run_from s ls) = true.
Proof. intros R HU fa. exact (wins_schedule _ _ (calls_complete_whatever_the_faults _ R HU) fa). Qed.

(* ================= (A) is false for two overlapping Close calls (in the model) ================= *)
(* a Close inside UnsubscribeAll whose collected ids another Close has used up never moves again *)
Lemma unsub_starved_step s l n e :
  nth_error (calls s) n = Some (ACloseUnsub e) -> close_collected s = [] -> l <> LCallClose ->
  nth_error (calls (step' s l)) n = Some (ACloseUnsub e) /\ close_collected (step' s l) = [].
Proof.
  intros Hn Hcol Hl. unfold step'. destruct (step s l) as [s'|] eqn:E; [|split; assumption].
  destruct l as [| i | | t c fault | f | | i |]; cbn [step] in E.
  - injection E as <-. cbn [calls close_collected set_calls set_subs]. split; [|exact Hcol].
    rewrite nth_error_app1; [exact Hn | apply nth_error_Some; congruence].
  - injection E as <-. cbn [calls close_collected set_calls]. split; [|exact Hcol].
    rewrite nth_error_app1; [exact Hn | apply nth_error_Some; congruence].
  - exfalso. apply Hl. reflexivity.
  - destruct t as [|m].
    + destruct (step_reader_calls _ _ _ E) as [Hc Hc2]. rewrite Hc, Hc2. split; assumption.
    + destruct (nth_error (calls s) m) as [a|] eqn:Hm;
        [|unfold step_call in E; rewrite Hm in E; discriminate].
      destruct (step_call_shape _ _ _ _ _ _ Hm E) as (b & Hc & _ & Hsh).
      assert (m <> n) as Hne.
      { intros ->. rewrite Hn in Hm. injection Hm as <-. destruct Hsh as [Hlt _]. rewrite Hcol in Hlt. cbn in Hlt. lia. }
      rewrite Hc, (nth_error_upd_other _ _ _ _ Hne). split; [exact Hn|].
      destruct a as [j|j|err|err|err|ok].
      * destruct Hsh as (-> & _). exact Hcol.
      * destruct Hsh as (-> & _). exact Hcol.
      * destruct Hsh as [Hlt _]. rewrite Hcol in Hlt. cbn in Hlt. lia.
      * destruct Hsh as (-> & _). exact Hcol.
      * destruct Hsh as (-> & _). exact Hcol.
      * destruct Hsh.
  - assert (calls s' = calls s /\ close_collected s' = close_collected s) as [Hc Hc2].
    { destruct (norm_frame s f) as [[j|] p|[j|]|[j|]|]; injection E as <-; split; reflexivity. }
    rewrite Hc, Hc2. split; assumption.
  - injection E as <-. split; assumption.
  - assert (calls s' = calls s /\ close_collected s' = close_collected s) as [Hc Hc2].
    { destruct (reader s) as [| |f found fl|j p| | | |]; try (injection E as <-; split; reflexivity).
      destruct (get_sub s i) as [e0|]; [|injection E as <-; split; reflexivity].
      destruct (Nat.eqb i j); [|injection E as <-; split; reflexivity].
      destruct (Nat.ltb 0 (s_closes e0)); injection E as <-; split; reflexivity. }
    rewrite Hc, Hc2. split; assumption.
  - assert (calls s' = calls s /\ close_collected s' = close_collected s) as [Hc Hc2].
    { destruct (Nat.ltb 0 (err_buf s)); injection E as <-; split; reflexivity. }
    rewrite Hc, Hc2. split; assumption.
Qed.

Lemma unsub_starved_forever ls : forall s n e,
  nth_error (calls s) n = Some (ACloseUnsub e) -> close_collected s = [] -> Forall internal ls ->
  all_done (run_from s ls) = false.
Proof.
  induction ls as [|l r IH]; intros s n e Hn Hcol Hi.
  - cbn. unfold all_done. destruct (forallb is_done (calls s)) eqn:F; [|reflexivity].
    rewrite forallb_forall in F. specialize (F _ (nth_error_In _ _ Hn)). discriminate F.
  - inversion Hi as [|x y Hl Hr]; subst. cbn [run_from fold_left].
    assert (l <> LCallClose) as Hne by (intros ->; exact Hl).
    destruct (unsub_starved_step s l n e Hn Hcol Hne) as [Hn' Hcol'].
    exact (IH _ _ _ Hn' Hcol' Hr).
Qed.

Definition two_closes : list label :=
  [LCallSub; LStep (TCall 0) 0 false; LCallClose; LCallClose; LStep (TCall 1) 0 false].

(* two overlapping Close calls (calls 1 and 2, one active subscription): the first one uses
   up the shared collected ids, the second stays inside UnsubscribeAll for ever *)
Theorem two_closes_deadlock :
  nclose two_closes = 2 /\
  calls (run two_closes) = [ADone true; ACloseWrite false; ACloseUnsub false] /\
  close_collected (run two_closes) = [] /\
  (forall c fault, step (run two_closes) (LStep (TCall 2) c fault) = None) /\
  forall ls', Forall internal ls' -> all_done (run_from (run two_closes) ls') = false.
Proof.
  split; [reflexivity|]. split; [vm_compute; reflexivity|]. split; [vm_compute; reflexivity|].
  split; [intros c fault; vm_compute; reflexivity|].
  intros ls' Hi. apply (unsub_starved_forever ls' (run two_closes) 2 false); [vm_compute; reflexivity | vm_compute; reflexivity | exact Hi].
Qed.

Corollary calls_can_always_complete_needs_close_once :
  ~ (forall s, reachable s -> exists ls, Forall internal ls /\ all_done (run_from s ls) = true).
Proof.
  intro H. destruct (H (run two_closes)) as (ls & Hi & Hd); [exists two_closes; reflexivity|].
  destruct two_closes_deadlock as (_ & _ & _ & _ & Hno). rewrite (Hno ls Hi) in Hd. discriminate Hd.
Qed.

(* ================= (B) the reader terminates once closed or lost ================= *)
(* Close has released the connection exactly when the client is marked closing *)
Definition InvC (s : st) : Prop := is_closing s = true -> 0 < conn_closes s.

Lemma step_closing_mono s l s' : step s l = Some s' ->
  ((is_closing s' = is_closing s /\ conn_closes s' = conn_closes s) \/
   (is_closing s' = true /\ conn_closes s' = S (conn_closes s))) /\
  (lost s = true -> lost s' = true).
Proof.
  intro E.
  step_cases E; cbn [is_closing conn_closes lost set_reader set_mutex set_err set_calls set_subs set_inbound set_frames set_panicked set_collected set_closing set_lost set_call push_frame].
  all: repeat match goal with
           | M : map_unsubscribe _ _ = (_, _) |- _ =>
               apply map_unsubscribe_keep in M; destruct M as (? & ? & ? & ?)
           end.
  all: try (destruct fault); cbn [is_closing conn_closes lost set_reader set_mutex set_err set_calls set_subs set_inbound set_frames set_panicked set_collected set_closing set_lost set_call push_frame] in *.
  all: try (split; [left; split; congruence | congruence]).
  all: try (split; [right; split; congruence | congruence]).
  all: try (split; [left; split; reflexivity | intros _; reflexivity]).
Qed.

Lemma step'_InvC s l : InvC s -> InvC (step' s l).
Proof.
  intro H. unfold step'. destruct (step s l) as [s'|] eqn:E; [|exact H].
  destruct (step_closing_mono _ _ _ E) as [[[A B]|[A B]] _]; unfold InvC in *; rewrite ?A, B; [exact H | lia].
Qed.

Theorem closing_iff_released s : reachable s -> InvC s.
Proof. apply reachable_ind; [intro H; discriminate H | intros; apply step'_InvC; assumption]. Qed.

Definition closed_or_lost (s : st) : Prop := is_closing s = true \/ lost s = true.

Lemma step'_closed_or_lost s l : closed_or_lost s -> closed_or_lost (step' s l).
Proof.
  intro H. unfold step'. destruct (step s l) as [s'|] eqn:E; [|exact H].
  destruct (step_closing_mono _ _ _ E) as [HC HL]. unfold closed_or_lost in *.
  destruct H as [H|H]; [left | right; apply HL; exact H].
  destruct HC as [[A _]|[A _]]; congruence.
Qed.

Definition rank (r : rpc) : nat :=
  match r with
  | RDone => 0 | RExit => 1 | RErrLocked => 2 | RErrLock => 3 | RRead => 4 | RLoop => 5
  | RSend _ _ => 6 | RLooked _ _ _ => 7
  end.
Definition rwork (s : st) : nat := 8 * List.length (inbound s) + rank (reader s).

Lemma rwork_set_reader s r : rwork (set_reader s r) = 8 * List.length (inbound s) + rank r.
Proof. reflexivity. Qed.

(* one reader step, from any pause point but the channel send: enabled under any fault, and
   it gets closer to RDone *)
Lemma reader_step_down s :
  reachable s -> closed_or_lost s ->
  (forall i p, reader s <> RSend i p) -> reader s <> RDone ->
  forall fault, exists s', step_reader s fault = Some s' /\ rwork s' < rwork s /\
                           calls s' = calls s /\ is_closing s' = is_closing s /\ lost s' = lost s.
Proof.
  intros R HCL HnS HnD fault.
  pose proof (reader_never_stuck s R) as [HS HB]. pose proof (mutex_only_in_handle_err s R) as HM.
  pose proof (closing_iff_released s R) as HC.
  unfold step_reader. rewrite HS. unfold rwork at 2.
  destruct (reader s) as [| |f found fl|i p| | | |] eqn:Rd.
  - (* RLoop *)
    destruct (mutex s) eqn:Mx; [|exfalso; destruct HM as [A _]; specialize (A Mx); rewrite Rd in A; discriminate A].
    eexists. split; [reflexivity|]. rewrite rwork_set_reader. cbn [calls is_closing lost set_reader].
    split; [|repeat split]. destruct (is_closing s); cbn [rank]; lia.
  - (* RRead *)
    assert (read_enabled s = true) as ->.
    { unfold read_enabled. destruct (inbound s); [|reflexivity].
      destruct HCL as [H|H]; [|rewrite H; reflexivity].
      specialize (HC H). apply Bool.orb_true_iff. right. apply Nat.ltb_lt. exact HC. }
    destruct (inbound s) as [|f r] eqn:Inb.
    + eexists. split; [reflexivity|]. rewrite rwork_set_reader, Inb. cbn [calls is_closing lost set_reader rank List.length].
      split; [lia | repeat split].
    + destruct fault.
      * eexists. split; [reflexivity|]. rewrite rwork_set_reader, Inb. cbn [calls is_closing lost set_reader rank List.length].
        split; [lia | repeat split].
      * destruct f as [j p|j|j|]; try (destruct (lookup _ _) as [fd fl']);
          (eexists; split; [reflexivity|]; rewrite rwork_set_reader;
           cbn [calls is_closing lost inbound set_reader set_inbound rank List.length];
           split; [lia | repeat split]).
  - (* RLooked *)
    destruct found; cbn [negb].
    2:{ eexists. split; [reflexivity|]. rewrite rwork_set_reader. cbn [calls is_closing lost set_reader rank].
        split; [lia | repeat split]. }
    destruct fl.
    { eexists. split; [reflexivity|]. rewrite rwork_set_reader. cbn [calls is_closing lost set_reader rank].
      split; [lia | repeat split]. }
    destruct f as [[j|] p|[j|]|[j|]|];
      try (eexists; split; [reflexivity|]; rewrite rwork_set_reader; cbn [calls is_closing lost set_reader rank];
           split; [lia | repeat split]; fail).
    destruct (map_unsubscribe s j) as [s1 k] eqn:M.
    pose proof (map_unsubscribe_frame _ _ _ _ M) as (_ & _ & _ & _ & Hin & Hc & _).
    pose proof (map_unsubscribe_keep _ _ _ _ M) as (_ & Hcl & Hl & _).
    eexists. split; [reflexivity|]. rewrite rwork_set_reader, Hin. cbn [calls is_closing lost set_reader].
    split; [destruct k; cbn [rank]; lia | repeat split; assumption].
  - exfalso. exact (HnS i p eq_refl).
  - (* RErrLock *)
    destruct (mutex s) eqn:Mx; [|exfalso; destruct HM as [A _]; specialize (A Mx); rewrite Rd in A; discriminate A].
    eexists. split; [reflexivity|]. rewrite rwork_set_reader. cbn [calls is_closing lost inbound set_reader set_mutex rank].
    split; [lia | repeat split].
  - (* RErrLocked *)
    destruct (is_closing s) eqn:Cl.
    + eexists. split; [reflexivity|]. rewrite rwork_set_reader. cbn [calls is_closing lost inbound set_reader set_mutex rank].
      split; [lia | repeat split; congruence].
    + assert (err_buf s = 0) as -> by (apply HB; reflexivity). cbn [Nat.ltb Nat.leb].
      eexists. split; [reflexivity|]. rewrite rwork_set_reader.
      cbn [calls is_closing lost inbound set_reader set_mutex set_err rank].
      split; [lia | repeat split; congruence].
  - (* RExit *)
    eexists. split; [reflexivity|]. rewrite rwork_set_reader. cbn [calls is_closing lost set_reader rank].
    split; [lia | repeat split].
  - exfalso. apply HnD. reflexivity.
Qed.

Lemma reader_win_measure m : forall s,
  rwork s < m -> reachable s -> closed_or_lost s ->
  wins (fun s' => reader s' = RDone /\ calls s' = calls s) s.
Proof.
  induction m as [|m IH]; intros s Hm R HCL; [lia|].
  destruct (reader s) as [| |f found fl|i p| | | |] eqn:Rd.
  5,6,7,1,2,3:
    (apply (W_step _ s TReader 0);
     [ intro fault; cbn [step];
       destruct (reader_step_down s R HCL) with (fault := fault) as (s' & E & _);
       [ intros; rewrite Rd; discriminate | rewrite Rd; discriminate | rewrite E; discriminate ]
     | intro fault; unfold step'; cbn [step];
       destruct (reader_step_down s R HCL) with (fault := fault) as (s' & E & Hlt & Hc & Hcl & Hl);
       [ intros; rewrite Rd; discriminate | rewrite Rd; discriminate | ];
       rewrite E;
       assert (reachable s') as R'
         by (replace s' with (step' s (LStep TReader 0 fault)) by (unfold step'; cbn [step]; rewrite E; reflexivity);
             apply reachable_step'; exact R);
       assert (closed_or_lost s') as HCL' by (unfold closed_or_lost; rewrite Hcl, Hl; exact HCL);
       rewrite <- Hc; apply IH; [lia | exact R' | exact HCL'] ]).
  - (* blocked in the channel send: the application receives *)
    apply (W_recv _ s i).
    pose proof (reachable_step' s (LRecv i) R) as R'. pose proof (step'_closed_or_lost s (LRecv i) HCL) as HCL'.
    destruct (reachable_InvD s R) as [_ ((_ & Hid) & _)]. rewrite Rd in Hid.
    destruct (get_sub s i) as [e|] eqn:G; [|exfalso; unfold get_sub in G; apply nth_error_None in G; lia].
    assert (calls (step' s (LRecv i)) = calls s /\ rwork (step' s (LRecv i)) < rwork s) as [Hc Hlt].
    { unfold step'. cbn [step]. rewrite Rd, G, Nat.eqb_refl.
      destruct (Nat.ltb 0 (s_closes e)); (split; [reflexivity|]); rewrite rwork_set_reader;
        unfold rwork; rewrite Rd; cbn [inbound set_panicked set_subs rank]; lia. }
    rewrite <- Hc. apply IH; [lia | exact R' | exact HCL'].
  - apply W_done. split; [exact Rd | reflexivity].
Qed.

(* Once the client is closed (Close has released the connection) or the connection is lost,
   the reader's own steps and the application's receives bring the reader to its end (it
   first drains the frames already received), whatever faults its reads suffer; no API call
   is touched on the way. *)
Theorem reader_terminates_whatever_the_faults s :
  reachable s -> (is_closing s = true \/ lost s = true) ->
  wins (fun s' => reader s' = RDone /\ calls s' = calls s) s.
Proof. intros R H. exact (reader_win_measure (S (rwork s)) s (Nat.lt_succ_diag_r _) R H). Qed.

(* (B) *)
Theorem reader_terminates_after_close_or_loss s :
  reachable s -> (is_closing s = true \/ lost s = true) ->
  exists ls, Forall internal ls /\ reader (run_from s ls) = RDone.
Proof.
  intros R H. destruct (wins_schedule _ _ (reader_terminates_whatever_the_faults s R H) (fun _ => false)) as (ls & Hi & _ & HP & _).
  exists ls. split; assumption.
Qed.

Theorem reader_terminates_after_close_or_loss_any_faults s :
  reachable s -> (is_closing s = true \/ lost s = true) -> forall fa : nat -> bool,
  exists ls, Forall internal ls /\ follows fa ls /\ reader (run_from s ls) = RDone.
Proof.
  intros R H fa. destruct (wins_schedule _ _ (reader_terminates_whatever_the_faults s R H) fa) as (ls & Hi & Hf & HP & _).
  exists ls. repeat split; assumption.
Qed.

(* ================= (A) and (B) together ================= *)
Theorem client_winds_down_whatever_the_faults s :
  reachable s -> unsub_ok s -> (is_closing s = true \/ lost s = true) ->
  wins (fun s' => all_done s' = true /\ reader s' = RDone) s.
Proof.
  intros R HU HCL.
  pose proof (calls_complete_whatever_the_faults s R HU) as W.
  apply (wins_inv (fun x => reachable x /\ closed_or_lost x)) in W.
  - apply (wins_bind _ _ _ W). intros s1 (Hd & R1 & HCL1).
    apply (wins_weaken _ _ _ (fun s2 (H : reader s2 = RDone /\ calls s2 = calls s1) =>
             conj (eq_trans (f_equal (forallb is_done) (proj2 H)) Hd) (proj1 H))).
    exact (reader_terminates_whatever_the_faults s1 R1 HCL1).
  - intros s0 l [A B]. split; [apply reachable_step'; exact A | apply step'_closed_or_lost; exact B].
  - split; assumption.
Qed.

Corollary client_winds_down ls :
  close_once ls -> (is_closing (run ls) = true \/ lost (run ls) = true) -> forall fa : nat -> bool,
  exists ls', Forall internal ls' /\ follows fa ls' /\
              all_done (run_from (run ls) ls') = true /\ reader (run_from (run ls) ls') = RDone.
Proof.
  intros H1 HCL fa. assert (reachable (run ls)) as R by (exists ls; reflexivity).
  exact (wins_schedule _ _ (client_winds_down_whatever_the_faults _ R (proj2 (close_once_unsub_ok ls) H1) HCL) fa).
Qed.

(* ================= (C) non-vacuity ================= *)
(* two subscriptions established, a data frame for the first one read and looked up by the
   reader, which is now blocked in the channel send; then a Subscribe, an Unsubscribe and a
   Close are started and none of them has taken a step *)
Definition busy : list label :=
  [LCallSub; LStep (TCall 0) 0 false; LCallSub; LStep (TCall 1) 0 false;
   LServer (FData (Some 0) 7%N);
   LStep TReader 0 false; LStep TReader 0 false; LStep TReader 0 false;
   LCallSub; LCallUnsub 1; LCallClose].

Definition busy_finish : list label :=
  [LRecv 0;
   LStep (TCall 2) 0 false; LStep (TCall 3) 0 false;
   LStep (TCall 4) 0 false; LStep (TCall 4) 2 false; LStep (TCall 4) 0 false; LStep (TCall 4) 0 false;
   LStep TReader 0 false; LStep TReader 0 false].

Example busy_state :
  calls (run busy) = [ADone true; ADone true; ASubWrite 2; AUnsubWrite 1; ACloseUnsub false]
  /\ reader (run busy) = RSend 0 7%N /\ close_collected (run busy) = [0; 1; 2]
  /\ all_done (run busy) = false /\ nclose busy = 1.
Proof. vm_compute. repeat split. Qed.

Example busy_finishes :
  Forall internal busy_finish /\ fault_free busy_finish
  /\ all_done (run_from (run busy) busy_finish) = true
  /\ calls (run_from (run busy) busy_finish) = [ADone true; ADone true; ADone true; ADone true; ADone true]
  /\ reader (run_from (run busy) busy_finish) = RDone
  /\ panicked (run_from (run busy) busy_finish) = false
  /\ mutex (run_from (run busy) busy_finish) = Free.
Proof.
  split; [repeat constructor|]. split; [cbn; repeat split|]. vm_compute. repeat split.
Qed.

(* the same under faults: every write of the three calls fails, they still all return and the reader ends *)
Definition busy_finish_faulty : list label :=
  [LRecv 0;
   LStep (TCall 2) 0 true; LStep (TCall 3) 0 true;
   LStep (TCall 4) 0 true; LStep (TCall 4) 1 true; LStep (TCall 4) 2 true;
   LStep (TCall 4) 0 true; LStep (TCall 4) 0 true;
   LStep TReader 0 true; LStep TReader 0 true].

Example busy_finishes_under_faults :
  Forall internal busy_finish_faulty
  /\ all_done (run_from (run busy) busy_finish_faulty) = true
  /\ reader (run_from (run busy) busy_finish_faulty) = RDone.
Proof. split; [repeat constructor|]. vm_compute. repeat split. Qed.

(* the theorems apply to that state *)
Example busy_covered :
  exists ls', Forall internal ls' /\ all_done (run_from (run busy) ls') = true.
Proof. apply calls_can_always_complete. unfold close_once. cbn. lia. Qed.

Print Assumptions calls_can_always_complete.
Print Assumptions calls_can_always_complete_any_faults.
Print Assumptions two_closes_deadlock.
Print Assumptions reader_terminates_after_close_or_loss.
Print Assumptions reader_terminates_after_close_or_loss_any_faults.
Print Assumptions client_winds_down.
