(* C14, isolation and order: at every reachable state of every schedule, what the application has
   received on a subscription's channel is a PREFIX of the payloads the server sent for that
   subscription's id (in the order sent, each at most once, never another subscription's). *)
From Verif Require Import Base.Str Rt.Ws Proofs.WsProofs.
From Coq Require Import Arith Lia.

Definition data_for (i : nat) (f : sframe) : list N :=
  match f with FData (Some j) p => if Nat.eqb j i then [p] else [] | _ => [] end.
Definition queued (i : nat) (l : list sframe) : list N := flat_map (data_for i) l.
Definition inflight (i : nat) (r : rpc) : list N :=
  match r with
  | RLooked f _ _ => data_for i f
  | RSend j p => if Nat.eqb j i then [p] else []
  | _ => []
  end.
Definition ended (e : sub) : Prop := s_flag e = true \/ s_present e = false.
(* the reader has looked the subscription up alive and is about to hand the payload over *)
Definition committed (i : nat) (r : rpc) : Prop :=
  match r with
  | RLooked (FData (Some j) _) true false => j = i
  | RSend j _ => j = i
  | _ => False
  end.

Definition order_ok (r : rpc) (inb : list sframe) (i : nat) (e : sub) : Prop :=
  exists dropped,
    s_sent e = s_delivered e ++ dropped ++ inflight i r ++ queued i inb
    /\ (dropped <> [] -> ended e)
    /\ (committed i r -> dropped = []).

Definition id_lt (n : nat) (o : option nat) : Prop := match o with Some k => (k < n)%nat | None => True end.
Definition ids_ok (s : st) : Prop :=
  Forall (fun f => id_lt (List.length (subs s)) (frame_id f)) (inbound s)
  /\ match reader s with
     | RLooked f _ _ => id_lt (List.length (subs s)) (frame_id f)
     | RSend j _ => (j < List.length (subs s))%nat
     | _ => True
     end.
(* the copies the reader took at lookup time stay meaningful: presence only goes away, the
   ended flag only comes *)
Definition looked_ok (s : st) : Prop :=
  match reader s with
  | RLooked f found fl =>
      match frame_id f with
      | Some i => match get_sub s i with
                  | Some e => (found = false -> s_present e = false) /\ (fl = true -> s_flag e = true)
                  | None => True
                  end
      | None => True
      end
  | _ => True
  end.

Definition InvD (s : st) : Prop :=
  ids_ok s /\ looked_ok s /\ forall i e, get_sub s i = Some e -> order_ok (reader s) (inbound s) i e.

Lemma queued_app i a c : queued i (a ++ c) = queued i a ++ queued i c.
Proof. unfold queued. apply flat_map_app. Qed.

Lemma upd_length {A} (l : list A) n f : List.length (upd l n f) = List.length l.
Proof. revert n. induction l as [|x r IH]; intros [|n]; cbn; auto. Qed.

Lemma nth_upd_same {A} (l : list A) n f x : nth_error l n = Some x -> nth_error (upd l n f) n = Some (f x).
Proof. revert n. induction l as [|y r IH]; intros [|n] H; cbn in *; try discriminate; [injection H as ->; reflexivity | exact (IH _ H)]. Qed.

Lemma nth_upd_other {A} (l : list A) n m f : n <> m -> nth_error (upd l n f) m = nth_error l m.
Proof. revert n m. induction l as [|y r IH]; intros [|n] [|m] H; cbn; auto; try (exfalso; apply H; reflexivity). Qed.

Lemma nth_upd_inv {A} (l : list A) n m f y : nth_error (upd l n f) m = Some y ->
  (n = m /\ exists x, nth_error l m = Some x /\ y = f x) \/ (n <> m /\ nth_error l m = Some y).
Proof.
  intro H. destruct (Nat.eq_dec n m) as [->|Hne].
  - left. split; [reflexivity|]. destruct (nth_error l m) as [x|] eqn:E.
    + rewrite (nth_upd_same _ _ _ _ E) in H. injection H as <-. eexists; split; reflexivity.
    + exfalso. assert (nth_error (upd l m f) m = None) by (apply nth_error_None; rewrite upd_length; apply nth_error_None; exact E). congruence.
  - right. split; [exact Hne|]. rewrite (nth_upd_other _ _ _ _ Hne) in H. exact H.
Qed.

(* ---- frame lemmas: what a step may change ---- *)
Lemma invd_same s s' :
  subs s' = subs s -> reader s' = reader s -> inbound s' = inbound s -> InvD s -> InvD s'.
Proof.
  intros Hs Hr Hi (Hids & Hl & Ho). unfold InvD, ids_ok, looked_ok, get_sub in *. rewrite Hs, Hr, Hi. auto.
Qed.

(* a subscription entry changes monotonically (ends), its histories are kept *)
Definition mono (s : st) (k : nat) (f : sub -> sub) : Prop :=
  forall e, get_sub s k = Some e ->
            s_delivered (f e) = s_delivered e /\ s_sent (f e) = s_sent e
            /\ (s_flag e = true -> s_flag (f e) = true) /\ (s_present e = false -> s_present (f e) = false).

Lemma invd_mono s s' k f :
  mono s k f -> subs s' = upd (subs s) k f -> reader s' = reader s -> inbound s' = inbound s -> InvD s -> InvD s'.
Proof.
  intros Hm Hs Hr Hi (Hids & Hl & Ho). unfold InvD, ids_ok, looked_ok, get_sub in *. rewrite Hs, Hr, Hi, upd_length.
  split; [exact Hids|]. split.
  - destruct (reader s) as [| |fr found fl| | | | |]; try exact I.
    destruct (frame_id fr) as [i|]; [|exact I].
    destruct (nth_error (upd (subs s) k f) i) as [e'|] eqn:E; [|exact I].
    apply nth_upd_inv in E. destruct E as [[-> [e [Ee ->]]] | [Hne Ee]].
    + rewrite Ee in Hl. destruct (Hm e Ee) as (_ & _ & Hf & Hp). destruct Hl as [H1 H2]. split; auto.
    + rewrite Ee in Hl. exact Hl.
  - intros i e' E. apply nth_upd_inv in E. destruct E as [[-> [e [Ee ->]]] | [Hne Ee]].
    + destruct (Ho _ _ Ee) as (dropped & Hsent & Hd & Hc). destruct (Hm e Ee) as (Hdel & Hsn & Hf & Hp).
      exists dropped. rewrite Hdel, Hsn. split; [exact Hsent|]. split; [|exact Hc].
      intro Hne. destruct (Hd Hne) as [H|H]; [left; auto | right; auto].
    + exact (Ho _ _ Ee).
Qed.

Lemma map_unsubscribe_shape s i s' k :
  map_unsubscribe s i = (s', k) ->
  reader s' = reader s /\ inbound s' = inbound s /\
  (subs s' = subs s \/ (exists e, get_sub s i = Some e /\ s_present e = true /\
     subs s' = upd (subs s) i (fun e => {| s_present := true; s_flag := true; s_closes := S (s_closes e);
                                           s_delivered := s_delivered e; s_sent := s_sent e |}))).
Proof.
  unfold map_unsubscribe. intro E.
  destruct (get_sub s i) as [e|] eqn:G; [|injection E as <- _; auto].
  destruct (s_present e) eqn:P; [|injection E as <- _; auto].
  destruct (s_flag e); injection E as <- _; cbn; [auto|].
  repeat split. right. exists e. auto.
Qed.

Lemma map_unsubscribe_InvD s i s' k : InvD s -> map_unsubscribe s i = (s', k) -> InvD s'.
Proof.
  intros H E. destruct (map_unsubscribe_shape _ _ _ _ E) as (Hr & Hi & [Hs | (e & Ge & Pe & Hs)]).
  - exact (invd_same _ _ Hs Hr Hi H).
  - refine (invd_mono s s' i _ _ Hs Hr Hi H).
    intros x Hx. cbn. repeat split; auto. intro Hp. rewrite Ge in Hx. injection Hx as <-. congruence.
Qed.

Lemma data_for_out n f i : id_lt n (frame_id f) -> (n <= i)%nat -> data_for i f = [].
Proof.
  destruct f as [[j|] p|o|o|]; cbn; intros H Hle; try reflexivity.
  destruct (Nat.eqb j i) eqn:E; [|reflexivity]. apply Nat.eqb_eq in E. lia.
Qed.

Lemma queued_out n l i : Forall (fun f => id_lt n (frame_id f)) l -> (n <= i)%nat -> queued i l = [].
Proof.
  induction 1 as [|f r Hf _ IH]; intro Hle; [reflexivity|]. unfold queued in *. cbn [flat_map].
  rewrite (data_for_out _ _ _ Hf Hle), (IH Hle). reflexivity.
Qed.

Lemma id_lt_mono n m o : id_lt n o -> (n <= m)%nat -> id_lt m o.
Proof. destruct o; cbn; intros; [lia | exact I]. Qed.

(* Subscribe: a new entry, nothing sent or queued for it yet *)
Lemma invd_callsub s s' :
  subs s' = subs s ++ [sub0] -> reader s' = reader s -> inbound s' = inbound s -> InvD s -> InvD s'.
Proof.
  intros Hs Hr Hi (Hids & Hl & Ho). unfold InvD, ids_ok, looked_ok, get_sub in *. rewrite Hs, Hr, Hi, app_length. cbn [length].
  destruct Hids as [Hin Hrd]. split; [|split].
  - split.
    + eapply Forall_impl; [|exact Hin]. intros f Hf. eapply id_lt_mono; [exact Hf | lia].
    + destruct (reader s); try exact I; [eapply id_lt_mono; [exact Hrd | lia] | lia].
  - destruct (reader s) as [| |fr found fl| | | | |]; try exact I.
    cbv beta iota in Hrd. destruct (frame_id fr) as [i|] eqn:Ef; [|exact I]. cbn [id_lt] in Hrd.
    rewrite nth_error_app1 by exact Hrd. exact Hl.
  - intros i e E. destruct (Nat.lt_ge_cases i (List.length (subs s))) as [Hlt|Hge].
    + rewrite nth_error_app1 in E by exact Hlt. exact (Ho _ _ E).
    + rewrite nth_error_app2 in E by exact Hge.
      destruct (i - List.length (subs s))%nat as [|k] eqn:Ek; cbn in E; [injection E as <-|destruct k; discriminate].
      exists []. cbn [sub0 s_sent s_delivered app].
      assert (Hq : queued i (inbound s) = []) by (eapply queued_out; [exact Hin | exact Hge]).
      assert (Hf : inflight i (reader s) = []).
      { destruct (reader s) as [| |fr found fl|j p| | | |]; try reflexivity; cbn [inflight].
        - eapply data_for_out; [exact Hrd | exact Hge].
        - destruct (Nat.eqb j i) eqn:Ej; [apply Nat.eqb_eq in Ej; lia | reflexivity]. }
      rewrite Hq, Hf. repeat split; auto. intro H; exfalso; apply H; reflexivity.
Qed.

(* the server sends a frame: queued at the end, recorded as sent *)
Lemma invd_server s f :
  id_lt (List.length (subs s)) (frame_id f) -> InvD s ->
  forall s', reader s' = reader s -> inbound s' = inbound s ++ [f] ->
  subs s' = match f with FData (Some j) p => upd (subs s) j (fun e => record_sent e p) | _ => subs s end ->
  InvD s'.
Proof.
  intros Hf (Hids & Hl & Ho) s' Hr Hi Hs. destruct Hids as [Hin Hrd].
  assert (Hlen : List.length (subs s') = List.length (subs s)).
  { rewrite Hs. destruct f as [[j|] p|o|o|]; try reflexivity. apply upd_length. }
  unfold InvD, ids_ok, looked_ok, get_sub in *. rewrite Hr, Hi, Hlen. split; [|split].
  - split; [apply Forall_app; split; [exact Hin | constructor; [exact Hf | constructor]] | exact Hrd].
  - destruct (reader s) as [| |fr found fl| | | | |]; try exact I.
    destruct (frame_id fr) as [i|]; [|exact I]. rewrite Hs.
    destruct f as [[j|] p|o|o|]; try exact Hl.
    destruct (nth_error (upd (subs s) j (fun e => record_sent e p)) i) as [e'|] eqn:E; [|exact I].
    apply nth_upd_inv in E. destruct E as [[-> [e [Ee ->]]] | [Hne Ee]]; rewrite Ee in Hl; exact Hl.
  - intros i e' E. unfold order_ok in *. rewrite queued_app. unfold queued at 2. cbn [flat_map]. rewrite app_nil_r.
    rewrite Hs in E. destruct f as [[j|] p|o|o|]; cbn [data_for];
      try (destruct (Ho _ _ E) as (d & Hsent & Hd & Hc); exists d; rewrite app_nil_r; auto).
    apply nth_upd_inv in E. destruct E as [[-> [e [Ee ->]]] | [Hne Ee]].
    + destruct (Ho _ _ Ee) as (d & Hsent & Hd & Hc). exists d. rewrite Nat.eqb_refl. cbn [record_sent s_sent s_delivered s_flag s_present].
      split; [rewrite Hsent, <- !app_assoc; reflexivity|]. split; [exact Hd | exact Hc].
    + destruct (Ho _ _ Ee) as (d & Hsent & Hd & Hc). exists d.
      destruct (Nat.eqb j i) eqn:Ej; [apply Nat.eqb_eq in Ej; contradiction|]. rewrite app_nil_r. auto.
Qed.

Lemma ended_dec e : ended e \/ (s_flag e = false /\ s_present e = true).
Proof. unfold ended. destruct (s_flag e), (s_present e); auto. Qed.

(* the reader takes the next frame and looks its subscription up *)
Lemma invd_read s f r found fl :
  inbound s = f :: r -> reader s = RRead -> lookup s (frame_id f) = (found, fl) -> f <> FGarbage ->
  InvD s -> forall s', subs s' = subs s -> inbound s' = r -> reader s' = RLooked f found fl -> InvD s'.
Proof.
  intros Hi Hrd Hlk Hng (Hids & Hl & Ho) s' Hs Hi' Hr'. destruct Hids as [Hin _]. rewrite Hi in Hin.
  apply Forall_cons_iff in Hin. destruct Hin as [Hf Hrest].
  unfold InvD, ids_ok, looked_ok, get_sub in *. rewrite Hs, Hi', Hr'. split; [|split].
  - split; [exact Hrest | exact Hf].
  - destruct (frame_id f) as [i|] eqn:Ef; [|exact I]. unfold lookup, get_sub in Hlk.
    destruct (nth_error (subs s) i) as [e|]; [|exact I].
    destruct (s_present e) eqn:P; injection Hlk as <- <-; split; intro H; try discriminate; auto.
  - intros i e E. destruct (Ho _ _ E) as (d & Hsent & Hd & _). rewrite Hrd, Hi in Hsent. cbn [inflight app] in Hsent.
    exists d. cbn [inflight]. unfold queued in Hsent. cbn [flat_map] in Hsent. split; [exact Hsent|]. split; [exact Hd|].
    intro Hc. destruct d as [|x d]; [reflexivity|]. exfalso.
    assert (Hend : ended e) by (apply Hd; discriminate).
    cbn [committed] in Hc. destruct f as [[j|] p|o|o|]; try contradiction.
    destruct found; [|contradiction]. destruct fl; [contradiction|]. subst j.
    cbn [frame_id] in Hlk. unfold lookup, get_sub in Hlk. rewrite E in Hlk.
    destruct Hend as [Hfl|Hp].
    + destruct (s_present e); [injection Hlk as Hx; congruence | discriminate Hlk].
    + rewrite Hp in Hlk. discriminate Hlk.
Qed.

(* the reader leaves a state that carried no payload, or drops / hands over the one it carries *)
Lemma invd_drop s f found fl r' :
  reader s = RLooked f found fl -> (found = false \/ fl = true \/ forall i, data_for i f = []) ->
  (forall i, inflight i r' = []) -> (forall i, ~ committed i r') ->
  (match r' with RLooked _ _ _ | RSend _ _ => False | _ => True end) ->
  InvD s -> forall s', subs s' = subs s -> inbound s' = inbound s -> reader s' = r' -> InvD s'.
Proof.
  intros Hrd Hwhy Hnf Hnc Hshape (Hids & Hl & Ho) s' Hs Hi Hr'.
  unfold InvD, ids_ok, looked_ok, get_sub in *. rewrite Hs, Hi, Hr'. destruct Hids as [Hin Hrid]. split; [|split].
  - split; [exact Hin|]. destruct r'; try exact I; contradiction.
  - destruct r'; try exact I; contradiction.
  - intros i e E. destruct (Ho _ _ E) as (d & Hsent & Hd & Hc). rewrite Hrd in Hsent. cbn [inflight] in Hsent.
    exists (d ++ data_for i f). rewrite Hnf. cbn [app]. split; [rewrite Hsent, <- !app_assoc; reflexivity|].
    split; [|intro Hx; exfalso; exact (Hnc i Hx)].
    intro Hne. destruct (data_for i f) as [|p l] eqn:Ed; [rewrite app_nil_r in Hne; exact (Hd Hne)|].
    (* a payload for i is being dropped: the subscription has ended *)
    assert (Hid : frame_id f = Some i).
    { destruct f as [[j|] q|o|o|]; cbn [data_for] in Ed; try discriminate.
      destruct (Nat.eqb j i) eqn:Ej; [apply Nat.eqb_eq in Ej; subst; reflexivity | discriminate]. }
    rewrite Hrd in Hl. rewrite Hid, E in Hl. destruct Hl as [H1 H2].
    destruct Hwhy as [Hf | [Hf | Hf]]; [right; auto | left; auto | rewrite Hf in Ed; discriminate].
Qed.

Lemma invd_to_send s j p :
  reader s = RLooked (FData (Some j) p) true false ->
  InvD s -> forall s', subs s' = subs s -> inbound s' = inbound s -> reader s' = RSend j p -> InvD s'.
Proof.
  intros Hrd (Hids & Hl & Ho) s' Hs Hi Hr'. unfold InvD, ids_ok, looked_ok, get_sub in *. rewrite Hs, Hi, Hr'.
  destruct Hids as [Hin Hrid]. rewrite Hrd in Hrid. cbn in Hrid. split; [split; [exact Hin | exact Hrid]|]. split; [exact I|].
  intros i e E. destruct (Ho _ _ E) as (d & Hsent & Hd & Hc). rewrite Hrd in Hsent, Hc. exists d. split; [exact Hsent|]. split; [exact Hd | exact Hc].
Qed.

(* the application receives the payload (or the send panics on a closed channel) *)
Lemma invd_recv_deliver s j p e0 :
  reader s = RSend j p -> get_sub s j = Some e0 ->
  InvD s -> forall s', subs s' = upd (subs s) j (fun e => deliver e p) -> inbound s' = inbound s -> reader s' = RLoop -> InvD s'.
Proof.
  intros Hrd G (Hids & Hl & Ho) s' Hs Hi Hr'. unfold InvD, ids_ok, looked_ok, get_sub in *. rewrite Hs, Hi, Hr', upd_length.
  destruct Hids as [Hin _]. split; [split; [exact Hin | exact I]|]. split; [exact I|].
  intros i e' E. apply nth_upd_inv in E. destruct E as [[-> [e [Ee ->]]] | [Hne Ee]].
  - destruct (Ho _ _ Ee) as (d & Hsent & Hd & Hc). rewrite Hrd in Hsent, Hc. cbn [inflight committed] in Hsent, Hc.
    rewrite Nat.eqb_refl in Hsent. rewrite (Hc eq_refl) in Hsent. cbn [app] in Hsent.
    exists []. cbn [deliver s_sent s_delivered inflight app]. split; [rewrite Hsent, <- app_assoc; reflexivity|].
    split; [intro H; exfalso; apply H; reflexivity | reflexivity].
  - destruct (Ho _ _ Ee) as (d & Hsent & Hd & Hc). rewrite Hrd in Hsent. cbn [inflight] in Hsent.
    destruct (Nat.eqb j i) eqn:Ej; [apply Nat.eqb_eq in Ej; contradiction|].
    exists d. cbn [inflight]. split; [exact Hsent|]. split; [exact Hd | intros []].
Qed.

Lemma invd_recv_panic s j p e0 r' :
  reader s = RSend j p -> get_sub s j = Some e0 -> s_flag e0 = true ->
  (forall i, inflight i r' = []) -> (forall i, ~ committed i r') ->
  (match r' with RLooked _ _ _ | RSend _ _ => False | _ => True end) ->
  InvD s -> forall s', subs s' = subs s -> inbound s' = inbound s -> reader s' = r' -> InvD s'.
Proof.
  intros Hrd G Hfl Hnf Hnc Hshape (Hids & Hl & Ho) s' Hs Hi Hr'. unfold InvD, ids_ok, looked_ok, get_sub in *. rewrite Hs, Hi, Hr'.
  destruct Hids as [Hin _]. split; [split; [exact Hin | destruct r'; try exact I; contradiction]|].
  split; [destruct r'; try exact I; contradiction|].
  intros i e E. destruct (Ho _ _ E) as (d & Hsent & Hd & Hc). rewrite Hrd in Hsent. cbn [inflight] in Hsent.
  exists (d ++ (if Nat.eqb j i then [p] else [])). rewrite Hnf. cbn [app].
  split; [rewrite Hsent, <- !app_assoc; reflexivity|]. split; [|intro Hx; exfalso; exact (Hnc i Hx)].
  intro Hne. destruct (Nat.eqb j i) eqn:Ej; [|rewrite app_nil_r in Hne; exact (Hd Hne)].
  apply Nat.eqb_eq in Ej. subst i. rewrite G in E. injection E as <-. left. exact Hfl.
Qed.

Lemma norm_id_lt s o : id_lt (List.length (subs s)) (norm_id s o).
Proof.
  destruct o as [k|]; unfold norm_id; [|exact I]. destruct (Nat.ltb k (List.length (subs s))) eqn:E; unfold id_lt; [apply Nat.ltb_lt; exact E | exact I].
Qed.
Lemma norm_frame_lt s f : id_lt (List.length (subs s)) (frame_id (norm_frame s f)).
Proof. destruct f; cbn [norm_frame frame_id]; try apply norm_id_lt; exact I. Qed.

Ltac same := (eapply invd_same; [reflexivity | reflexivity | reflexivity | eassumption]).

Lemma step_InvD s l s' : InvA s -> InvD s -> step s l = Some s' -> InvD s'.
Proof.
  intros HA H E. destruct l as [| i | | t choice fault | f | | i |]; cbn [step] in E.
  - (* LCallSub *) injection E as <-. eapply invd_callsub; [reflexivity | reflexivity | reflexivity | exact H].
  - injection E as <-. same.
  - injection E as <-. same.
  - destruct t as [|n].
    + (* reader *)
      unfold step_reader in E. destruct (reader_stuck s); [discriminate|].
      destruct (reader s) as [| |f found fl|j p| | | |] eqn:R.
      * destruct (mutex s); [|discriminate]. injection E as <-.
        destruct H as (Hids & Hl & Ho). unfold InvD, ids_ok, looked_ok, get_sub in *. cbn [set_reader subs reader inbound].
        rewrite R in *. destruct Hids as [Hin _].
        split; [split; [exact Hin | destruct (is_closing s); exact I]|]. split; [destruct (is_closing s); exact I|].
        intros i e Ge. destruct (Ho _ _ Ge) as (d & Hs & Hd & Hc). exists d. destruct (is_closing s); cbn [inflight committed] in *; auto.
      * destruct (read_enabled s); [|discriminate].
        destruct (inbound s) as [|f r] eqn:Ib.
        { injection E as <-. destruct H as (Hids & Hl & Ho). unfold InvD, ids_ok, looked_ok, get_sub in *. cbn [set_reader subs reader inbound].
          rewrite R, Ib in *. destruct Hids as [Hin _]. split; [split; [exact Hin | exact I]|]. split; [exact I|].
          intros i e Ge. destruct (Ho _ _ Ge) as (d & Hs & Hd & Hc). exists d. cbn [inflight committed] in *. auto. }
        destruct fault.
        { injection E as <-. destruct H as (Hids & Hl & Ho). unfold InvD, ids_ok, looked_ok, get_sub in *. cbn [set_reader subs reader inbound].
          rewrite R, Ib in *. destruct Hids as [Hin _]. split; [split; [exact Hin | exact I]|]. split; [exact I|].
          intros i e Ge. destruct (Ho _ _ Ge) as (d & Hs & Hd & Hc). exists d. cbn [inflight committed] in *. auto. }
        destruct (match f with FGarbage => true | _ => false end) eqn:Eg.
        { destruct f; try discriminate Eg. injection E as <-.
          destruct H as (Hids & Hl & Ho). unfold InvD, ids_ok, looked_ok, get_sub in *. cbn [set_reader set_inbound subs reader inbound].
          rewrite R, Ib in *. destruct Hids as [Hin _]. apply Forall_cons_iff in Hin. destruct Hin as [_ Hin].
          split; [split; [exact Hin | exact I]|]. split; [exact I|].
          intros i e Ge. destruct (Ho _ _ Ge) as (d & Hs & Hd & Hc). exists d. cbn [inflight committed] in *. unfold queued in Hs. cbn [flat_map data_for app] in Hs. auto. }
        assert (Hng : f <> FGarbage) by (intro Hx; subst f; discriminate Eg).
        assert (E2 : exists found fl, lookup s (frame_id f) = (found, fl) /\ s' = set_reader (set_inbound s r) (RLooked f found fl)).
        { exists (fst (lookup s (frame_id f))), (snd (lookup s (frame_id f))). split; [destruct (lookup s (frame_id f)); reflexivity|].
          destruct f; try (exfalso; apply Hng; reflexivity);
            (change (lookup (set_inbound s r)) with (lookup s) in E; cbn [frame_id] in *;
             match type of E with context [lookup s ?x] => destruct (lookup s x) as [a c] end; injection E as <-; reflexivity). }
        destruct E2 as (found & fl & El & ->).
        eapply (invd_read s f r found fl Ib R); [exact El | exact Hng | exact H | reflexivity | reflexivity | reflexivity].
      * destruct found; cbn [negb] in E.
        2:{ injection E as <-. eapply (invd_drop s f false fl RErrLock R); [left; reflexivity | intro; reflexivity | intros ? [] | exact I | exact H | reflexivity | reflexivity | reflexivity]. }
        destruct fl.
        { injection E as <-. eapply (invd_drop s f true true RLoop R); [right; left; reflexivity | intro; reflexivity | intros ? [] | exact I | exact H | reflexivity | reflexivity | reflexivity]. }
        destruct f as [[j|] p|[j|]|[j|]|].
        -- injection E as <-. eapply (invd_to_send s j p R H); reflexivity.
        -- injection E as <-. eapply (invd_drop s _ true false RErrLock R); [right; right; intro; reflexivity | intro; reflexivity | intros ? [] | exact I | exact H | reflexivity | reflexivity | reflexivity].
        -- injection E as <-. eapply (invd_drop s _ true false RErrLock R); [right; right; intro; reflexivity | intro; reflexivity | intros ? [] | exact I | exact H | reflexivity | reflexivity | reflexivity].
        -- injection E as <-. eapply (invd_drop s _ true false RErrLock R); [right; right; intro; reflexivity | intro; reflexivity | intros ? [] | exact I | exact H | reflexivity | reflexivity | reflexivity].
        -- destruct (map_unsubscribe s j) as [s1 k] eqn:M. injection E as <-.
           pose proof (map_unsubscribe_InvD _ _ _ _ H M) as H1.
           destruct (map_unsubscribe_shape _ _ _ _ M) as (Hr1 & _ & _).
           assert (R1 : reader s1 = RLooked (FComplete (Some j)) true false) by (rewrite Hr1; exact R).
           destruct k; [eapply (invd_drop s1 _ true false RLoop R1) | eapply (invd_drop s1 _ true false RErrLock R1)];
             try (right; right; intro; reflexivity); try (intro; reflexivity);
             try (intros ? []); try exact I; try exact H1; reflexivity.
        -- injection E as <-. eapply (invd_drop s _ true false RErrLock R); [right; right; intro; reflexivity | intro; reflexivity | intros ? [] | exact I | exact H | reflexivity | reflexivity | reflexivity].
        -- injection E as <-. eapply (invd_drop s _ true false RErrLock R); [right; right; intro; reflexivity | intro; reflexivity | intros ? [] | exact I | exact H | reflexivity | reflexivity | reflexivity].
      * discriminate.
      * destruct (mutex s); [|discriminate]. injection E as <-.
        destruct H as (Hids & Hl & Ho). unfold InvD, ids_ok, looked_ok, get_sub in *. cbn [set_reader set_mutex subs reader inbound]. rewrite R in *.
        destruct Hids as [Hin _]. split; [split; [exact Hin | exact I]|]. split; [exact I|].
        intros i e Ge. destruct (Ho _ _ Ge) as (d & Hs & Hd & Hc). exists d. cbn [inflight committed] in *. auto.
      * assert (Hgen : forall s2, subs s2 = subs s -> inbound s2 = inbound s -> (reader s2 = RExit \/ reader s2 = RErrLocked) -> InvD s2).
        { intros s2 Hs2 Hi2 Hr2. destruct H as (Hids & Hl & Ho). unfold InvD, ids_ok, looked_ok, get_sub in *. rewrite Hs2, Hi2. rewrite R in *.
          destruct Hids as [Hin _]. destruct Hr2 as [-> | ->]; (split; [split; [exact Hin | exact I]|]; split; [exact I|];
            intros i e Ge; destruct (Ho _ _ Ge) as (d & Hs & Hd & Hc); exists d; cbn [inflight committed] in *; auto). }
        destruct (is_closing s); [injection E as <-; apply Hgen; [reflexivity | reflexivity | left; reflexivity]|].
        destruct (Nat.ltb (err_buf s) 1); injection E as <-; apply Hgen; try reflexivity; [left; reflexivity | right; exact R].
      * injection E as <-. destruct H as (Hids & Hl & Ho). unfold InvD, ids_ok, looked_ok, get_sub in *. cbn [set_reader subs reader inbound]. rewrite R in *.
        destruct Hids as [Hin _]. split; [split; [exact Hin | exact I]|]. split; [exact I|].
        intros i e Ge. destruct (Ho _ _ Ge) as (d & Hs & Hd & Hc). exists d. cbn [inflight committed] in *. auto.
      * discriminate.
    + (* call *)
      unfold step_call in E. destruct (nth_error (calls s) n) as [[i|i|err|err|err|ok]|]; try discriminate.
      * destruct fault; injection E as <-; [|same].
        eapply (invd_mono s _ i); [| reflexivity | reflexivity | reflexivity | exact H].
        intros e _. cbn. repeat split; auto.
      * destruct fault; [injection E as <-; same|].
        destruct (map_unsubscribe (push_frame s (WComplete i)) i) as [s1 k] eqn:M. injection E as <-.
        assert (H0 : InvD (push_frame s (WComplete i))) by same.
        pose proof (map_unsubscribe_InvD _ _ _ _ H0 M) as H1. eapply invd_same; [reflexivity | reflexivity | reflexivity | exact H1].
      * destruct (mem_nat choice (close_collected s)); [|discriminate].
        destruct (map_unsubscribe (if fault then s else push_frame s (WComplete choice)) choice) as [s1 k] eqn:M.
        injection E as <-.
        assert (H0 : InvD (if fault then s else push_frame s (WComplete choice))) by (destruct fault; [exact H | same]).
        pose proof (map_unsubscribe_InvD _ _ _ _ H0 M) as H1.
        destruct (filter _ (remove_nat choice (close_collected s))); (eapply invd_same; [reflexivity | reflexivity | reflexivity | exact H1]).
      * injection E as <-. destruct fault; same.
      * destruct (mutex s); [|discriminate]. injection E as <-. same.
  - (* LServer *)
    pose proof (norm_frame_lt s f) as Hlt.
    destruct (norm_frame s f) as [[j|] p|[j|]|[j|]|]; injection E as <-; eapply (invd_server s _ Hlt H); reflexivity.
  - injection E as <-. same.
  - (* LRecv *)
    destruct (reader s) as [| |f found fl|j p| | | |] eqn:R; try (injection E as <-; exact H).
    destruct (get_sub s i) as [e|] eqn:G; [|injection E as <-; exact H].
    destruct (Nat.eqb i j) eqn:Eij; [|injection E as <-; exact H].
    apply Nat.eqb_eq in Eij. subst j.
    destruct (Nat.ltb 0 (s_closes e)) eqn:Ec; injection E as <-.
    + (* send on a closed channel: the reader panics, the payload is lost AFTER the end *)
      assert (Hfl : s_flag e = true).
      { unfold InvA in HA. rewrite Forall_forall in HA. unfold get_sub in G. apply nth_error_In in G. specialize (HA _ G).
        unfold closes_ok in HA. apply Nat.ltb_lt in Ec. destruct (s_flag e); [reflexivity | lia]. }
      eapply (invd_recv_panic s i p e RExit R G Hfl); [intro; reflexivity | intros ? [] | exact I | exact H | reflexivity | reflexivity | reflexivity].
    + eapply (invd_recv_deliver s i p e R G H); reflexivity.
  - destruct (Nat.ltb 0 (err_buf s)); injection E as <-; same.
Qed.

Lemma InvD_init : InvD init.
Proof.
  unfold InvD, ids_ok, looked_ok, get_sub. cbn. repeat split; try constructor. intros i e H. destruct i; discriminate.
Qed.

Theorem reachable_InvD s : reachable s -> InvA s /\ InvD s.
Proof.
  apply (reachable_ind (fun s => InvA s /\ InvD s)).
  - split; [constructor | exact InvD_init].
  - intros s0 l [HA HD]. split; [apply step'_InvA; exact HA|].
    unfold step'. destruct (step s0 l) as [s1|] eqn:E; [exact (step_InvD _ _ _ HA HD E) | exact HD].
Qed.

(* C14, isolation and order: in every reachable state of every schedule, what the application
   received on subscription i's channel is a prefix of the payloads the server sent for id i --
   in the order sent, each at most once, never a payload of another subscription -- and what is
   still missing is accounted for: dropped after the subscription ended, held by the reader, or
   still queued on the connection *)
Theorem received_is_a_prefix_of_sent s i e :
  reachable s -> get_sub s i = Some e ->
  exists dropped,
    s_sent e = s_delivered e ++ dropped ++ inflight i (reader s) ++ queued i (inbound s)
    /\ (dropped <> [] -> s_flag e = true \/ s_present e = false).
Proof.
  intros Hr G. destruct (reachable_InvD _ Hr) as [_ (_ & _ & Ho)].
  destruct (Ho _ _ G) as (d & Hs & Hd & _). exists d. split; [exact Hs | exact Hd].
Qed.

Corollary received_prefix s i e :
  reachable s -> get_sub s i = Some e -> exists rest, s_sent e = s_delivered e ++ rest.
Proof.
  intros Hr G. destruct (received_is_a_prefix_of_sent _ _ _ Hr G) as (d & Hs & _). eexists. exact Hs.
Qed.

(* nothing is lost while the subscription is alive: until it ends, every payload sent for it is
   delivered, held by the reader or still queued *)
Corollary nothing_lost_while_alive s i e :
  reachable s -> get_sub s i = Some e -> s_flag e = false -> s_present e = true ->
  s_sent e = s_delivered e ++ inflight i (reader s) ++ queued i (inbound s).
Proof.
  intros Hr G Hf Hp. destruct (received_is_a_prefix_of_sent _ _ _ Hr G) as (d & Hs & Hd).
  destruct d as [|x d]; [exact Hs|]. exfalso. destruct (Hd ltac:(discriminate)) as [H|H]; congruence.
Qed.

(* non-vacuity: a run in which two payloads are sent and the first one has been received *)
Definition w_run : list label :=
  [LCallSub; LStep (TCall 0) 0 false; LServer (FData (Some 0%nat) 7%N); LServer (FData (Some 0%nat) 8%N);
   LStep TReader 0 false; LStep TReader 0 false; LStep TReader 0 false; LRecv 0].
Example w_run_delivers :
  match get_sub (run w_run) 0 with
  | Some e => s_delivered e = [7%N] /\ s_sent e = [7%N; 8%N] /\ queued 0 (inbound (run w_run)) = [8%N]
  | None => False
  end.
Proof. vm_compute. repeat split. Qed.
