From Verif Require Import Base.Str Rt.Ws.
From Coq Require Import Arith Lia.
Local Open Scope nat_scope.

(* ---------- list update lemmas ---------- *)
Lemma nth_error_upd_same {A} (l : list A) n f :
  nth_error (upd l n f) n = option_map f (nth_error l n).
Proof. revert n; induction l as [|x l IH]; intros [|n]; simpl; auto. Qed.

Lemma nth_error_upd_other {A} (l : list A) n m f :
  n <> m -> nth_error (upd l n f) m = nth_error l m.
Proof.
  revert n m; induction l as [|x l IH]; intros [|n] [|m] H; simpl; auto; try congruence.
Qed.

Lemma Forall_upd {A} (P : A -> Prop) l n f :
  (forall x, P x -> P (f x)) -> Forall P l -> Forall P (upd l n f).
Proof.
  intros Hf. revert n; induction l as [|x l IH]; intros n H; [destruct n; constructor|].
  inversion H; subst. destruct n; simpl; constructor; auto.
Qed.

Lemma Forall_upd_at {A} (P : A -> Prop) l n f :
  (forall e, nth_error l n = Some e -> P e -> P (f e)) -> Forall P l -> Forall P (upd l n f).
Proof.
  revert n; induction l as [|x l IH]; intros n Hf H; [destruct n; constructor|].
  inversion H; subst. destruct n; simpl; constructor; auto.
Qed.

Lemma upd_length {A} (l : list A) n f : List.length (upd l n f) = List.length l.
Proof. revert n; induction l as [|x l IH]; intros [|n]; simpl; auto. Qed.

(* ---------- running ---------- *)
Definition reachable (s : st) : Prop := exists ls, run ls = s.

Lemma run_app ls l : run (ls ++ [l]) = step' (run ls) l.
Proof. unfold run. rewrite fold_left_app. reflexivity. Qed.

Lemma reachable_ind (P : st -> Prop) :
  P init -> (forall s l, P s -> P (step' s l)) -> forall s, reachable s -> P s.
Proof.
  intros H0 Hs s [ls <-]. induction ls as [|l ls IH] using rev_ind; [exact H0|].
  rewrite run_app. apply Hs. exact IH.
Qed.

Ltac break_match_hyp H :=
  repeat match type of H with
         | context [match ?x with _ => _ end] => destruct x eqn:?; try discriminate H
         end.

(* ================= A: a channel is closed at most once, exactly when the entry is flagged ================= *)
Definition closes_ok (e : sub) : Prop := s_closes e = if s_flag e then 1 else 0.
Definition InvA (s : st) : Prop := Forall closes_ok (subs s).

Lemma map_unsubscribe_InvA s i s' k : InvA s -> map_unsubscribe s i = (s', k) -> InvA s'.
Proof.
  unfold map_unsubscribe, InvA. intros H E.
  destruct (get_sub s i) as [e|] eqn:G; [|injection E as <- _; exact H].
  destruct (s_present e); [|injection E as <- _; exact H].
  destruct (s_flag e) eqn:F; [injection E as <- _; exact H|].
  injection E as <- _. cbn. apply Forall_upd_at; [|exact H].
  intros x Hx Px. unfold get_sub in G. rewrite G in Hx. injection Hx as <-.
  unfold closes_ok in *. cbn. rewrite F in Px. lia.
Qed.

Lemma InvA_upd_keep s i f :
  (forall e, s_closes (f e) = s_closes e /\ s_flag (f e) = s_flag e) ->
  InvA s -> Forall closes_ok (upd (subs s) i f).
Proof.
  intros Hf H. apply Forall_upd_at; [|exact H]. intros e _ Pe. unfold closes_ok in *.
  destruct (Hf e) as [-> ->]. exact Pe.
Qed.

Lemma step_InvA s l s' : InvA s -> step s l = Some s' -> InvA s'.
Proof.
  intros H E. destruct l as [| i | | t choice fault | f | | i |]; cbn [step] in E.
  - (* LCallSub *) injection E as <-. unfold InvA. cbn. apply Forall_app. split; [exact H|].
    constructor; [reflexivity | constructor].
  - injection E as <-. exact H.
  - injection E as <-. exact H.
  - destruct t as [|n].
    + (* reader *)
      unfold step_reader in E. destruct (reader_stuck s); [discriminate|].
      destruct (reader s) as [| |f found fl|i p| | | |] eqn:R.
      * destruct (mutex s); [|discriminate]. injection E as <-. exact H.
      * destruct (read_enabled s); [|discriminate].
        destruct (inbound s) as [|f r]; [injection E as <-; exact H|].
        destruct fault; [injection E as <-; exact H|].
        destruct f; try (destruct (lookup _ _)); injection E as <-; exact H.
      * destruct (negb found); [injection E as <-; exact H|].
        destruct fl; [injection E as <-; exact H|].
        destruct f as [[j|] p|[j|]|[j|]|]; try (injection E as <-; exact H).
        destruct (map_unsubscribe s j) as [s1 k] eqn:M. injection E as <-.
        apply (map_unsubscribe_InvA _ _ _ _ H) in M. exact M.
      * discriminate.
      * destruct (mutex s); [|discriminate]. injection E as <-. exact H.
      * destruct (is_closing s); [injection E as <-; exact H|].
        destruct (Nat.ltb (err_buf s) 1); injection E as <-; exact H.
      * injection E as <-. exact H.
      * discriminate.
    + (* call *)
      unfold step_call in E. destruct (nth_error (calls s) n) as [[i|i|err|err|err|ok]|]; try discriminate.
      * destruct fault; injection E as <-; unfold InvA; cbn; [|exact H].
        apply InvA_upd_keep; [|exact H]. intros e. cbn. auto.
      * destruct fault; [injection E as <-; exact H|].
        destruct (map_unsubscribe (push_frame s (WComplete i)) i) as [s1 k] eqn:M. injection E as <-.
        assert (InvA (push_frame s (WComplete i))) as H0 by exact H.
        apply (map_unsubscribe_InvA _ _ _ _ H0) in M. exact M.
      * destruct (mem_nat choice (close_collected s)); [|discriminate].
        destruct (map_unsubscribe (if fault then s else push_frame s (WComplete choice)) choice) as [s1 k] eqn:M.
        injection E as <-.
        assert (InvA (if fault then s else push_frame s (WComplete choice))) as H0 by (destruct fault; exact H).
        apply (map_unsubscribe_InvA _ _ _ _ H0) in M.
        destruct (remove_nat choice (close_collected s)); exact M.
      * injection E as <-. destruct fault; exact H.
      * destruct (mutex s); [|discriminate]. injection E as <-. exact H.
  - (* LServer *)
    destruct (norm_frame s f) as [[j|] p|[j|]|[j|]|]; injection E as <-; try exact H.
    unfold InvA. cbn. apply InvA_upd_keep; [|exact H]. intros e. cbn. auto.
  - injection E as <-. exact H.
  - (* LRecv *)
    destruct (reader s) as [| |f found fl|j p| | | |]; try (injection E as <-; exact H).
    destruct (get_sub s i) as [e|]; [|injection E as <-; exact H].
    destruct (Nat.eqb i j); [|injection E as <-; exact H].
    destruct (Nat.ltb 0 (s_closes e)); injection E as <-; [exact H|].
    unfold InvA. cbn. apply InvA_upd_keep; [|exact H]. intros x. cbn. auto.
  - destruct (Nat.ltb 0 (err_buf s)); injection E as <-; exact H.
Qed.

Lemma step'_InvA s l : InvA s -> InvA (step' s l).
Proof. intro H. unfold step'. destruct (step s l) eqn:E; [eapply step_InvA; eassumption | exact H]. Qed.

(* every channel is closed at most once, in every reachable state of every schedule *)
Theorem closed_at_most_once s : reachable s -> InvA s.
Proof. apply reachable_ind; [constructor | intros; apply step'_InvA; assumption]. Qed.

Corollary closes_le_1 s i e : reachable s -> nth_error (subs s) i = Some e -> s_closes e <= 1.
Proof.
  intros R G. pose proof (closed_at_most_once s R) as H. unfold InvA in H. rewrite Forall_forall in H.
  specialize (H e (nth_error_In _ _ G)). unfold closes_ok in H. destruct (s_flag e); lia.
Qed.

(* ---------- generic case analysis of one step ---------- *)
Ltac step_cases E :=
  unfold step in E;
  repeat match type of E with
         | context [step_reader] => unfold step_reader in E
         | context [step_call] => unfold step_call in E
         end;
  repeat match type of E with
         | context [match ?x with _ => _ end] => destruct x eqn:?; try discriminate E
         end;
  try (injection E as <-).

(* ================= H: the reader never blocks on the error channel ================= *)
Definition live (r : rpc) : bool := match r with RExit | RDone => false | _ => true end.
Definition InvH (s : st) : Prop :=
  reader_stuck s = false /\ (live (reader s) = true -> err_buf s = 0).

Lemma map_unsubscribe_frame s i s' k :
  map_unsubscribe s i = (s', k) ->
  reader s' = reader s /\ err_buf s' = err_buf s /\ reader_stuck s' = reader_stuck s /\
  panicked s' = panicked s /\ inbound s' = inbound s /\ calls s' = calls s /\ mutex s' = mutex s /\
  frames s' = frames s /\ List.length (subs s') = List.length (subs s).
Proof.
  unfold map_unsubscribe. intro E.
  destruct (get_sub s i) as [e|]; [|injection E as <- _; repeat split].
  destruct (s_present e); [|injection E as <- _; repeat split].
  destruct (s_flag e); injection E as <- _; repeat split. cbn. apply upd_length.
Qed.

Lemma step_InvH s l s' : InvH s -> step s l = Some s' -> InvH s'.
Proof.
  intros [H1 H2] E. unfold InvH.
  step_cases E; cbn [reader_stuck reader err_buf set_reader set_mutex set_err set_calls set_subs set_inbound set_frames set_panicked set_collected set_closing set_lost set_call push_frame].
  all: repeat match goal with
           | M : map_unsubscribe _ _ = (_, _) |- _ =>
               apply map_unsubscribe_frame in M; destruct M as (? & ? & ? & ? & ? & ? & ? & ? & ?)
           end.
  all: try (split; [congruence | intro L; try discriminate L; try (apply H2; congruence)]).
  all: try (apply H2; reflexivity).
  all: try (exfalso; specialize (H2 eq_refl); rewrite H2 in *; discriminate).
  all: try (split; [cbn in *; congruence | intro L; cbn in *;
        repeat match goal with H : ?a = ?b |- _ => rewrite H in * end; auto]).
  all: try (match goal with H : err_buf ?x = err_buf ?y |- err_buf ?x = 0 => rewrite H; apply H2; reflexivity end).
  all: try (split; [congruence | intro L;
        match goal with Hr : reader ?x = reader ?y, Hb : err_buf ?x = err_buf ?y |- _ =>
          rewrite Hb; apply H2; rewrite <- Hr; exact L end]).
  all: try (rewrite (H2 L); reflexivity).
  all: destruct fault; cbn in *;
    (split; [congruence | intro L;
        match goal with Hr : reader ?x = reader ?y, Hb : err_buf ?x = err_buf ?y |- _ =>
          rewrite Hb; apply H2; rewrite <- Hr; exact L end]).
Qed.

Lemma step'_InvH s l : InvH s -> InvH (step' s l).
Proof. intro H. unfold step'. destruct (step s l) eqn:E; [eapply step_InvH; eassumption | exact H]. Qed.

(* the reader is never blocked forever on the error channel (it reports at most one error
   into a channel of capacity one), in every reachable state of every schedule *)
Theorem reader_never_stuck s : reachable s -> InvH s.
Proof. apply reachable_ind; [split; [reflexivity | reflexivity] | intros; apply step'_InvH; assumption]. Qed.

(* ================= M: the client mutex is held across a pause only by a reader in handleErr ================= *)
Definition InvM (s : st) : Prop := mutex s = HeldByReader <-> reader s = RErrLocked.

Lemma step_InvM s l s' : InvM s -> step s l = Some s' -> InvM s'.
Proof.
  intros HM E. unfold InvM in *.
  step_cases E; cbn [mutex reader set_reader set_mutex set_err set_calls set_subs set_inbound set_frames set_panicked set_collected set_closing set_lost set_call push_frame].
  all: repeat match goal with
           | M : map_unsubscribe _ _ = (_, _) |- _ =>
               apply map_unsubscribe_frame in M; destruct M as (? & ? & ? & ? & ? & ? & ? & ? & ?)
           end.
  all: try (destruct fault); cbn in *.
  all: try (split; intro X; try discriminate X; try congruence;
            try (destruct HM as [A B]; try (rewrite A in *; congruence); try (rewrite B in *; congruence))).
  all: try (destruct HM as [A B]; split; intro X; try discriminate X;
            repeat match goal with H : ?a = ?b |- _ => rewrite H in * end; auto; try congruence).
  all: try (exfalso; match goal with A : ?m = HeldByReader -> ?r = RErrLocked, X : ?m = HeldByReader |- _ => specialize (A X); discriminate A end).
  all: try (exfalso; match goal with A : ?m = HeldByReader -> _, X : ?m2 = ?m, Y : ?m2 = HeldByReader |- _ => rewrite X in Y; specialize (A Y); discriminate A end).
Qed.

Lemma step'_InvM s l : InvM s -> InvM (step' s l).
Proof. intro H. unfold step'. destruct (step s l) eqn:E; [eapply step_InvM; eassumption | exact H]. Qed.

Theorem mutex_only_in_handle_err s : reachable s -> InvM s.
Proof. apply reachable_ind; [split; discriminate | intros; apply step'_InvM; assumption]. Qed.

(* ================= progress: an API call is never blocked for good ================= *)
(* In every reachable state, every API call that has not returned can take its next step
   (whatever the connection does: fault or not), unless the client mutex is held -- and then
   the holder is the reader inside handleErr, whose own next step is enabled and frees it.
   (For a Close inside UnsubscribeAll the step is the release of one collected id.) *)
Theorem api_call_progress s n pc :
  reachable s -> nth_error (calls s) n = Some pc ->
  match pc with
  | ADone _ => True
  | ACloseUnsub _ =>
      forall c fault, mem_nat c (close_collected s) = true -> step s (LStep (TCall n) c fault) <> None
  | ACloseLock _ =>
      (forall c fault, step s (LStep (TCall n) c fault) <> None)
      \/ (mutex s = HeldByReader /\ exists s', step s (LStep TReader 0 false) = Some s' /\ mutex s' = Free)
  | _ => forall c fault, step s (LStep (TCall n) c fault) <> None
  end.
Proof.
  intros R G. pose proof (reader_never_stuck s R) as [HS HB]. pose proof (mutex_only_in_handle_err s R) as HM.
  destruct pc as [i|i|err|err|err|ok]; cbn [step]; unfold step_call; try rewrite G; try exact I.
  - intros c fault. destruct fault; discriminate.
  - intros c fault. destruct fault; [discriminate|]. destruct (map_unsubscribe _ _). discriminate.
  - intros c fault Hc. rewrite Hc. destruct (map_unsubscribe _ _). discriminate.
  - intros c fault. discriminate.
  - destruct (mutex s) eqn:Mx.
    + left. intros c fault. discriminate.
    + right. split; [reflexivity|]. apply HM in Mx. cbn [step]. unfold step_reader. rewrite HS, Mx.
      destruct (is_closing s); [eexists; split; reflexivity|].
      assert (err_buf s = 0) as -> by (apply HB; rewrite Mx; reflexivity).
      cbn. eexists; split; reflexivity.
Qed.

(* Close, once at its last step, releases the connection and the error channel whatever
   happened before (err = some earlier write failed) *)
Lemma close_releases s n err c fault s' :
  nth_error (calls s) n = Some (ACloseLock err) -> step s (LStep (TCall n) c fault) = Some s' ->
  conn_closes s' = S (conn_closes s) /\ err_closed s' = S (err_closed s) /\ is_closing s' = true
  /\ nth_error (calls s') n = Some (ADone (negb err)).
Proof.
  intros G E. cbn [step] in E. unfold step_call in E. rewrite G in E.
  destruct (mutex s); [|discriminate]. injection E as <-. cbn. repeat split.
  unfold set_call. cbn. rewrite nth_error_upd_same, G. reflexivity.
Qed.

(* the close-frame write of Close is enabled under ANY fault: a failed write never stops
   Close from going on to release the connection *)
Lemma close_goes_on s n c fault :
  (exists err, nth_error (calls s) n = Some (ACloseWrite err)) ->
  exists s' err', step s (LStep (TCall n) c fault) = Some s' /\ nth_error (calls s') n = Some (ACloseLock err').
Proof.
  intros [err G]. cbn [step]. unfold step_call. rewrite G. eexists _, _. split; [reflexivity|].
  unfold set_call. cbn. destruct fault; cbn; rewrite nth_error_upd_same; cbn; rewrite G; reflexivity.
Qed.

(* a failed Subscribe leaves no registered subscription: the entry is gone at once *)
Lemma subscribe_fault_unregisters s n i c s' :
  nth_error (calls s) n = Some (ASubWrite i) -> step s (LStep (TCall n) c true) = Some s' ->
  (forall e, nth_error (subs s') i = Some e -> s_present e = false) /\
  nth_error (calls s') n = Some (ADone false) /\ frames s' = frames s.
Proof.
  intros G E. cbn [step] in E. unfold step_call in E. rewrite G in E. injection E as <-. cbn.
  split; [|split; [unfold set_call; cbn; rewrite nth_error_upd_same, G; reflexivity | reflexivity]].
  intros e He. rewrite nth_error_upd_same in He. destruct (nth_error (subs s) i); [|discriminate].
  injection He as <-. reflexivity.
Qed.

Lemma active_ids_from_present l k i :
  In i (active_ids_from l k) ->
  exists e, nth_error l (i - k) = Some e /\ s_present e = true /\ s_flag e = false /\ k <= i.
Proof.
  revert k; induction l as [|e l IH]; intros k H; [destruct H|].
  cbn in H. apply in_app_or in H as [H|H].
  - destruct (s_present e) eqn:P; [|destruct H]. destruct (s_flag e) eqn:F; [destruct H|].
    destruct H as [<-|[]]. exists e. rewrite Nat.sub_diag. cbn. auto.
  - apply IH in H as (e' & G & P & F & L). exists e'. repeat split; auto; [|lia].
    replace (i - k) with (S (i - S k)) by lia. exact G.
Qed.

(* ... and Close only ever collects (and sends complete for) registered, still active subscriptions *)
Lemma close_collects_only_active s i :
  In i (active_ids s) -> exists e, nth_error (subs s) i = Some e /\ s_present e = true /\ s_flag e = false.
Proof.
  intro H. apply active_ids_from_present in H as (e & G & P & F & _). rewrite Nat.sub_0_r in G. eauto.
Qed.

(* ================= Start: fault cleanup ================= *)
Definition start_ok (s : start_st) : Prop :=
  match sp s with
  | SDial => s_dialed s = false /\ s_conn_closed s = 0 /\ s_reader_spawned s = false /\ s_init_written s = false
  | SInit => s_dialed s = true /\ s_conn_closed s = 0 /\ s_reader_spawned s = false /\ s_init_written s = false
  | SAck => s_dialed s = true /\ s_conn_closed s = 0 /\ s_reader_spawned s = false /\ s_init_written s = true
  | SOk => s_dialed s = true /\ s_conn_closed s = 0 /\ s_reader_spawned s = true /\ s_init_written s = true
  | SFail => s_reader_spawned s = false /\ (s_dialed s = true -> s_conn_closed s = 1)
             /\ (s_dialed s = false -> s_conn_closed s = 0)
  end.

Lemma start_step_ok s f a g : start_ok s -> start_ok (start_step s f a g).
Proof.
  unfold start_ok, start_step. destruct (sp s) eqn:P; intro H.
  - destruct f; cbn; repeat split; auto; discriminate.
  - destruct f; cbn; repeat split; auto; discriminate.
  - destruct (f || g); cbn; [repeat split; auto; discriminate|].
    destruct a; cbn; [repeat split; auto|]. rewrite P. exact H.
  - rewrite P. exact H.
  - rewrite P. exact H.
Qed.

Definition run_start_ops (ops : list (bool * bool * bool)) : start_st :=
  fold_left (fun s o => start_step s (fst (fst o)) (snd (fst o)) (snd o)) ops start_init.

(* whichever dial/write/read of the handshake fails, Start leaves no reader and no open
   connection behind; when it succeeds the init frame was written before the ack was read *)
Theorem start_fault_cleanup ops : start_ok (run_start_ops ops).
Proof.
  unfold run_start_ops.
  assert (forall s, start_ok s -> start_ok (fold_left (fun s o => start_step s (fst (fst o)) (snd (fst o)) (snd o)) ops s)) as H.
  { induction ops as [|o ops IH]; intros s Hs; [exact Hs|]. cbn. apply IH. apply start_step_ok. exact Hs. }
  apply H. cbn. auto.
Qed.

(* ================= J: no goroutine panics, as long as the application does not end a
   subscription while one of its messages is in flight ================= *)
Definition flag_of (s : st) (i : nat) : bool :=
  match get_sub s i with Some e => s_flag e | None => false end.

Definition inflight_r (r : rpc) (i : nat) : bool :=
  match r with
  | RLooked (FData (Some j) _) true false => Nat.eqb i j
  | RSend j _ => Nat.eqb i j
  | _ => false
  end.
Definition inflight (s : st) (i : nat) : bool := inflight_r (reader s) i.

(* the label makes an API-call thread end subscription i (mark it and close its channel) *)
Definition closes_chan (s : st) (l : label) (i : nat) : bool :=
  match l with
  | LStep (TCall n) choice fault =>
      match nth_error (calls s) n with
      | Some (AUnsubWrite j) => negb fault && Nat.eqb i j
      | Some (ACloseUnsub _) => Nat.eqb i choice
      | _ => false
      end
  | _ => false
  end.

Definition polite_step (s : st) (l : label) : Prop :=
  forall i, closes_chan s l i = true -> inflight s i = false.

Fixpoint polite_from (s : st) (ls : list label) : Prop :=
  match ls with
  | [] => True
  | l :: r => polite_step s l /\ polite_from (step' s l) r
  end.

Definition InvJ (s : st) : Prop :=
  panicked s = false /\ forall i, inflight s i = true -> flag_of s i = false.

Lemma flag_of_upd_keep s i f j :
  (forall e, s_flag (f e) = s_flag e) ->
  match nth_error (upd (subs s) i f) j with Some e => s_flag e | None => false end = flag_of s j.
Proof.
  intro Hf. unfold flag_of, get_sub. destruct (Nat.eq_dec i j) as [->|N].
  - rewrite nth_error_upd_same. destruct (nth_error (subs s) j); cbn; auto.
  - rewrite nth_error_upd_other by exact N. reflexivity.
Qed.

Lemma map_unsubscribe_flag_other s i s' k j :
  map_unsubscribe s i = (s', k) -> j <> i -> flag_of s' j = flag_of s j.
Proof.
  unfold map_unsubscribe. intros E N.
  destruct (get_sub s i) as [e|]; [|injection E as <- _; reflexivity].
  destruct (s_present e); [|injection E as <- _; reflexivity].
  destruct (s_flag e); injection E as <- _; [reflexivity|].
  unfold flag_of, get_sub. cbn. rewrite nth_error_upd_other by congruence. reflexivity.
Qed.

Lemma lookup_flag s j : lookup s (Some j) = (true, false) -> flag_of s j = false.
Proof.
  unfold lookup, flag_of. destruct (get_sub s j) as [e|]; [|discriminate].
  destruct (s_present e); [|discriminate]. intro H. injection H as H. exact H.
Qed.

Lemma inflight_eqb r i j : inflight_r r i = true -> inflight_r r j = true -> i = j.
Proof.
  destruct r as [| |[[k|] p| | |] [|] [|]|k p| | | |]; cbn; try discriminate;
    intros A B; apply Nat.eqb_eq in A, B; congruence.
Qed.
Lemma flag_of_ext s1 s2 i : subs s1 = subs s2 -> flag_of s1 i = flag_of s2 i.
Proof. intro H. unfold flag_of, get_sub. rewrite H. reflexivity. Qed.

Lemma flag_of_app_false s s1 i : subs s1 = subs s ++ [sub0] -> flag_of s i = false -> flag_of s1 i = false.
Proof.
  intros H. unfold flag_of, get_sub. rewrite H.
  destruct (Nat.lt_ge_cases i (List.length (subs s))) as [L|L].
  - rewrite nth_error_app1 by exact L. auto.
  - intros _. rewrite nth_error_app2 by exact L.
    destruct (i - List.length (subs s)) as [|m]; cbn; [reflexivity|]. destruct m; reflexivity.
Qed.

Lemma InvA_closes_of_flag s i e : InvA s -> get_sub s i = Some e -> s_flag e = false -> s_closes e = 0.
Proof.
  intros HA G F. unfold InvA in HA. rewrite Forall_forall in HA.
  specialize (HA e (nth_error_In _ _ G)). unfold closes_ok in HA. rewrite F in HA. exact HA.
Qed.

Lemma step_InvJ s l s' : InvA s -> InvJ s -> polite_step s l -> step s l = Some s' -> InvJ s'.
Proof.
  intros HA [HP HF] HPol E. unfold InvJ, inflight in *.
  step_cases E; cbn [panicked reader subs set_reader set_mutex set_err set_calls set_subs set_inbound set_frames set_panicked set_collected set_closing set_lost set_call push_frame].
  all: try (split; [assumption|]; intros k Hk; cbn in Hk; try discriminate Hk;
            try (apply HF; exact Hk);
            try (rewrite (flag_of_ext _ s) by reflexivity; apply HF; exact Hk)).
  (* LCallSub *)
  all: try (apply (flag_of_app_false s); [reflexivity | apply HF; exact Hk]).
  (* upd keeping flags *)
  all: try (unfold flag_of, get_sub; cbn [subs set_call set_calls set_subs set_inbound];
            rewrite flag_of_upd_keep by (intro; reflexivity); apply HF; exact Hk).
  (* reader: lookup *)
  all: try (match goal with
            | Hl : lookup ?s1 (frame_id (FData ?i _)) = (?b, ?b0), Hk : match ?i with _ => _ end = true |- _ =>
                destruct i as [j|]; [|discriminate Hk]; destruct b; [|discriminate Hk]; destruct b0; [discriminate Hk|];
                apply Nat.eqb_eq in Hk; subst; cbn [frame_id] in Hl;
                rewrite (flag_of_ext _ s1) by reflexivity; apply (lookup_flag _ _ Hl)
            end).
  all: try (match goal with Hr : reader ?s = _, Hk : inflight_r (reader ?s) _ = true |- _ =>
              rewrite Hr in Hk; cbn in Hk; try discriminate Hk; try (apply HF; exact Hk) end).
  (* RLooked -> RSend *)
  all: try (match goal with Hn : negb ?found = false, Hk : (?k =? ?n) = true |- flag_of (set_reader _ (RSend ?n _)) ?k = false =>
              destruct found; [|discriminate Hn]; apply Nat.eqb_eq in Hk; subst;
              rewrite (flag_of_ext _ s) by reflexivity; apply HF; cbn; apply Nat.eqb_refl end).
  (* reader handles a complete frame: nothing in flight afterwards *)
  all: try (match goal with
            | Hm : map_unsubscribe _ _ = (?s0, _) |- panicked ?s0 = false /\ (forall _, inflight_r RLoop _ = true -> _) =>
                pose proof (map_unsubscribe_frame _ _ _ _ Hm) as (_ & _ & _ & Hpan & _);
                split; [congruence | intros k Hk; discriminate Hk]
            | Hm : map_unsubscribe _ _ = (?s0, _) |- panicked ?s0 = false /\ (forall _, inflight_r RErrLock _ = true -> _) =>
                pose proof (map_unsubscribe_frame _ _ _ _ Hm) as (_ & _ & _ & Hpan & _);
                split; [congruence | intros k Hk; discriminate Hk]
            end).
  (* an API call ends subscription i: by politeness nothing of i is in flight *)
  all: try (match goal with
            | HA' : InvA ?st, Hm : map_unsubscribe ?s1 ?i = (?s0, _) |- panicked ?s0 = false /\ _ =>
                pose proof (map_unsubscribe_frame _ _ _ _ Hm) as (Hrd & _ & _ & Hpan & _);
                assert (reader s1 = reader st /\ panicked s1 = panicked st /\ subs s1 = subs st) as (Hr1 & Hp1 & Hs1)
                  by (try (destruct fault); repeat split; reflexivity);
                split; [congruence|];
                intros k Hk; rewrite (flag_of_ext _ s0) by reflexivity;
                assert (k <> i) as Hne;
                [ intro; subst k; rewrite Hrd, Hr1 in Hk;
                  assert (inflight st i = false) as Hnf
                    by (apply HPol; unfold closes_chan;
                        match goal with Hc : nth_error (calls _) _ = Some _ |- _ => rewrite Hc end;
                        cbn; rewrite ?Nat.eqb_refl; reflexivity);
                  unfold inflight in Hnf; congruence
                | rewrite (map_unsubscribe_flag_other _ _ _ _ _ Hm Hne);
                  rewrite (flag_of_ext _ st) by exact Hs1;
                  apply HF; rewrite Hrd, Hr1 in Hk; exact Hk ]
            end).
  (* the receive at the send point: the channel is still open *)
  exfalso. apply Nat.eqb_eq in Heqb. subst i0.
  assert (flag_of s i = false) as Hfl by (apply HF; cbn; apply Nat.eqb_refl).
  unfold flag_of in Hfl. rewrite Heqo in Hfl.
  rewrite (InvA_closes_of_flag s i s0 HA Heqo Hfl) in Heqb0. discriminate Heqb0.
Qed.

Lemma InvJ_run s ls : InvA s -> InvH s -> InvJ s -> polite_from s ls -> InvJ (fold_left step' ls s).
Proof.
  revert s; induction ls as [|l ls IH]; intros s HA HH HJ HPol; [exact HJ|].
  destruct HPol as [Hl Hr]. cbn. apply IH; try assumption.
  - apply step'_InvA. exact HA.
  - apply step'_InvH. exact HH.
  - unfold step'. destruct (step s l) eqn:E; [eapply step_InvJ; eassumption | exact HJ].
Qed.

(* C13, partial: in every schedule in which the application never ends a subscription
   (Unsubscribe / Close) while one of that subscription's messages is between the reader's
   lookup and its channel send, no goroutine panics -- for any number of subscriptions,
   server frames (next/complete/error/malformed/unknown id, any order and multiplicity),
   connection faults and connection loss *)
Theorem no_panic_polite ls : polite_from init ls -> panicked (run ls) = false.
Proof.
  intro HP. unfold run.
  assert (InvJ (fold_left step' ls init)) as [H _]; [|exact H].
  apply InvJ_run; try assumption.
  - constructor.
  - split; reflexivity.
  - split; [reflexivity | intros i Hi; discriminate Hi].
Qed.

(* C13, full statement REFUTED on the (fixed) code: Unsubscribe while a message of that
   subscription is at the channel send closes the channel under the sender *)
Definition refuting_schedule : list label :=
  [LCallSub; LStep (TCall 0) 0 false; LServer (FData (Some 0) 7%N);
   LStep TReader 0 false; LStep TReader 0 false; LStep TReader 0 false;
   LCallUnsub 0; LStep (TCall 1) 0 false; LRecv 0].

Theorem no_panic_refuted : exists ls, panicked (run ls) = true.
Proof. exists refuting_schedule. vm_compute. reflexivity. Qed.

(* ================= F: once a subscription has ended nothing more is delivered on it ================= *)
Lemma step_frozen s l s' i e :
  InvA s -> step s l = Some s' -> get_sub s i = Some e -> s_flag e = true ->
  exists e', get_sub s' i = Some e' /\ s_delivered e' = s_delivered e /\ s_flag e' = true /\ s_closes e' = s_closes e.
Proof.
  intros HA E G F.
  assert (s_closes e = 1) as HC.
  { unfold InvA in HA. rewrite Forall_forall in HA. specialize (HA e (nth_error_In _ _ G)).
    unfold closes_ok in HA. rewrite F in HA. exact HA. }
  assert (forall s1 s2 j k, map_unsubscribe s1 j = (s2, k) -> get_sub s1 i = Some e ->
            exists e', get_sub s2 i = Some e' /\ s_delivered e' = s_delivered e /\ s_flag e' = true /\ s_closes e' = s_closes e) as HM.
  { intros s1 s2 j k M G1. unfold map_unsubscribe in M.
    destruct (get_sub s1 j) as [ej|] eqn:Gj; [|injection M as <- _; eauto].
    destruct (s_present ej); [|injection M as <- _; eauto].
    destruct (s_flag ej) eqn:Fj; [injection M as <- _; eauto|].
    injection M as <- _. unfold get_sub in *. cbn.
    destruct (Nat.eq_dec j i) as [->|N].
    - rewrite Gj in G1. injection G1 as ->. congruence.
    - rewrite nth_error_upd_other by exact N. eauto. }
  assert (forall f j, (forall x, s_delivered (f x) = s_delivered x /\ s_flag (f x) = s_flag x /\ s_closes (f x) = s_closes x) ->
            exists e', nth_error (upd (subs s) j f) i = Some e' /\ s_delivered e' = s_delivered e /\ s_flag e' = true /\ s_closes e' = s_closes e) as HU.
  { intros f j Hf. unfold get_sub in G. destruct (Nat.eq_dec j i) as [->|N].
    - rewrite nth_error_upd_same, G. cbn. destruct (Hf e) as (A & B & C). eexists. split; [reflexivity|]. repeat split; congruence.
    - rewrite nth_error_upd_other by exact N. eauto. }
  step_cases E; unfold get_sub in *;
    cbn [subs set_reader set_mutex set_err set_calls set_subs set_inbound set_frames set_panicked set_collected set_closing set_lost set_call push_frame];
    try (eexists; split; [eassumption | auto]; fail).
  all: try (apply HU; intro x; cbn; auto; fail).
  all: try (match goal with M : map_unsubscribe _ _ = (_, _) |- _ =>
              apply (HM _ _ _ _) in M; [destruct M as (e' & A & B & C & D); exists e'; auto | try (destruct fault); exact G] end; fail).
  - (* LCallSub *) rewrite nth_error_app1 by (apply nth_error_Some; congruence). eauto.
  - (* LRecv delivering: impossible on a closed channel unless another index *)
    match goal with
    | G2 : nth_error (subs s) ?i1 = Some ?x, Hl : (0 <? s_closes ?x) = false
      |- exists _, nth_error (upd _ ?i1 _) _ = _ /\ _ =>
        destruct (Nat.eq_dec i1 i) as [->|N];
        [ rewrite G in G2; injection G2 as <-; rewrite HC in Hl; discriminate Hl
        | rewrite nth_error_upd_other by exact N; eauto ]
    end.
Qed.

Lemma frozen_run s i e ls :
  InvA s -> get_sub s i = Some e -> s_flag e = true ->
  exists e', get_sub (fold_left step' ls s) i = Some e' /\ s_delivered e' = s_delivered e
             /\ s_flag e' = true /\ s_closes e' = s_closes e.
Proof.
  revert s e; induction ls as [|l ls IH]; intros s e HA G F; [eauto|].
  cbn. unfold step' at 2. destruct (step s l) as [s1|] eqn:E.
  - destruct (step_frozen s l s1 i e HA E G F) as (e1 & G1 & D1 & F1 & C1).
    destruct (IH s1 e1 (step_InvA _ _ _ HA E) G1 F1) as (e2 & G2 & D2 & F2 & C2).
    exists e2. repeat split; try congruence.
  - apply IH; assumption.
Qed.

(* an Unsubscribe that returns nil has ended the subscription: its entry is flagged (and so,
   by InvA, its channel closed exactly once) *)
Lemma unsubscribe_ok_ends s n i c s' :
  nth_error (calls s) n = Some (AUnsubWrite i) -> step s (LStep (TCall n) c false) = Some s' ->
  nth_error (calls s') n = Some (ADone true) ->
  exists e', get_sub s' i = Some e' /\ s_flag e' = true.
Proof.
  intros G E D. cbn [step] in E. unfold step_call in E. rewrite G in E.
  destruct (map_unsubscribe (push_frame s (WComplete i)) i) as [s1 k] eqn:M. injection E as <-.
  unfold set_call in D. cbn in D.
  pose proof (map_unsubscribe_frame _ _ _ _ M) as (_ & _ & _ & _ & _ & Hc & _).
  rewrite nth_error_upd_same in D. rewrite Hc in D. cbn in D. rewrite G in D. cbn in D.
  injection D as ->. unfold get_sub. cbn.
  unfold map_unsubscribe in M. cbn in M. unfold get_sub in M. cbn in M.
  destruct (nth_error (subs s) i) as [e|] eqn:Ge; [|discriminate].
  destruct (s_present e); [|discriminate].
  destruct (s_flag e) eqn:Fe; injection M as <-.
  - cbn. rewrite Ge. eauto.
  - cbn. rewrite nth_error_upd_same, Ge. cbn. eauto.
Qed.

(* ================= a boolean politeness checker (used for non-vacuity examples) ================= *)
Definition closes_target (s : st) (l : label) : option nat :=
  match l with
  | LStep (TCall n) choice fault =>
      match nth_error (calls s) n with
      | Some (AUnsubWrite j) => if fault then None else Some j
      | Some (ACloseUnsub _) => Some choice
      | _ => None
      end
  | _ => None
  end.

Definition polite_stepb (s : st) (l : label) : bool :=
  match closes_target s l with Some i => negb (inflight s i) | None => true end.

Lemma polite_stepb_sound s l : polite_stepb s l = true -> polite_step s l.
Proof.
  unfold polite_stepb, polite_step, closes_target, closes_chan. intros H i Hc.
  destruct l as [| | |t choice fault| | | |]; try discriminate Hc.
  destruct t as [|n]; try discriminate Hc.
  destruct (nth_error (calls s) n) as [[j|j|e|e|e|b]|]; try discriminate Hc.
  - destruct fault; cbn in Hc; [discriminate Hc|].
    apply Nat.eqb_eq in Hc. subst j. destruct (inflight s i); [discriminate H|reflexivity].
  - apply Nat.eqb_eq in Hc. subst choice. destruct (inflight s i); [discriminate H|reflexivity].
Qed.

Fixpoint polite_fromb (s : st) (ls : list label) : bool :=
  match ls with
  | [] => true
  | l :: r => polite_stepb s l && polite_fromb (step' s l) r
  end.

Lemma polite_fromb_sound ls : forall s, polite_fromb s ls = true -> polite_from s ls.
Proof.
  induction ls as [|l r IH]; intros s H; [exact I|].
  cbn [polite_fromb] in H. apply andb_prop in H. destruct H as [H1 H2].
  split; [apply polite_stepb_sound; exact H1 | apply IH; exact H2].
Qed.
