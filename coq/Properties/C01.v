(* C01 — every supported input is accepted and its output compiles.
   Models: Gen/Convert.v (what is generated) and Gen/Typing.v (the Go typing condition of the
   blocks the templates emit for fields that need special (un)marshaling). *)
From Verif Require Import Base.Str Gen.Gql Gen.Directive Gen.Convert Gen.Typing Proofs.DirectiveProofs Proofs.TypingProofs.

(* The (un)marshal blocks of unmarshal.go.tmpl / marshal.go.tmpl type-check iff the field's Go
   type is `[]`^SliceDepth around `[*]Unwrap`: the shape the templates assume ... *)
Theorem C01_unmarshal_block_typed_iff : forall W, unmarshal_block_ok W = true <-> W = assumed W.
Proof. exact unmarshal_block_ok_iff. Qed.
Print Assumptions C01_unmarshal_block_typed_iff.

Theorem C01_marshal_block_typed_iff : forall W, marshal_block_ok W = true <-> W = assumed W.
Proof. exact marshal_block_ok_iff. Qed.
Print Assumptions C01_marshal_block_typed_iff.

(* ... and for EVERY GraphQL type (any list nesting, induction on the type), every pointer /
   optional / use_struct_references setting, the Go type convertType builds around a named type
   makes the blocks type-check exactly when no generic wrapper is involved *)
Theorem C01_blocks_typed :
  forall cfg t o sk inner, is_named inner = true ->
    let W := doc_wrap cfg t o sk inner in
    unmarshal_block_ok W = negb (has_generic W).
Proof. exact doc_wrap_block_typed. Qed.
Print Assumptions C01_blocks_typed.

(* a generic wrapper arises exactly for `optional: generic` on a nullable named type when no
   pointer applies; then the blocks (emitted when the named type is an interface/union or has
   a custom (un)marshaler) do NOT type-check: the full "output always compiles" is REFUTED *)
Theorem C01_generic_wrapper_condition :
  forall cfg t o sk inner, is_named inner = true ->
    has_generic (doc_wrap cfg t o sk inner) =
      negb (cfg_struct_refs cfg && sk)
      && negb (negb (pointer_is_false o) && (get_b (d_pointer o) || negb (leaf_nonnull t) && (cfg_optional cfg =? 1)%N))
      && (negb (leaf_nonnull t) && (cfg_optional cfg =? 2)%N).
Proof. exact doc_wrap_has_generic. Qed.
Print Assumptions C01_generic_wrapper_condition.

Theorem C01_blocks_generic_refuted :
  exists cfg t o sk inner, is_named inner = true /\ unmarshal_block_ok (doc_wrap cfg t o sk inner) = false.
Proof.
  exists {| cfg_casing := {| Casing.cc_default := None; Casing.cc_all_enums := None; Casing.cc_enums := [] |};
            cfg_optional := 2; cfg_generic_type := b "example.com/opt.Option"; cfg_struct_refs := false; cfg_bindings := [] |},
         (TNamed (b "I") false), dir0, false, (GIface (b "QFI")).
  split; vm_compute; reflexivity.
Qed.
Print Assumptions C01_blocks_generic_refuted.

(* ================= import aliases (generate/imports.go) =================
   Every package the generated file refers to is imported under its own alias: for EVERY sequence
   of references, [run_refs] (the model of ref/addImportFor/makeIdentifier) never fails, gives
   pairwise distinct aliases to pairwise distinct paths, and the same alias again to a path it
   has seen; the search for a free alias (`pkg`, `pkg2`, `pkg3`, ...) terminates.  The model is
   tied to the code by replaying, in the kernel, the (path, alias) pairs the real addImportFor
   logged in every explored generation (Corr/Impcorr.v; verif hook). *)
From Verif Require Import Gen.Consts Gen.Imports Proofs.ImportsProofs.

Theorem C01_import_aliases_are_distinct :
  forall paths st al, run_refs paths = Ok (st, al) ->
  NoDup (map snd (imps st)) /\ NoDup (map fst (imps st))
  /\ (forall p a, In (p, a) (imps st) -> In a (used st)) /\ List.length al = List.length paths.
Proof. exact run_refs_invariant. Qed.
Print Assumptions C01_import_aliases_are_distinct.

Theorem C01_import_allocation_is_total :
  forall paths, exists st al, run_refs paths = Ok (st, al).
Proof. exact run_refs_total. Qed.
Print Assumptions C01_import_allocation_is_total.

Theorem C01_alias_search_terminates :
  forall base used, pick (S (List.length used)) base 2 used base <> OutOfFuel.
Proof. exact pick_never_out_of_fuel. Qed.
Print Assumptions C01_alias_search_terminates.

Theorem C01_same_path_same_alias :
  forall paths st al i j p q a a', run_refs paths = Ok (st, al) ->
  nth_error paths i = Some p -> nth_error paths j = Some q ->
  nth_error al i = Some a -> nth_error al j = Some a' -> (p = q <-> a = a').
Proof. exact run_refs_alias_iff_path. Qed.
Print Assumptions C01_same_path_same_alias.

(* an alias is a usable Go identifier (letters, digits, `_`, not starting with a digit) ... *)
Theorem C01_alias_is_name_shaped :
  forall s, exists c r, make_identifier s = c :: r /\ name_start c = true /\ is_digit c = false /\ forallb name_cont r = true.
Proof. exact make_identifier_is_usable. Qed.
Print Assumptions C01_alias_is_name_shaped.

(* ... except that it can be a Go KEYWORD: makeIdentifier's documentation ("returns a valid go
   identifier") is refuted for a last path segment such as `type` or `go` (token.IsIdentifier
   rejects the keyword, the munging loop then keeps every letter).  The exact characterisation: *)
Theorem C01_alias_can_be_a_keyword_refuted :
  (exists s, is_identifier (make_identifier s) = false)
  /\ (forall s, is_identifier (make_identifier s) = false <-> In (munge false s) go_keywords).
Proof. split; [exact make_identifier_keyword_refuted | exact make_identifier_fails_iff]. Qed.
Print Assumptions C01_alias_can_be_a_keyword_refuted.

(* ================= no dangling type reference at the converter's interfaces ================= *)
From Verif Require Import Gen.Gql Gen.Directive Gen.Convert Proofs.ConvertFuel Proofs.ConvertExt Proofs.ConvertBound.

(* every Go type that one of the four mutually recursive converter functions returns, and every
   field type of a field list that convert_selection_set returns, names a declaration that is in
   the returned type map (for every schema, configuration, fragment table, source text, fuel) *)
Theorem C01_returned_types_are_declared :
  forall sch cfg frags srcs f,
    (forall src prefix t sels opts Q tm, post (fun tm' r => bound tm' (fst r)) (convert_type sch cfg frags srcs f src prefix t sels opts Q tm))
    /\ (forall src prefix def sels opts Q tm, post (fun tm' g => bound tm' g) (convert_definition sch cfg frags srcs f src prefix def sels opts Q tm))
    /\ (forall src prefix sels containing Q tm, post (fun tm' fs => fields_bound tm' fs) (convert_selection_set sch cfg frags srcs f src prefix sels containing Q tm))
    /\ (forall fr tm, post (fun tm' g => bound tm' g) (convert_named_fragment sch cfg frags srcs f fr tm)).
Proof. exact convert_bound. Qed.
Print Assumptions C01_returned_types_are_declared.

(* ... and, because no declaration is ever removed (Proofs/ConvertExt.v), at the end of a run the
   input struct and the response type of EVERY operation -- the types the generated helper
   functions mention -- are declared in the final type map *)
Theorem C01_operation_types_are_declared :
  forall sch cfg frags srcs ops tm infos,
    generate_types sch cfg frags srcs ops = Ok (tm, infos) -> Forall (op_declared tm) infos.
Proof. exact generate_types_operation_types_declared_FUEL. Qed.
Print Assumptions C01_operation_types_are_declared.

(* ================= no dangling type reference inside the declarations ================= *)
From Verif Require Import Proofs.ConvertClosed.

(* the type map stays field-closed through every step of the converter: if every field type of
   every struct declaration and every shared-field type of every interface declaration names a
   declaration of the map before a call, so it does in the map the call returns *)
Theorem C01_converter_keeps_the_type_map_closed :
  forall sch cfg frags srcs f,
    (forall src prefix t sels opts Q tm, cp tm (convert_type sch cfg frags srcs f src prefix t sels opts Q tm))
    /\ (forall src prefix def sels opts Q tm, cp tm (convert_definition sch cfg frags srcs f src prefix def sels opts Q tm))
    /\ (forall src prefix sels containing Q tm, cp tm (convert_selection_set sch cfg frags srcs f src prefix sels containing Q tm))
    /\ (forall fr tm, cp tm (convert_named_fragment sch cfg frags srcs f fr tm)).
Proof. exact convert_closed. Qed.
Print Assumptions C01_converter_keeps_the_type_map_closed.

(* whenever generation succeeds -- every schema, configuration, fragment table, source text and
   operation list -- no struct field and no interface getter of ANY generated declaration mentions
   a struct, interface, enum or alias type that the file does not declare *)
Theorem C01_declarations_mention_only_declared_types :
  forall sch cfg frags srcs ops tm infos,
    generate_types sch cfg frags srcs ops = Ok (tm, infos) ->
    forall n d, assoc n tm = Some d -> Forall (fun fl => bound tm (gf_type fl)) (decl_fields d).
Proof. intros sch cfg frags srcs ops tm infos H. exact (generate_types_closed_FUEL _ _ _ _ _ _ _ H). Qed.
Print Assumptions C01_declarations_mention_only_declared_types.

(* non-vacuity: the witness program generates and has struct fields of declared struct types *)
Theorem C01_closedness_witness :
  exists tm infos, generate_types ConvertFuel.t_schema ConvertProofs.w_cfg ConvertFuel.t_frags [] [ConvertFuel.t_op] = Ok (tm, infos) /\ closedF tm
    /\ exists n d fl m, assoc n tm = Some d /\ In fl (decl_fields d) /\ unwrap (gf_type fl) = GStruct m.
Proof. exact t_closed_witness. Qed.
Print Assumptions C01_closedness_witness.

(* ================= ... and in the interface declarations ================= *)
From Verif Require Import Proofs.ConvertImpls.

(* not an invariant of single steps (convert_named_fragment registers an interface with the names
   of its implementation structs BEFORE it generates them); what every call satisfies is a frame
   statement: the map is extended, and a declaration of the returned map is either a declaration
   of the incoming map, unchanged, or lists declared implementations only *)
Theorem C01_converter_registers_every_listed_implementation :
  forall sch cfg frags srcs f,
    (forall src prefix t sels opts Q tm, T tm (convert_type sch cfg frags srcs f src prefix t sels opts Q tm))
    /\ (forall src prefix def sels opts Q tm, T tm (convert_definition sch cfg frags srcs f src prefix def sels opts Q tm))
    /\ (forall src prefix sels containing Q tm, T tm (convert_selection_set sch cfg frags srcs f src prefix sels containing Q tm))
    /\ (forall fr tm, T tm (convert_named_fragment sch cfg frags srcs f fr tm)).
Proof. exact convert_impls. Qed.
Print Assumptions C01_converter_registers_every_listed_implementation.

(* whenever generation succeeds, every implementation that an interface declaration lists -- the
   arms of its generated __unmarshal / __marshal type switch -- is declared in the file *)
Theorem C01_interface_implementations_are_declared :
  forall sch cfg frags srcs ops tm infos,
    generate_types sch cfg frags srcs ops = Ok (tm, infos) ->
    forall n d, assoc n tm = Some d -> Forall (fun i => assoc i tm <> None) (impls_of d).
Proof. exact generate_types_impls_declared_FUEL. Qed.
Print Assumptions C01_interface_implementations_are_declared.

Theorem C01_implementations_witness :
  exists tm infos, generate_types ConvertFuel.t_schema ConvertProofs.w_cfg ConvertFuel.t_frags [] [ConvertFuel.t_op] = Ok (tm, infos)
    /\ existsb (fun nd => match impls_of (snd nd) with [] => false | _ => true end) tm = true.
Proof. exact t_impls_witness. Qed.
Print Assumptions C01_implementations_witness.
