(* C01 — every supported input is accepted and its output compiles.
   Models: Gen/Convert.v (what is generated) and Gen/Typing.v (the Go typing condition of the
   blocks the templates emit for fields that need special (un)marshaling). *)
From Verif Require Import Base.Str Gen.Gql Gen.Directive Gen.Convert Gen.Typing Proofs.DirectiveProofs Proofs.TypingProofs.

(* The (un)marshal blocks of unmarshal.go.tmpl / marshal.go.tmpl type-check iff the field's Go
   type is `[]`^SliceDepth around `[*]Unwrap`: the shape the templates assume ... *)
Theorem C01_unmarshal_block_typed_iff : forall W, unmarshal_block_ok W = true <-> W = assumed W.
Proof. exact unmarshal_block_ok_iff. Qed.
Print Assumptions C01_unmarshal_block_typed_iff.

Theorem C01_marshal_block_typed_iff : forall W, marshal_block_ok W = true <-> W = assumed W.
Proof. exact marshal_block_ok_iff. Qed.
Print Assumptions C01_marshal_block_typed_iff.

(* ... and for EVERY GraphQL type (any list nesting, induction on the type), every pointer /
   optional / use_struct_references setting, the Go type convertType builds around a named type
   makes the blocks type-check exactly when no generic wrapper is involved *)
Theorem C01_blocks_typed :
  forall cfg t o sk inner, is_named inner = true ->
    let W := doc_wrap cfg t o sk inner in
    unmarshal_block_ok W = negb (has_generic W).
Proof. exact doc_wrap_block_typed. Qed.
Print Assumptions C01_blocks_typed.

(* a generic wrapper arises exactly for `optional: generic` on a nullable named type when no
   pointer applies; then the blocks (emitted when the named type is an interface/union or has
   a custom (un)marshaler) do NOT type-check: the full "output always compiles" is REFUTED *)
Theorem C01_generic_wrapper_condition :
  forall cfg t o sk inner, is_named inner = true ->
    has_generic (doc_wrap cfg t o sk inner) =
      negb (cfg_struct_refs cfg && sk)
      && negb (negb (pointer_is_false o) && (get_b (d_pointer o) || negb (leaf_nonnull t) && (cfg_optional cfg =? 1)%N))
      && (negb (leaf_nonnull t) && (cfg_optional cfg =? 2)%N).
Proof. exact doc_wrap_has_generic. Qed.
Print Assumptions C01_generic_wrapper_condition.

Theorem C01_blocks_generic_refuted :
  exists cfg t o sk inner, is_named inner = true /\ unmarshal_block_ok (doc_wrap cfg t o sk inner) = false.
Proof.
  exists {| cfg_casing := {| Casing.cc_default := None; Casing.cc_all_enums := None; Casing.cc_enums := [] |};
            cfg_optional := 2; cfg_generic_type := b "example.com/opt.Option"; cfg_struct_refs := false; cfg_bindings := [] |},
         (TNamed (b "I") false), dir0, false, (GIface (b "QFI")).
  split; vm_compute; reflexivity.
Qed.
Print Assumptions C01_blocks_generic_refuted.
