(* C02 — generated response types decode every spec-conformant response faithfully.
   Model: Rt/JsonDecode.v on the declarations of Gen/Convert.v. *)
From Verif Require Import Base.Str Gen.Consts Gen.Gql Gen.Directive Gen.Convert Rt.JsonDecode Proofs.JsonProofs
  Proofs.SecondPassProofs.

(* each interface/union value holds the Go struct generated for the response's __typename, and
   its content is the same object decoded as that struct *)
Theorem C02_abstract_value_holds_the_struct_for_its_typename :
  forall tm fuel i kvs cur v,
  unmarshal_iface tm true fuel i (JObj kvs) cur = Ok v ->
  exists f g sh impls sel tn impl d x,
    fuel = S f /\ assoc i tm = Some (DIface g sh impls sel)
    /\ scan_typename kvs [] = Ok tn /\ tn <> []
    /\ In impl impls /\ assoc impl tm = Some d /\ decl_gql d = tn
    /\ decode tm true f (GStruct impl) (JObj kvs) (VStruct impl []) = Ok x
    /\ v = VIface impl x.
Proof. exact iface_dispatch. Qed.
Print Assumptions C02_abstract_value_holds_the_struct_for_its_typename.

(* nothing is dropped or moved: the value under a response key is decoded into the Go field the
   key resolves to and is what that field holds afterwards, whatever the other keys are, as long
   as no later key resolves to the same Go field *)
Theorem C02_value_readable_at_its_field :
  forall dec fields pre k v post acc fs fl,
    obj_loop dec fields (pre ++ (k, v) :: post) acc = Ok fs ->
    target fields k = Some fl ->
    (forall k' v' fl', In (k', v') post -> target fields k' = Some fl' -> field_key fl' <> field_key fl) ->
    exists acc' x,
      obj_loop dec fields pre acc = Ok acc'
      /\ dec (gf_type fl) v (get_field acc' (field_key fl) (zero_of (gf_type fl))) = Ok x
      /\ forall d, get_field fs (field_key fl) d = x.
Proof. exact obj_loop_reads. Qed.
Print Assumptions C02_value_readable_at_its_field.

Theorem C02_unknown_keys_are_ignored :
  forall dec fields k v r acc,
    target fields k = None -> obj_loop dec fields ((k, v) :: r) acc = obj_loop dec fields r acc.
Proof. exact obj_loop_ignores_unknown. Qed.
Print Assumptions C02_unknown_keys_are_ignored.

(* nulls: nil pointer, nil slice, untouched (nil) interface, untouched (zero) scalar and struct *)
Theorem C02_null_rules :
  (forall tm w f e cur, decode tm w (S f) (GPtr e) JNull cur = Ok VNilPtr)
  /\ (forall tm w f e cur, decode tm w (S f) (GSlice e) JNull cur = Ok VNilSlice)
  /\ (forall tm w f i cur, decode tm w (S (S f)) (GIface i) JNull cur = Ok cur)
  /\ (forall k cur, decode_scalar k JNull cur = Ok (match k with KAny => VZero (* nil map *) | _ => cur end)).
Proof. repeat split; try reflexivity. exact null_into_scalar. Qed.
Print Assumptions C02_null_rules.

(* PARTIAL / REFUTED part of the statement: "nulls become nil slices" is false for a list of
   abstract (or custom-unmarshaled) values: the generated code captures the list as raw
   messages and allocates `make([]T, 0)` (known finding C02/null-list-becomes-empty-slice) *)
Theorem C02_null_list_becomes_nil_slice_refuted :
  exists tm t j n fld,
    decode tm true 10 t j (VStruct n []) = Ok (VStruct n [(fld, VSlice [])])
    /\ j = JObj [(b "items", JNull)].
Proof. exact null_list_becomes_nil_refuted. Qed.
Print Assumptions C02_null_list_becomes_nil_slice_refuted.

Theorem C02_null_list_mechanism :
  forall tm w f k ptr leaf cur,
  capture (S k) JNull = Ok RNilList /\ fill tm w (S f) (S k) ptr leaf RNilList cur = Ok (VSlice []).
Proof. exact null_list_of_special_gives_empty_slice. Qed.
Print Assumptions C02_null_list_mechanism.

Theorem C02_witness :
  decode w_tm true 10 (GStruct (b "QResponse")) w_resp_two (VStruct (b "QResponse") [])
  = Ok (VStruct (b "QResponse") [(b "Items", VSlice [VIface (b "QItemsB") (VStruct (b "QItemsB") [(b "Typename", VScalar (JStr (b "B")))]);
                                                     VIface (b "QItemsA") (VStruct (b "QItemsA") [(b "Typename", VScalar (JStr (b "A"))); (b "Id", VScalar (JStr (b "7")))])])]).
Proof. exact w_two_ok. Qed.
Print Assumptions C02_witness.

(* "... and in every embedded fragment struct that selects that key": each embedded fragment
   struct is decoded from the SAME object as the struct that embeds it, and that is what the
   struct holds for it afterwards *)
Theorem C02_embedded_fragment_gets_the_same_object :
  forall dec filler j caps pre fl post acc fs,
    second_pass dec filler j caps (pre ++ fl :: post) acc = Ok fs ->
    special fl = true -> gf_name fl = [] ->
    (forall fl', In fl' post -> special fl' = true -> sp_key fl' <> field_key fl) ->
    exists acc' x,
      second_pass dec filler j caps pre acc = Ok acc'
      /\ dec (unwrap (gf_type fl)) j (get_field acc' (field_key fl) (zero_of (unwrap (gf_type fl)))) = Ok x
      /\ forall d, get_field fs (field_key fl) d = x.
Proof. exact embedded_fragment_gets_the_same_object. Qed.
Print Assumptions C02_embedded_fragment_gets_the_same_object.

(* an abstract or custom-unmarshaled field is filled from the raw message captured under ITS
   response key (an absent key leaves the zero value) *)
Theorem C02_special_field_filled_from_its_capture :
  forall dec filler j caps pre fl post acc fs ch nm,
    second_pass dec filler j caps (pre ++ fl :: post) acc = Ok fs ->
    special fl = true -> gf_name fl = ch :: nm ->
    (forall fl', In fl' post -> special fl' = true -> sp_key fl' <> ch :: nm) ->
    exists acc' x,
      second_pass dec filler j caps pre acc = Ok acc'
      /\ filler (sdepth (gf_type fl)) (ispointer (gf_type fl)) (unwrap (gf_type fl))
                (match assoc (ch :: nm) caps with Some c => c | None => RAbsent end)
                (get_field acc' (ch :: nm) (zero_of (gf_type fl))) = Ok x
      /\ forall d, get_field fs (ch :: nm) d = x.
Proof. exact special_field_filled_from_its_capture. Qed.
Print Assumptions C02_special_field_filled_from_its_capture.

(* ================= "unmarshaling succeeds" =================
   [conforms tm t j] (Proofs/DecodeConforms.v) says that the JSON value j has the shape the Go
   type t expects: scalars of the right kind or null; null or a conforming value under a pointer;
   null or an array of conforming values for a slice; for a struct an object in which EVERY
   occurrence of a key that resolves to a field conforms to that field's type, which conforms as
   a whole to every embedded fragment struct, and whose special fields have list-shaped captures
   with conforming leaves; for an abstract type null or an object whose `__typename` names an
   implementation it conforms to.  Conformance is EXACTLY success of the generated decoders: *)
From Verif Require Import Rt.Acyclic Proofs.DecodeTerm Proofs.DecodeConforms.

Theorem C02_conformant_responses_decode :
  forall tm t j, conforms tm t j <-> exists m v, decode tm true m t j (zero_of t) = Ok v.
Proof. exact conforms_iff_decodes. Qed.
Print Assumptions C02_conformant_responses_decode.

(* ... and for every type map without a cycle of embedded structs / implementations the outcome is
   decided: from some fuel on the decoder returns a value exactly on conformant input and an
   ERROR (never a panic, never divergence) exactly on everything else, whatever value it decodes into *)
Theorem C02_value_iff_conformant_error_otherwise :
  forall tm, same_json_acyclic tm -> forall t j cur, exists n,
    (conforms tm t j /\ exists v, forall m, (n <= m)%nat -> decode tm true m t j cur = Ok v)
    \/ (~ conforms tm t j /\ exists e, forall m, (n <= m)%nat -> decode tm true m t j cur = Err e).
Proof. exact conforms_or_error. Qed.
Print Assumptions C02_value_iff_conformant_error_otherwise.

(* the executable form: at every fuel, "the model decoder returns a value" IS the conformance
   check; the correspondence compares exactly this bit (and the value) with what the compiled
   generated code did on every response of the reference executor *)
Theorem C02_conformance_is_checked_per_response :
  (forall tm n t j cur, is_ok (decode tm true n t j cur) = conformsb tm n t j)
  /\ (forall tm n t j, conformsb tm n t j = true -> conforms tm t j).
Proof. split; [exact decode_is_ok_conformsb | exact conformsb_sound]. Qed.
Print Assumptions C02_conformance_is_checked_per_response.

(* non-vacuity: the two-type response of C02_witness conforms; one with an unknown __typename does
   not; an ill-shaped EARLIER duplicate of a key is an error although a later duplicate overwrites it *)
Theorem C02_conformance_witness :
  conforms JsonProofs.w_tm (GStruct (b "QResponse")) JsonProofs.w_resp_two
  /\ ~ conforms JsonProofs.w_tm (GStruct (b "QResponse")) JsonProofs.w_resp_bad
  /\ ~ conforms JsonProofs.w_tm (GStruct (b "QItemsA")) dup_early.
Proof. split; [exact w_two_conforms|]. split; [exact w_bad_not_conforms | exact (proj1 dup_early_ill_shaped_errs)]. Qed.
