(* C03 — the document sent to the server is the user's operation plus only __typename.
   Model: Gen/Doc.v (generate.go usedFragments + preprocessQueryDocument) over Gen/Gql.v. *)
From Verif Require Import Base.Str Gen.Gql Gen.Doc Proofs.DocProofs.

(* usedFragments terminates for ANY fragment table (no acyclicity assumed), returns no fragment
   twice, and returns exactly the fragments reachable from the operation through spreads *)
Theorem C03_closure :
  forall fs sels, exists r, used_fragments fs sels = Some r
    /\ NoDup r /\ forall n, In n r <-> reach fs (spreads_of sels) n.
Proof. exact used_fragments_closure. Qed.
Print Assumptions C03_closure.

(* Removing the synthesised __typename fields from the preprocessed selection sets gives back
   the user's selection sets EXACTLY (every name, alias, argument, directive, type condition,
   spread, and their order): nothing else was added, dropped or reordered. *)
Theorem C03_only_typename_added :
  forall sch l, forallb user_sel l = true -> strip_sels (pre_sels sch l) = l.
Proof. exact strip_pre_sels. Qed.
Print Assumptions C03_only_typename_added.

(* ... the addition is a leading field, made only on interface/union-typed fields that do not
   select __typename directly (relation [ext]) ... *)
Theorem C03_typename_placement : forall sch s, ext sch s (pre_sel sch s).
Proof. exact pre_ext. Qed.
Print Assumptions C03_typename_placement.

(* ... and afterwards every such field does select __typename directly *)
Theorem C03_typename_everywhere_needed :
  forall sch, is_abstract sch (b "String") = false ->
    forall s, typenames_ok sch (pre_sel sch s) = true.
Proof. exact pre_typenames_ok. Qed.
Print Assumptions C03_typename_everywhere_needed.

(* preprocessing is idempotent: the AST shared between operations can be preprocessed by any
   number of earlier operations without changing what a later one emits *)
Theorem C03_idempotent_shared :
  forall sch, is_abstract sch (b "String") = false ->
    forall s, pre_sel sch (pre_sel sch s) = pre_sel sch s.
Proof. exact pre_idempotent. Qed.
Print Assumptions C03_idempotent_shared.
