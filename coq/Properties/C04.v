(* C04 — each helper call sends one request whose variables are valid and faithful.
   Model: Rt/JsonEncode.v run on the hidden __<Op>Input struct and the input-object structs that
   Gen/Convert.v (convert_arguments) produces. *)
From Verif Require Import Base.Str Gen.Consts Gen.Gql Gen.Directive Gen.Convert Rt.JsonDecode Rt.JsonEncode
  Proofs.JsonProofs Proofs.EncodeProofs Proofs.ArgsProofs.
From Coq Require Import ZArith.

(* the variables object has a key only for declared variables, each at most once *)
Theorem C04_keys_only_for_declared_variables :
  forall tm f n v kvs g fields s i,
  assoc n tm = Some (DStruct g fields s i) ->
  (forall fl, In fl fields -> gf_name fl <> []) ->
  encode_struct tm (S f) n v = Ok kvs ->
  NoDup (map fst kvs) /\ forall k, In k (map fst kvs) -> In k (map gf_json fields).
Proof. exact input_struct_keys. Qed.
Print Assumptions C04_keys_only_for_declared_variables.

(* a variable or input field is omitted EXACTLY when it is marked omitempty and its Go value is
   empty in the encoding/json sense; nothing else is omitted *)
Theorem C04_omitted_exactly_when_marked_and_empty :
  forall enc enci v fls out,
  enc_fields enc enci v fls = Ok out ->
  NoDup (map (fun p => gf_json (fst p)) fls) ->
  forall fl path, In (fl, path) fls -> special fl = false ->
  (In (gf_json fl) (map fst out)
   <-> gf_omitempty fl && is_empty (gf_type fl) (struct_field (select_path v path) (gf_name fl)) = false).
Proof. exact ordinary_field_omitted_iff_empty. Qed.
Print Assumptions C04_omitted_exactly_when_marked_and_empty.

Theorem C04_empty_is_the_encoding_json_notion :
  (forall t, is_empty t VNilPtr = true) /\ (forall t, is_empty t VNilSlice = true) /\ (forall t, is_empty t VNilIface = true)
  /\ (forall t, is_empty t (VSlice []) = true) /\ (forall t x l, is_empty t (VSlice (x :: l)) = false)
  /\ (forall t x, is_empty t (VPtr x) = false)
  /\ (forall t, is_empty t (VScalar (JStr [])) = true) /\ (forall t c s, is_empty t (VScalar (JStr (c :: s))) = false)
  /\ (forall t i, is_empty t (VScalar (JNum 0%Z i)) = true) /\ (forall t, is_empty t (VScalar (JBool false)) = true)
  /\ (forall t, is_empty t (VScalar (JBool true)) = false)
  /\ (forall n fs, is_empty (GStruct n) (VStruct n fs) = false) /\ (forall n, is_empty (GStruct n) VZero = false).
Proof. exact is_empty_spec. Qed.
Print Assumptions C04_empty_is_the_encoding_json_notion.

(* nil pointers and unset optionals (nil slices) are sent as null *)
Theorem C04_nil_is_null :
  forall tm f e, encode tm (S f) (GPtr e) VNilPtr = Ok JNull /\ encode tm (S f) (GSlice e) VNilSlice = Ok JNull.
Proof. exact nil_is_null. Qed.
Print Assumptions C04_nil_is_null.

(* the documented exception for types with a custom marshaler *)
Theorem C04_custom_marshaler_exception :
  forall v, special_empty O false v = false /\ special_empty O true VNilPtr = true /\ (forall x, special_empty O true (VPtr x) = false).
Proof. exact custom_marshaled_omission. Qed.
Print Assumptions C04_custom_marshaler_exception.

(* custom marshalers are applied to every element at every list depth *)
Theorem C04_marshaler_reaches_every_element :
  forall n leaf v j,
  enc_levels n leaf v = Ok j ->
  match n, v with
  | O, _ => leaf v = Ok j
  | S k, VSlice l => exists js, map_res (enc_levels k leaf) l = Ok js /\ j = JArr js
  | S _, _ => j = JArr []
  end.
Proof. exact enc_levels_maps_leaf. Qed.
Print Assumptions C04_marshaler_reaches_every_element.

(* read from operation.go.tmpl of /repo's current tree by the translator: one MakeRequest call *)
Theorem C04_template_makes_one_request : tmpl_operation_single_make_request = true.
Proof. reflexivity. Qed.
Print Assumptions C04_template_makes_one_request.

(* REFUTED part: "nil ... as null" fails for a nil slice whose elements have a custom marshaler:
   the generated loop allocates make([]json.RawMessage, 0) and the variable is sent as []
   (known finding C04/nil-slice-of-custom-marshaled-sent-as-empty-list) *)
Theorem C04_nil_slice_of_custom_marshaled_refuted :
  forall k leaf, enc_levels (S k) leaf VNilSlice = Ok (JArr []).
Proof. reflexivity. Qed.
Print Assumptions C04_nil_slice_of_custom_marshaled_refuted.

(* the converter side of "a key only for declared variables": the hidden __<Op>Input struct that
   convertArguments builds has exactly one field per declared variable, in declaration order,
   whose JSON name and GraphQL name are the variable's name (with C04_keys_only_for_declared_variables:
   the variables object has keys only for declared variables) *)
Theorem C04_one_struct_field_per_declared_variable :
  forall sch cfg frags srcs o Q tm n tm',
    convert_arguments sch cfg frags srcs o Q tm = Ok (Some n, tm') ->
    n = b "__" ++ op_name o ++ b "Input"
    /\ exists fields tm1,
         map gf_json fields = map vd_name (op_vars o)
         /\ map gf_gql fields = map vd_name (op_vars o)
         /\ Forall (fun v => mem_str (vd_name v) go_keywords = false) (op_vars o)
         /\ add_type tm1 n (DStruct n fields [] true) = Ok (GStruct n, tm').
Proof. exact input_struct_has_one_field_per_variable. Qed.
Print Assumptions C04_one_struct_field_per_declared_variable.

Theorem C04_no_variables_no_struct :
  forall sch cfg frags srcs o Q tm, op_vars o = [] -> convert_arguments sch cfg frags srcs o Q tm = Ok (None, tm).
Proof. exact no_variables_no_struct. Qed.
Print Assumptions C04_no_variables_no_struct.
