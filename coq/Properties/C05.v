(* C05 — operations that do not validate against the schema are always rejected.
   Model: Gen/Pipeline.v; the validator's verdict V is a parameter (gqlparser, third party):
   what is proved is that genqlient hands it everything and obeys it. *)
From Verif Require Import Base.Str Gen.Consts Gen.Pipeline Proofs.PipelineProofs.

(* A successful run certifies: the validator accepted ONE document containing every definition
   of every matched operations file and of every `# @genqlient` literal of every matched Go
   file; no matched file was skipped; every operation is named, is not a Go keyword and was
   converted. *)
Theorem C05_all_validated :
  forall V conv srcs out,
    generate V conv srcs = GOk out ->
    V (collect srcs) = true
    /\ (forall s, In s srcs -> src_bad s = false)
    /\ (forall s d, In s srcs -> In d (src_defs s) -> In d (collect srcs))
    /\ (forall o, In o (collect srcs) -> d_op o = true ->
          d_name o <> [] /\ mem_str (d_name o) go_keywords = false /\ conv (frags_of (collect srcs)) o <> None)
    /\ ops_of (collect srcs) <> [].
Proof. exact generate_ok_certifies. Qed.
Print Assumptions C05_all_validated.

Theorem C05_literals_included :
  forall n lits lit d, In lit lits -> In d lit -> In d (src_defs (SGo n lits)).
Proof. exact go_literal_defs_collected. Qed.
Print Assumptions C05_literals_included.

(* If the validator rejects the merged document, or an operation is anonymous or named by a Go
   keyword, or a matched file cannot be used, the run fails and produces no output. *)
Theorem C05_reject :
  forall V conv srcs,
    (V (collect srcs) = false
     \/ (exists o, In o (collect srcs) /\ d_op o = true /\ (d_name o = [] \/ mem_str (d_name o) go_keywords = true))
     \/ (exists s, In s srcs /\ src_bad s = true)) ->
    exists e, generate V conv srcs = GErr e.
Proof. exact generate_rejects. Qed.
Print Assumptions C05_reject.
