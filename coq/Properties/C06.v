(* C06 — generated types round-trip through JSON and re-marshal to what they decoded.
   Model: Rt/JsonEncode.v (FlattenedFields, __premarshal / MarshalJSON, __marshal<Interface>) over
   Rt/JsonDecode.v and the declarations of Gen/Convert.v. *)
From Verif Require Import Base.Str Gen.Consts Gen.Gql Gen.Directive Gen.Convert Rt.JsonDecode Rt.JsonEncode
  Proofs.JsonProofs Proofs.EncodeProofs Proofs.RoundTrip.

(* FlattenedFields picks exactly one Go field per JSON name, for EVERY typemap and struct
   (however many embedded fragment structs carry the name) *)
Theorem C06_one_field_per_json_name :
  forall tm fields out, flattened_fields tm fields = Ok out -> NoDup (map (fun p => gf_json (fst p)) out).
Proof. exact flattened_fields_one_per_json_name. Qed.
Print Assumptions C06_one_field_per_json_name.

(* hence every key occurs exactly once in the JSON object a struct marshals to *)
Theorem C06_each_key_once :
  forall tm fuel n v kvs, encode_struct tm fuel n v = Ok kvs -> NoDup (map fst kvs).
Proof. exact encode_struct_keys_once. Qed.
Print Assumptions C06_each_key_once.

(* an abstract value marshals with `__typename` = the GraphQL name of its concrete type,
   exactly once, and every other key at most once *)
Theorem C06_typename_present_once :
  forall tm fuel i impl x j,
  encode_iface tm fuel i (VIface impl x) = Ok j ->
  exists d kvs, assoc impl tm = Some d
    /\ j = JObj ((typename_name, JStr (decl_gql d)) :: kvs)
    /\ ~ In typename_name (map fst kvs)
    /\ NoDup (map fst ((typename_name, JStr (decl_gql d)) :: kvs)).
Proof. exact encode_iface_typename. Qed.
Print Assumptions C06_typename_present_once.

(* non-vacuity + the round trip on a concrete program with two concrete types *)
Theorem C06_witness_roundtrip :
  exists j' v, redecode w_tm (GStruct (b "QResponse")) (b "QResponse") w_resp_two = Ok (j', v, v)
    /\ j' = JObj [(b "items", JArr [JObj [(b "__typename", JStr (b "B"))];
                                     JObj [(b "__typename", JStr (b "A")); (b "id", JStr (b "7"))]])].
Proof. exact w_two_roundtrip. Qed.
Print Assumptions C06_witness_roundtrip.

(* REFUTED part: null for a list of abstract values re-marshals as [] (not "up to the documented
   null-versus-zero loss at NON-POINTER nullable positions": a slice could hold nil), known
   finding C06/null-list-reencoded-as-empty-list *)
Theorem C06_null_list_roundtrip_refuted :
  exists tm t n j j' v v',
    redecode tm t n j = Ok (j', v, v')
    /\ j = JObj [(b "items", JNull)] /\ j' = JObj [(b "items", JArr [])].
Proof. exact null_list_roundtrip_refuted. Qed.
Print Assumptions C06_null_list_roundtrip_refuted.

(* the round trip as a theorem for the wrapper algebra of leaf types: for every list depth, with
   or without a pointer, over every scalar-like type, marshaling a value that decoding can
   produce and unmarshaling the result gives the value back (no bound on depth or length) *)
Theorem C06_wrapper_roundtrip :
  forall tm w v t f cur,
  wrapper_type tm t = true -> canonical tm t v -> (gsize v < f)%nat ->
  exists j, encode tm f t v = Ok j /\ decode tm w f t j cur = Ok v.
Proof. exact wrapper_roundtrip. Qed.
Print Assumptions C06_wrapper_roundtrip.

Theorem C06_wrapper_roundtrip_witness :
  let t := GSlice (GSlice (GPtr (GOpaque (b "string") (b "String") [] []))) in
  let v := VSlice [VSlice [VPtr (VScalar (JStr (b "a"))); VNilPtr]; VNilSlice; VSlice []] in
  wrapper_type [] t = true /\ canonical [] t v
  /\ encode [] 10 t v = Ok (JArr [JArr [JStr (b "a"); JNull]; JNull; JArr []])
  /\ decode [] true 10 t (JArr [JArr [JStr (b "a"); JNull]; JNull; JArr []]) VZero = Ok v.
Proof. exact wrapper_roundtrip_example. Qed.
Print Assumptions C06_wrapper_roundtrip_witness.

(* ================= the round trip for STRUCTS (Proofs/StructRoundTrip.v) =================
   Equality is [gnorm v' = gnorm v], the normal form the correspondence compares with: the order
   of a struct value's association list follows the JSON key order and an unlisted field is the
   zero value; Go cannot observe either. *)
From Verif Require Import Corr.Rtcorr Proofs.StructRoundTrip.

(* the generated INPUT types (and every response type without fragments and abstract fields):
   structs of named, non-special fields whose types are scalars or such structs again under
   slices and an optional pointer ([plain_decls]; recursive types allowed).  For every value
   unmarshaling can produce ([cval]), marshaling succeeds and unmarshaling the result into the
   zero value gives the value back, whenever the fuel suffices for marshaling ... *)
Theorem C06_plain_struct_roundtrip :
  forall tm w good, plain_decls tm good -> forall f t v,
  ptype tm good t -> cval tm t v -> encode tm f t v <> OutOfFuel ->
  exists j v', encode tm f t v = Ok j /\ decode tm w f t j (zero_of t) = Ok v' /\ gnorm v' = gnorm v.
Proof. exact plain_roundtrip. Qed.
Print Assumptions C06_plain_struct_roundtrip.

(* ... and such a fuel exists when no struct contains itself by value (which Go rejects) *)
Theorem C06_plain_struct_roundtrip_enough_fuel :
  forall tm good, plain_decls tm good -> by_value_acyclic tm good -> forall w t v,
  ptype tm good t -> cval tm t v ->
  exists f0, forall f, (f0 <= f)%nat ->
  exists j v', encode tm f t v = Ok j /\ decode tm w f t j (zero_of t) = Ok v' /\ gnorm v' = gnorm v.
Proof. exact plain_roundtrip_enough_fuel. Qed.
Print Assumptions C06_plain_struct_roundtrip_enough_fuel.

(* the property as worded -- "every value v that a generated type OBTAINED BY UNMARSHALING":
   v is any result of [decode], not a canonical over-approximation; [strict_decls] excludes
   omitempty on a slice-typed field (refuted below) and map-kinded scalars *)
Theorem C06_every_obtained_value_roundtrips :
  forall tm w good, plain_decls tm good -> strict_decls tm good -> forall t j0 f0 v f,
  ptype tm good t -> noany tm t ->
  decode tm w f0 t j0 (zero_of t) = Ok v -> encode tm f t v <> OutOfFuel ->
  exists j v', encode tm f t v = Ok j /\ decode tm w f t j (zero_of t) = Ok v' /\ gnorm v' = gnorm v.
Proof. exact obtained_roundtrip. Qed.
Print Assumptions C06_every_obtained_value_roundtrips.

(* response types: embedded fragment structs (keys pairwise distinct under case folding through
   every level of embedding, no struct embeds itself: [resp_decls] + the rank), lists of
   interface values dispatched by __typename ([iface_decls]); [cval3] excludes exactly the
   recorded findings (a nil slice of abstract values, an absent embedded / special value) *)
Theorem C06_response_roundtrip :
  forall tm good goodi, resp_decls tm good goodi -> iface_decls tm good goodi -> forall rk : str -> nat,
  (forall m g fields s i e m1, good m -> assoc m tm = Some (DStruct g fields s i) ->
     In e fields -> gf_name e = [] -> unwrap (gf_type e) = GStruct m1 -> (rk m1 < rk m)%nat) ->
  forall f t v, ptype tm good t -> cval3 tm t v -> encode tm f t v <> OutOfFuel ->
  exists j, encode tm f t v = Ok j
    /\ exists f1 v', (forall f', (f1 <= f')%nat -> decode tm true f' t j (zero_of t) = Ok v') /\ gnorm v' = gnorm v.
Proof. exact resp_roundtrip_total. Qed.
Print Assumptions C06_response_roundtrip.

(* REFUTED parts of the statement, each with a value that unmarshaling produces.
   (1) omitempty on a list field: `{"tags": []}` decodes to an empty non-nil slice, which is
   omitted when marshaled and comes back as nil (finding F-C06-4) *)
Theorem C06_omitempty_empty_list_refuted :
  exists tm n g fields s i j0 j v v',
    assoc n tm = Some (DStruct g fields s i) /\ leaf_fields tm fields
    /\ redecode tm (GStruct n) n j0 = Ok (j, v, v')
    /\ gval_eqb (gnorm v') (gnorm v) = false /\ gnorm v' <> gnorm v
    /\ j0 = JObj [(b "tags", JArr [])] /\ j = JObj [(b "name", JStr []); (b "ID", JStr []); (b "id", JStr [])]
    /\ v = VStruct n [(b "Tags", VSlice [])]
    /\ gnorm v' = VStruct n [].
Proof. exact omitempty_empty_slice_refuted. Qed.
Print Assumptions C06_omitempty_empty_list_refuted.

(* (2) an outer key and an embedded fragment's key that differ only by case (finding F-C06-2,
   here between a struct and its embedded fragment): `{"ID": "U", "id": null}` *)
Theorem C06_embedded_case_collision_refuted :
  exists tm n j0 j v v',
    redecode tm (GStruct n) n j0 = Ok (j, v, v')
    /\ gval_eqb (gnorm v') (gnorm v) = false /\ gnorm v' <> gnorm v
    /\ j0 = JObj [(b "ID", JStr (b "U")); (b "id", JNull)]
    /\ j = JObj [(b "ID", JNull); (b "id", JStr (b "U"))].
Proof.
  destruct embedded_case_collision_refuted as (tm & n & j0 & j & v & v' & H1 & H2 & H3 & _ & H5 & H6 & _).
  exists tm, n, j0, j, v, v'. repeat split; assumption.
Qed.
Print Assumptions C06_embedded_case_collision_refuted.

(* (3) a key carried by the struct and by an embedded fragment with different nullability
   (finding F-C06-3): `{"id": null}` *)
Theorem C06_embedded_shared_key_refuted :
  exists tm n j0 j v v',
    redecode tm (GStruct n) n j0 = Ok (j, v, v')
    /\ gval_eqb (gnorm v') (gnorm v) = false /\ gnorm v' <> gnorm v
    /\ j0 = JObj [(b "id", JNull)] /\ j = JObj [(b "id", JStr [])].
Proof.
  destruct embedded_shared_key_refuted as (tm & n & j0 & j & v & v' & H1 & H2 & H3 & _ & H5 & H6 & _).
  exists tm, n, j0, j, v, v'. repeat split; assumption.
Qed.
Print Assumptions C06_embedded_shared_key_refuted.

(* ================= marshaling terminates ================= *)
From Verif Require Import Rt.EncAcyclic Proofs.DecodeTerm Proofs.EncodeTerm.

(* fuel is only a depth bound for the marshalers: once a fuel produces a result, one more unit
   produces the same one -- no hypothesis *)
Theorem C06_marshal_result_independent_of_fuel :
  forall tm f t v, encode tm f t v <> OutOfFuel -> encode tm (S f) t v = encode tm f t v.
Proof. exact encode_fuel_monotone. Qed.
Print Assumptions C06_marshal_result_independent_of_fuel.

(* for every type map in which no struct contains itself by value and FlattenedFields is defined
   (executable check [encode_termb], evaluated by Corr/Rtcorr.v on the type map of every explored
   program), EVERY value of EVERY type marshals: there is one result, not OutOfFuel, that every
   large enough fuel returns -- the "sufficient marshal fuel" that the round-trip theorems take
   as a hypothesis exists *)
Theorem C06_marshal_terminates :
  forall tm, encode_termb tm = true -> forall t v,
  exists n r, r <> OutOfFuel /\ forall m, (n <= m)%nat -> encode tm m t v = r.
Proof. exact encode_total_checked. Qed.
Print Assumptions C06_marshal_terminates.

Theorem C06_marshal_termination_check_is_sound :
  forall tm, encode_termb tm = true -> encode_term_ok tm.
Proof. exact encode_termb_sound. Qed.
Print Assumptions C06_marshal_termination_check_is_sound.

(* non-vacuity: a recursive struct through a pointer and a slice, an interface, an embedded
   fragment -- the check holds and a nested value marshals *)
Theorem C06_marshal_termination_witness :
  encode_termb r_tm = true /\ exists j, encode r_tm 20 (GStruct (b "T")) r_val = Ok j.
Proof. split; [exact r_tm_encode_termb | exact r_val_encodes]. Qed.
Print Assumptions C06_marshal_termination_witness.

(* the hypothesis is needed: a struct that contains itself by value (which Go rejects) never
   marshals in the model, although the decoder's acyclicity check accepts it *)
Theorem C06_by_value_cycle_diverges :
  forall n, encode bv_tm n (GStruct (b "A")) VZero = OutOfFuel.
Proof. exact by_value_cycle_encode_diverges. Qed.
Print Assumptions C06_by_value_cycle_diverges.
