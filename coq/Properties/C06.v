(* C06 — generated types round-trip through JSON and re-marshal to what they decoded.
   Model: Rt/JsonEncode.v (FlattenedFields, __premarshal / MarshalJSON, __marshal<Interface>) over
   Rt/JsonDecode.v and the declarations of Gen/Convert.v. *)
From Verif Require Import Base.Str Gen.Consts Gen.Gql Gen.Directive Gen.Convert Rt.JsonDecode Rt.JsonEncode
  Proofs.JsonProofs Proofs.EncodeProofs Proofs.RoundTrip.

(* FlattenedFields picks exactly one Go field per JSON name, for EVERY typemap and struct
   (however many embedded fragment structs carry the name) *)
Theorem C06_one_field_per_json_name :
  forall tm fields out, flattened_fields tm fields = Ok out -> NoDup (map (fun p => gf_json (fst p)) out).
Proof. exact flattened_fields_one_per_json_name. Qed.
Print Assumptions C06_one_field_per_json_name.

(* hence every key occurs exactly once in the JSON object a struct marshals to *)
Theorem C06_each_key_once :
  forall tm fuel n v kvs, encode_struct tm fuel n v = Ok kvs -> NoDup (map fst kvs).
Proof. exact encode_struct_keys_once. Qed.
Print Assumptions C06_each_key_once.

(* an abstract value marshals with `__typename` = the GraphQL name of its concrete type,
   exactly once, and every other key at most once *)
Theorem C06_typename_present_once :
  forall tm fuel i impl x j,
  encode_iface tm fuel i (VIface impl x) = Ok j ->
  exists d kvs, assoc impl tm = Some d
    /\ j = JObj ((typename_name, JStr (decl_gql d)) :: kvs)
    /\ ~ In typename_name (map fst kvs)
    /\ NoDup (map fst ((typename_name, JStr (decl_gql d)) :: kvs)).
Proof. exact encode_iface_typename. Qed.
Print Assumptions C06_typename_present_once.

(* non-vacuity + the round trip on a concrete program with two concrete types *)
Theorem C06_witness_roundtrip :
  exists j' v, redecode w_tm (GStruct (b "QResponse")) (b "QResponse") w_resp_two = Ok (j', v, v)
    /\ j' = JObj [(b "items", JArr [JObj [(b "__typename", JStr (b "B"))];
                                     JObj [(b "__typename", JStr (b "A")); (b "id", JStr (b "7"))]])].
Proof. exact w_two_roundtrip. Qed.
Print Assumptions C06_witness_roundtrip.

(* REFUTED part: null for a list of abstract values re-marshals as [] (not "up to the documented
   null-versus-zero loss at NON-POINTER nullable positions": a slice could hold nil), known
   finding C06/null-list-reencoded-as-empty-list *)
Theorem C06_null_list_roundtrip_refuted :
  exists tm t n j j' v v',
    redecode tm t n j = Ok (j', v, v')
    /\ j = JObj [(b "items", JNull)] /\ j' = JObj [(b "items", JArr [])].
Proof. exact null_list_roundtrip_refuted. Qed.
Print Assumptions C06_null_list_roundtrip_refuted.

(* the round trip as a theorem for the wrapper algebra of leaf types: for every list depth, with
   or without a pointer, over every scalar-like type, marshaling a value that decoding can
   produce and unmarshaling the result gives the value back (no bound on depth or length) *)
Theorem C06_wrapper_roundtrip :
  forall tm w v t f cur,
  wrapper_type tm t = true -> canonical tm t v -> (gsize v < f)%nat ->
  exists j, encode tm f t v = Ok j /\ decode tm w f t j cur = Ok v.
Proof. exact wrapper_roundtrip. Qed.
Print Assumptions C06_wrapper_roundtrip.

Theorem C06_wrapper_roundtrip_witness :
  let t := GSlice (GSlice (GPtr (GOpaque (b "string") (b "String") [] []))) in
  let v := VSlice [VSlice [VPtr (VScalar (JStr (b "a"))); VNilPtr]; VNilSlice; VSlice []] in
  wrapper_type [] t = true /\ canonical [] t v
  /\ encode [] 10 t v = Ok (JArr [JArr [JStr (b "a"); JNull]; JNull; JArr []])
  /\ decode [] true 10 t (JArr [JArr [JStr (b "a"); JNull]; JNull; JArr []]) VZero = Ok v.
Proof. exact wrapper_roundtrip_example. Qed.
Print Assumptions C06_wrapper_roundtrip_witness.
