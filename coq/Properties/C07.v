(* C07 — code generation never panics or hangs.
   Models: Gen/Doc.v, Gen/Directive.v, Gen/Convert.v: every unchecked map dereference of the Go
   code is an explicit [Panic], every non-structural recursion runs on fuel ([OutOfFuel]). *)
From Verif Require Import Base.Str Gen.Gql Gen.Doc Gen.Directive Gen.Convert Proofs.DocProofs Proofs.ConvertProofs.

(* the transitive closure of fragment spreads terminates for every fragment table, cyclic or not *)
Theorem C07_used_fragments_terminates :
  forall fs sels, exists r, used_fragments fs sels = Some r.
Proof. intros fs sels. destruct (used_fragments_closure fs sels) as (r & H & _). eauto. Qed.
Print Assumptions C07_used_fragments_terminates.

(* the comment-directive path (scan, add with `for:`, conflict detection) returns a value or an
   error for EVERY sequence of lines and arguments: it never crashes and never loops *)
Theorem C07_directive_add_total : forall D args, no_crash (add D args).
Proof. exact add_total. Qed.
Print Assumptions C07_directive_add_total.

Theorem C07_directive_scan_total : forall ls D h, no_crash (scan ls D h).
Proof. exact scan_total. Qed.
Print Assumptions C07_directive_scan_total.

(* an inline fragment without type condition -- valid GraphQL that used to crash the generator
   with a nil dereference in fragmentMatches -- is converted (fixed finding) *)
Theorem C07_bare_inline_fragment_converts :
  exists r, generate_types w_schema w_cfg [] [[LOther; LOther; LOther; LOther; LOther]] [w_bare_op] = Ok r.
Proof. exact bare_inline_fragment_converts. Qed.
Print Assumptions C07_bare_inline_fragment_converts.

(* PARTIAL no-panic theorem for the whole converter (convert.go + the directive validation it
   calls): on a program whose names resolve -- every type named by a field, variable, type
   condition or fragment exists, every spread has its fragment, the root type exists: what
   gqlparser's validator guarantees and Corr/Convcorr.v re-checks on every explored program --
   NONE of the unchecked map / pointer dereferences of the Go code can be reached, for every
   configuration, source text and fuel.  What remains possible in the model is only the family
   of flatten INDEX sites (fields[i] with i the position of the spread); they are exercised by
   the correspondence, not excluded by this theorem. *)
From Verif Require Import Gen.Wf Proofs.ConvertNoPanic.
Theorem C07_converter_panics_only_at_flatten_index_sites_partial :
  forall sch cfg frags srcs ops,
  schema_okb sch = true -> frags_okb sch frags = true -> forallb (op_okb sch frags) ops = true ->
  forall s, generate_types sch cfg frags srcs ops = Panic s -> flat_site s = true.
Proof. exact converter_panics_only_at_flatten_index_sites. Qed.
Print Assumptions C07_converter_panics_only_at_flatten_index_sites_partial.

Theorem C07_converter_hypotheses_satisfiable :
  schema_okb w_schema = true /\ frags_okb w_schema [w_frag] = true /\ forallb (op_okb w_schema [w_frag]) [w_op] = true.
Proof. exact w_program_is_wf. Qed.
Print Assumptions C07_converter_hypotheses_satisfiable.

(* FULL no-panic theorem for the converter.  With the slightly stronger shape facts that the
   grammar and the preprocessing give (every field has a non-empty alias; a selection set has at
   most one synthesised __typename and at least one other node) the flatten index sites are
   unreachable too: validateFlattenOption only returns an index for `{ ...F }`, `{ __typename ...F }`
   or `{ ...F __typename }` with a matching fragment, and then the converted fields have that
   index.  So the model of convert.go NEVER reaches a Panic site, for every schema, configuration,
   fragment table, source text, operation list and fuel.  (OutOfFuel is not excluded here: the
   correspondence exercises it.) *)
From Verif Require Import Proofs.ConvertNoPanicFull.
Theorem C07_converter_never_panics :
  forall sch cfg frags srcs ops,
  schema_okb sch = true -> frags_okb2 sch frags = true -> forallb (op_okb2 sch frags) ops = true ->
  forall s, generate_types sch cfg frags srcs ops <> Panic s.
Proof. exact converter_never_panics. Qed.
Print Assumptions C07_converter_never_panics.

Theorem C07_converter_full_hypotheses_satisfiable :
  schema_okb w_schema = true /\ frags_okb2 w_schema [w_frag] = true /\ forallb (op_okb2 w_schema [w_frag]) [w_op] = true.
Proof. exact w_program_is_wf2. Qed.
Print Assumptions C07_converter_full_hypotheses_satisfiable.
