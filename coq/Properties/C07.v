(* C07 — code generation never panics or hangs.
   Models: Gen/Doc.v, Gen/Directive.v, Gen/Convert.v: every unchecked map dereference of the Go
   code is an explicit [Panic], every non-structural recursion runs on fuel ([OutOfFuel]). *)
From Verif Require Import Base.Str Gen.Gql Gen.Doc Gen.Directive Gen.Convert Proofs.DocProofs Proofs.ConvertProofs.

(* the transitive closure of fragment spreads terminates for every fragment table, cyclic or not *)
Theorem C07_used_fragments_terminates :
  forall fs sels, exists r, used_fragments fs sels = Some r.
Proof. intros fs sels. destruct (used_fragments_closure fs sels) as (r & H & _). eauto. Qed.
Print Assumptions C07_used_fragments_terminates.

(* the comment-directive path (scan, add with `for:`, conflict detection) returns a value or an
   error for EVERY sequence of lines and arguments: it never crashes and never loops *)
Theorem C07_directive_add_total : forall D args, no_crash (add D args).
Proof. exact add_total. Qed.
Print Assumptions C07_directive_add_total.

Theorem C07_directive_scan_total : forall ls D h, no_crash (scan ls D h).
Proof. exact scan_total. Qed.
Print Assumptions C07_directive_scan_total.

(* an inline fragment without type condition -- valid GraphQL that used to crash the generator
   with a nil dereference in fragmentMatches -- is converted (fixed finding) *)
Theorem C07_bare_inline_fragment_converts :
  exists r, generate_types w_schema w_cfg [] [[LOther; LOther; LOther; LOther; LOther]] [w_bare_op] = Ok r.
Proof. exact bare_inline_fragment_converts. Qed.
Print Assumptions C07_bare_inline_fragment_converts.
