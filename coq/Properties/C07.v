(* C07 — code generation never panics or hangs.
   Models: Gen/Doc.v, Gen/Directive.v, Gen/Convert.v: every unchecked map dereference of the Go
   code is an explicit [Panic], every non-structural recursion runs on fuel ([OutOfFuel]). *)
From Verif Require Import Base.Str Gen.Gql Gen.Doc Gen.Directive Gen.Convert Proofs.DocProofs Proofs.ConvertProofs.

(* the transitive closure of fragment spreads terminates for every fragment table, cyclic or not *)
Theorem C07_used_fragments_terminates :
  forall fs sels, exists r, used_fragments fs sels = Some r.
Proof. intros fs sels. destruct (used_fragments_closure fs sels) as (r & H & _). eauto. Qed.
Print Assumptions C07_used_fragments_terminates.

(* the comment-directive path (scan, add with `for:`, conflict detection) returns a value or an
   error for EVERY sequence of lines and arguments: it never crashes and never loops *)
Theorem C07_directive_add_total : forall D args, no_crash (add D args).
Proof. exact add_total. Qed.
Print Assumptions C07_directive_add_total.

Theorem C07_directive_scan_total : forall ls D h, no_crash (scan ls D h).
Proof. exact scan_total. Qed.
Print Assumptions C07_directive_scan_total.

(* an inline fragment without type condition -- valid GraphQL that used to crash the generator
   with a nil dereference in fragmentMatches -- is converted (fixed finding) *)
Theorem C07_bare_inline_fragment_converts :
  exists r, generate_types w_schema w_cfg [] [[LOther; LOther; LOther; LOther; LOther]] [w_bare_op] = Ok r.
Proof. exact bare_inline_fragment_converts. Qed.
Print Assumptions C07_bare_inline_fragment_converts.

(* PARTIAL no-panic theorem for the whole converter (convert.go + the directive validation it
   calls): on a program whose names resolve -- every type named by a field, variable, type
   condition or fragment exists, every spread has its fragment, the root type exists: what
   gqlparser's validator guarantees and Corr/Convcorr.v re-checks on every explored program --
   and whose positions are inside their sources (frags_posb / op_posb: for every operation,
   variable, fragment definition, field, inline fragment and spread, line-1 is at most the number
   of lines its source was split into; see C07_line_index_site_refuted_without_positions) --
   NONE of the unchecked map / pointer dereferences of the Go code can be reached, for every
   configuration, source text and fuel.  What remains possible in the model is only the family
   of flatten INDEX sites (fields[i] with i the position of the spread); they are exercised by
   the correspondence, not excluded by this theorem. *)
From Verif Require Import Gen.Wf Proofs.ConvertNoPanic.
Theorem C07_converter_panics_only_at_flatten_index_sites_partial :
  forall sch cfg frags srcs ops,
  schema_okb sch = true -> frags_okb sch frags = true -> forallb (op_okb sch frags) ops = true ->
  frags_posb srcs frags = true -> forallb (op_posb srcs) ops = true ->
  forall s, generate_types sch cfg frags srcs ops = Panic s -> flat_site s = true.
Proof. exact converter_panics_only_at_flatten_index_sites. Qed.
Print Assumptions C07_converter_panics_only_at_flatten_index_sites_partial.

Theorem C07_converter_hypotheses_satisfiable :
  schema_okb w_schema = true /\ frags_okb w_schema [w_frag] = true /\ forallb (op_okb w_schema [w_frag]) [w_op] = true
  /\ frags_posb w_srcs [w_frag] = true /\ forallb (op_posb w_srcs) [w_op] = true.
Proof. exact w_program_is_wf. Qed.
Print Assumptions C07_converter_hypotheses_satisfiable.

(* the position hypothesis is NEEDED (REFUTED without it): parsePrecedingComment indexes the
   lines the source was split into with the node's line number (`sourceLines[i-1]` for i from
   pos.Line-1 down).  A program whose names all resolve, against a source with fewer lines than
   its positions say -- one query with two fields, the second on line 3, and a source that was
   split into a single line (what a file with bare-CR line ends was to the splitting at LF) --
   reaches that index out of range: a Panic that is not a flatten site. *)
Theorem C07_line_index_site_refuted_without_positions :
  exists sch cfg frags srcs ops m,
    schema_okb sch = true /\ frags_okb sch frags = true /\ forallb (op_okb sch frags) ops = true
    /\ generate_types sch cfg frags srcs ops = Panic m /\ flat_site m = false.
Proof.
  exists w_schema, w_cfg, [], w_cr_srcs, [w_cr_op], (b "index out of range: sourceLines").
  repeat split; vm_compute; reflexivity.
Qed.
Print Assumptions C07_line_index_site_refuted_without_positions.

(* the model of the access itself: it panics exactly when the line number exceeds the lines *)
From Verif Require Import Proofs.DirectiveProofs.
Theorem C07_line_index_panics_iff_out_of_range :
  forall src line,
    (exists m, lines_above src line = Panic m) <-> (List.length src < N.to_nat line - 1)%nat.
Proof. exact lines_above_panics_iff. Qed.
Print Assumptions C07_line_index_panics_iff_out_of_range.

(* FULL no-panic theorem for the converter.  With the slightly stronger shape facts that the
   grammar and the preprocessing give (every field has a non-empty alias; a selection set has at
   most one synthesised __typename and at least one other node) the flatten index sites are
   unreachable too: validateFlattenOption only returns an index for `{ ...F }`, `{ __typename ...F }`
   or `{ ...F __typename }` with a matching fragment, and then the converted fields have that
   index.  The strong form also contains the position check (pos_okb for every node, against the
   source of its operation / fragment definition).  So the model of convert.go NEVER reaches a
   Panic site, for every schema, configuration, fragment table, source text, operation list and
   fuel.  (OutOfFuel is not excluded here: the correspondence exercises it.) *)
From Verif Require Import Proofs.ConvertNoPanicFull.
Theorem C07_converter_never_panics :
  forall sch cfg frags srcs ops,
  schema_okb sch = true -> frags_okb2 sch frags srcs = true -> forallb (op_okb2 sch frags srcs) ops = true ->
  forall s, generate_types sch cfg frags srcs ops <> Panic s.
Proof. exact converter_never_panics. Qed.
Print Assumptions C07_converter_never_panics.

Theorem C07_converter_full_hypotheses_satisfiable :
  schema_okb w_schema = true /\ frags_okb2 w_schema [w_frag] w_srcs = true
  /\ forallb (op_okb2 w_schema [w_frag] w_srcs) [w_op] = true.
Proof. exact w_program_is_wf2. Qed.
Print Assumptions C07_converter_full_hypotheses_satisfiable.

(* the strong form (the one Corr/Convcorr.v evaluates on every explored program) implies all the
   hypotheses of the partial theorem, the position hypotheses included *)
Theorem C07_strong_hypotheses_imply_partial_hypotheses :
  forall sch frags srcs ops,
  frags_okb2 sch frags srcs = true -> forallb (op_okb2 sch frags srcs) ops = true ->
  frags_okb sch frags = true /\ forallb (op_okb sch frags) ops = true
  /\ frags_posb srcs frags = true /\ forallb (op_posb srcs) ops = true.
Proof. exact strong_wf_implies_weak. Qed.
Print Assumptions C07_strong_hypotheses_imply_partial_hypotheses.

(* ================= "never loops" for the converter ================= *)
From Verif Require Import Proofs.ConvertFuel.

(* fuel is only a depth bound: once the whole generation produces any result (a value, an error
   or a panic), one more unit of fuel gives the same result -- no hypothesis at all *)
Theorem C07_generation_result_independent_of_fuel :
  forall sch cfg frags srcs f ops,
  generate_types_with sch cfg frags srcs f ops <> OutOfFuel ->
  generate_types_with sch cfg frags srcs (S f) ops = generate_types_with sch cfg frags srcs f ops.
Proof. exact generate_types_fuel_S. Qed.
Print Assumptions C07_generation_result_independent_of_fuel.

(* termination: when named fragments do not spread each other in a cycle (gqlparser's
   NoFragmentCycles; Corr/Convcorr.v evaluates [frags_acyclicb] on every explored program) and
   the possible types of every schema type are object types, the converter -- the response side
   through selection trees and fragment spreads, the input side through possibly RECURSIVE input
   types, where it stops because a type is registered before its fields are converted -- returns
   for every large enough fuel, with one result per program; the fixed fuel of the model
   ([generate_types], FUEL = 400) gives that result whenever it gives one *)
Theorem C07_generation_terminates :
  forall sch cfg frags srcs, impls_objects sch -> frags_acyclic frags -> forall ops,
  exists n r, r <> OutOfFuel
    /\ (forall m, (n <= m)%nat -> generate_types_with sch cfg frags srcs m ops = r)
    /\ (generate_types sch cfg frags srcs ops <> OutOfFuel -> generate_types sch cfg frags srcs ops = r).
Proof. exact generate_types_total. Qed.
Print Assumptions C07_generation_terminates.

Theorem C07_recursive_input_types_terminate :
  forall sch cfg frags srcs, impls_objects sch -> forall Q,
  exists n, forall m, (n <= m)%nat ->
  forall src prefix def sels opts tm, In def sch -> sels = [] \/ td_kind def = KInput ->
  convert_definition sch cfg frags srcs m src prefix def sels opts Q tm <> OutOfFuel.
Proof. exact convert_input_definition_terminates. Qed.
Print Assumptions C07_recursive_input_types_terminate.

Theorem C07_termination_checks_are_sound :
  (forall frags, frags_acyclicb frags = true -> frags_acyclic frags)
  /\ (forall sch, impls_objectsb sch = true -> impls_objects sch).
Proof. split; [exact frags_acyclicb_sound | exact impls_objectsb_sound]. Qed.
Print Assumptions C07_termination_checks_are_sound.

(* non-vacuity: an interface, a fragment spreading another fragment, a recursive input type as a
   variable -- hypotheses hold and the model converts it with its fixed fuel *)
Theorem C07_termination_witness :
  (impls_objects t_schema /\ frags_acyclic t_frags /\ schema_okb t_schema = true
   /\ frags_okb2 t_schema t_frags [] = true /\ forallb (op_okb2 t_schema t_frags []) [t_op] = true)
  /\ exists tm ops, generate_types t_schema ConvertProofs.w_cfg t_frags [] [t_op] = Ok (tm, ops).
Proof.
  split; [exact t_hypotheses|]. destruct t_converts as (tm & ops & H & _). exists tm, ops. exact H.
Qed.

(* the fragment hypothesis is needed: a fragment that spreads itself (which the validator rejects)
   exhausts every fuel *)
Theorem C07_self_spreading_fragment_diverges :
  forall n tm, assoc (b "F") tm = None ->
  convert_named_fragment l_schema ConvertProofs.w_cfg [l_fr] [] n l_fr tm = OutOfFuel.
Proof. exact self_spread_diverges. Qed.
Print Assumptions C07_self_spreading_fragment_diverges.

(* a limit of the MODEL, stated so that it is not mistaken for one of the generator: the fixed
   fuel is a depth cap of about 130 nested selections; a deeper (acyclic, valid) program is
   OutOfFuel in [generate_types] although it converts with more fuel, as the real generator does *)
Theorem C07_fixed_fuel_is_a_depth_cap :
  generate_types d_schema ConvertProofs.w_cfg [] [] [d_op 140] = OutOfFuel
  /\ exists r, generate_types_with d_schema ConvertProofs.w_cfg [] [] 500 [d_op 140] = Ok r.
Proof. split; [exact d_140_out_of_fuel | exact d_140_converts_with_more]. Qed.
