(* C08 — generation is a deterministic function of the config and the files it names.
   Model: Gen/Pipeline.v.  Every place where a Go map iteration or a glob/file-system
   enumeration feeds the output is an explicit list in arbitrary order here; the theorems say
   the result does not depend on that order. *)
From Verif Require Import Base.Str Base.Sort Gen.Pipeline Proofs.PipelineProofs.
From Coq Require Import Permutation.

(* expandFilenames (after the fix: commit that sorts its result): whatever order and
   multiplicity the globs and the map iteration produce the matched names in, the list of
   files read -- schema sources and operation files alike -- is the same *)
Theorem C08_expand_order_independent :
  forall l l', (forall x, In x l <-> In x l') -> expand l = expand l'.
Proof. exact expand_order_independent. Qed.
Print Assumptions C08_expand_order_independent.

Theorem C08_expand_is_the_set : forall l x, In x (expand l) <-> In x l.
Proof. exact expand_In. Qed.
Print Assumptions C08_expand_is_the_set.

(* WriteTypes: the type map is iterated in map order, the names are sorted: the emitted
   sequence of declarations is independent of the iteration order *)
Theorem C08_types_order_independent :
  forall tm tm' : typemap, NoDup (map fst tm) -> Permutation tm tm' -> sort_by fst tm = sort_by fst tm'.
Proof. exact out_types_sorted_independent. Qed.
Print Assumptions C08_types_order_independent.

(* operations are sorted by (unique) name before rendering and before export *)
Theorem C08_ops_order_independent :
  forall done done' : list (str * N), NoDup (map fst done) -> Permutation done done' ->
    sort_by fst done = sort_by fst done'.
Proof. exact out_ops_sorted_independent. Qed.
Print Assumptions C08_ops_order_independent.

(* the type map itself: inserting the same declarations in any order gives the same map (as a
   sorted list) or fails in both orders *)
Theorem C08_typemap_order_independent :
  forall nds nds', Permutation nds nds' ->
    match add_types [] nds, add_types [] nds' with
    | GOk tm, GOk tm' => sort_by fst tm = sort_by fst tm'
    | GErr _, GErr _ => True
    | _, _ => False
    end.
Proof. exact add_types_perm. Qed.
Print Assumptions C08_typemap_order_independent.

Example C08_ex_nonvacuous :
  expand [b "b.graphql"; b "a.graphql"; b "c.graphql"; b "a.graphql"] = [b "a.graphql"; b "b.graphql"; b "c.graphql"]
  /\ expand [b "c.graphql"; b "a.graphql"; b "b.graphql"] = [b "a.graphql"; b "b.graphql"; b "c.graphql"].
Proof. split; vm_compute; reflexivity. Qed.
