(* C09 — distinct selections never share a Go type; clashes are errors.
   Model: Gen/Convert.v (getType / addType / addFragmentType, selectionsMatch). *)
From Verif Require Import Base.Str Gen.Gql Gen.Directive Gen.Convert Proofs.ConvertProofs Proofs.ConvertFuel Proofs.ConvertExt.

(* what "the same selected fields" means for genqlient: the same tree of field names, aliases,
   type conditions and spread names (arguments and directives are documented as not compared) *)
Theorem C09_match_is_structural :
  forall a c, sels_match a c = true <-> map shape_of a = map shape_of c.
Proof. exact sels_match_structural. Qed.
Print Assumptions C09_match_is_structural.

(* registering a type under a name: every existing binding is kept; the name ends up bound to a
   declaration of the SAME GraphQL type with the SAME tree of selected names ... *)
Theorem C09_add_type_sound :
  forall tm name d t tm',
    add_type tm name d = Ok (t, tm') ->
    (forall n x, assoc n tm = Some x -> assoc n tm' = Some x)
    /\ exists d', assoc name tm' = Some d' /\ decl_gql d' = decl_gql d
                  /\ map shape_of (decl_sel d) = map shape_of (decl_sel d') /\ t = decl_type name d'.
Proof. exact add_type_sound. Qed.
Print Assumptions C09_add_type_sound.

(* ... and a declaration for a different GraphQL type or different selected fields under a
   taken name is reported as a conflict, never resolved by reusing the other type *)
Theorem C09_clash_is_an_error :
  forall tm name d d0,
    assoc name tm = Some d0 ->
    (decl_gql d0 <> decl_gql d \/ map shape_of (decl_sel d) <> map shape_of (decl_sel d0)) ->
    add_type tm name d = Err ECONFLICT.
Proof. exact add_type_conflict. Qed.
Print Assumptions C09_clash_is_an_error.

(* the types of named fragments (which are not registered through addType) never replace a
   declaration that already has the name *)
Theorem C09_fragment_types_never_overwrite :
  forall tm name d tm',
    add_fragment_type tm name d = Ok tm' ->
    assoc name tm = None /\ (forall n x, assoc n tm = Some x -> assoc n tm' = Some x) /\ assoc name tm' = Some d.
Proof. exact add_fragment_type_sound. Qed.
Print Assumptions C09_fragment_types_never_overwrite.

(* the formerly failing program (typename "F" on a field converted before the spread of
   fragment F) is now rejected with a conflict (fixed finding) *)
Theorem C09_typename_vs_fragment_name : w_result = Err ECONFLICT.
Proof. exact typename_equal_to_fragment_name_is_a_conflict. Qed.
Print Assumptions C09_typename_vs_fragment_name.

(* ================= "adding an operation never changes the Go API of another" ================= *)

(* no step of the converter -- the four mutually recursive functions of convert.go, for every
   schema, configuration, fragment table, source text and fuel -- ever changes or removes a
   declaration that the type map already holds (the one place that rewrites an entry, the input
   struct completed after its fields were converted, rewrites the placeholder it registered
   itself under a name that was absent from the incoming map) *)
Theorem C09_converter_never_changes_an_existing_declaration :
  forall sch cfg frags srcs f,
    (forall src prefix t sels opts Q tm, extends tm (convert_type sch cfg frags srcs f src prefix t sels opts Q tm))
    /\ (forall src prefix def sels opts Q tm, extends tm (convert_definition sch cfg frags srcs f src prefix def sels opts Q tm))
    /\ (forall src prefix sels containing Q tm, extends tm (convert_selection_set sch cfg frags srcs f src prefix sels containing Q tm))
    /\ (forall fr tm, extends tm (convert_named_fragment sch cfg frags srcs f fr tm)).
Proof. exact convert_extends. Qed.
Print Assumptions C09_converter_never_changes_an_existing_declaration.

(* at the level of whole runs: when ops1 ++ ops2 generates, ops1 alone generates, and every
   declaration and every operation entry (name, input type, response type) obtained for ops1 alone
   is there, unchanged, in the result for ops1 ++ ops2 -- operations converted later (genqlient
   converts in name order) never change the Go API of the earlier ones; what a LATER operation gets
   may depend on the earlier ones (shared input types take the options of the first user: open
   finding F-C09-1), which is why the statement is one-directional *)
Theorem C09_later_operations_never_change_earlier_declarations :
  forall sch cfg frags srcs ops1 ops2 tm1 infos1 tm2 infos2,
    generate_types sch cfg frags srcs ops1 = Ok (tm1, infos1) ->
    generate_types sch cfg frags srcs (ops1 ++ ops2) = Ok (tm2, infos2) ->
    (forall n d, assoc n tm1 = Some d -> assoc n tm2 = Some d)
    /\ (forall i oi, nth_error infos1 i = Some oi -> nth_error infos2 i = Some oi).
Proof. exact earlier_operation_api_unchanged. Qed.
Print Assumptions C09_later_operations_never_change_earlier_declarations.

Theorem C09_together_succeeds_only_if_the_prefix_alone_succeeds :
  forall sch cfg frags srcs ops1 ops2 tm2 infos2,
    generate_types sch cfg frags srcs (ops1 ++ ops2) = Ok (tm2, infos2) ->
    exists tm1 infos1, generate_types sch cfg frags srcs ops1 = Ok (tm1, infos1)
      /\ tm_ext tm1 tm2 /\ exists l, infos2 = infos1 ++ l.
Proof. exact generate_types_app_extends_FUEL. Qed.
Print Assumptions C09_together_succeeds_only_if_the_prefix_alone_succeeds.

(* non-vacuity: two operations sharing fragments and a recursive input type both generate *)
Theorem C09_two_operations_witness :
  exists tm1 i1 tm2 i2,
    generate_types t_schema ConvertProofs.w_cfg t_frags [] [t_op] = Ok (tm1, i1)
    /\ generate_types t_schema ConvertProofs.w_cfg t_frags [] ([t_op] ++ [x_op2]) = Ok (tm2, i2)
    /\ (length i1 = 1 /\ length i2 = 2 /\ length tm1 < length tm2)%nat.
Proof. exact x_two_operations_convert. Qed.
Print Assumptions C09_two_operations_witness.
