(* C09 — distinct selections never share a Go type; clashes are errors.
   Model: Gen/Convert.v (getType / addType / addFragmentType, selectionsMatch). *)
From Verif Require Import Base.Str Gen.Gql Gen.Directive Gen.Convert Proofs.ConvertProofs.

(* what "the same selected fields" means for genqlient: the same tree of field names, aliases,
   type conditions and spread names (arguments and directives are documented as not compared) *)
Theorem C09_match_is_structural :
  forall a c, sels_match a c = true <-> map shape_of a = map shape_of c.
Proof. exact sels_match_structural. Qed.
Print Assumptions C09_match_is_structural.

(* registering a type under a name: every existing binding is kept; the name ends up bound to a
   declaration of the SAME GraphQL type with the SAME tree of selected names ... *)
Theorem C09_add_type_sound :
  forall tm name d t tm',
    add_type tm name d = Ok (t, tm') ->
    (forall n x, assoc n tm = Some x -> assoc n tm' = Some x)
    /\ exists d', assoc name tm' = Some d' /\ decl_gql d' = decl_gql d
                  /\ map shape_of (decl_sel d) = map shape_of (decl_sel d') /\ t = decl_type name d'.
Proof. exact add_type_sound. Qed.
Print Assumptions C09_add_type_sound.

(* ... and a declaration for a different GraphQL type or different selected fields under a
   taken name is reported as a conflict, never resolved by reusing the other type *)
Theorem C09_clash_is_an_error :
  forall tm name d d0,
    assoc name tm = Some d0 ->
    (decl_gql d0 <> decl_gql d \/ map shape_of (decl_sel d) <> map shape_of (decl_sel d0)) ->
    add_type tm name d = Err ECONFLICT.
Proof. exact add_type_conflict. Qed.
Print Assumptions C09_clash_is_an_error.

(* the types of named fragments (which are not registered through addType) never replace a
   declaration that already has the name *)
Theorem C09_fragment_types_never_overwrite :
  forall tm name d tm',
    add_fragment_type tm name d = Ok tm' ->
    assoc name tm = None /\ (forall n x, assoc n tm = Some x -> assoc n tm' = Some x) /\ assoc name tm' = Some d.
Proof. exact add_fragment_type_sound. Qed.
Print Assumptions C09_fragment_types_never_overwrite.

(* the formerly failing program (typename "F" on a field converted before the spread of
   fragment F) is now rejected with a conflict (fixed finding) *)
Theorem C09_typename_vs_fragment_name : w_result = Err ECONFLICT.
Proof. exact typename_equal_to_fragment_name_is_a_conflict. Qed.
Print Assumptions C09_typename_vs_fragment_name.
