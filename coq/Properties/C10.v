(* C10 — options shape Go types exactly as documented, with documented precedence.
   Models: Gen/Directive.v (genqlient_directive.go) and Gen/Convert.v (convert.go). *)
From Verif Require Import Base.Str Gen.Casing Gen.Gql Gen.Directive Gen.Convert Proofs.DirectiveProofs.

(* precedence: for every option the value in force is the first that is set in the order
   node, `for:` entry of (parent type, field), operation/fragment; `typename` is never inherited
   from the operation; `struct` and `flatten` never come from `for:` *)
Theorem C10_precedence :
  forall key d Q,
    let f := for_entry key Q in let q := fd_main Q in
    let m := merge key d Q in
    d_omitempty m = first_set [d_omitempty d; d_omitempty f; d_omitempty q]
    /\ d_pointer m = first_set [d_pointer d; d_pointer f; d_pointer q]
    /\ d_bind m = first_nonempty [d_bind d; d_bind f; d_bind q]
    /\ d_alias m = first_nonempty [d_alias d; d_alias f; d_alias q]
    /\ d_typename m = first_nonempty [d_typename d; d_typename f]
    /\ d_struct m = first_set [d_struct d; d_struct q]
    /\ d_flatten m = first_set [d_flatten d; d_flatten q].
Proof. exact merge_precedence. Qed.
Print Assumptions C10_precedence.

(* no leak upwards: a directive comment is attached to the node(s) on the first non-comment line
   below it; nothing above the nearest non-comment line above a node is ever read for that node *)
Theorem C10_no_leak_past_code_line :
  forall block above D h,
    Forall (fun l => match l with LOther => False | _ => True end) block ->
    scan (block ++ LOther :: above) D h = scan block D h.
Proof. exact scan_stops. Qed.
Print Assumptions C10_no_leak_past_code_line.

(* several directives on one node must not conflict *)
Theorem C10_conflicting_directives_rejected :
  forall D args v x,
    d_pointer (fd_main D) = Some v -> find_for args [] = Ok [] -> In (b "pointer", x) args ->
    forall D', add D args <> Ok D'.
Proof. exact add_conflict. Qed.
Print Assumptions C10_conflicting_directives_rejected.

Theorem C10_unknown_option_rejected :
  forall D n v,
    ~ In n [b "omitempty"; b "pointer"; b "struct"; b "flatten"; b "bind"; b "typename"; b "alias"; b "for"] ->
    add D [(n, v)] = Err EDIR.
Proof. exact add_unknown_argument. Qed.
Print Assumptions C10_unknown_option_rejected.

(* options in a place where the documentation says they do not apply are errors, never a
   silently different type *)
Theorem C10_omitempty_on_field_rejected :
  forall sch frags tb sub D v,
    d_omitempty (fd_main D) = Some v -> forallb (validate_for_entry sch) (fd_for D) = true ->
    validate sch frags (NField tb sub) D = Err EDIR.
Proof. exact validate_field_omitempty. Qed.
Print Assumptions C10_omitempty_on_field_rejected.

Theorem C10_omitempty_on_nonnull_variable_rejected :
  forall sch frags D v, d_omitempty (fd_main D) = Some v -> exists e, validate sch frags (NVar true) D = Err e.
Proof. exact validate_variable_nonnull_omitempty. Qed.
Print Assumptions C10_omitempty_on_nonnull_variable_rejected.

(* ... but only when written on the variable itself: inherited from the operation it is applied
   silently -- the full "options never reach nodes they are not documented to reach" is REFUTED
   for this case (open finding; the repository's DefaultInputsWithDirective snapshot pins it) *)
Theorem C10_operation_omitempty_reach_refuted :
  exists sch frags srcs Q D,
    parse_preceding sch frags srcs (NVar true) None None (Some Q) = Ok D
    /\ d_omitempty (fd_main D) = Some true.
Proof. exact operation_omitempty_reaches_nonnull_variable. Qed.
Print Assumptions C10_operation_omitempty_reach_refuted.

Theorem C10_bind_on_operation_rejected :
  forall sch frags D c r, d_bind (fd_main D) = c :: r -> exists e, validate sch frags NOp D = Err e.
Proof. exact validate_operation_bind. Qed.
Print Assumptions C10_bind_on_operation_rejected.

Theorem C10_struct_flatten_via_for_rejected :
  forall sch frags n D tn fn d v,
    In (tn, fn, d) (fd_for D) -> (d_struct d = Some v \/ d_flatten d = Some v) ->
    exists e, validate sch frags n D = Err e.
Proof. exact validate_for_struct_flatten. Qed.
Print Assumptions C10_struct_flatten_via_for_rejected.

Theorem C10_directive_on_fragment_spread_rejected :
  forall sch frags D, forallb (validate_for_entry sch) (fd_for D) = true ->
    validate sch frags NOtherNode D = Err EDIR.
Proof. exact validate_inline_or_spread. Qed.
Print Assumptions C10_directive_on_fragment_spread_rejected.

(* the Go type of every field, variable and input field: a local `bind` replaces the whole type;
   otherwise lists become slices at every depth and the wrapper around the innermost named type is
   the documented function of pointer / optional / use_struct_references (never *[]T) *)
Theorem C10_shape_eq_doc :
  forall sch cfg frags srcs fuel src prefix t sels o Q tm g o' tm',
    convert_type sch cfg frags srcs fuel src prefix t sels o Q tm = Ok (g, o', tm') ->
    if local_bind o then g = GOpaque (d_bind o) (ty_base t) [] []
    else exists f' def inner tm0,
        find_type sch (ty_base t) = Some def
        /\ convert_definition sch cfg frags srcs f' src prefix def sels o Q tm0 = Ok (inner, tm')
        /\ g = doc_wrap cfg t o (struct_kind_of sch (ty_base t)) inner.
Proof. exact convert_type_shape. Qed.
Print Assumptions C10_shape_eq_doc.

(* the JSON tag of a generated response field is the response key (the GraphQL alias, which
   defaults to the field name), whatever the `alias` option renames the Go field to *)
From Verif Require Import Gen.Wf Proofs.ConvertNoPanicFull.
Theorem C10_json_tag_is_the_response_key :
  forall sch cfg frags srcs f src prefix containing Q done tmx a n fty p e sub l done' tmy,
    css_step sch cfg frags srcs f src prefix containing Q (done, tmx) (SField a n fty p e sub l) = Ok (done', tmy) ->
    exists fld, done' = done ++ [fld] /\ gf_json fld = a.
Proof. exact step_field. Qed.
Print Assumptions C10_json_tag_is_the_response_key.
