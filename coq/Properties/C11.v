(* C11 — HTTP clients encode requests losslessly and gate operation kinds. *)
From Verif Require Import Base.Str Rt.Http Proofs.HttpProofs.

(* the percent codec of net/url round-trips every byte string *)
Theorem C11_codec_roundtrip :
  forall s, bytes s -> query_unescape (query_escape s) = Some s.
Proof. exact unescape_escape. Qed.
Print Assumptions C11_codec_roundtrip.

(* ParseQuery . Values.Encode gives back every key's values, in order, for all parameter lists *)
Theorem C11_values_roundtrip :
  forall k l, Forall pair_bytes l -> vget k (parse_query (values_encode l)) = vget k l.
Proof. exact vget_parse_encode. Qed.
Print Assumptions C11_values_roundtrip.

(* GET: for every endpoint and request, base and fragment are untouched and every decoded
   parameter of the built URL equals the specified one (the three request fields when
   present; all other endpoint parameters unchanged) *)
Theorem C11_get_roundtrip :
  forall ep r e',
    bytes ep -> request_bytes r ->
    create_get_parts ep r = Ok e' ->
    let e := split_endpoint ep in
    ep_base e' = ep_base e /\ ep_fragment e' = ep_fragment e /\
    forall k, vget k (parse_query (ep_rawquery e')) = expected_param r (parse_query (ep_rawquery e)) k.
Proof. exact create_get_params. Qed.
Print Assumptions C11_get_roundtrip.

(* POST: body fields are the request's, variables omitted iff nil *)
Theorem C11_post_fields :
  forall r body, create_post r = Ok body ->
    body = [BQuery (rq_query r)]
           ++ (match rq_variables r with Some v => [BVariables v] | None => [] end)
           ++ [BOpName (rq_opname r)].
Proof. exact create_post_fields. Qed.
Print Assumptions C11_post_fields.

(* gate, for every document the generator can emit ("\n" ++ keyword ++ " " ++ name ++ ...) *)
Theorem C11_gate_get_mutation :
  forall ep name rest r, rq_query r = emitted_doc kw_mutation name rest -> create_get ep r = Err (b "NoMutations").
Proof. exact get_refuses_emitted_mutation. Qed.
Print Assumptions C11_gate_get_mutation.

Theorem C11_gate_get_subscription :
  forall ep name rest r, rq_query r = emitted_doc kw_subscription name rest -> create_get ep r = Err (b "NoSubscriptions").
Proof. exact get_refuses_emitted_subscription. Qed.
Print Assumptions C11_gate_get_subscription.

Theorem C11_gate_post_subscription :
  forall name rest r, rq_query r = emitted_doc kw_subscription name rest -> create_post r = Err (b "NoSubscriptions").
Proof. exact post_refuses_emitted_subscription. Qed.
Print Assumptions C11_gate_post_subscription.

Theorem C11_gate_accepts_allowed :
  forall ep name rest r, rq_query r = emitted_doc kw_query name rest ->
    (exists u, create_get ep r = Ok u) /\ (exists body, create_post r = Ok body).
Proof. exact emitted_query_accepted. Qed.
Print Assumptions C11_gate_accepts_allowed.

(* the gate over ARBITRARY hand-written Request.Query texts does not hold (known finding):
   a leading comment hides the keyword *)
Theorem C11_gate_arbitrary_refuted :
  exists r ep u, starts_with_kw kw_mutation (rq_query r) = false /\
                 rq_query r = [35; 120; 10] ++ kw_mutation ++ b " M { f }" /\
                 create_get ep r = Ok u.
Proof. exact gate_arbitrary_refuted. Qed.
Print Assumptions C11_gate_arbitrary_refuted.

(* non-vacuity: a concrete request meets the hypotheses and yields the expected URL *)
Example C11_ex_get :
  create_get (b "http://h/g?token=a+b&x=1#f")
             {| rq_query := b "q {f}"; rq_opname := b "Q"; rq_variables := None |}
  = Ok (b "http://h/g?operationName=Q&query=q+%7Bf%7D&token=a+b&x=1#f").
Proof. vm_compute. reflexivity. Qed.
