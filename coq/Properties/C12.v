(* C12 — every HTTP outcome is classified, data kept, body closed. *)
From Verif Require Import Base.Str Rt.HttpResp Proofs.HttpRespProofs.

(* for every (Do result, status, body, read-fault position) exactly one documented outcome *)
Theorem C12_exactly_one :
  forall c, exists o, spec_outcome_ok c o = true /\
                      forall o', spec_outcome_ok c o' = true -> same_kind o o' = true.
Proof. exact exactly_one_outcome. Qed.
Print Assumptions C12_exactly_one.

Theorem C12_classified :
  forall c, spec_outcome_ok c (r_out (run_response c)) = true.
Proof. exact run_response_classified. Qed.
Print Assumptions C12_classified.

(* the body is closed exactly once iff Do returned a response, as the last step, on every path *)
Theorem C12_closed :
  forall c, spec_close_ok c (run_response c) = true.
Proof. exact run_response_closes. Qed.
Print Assumptions C12_closed.

(* errors-with-data: when the outcome is a gqlerror list (or nil) the data was decoded *)
Theorem C12_partial_data_kept :
  forall c, spec_data_ok (run_response c) = true.
Proof. exact run_response_keeps_data. Qed.
Print Assumptions C12_partial_data_kept.

Theorem C12_status_carried :
  forall c, hc_do_err c = false -> hc_status c <> 200%N ->
    exists fb n, r_out (run_response c) = OHTTPError (hc_status c) fb n.
Proof. exact http_error_carries_status. Qed.
Print Assumptions C12_status_carried.

Example C12_ex_errors_with_data :
  r_out (run_response {| hc_do_err := false; hc_status := 200; hc_len := 40; hc_first_end := Some 40%nat;
                         hc_first_env := {| eo_ok := true; eo_nerrors := 2 |}; hc_whole_env := None;
                         hc_fault := Some 40%nat |}) = OGqlErrors 2.
Proof. reflexivity. Qed.
