(* C12 — every HTTP outcome is classified, data kept, body closed. *)
From Verif Require Import Base.Str Rt.HttpResp Proofs.HttpRespProofs.

(* for every (Do result, status, body, read-fault position) exactly one documented outcome *)
Theorem C12_exactly_one :
  forall c, exists o, spec_outcome_ok c o = true /\
                      forall o', spec_outcome_ok c o' = true -> same_kind o o' = true.
Proof. exact exactly_one_outcome. Qed.
Print Assumptions C12_exactly_one.

Theorem C12_classified :
  forall c, spec_outcome_ok c (r_out (run_response c)) = true.
Proof. exact run_response_classified. Qed.
Print Assumptions C12_classified.

(* the body is closed exactly once iff Do returned a response, as the last step, on every path *)
Theorem C12_closed :
  forall c, spec_close_ok c (run_response c) = true.
Proof. exact run_response_closes. Qed.
Print Assumptions C12_closed.

(* errors-with-data: when the outcome is a gqlerror list (or nil) the data was decoded *)
Theorem C12_partial_data_kept :
  forall c, spec_data_ok (run_response c) = true.
Proof. exact run_response_keeps_data. Qed.
Print Assumptions C12_partial_data_kept.

Theorem C12_status_carried :
  forall c, hc_do_err c = false -> hc_status c <> 200%N ->
    exists fb n, r_out (run_response c) = OHTTPError (hc_status c) fb n.
Proof. exact http_error_carries_status. Qed.
Print Assumptions C12_status_carried.

Example C12_ex_errors_with_data :
  r_out (run_response {| hc_do_err := false; hc_status := 200; hc_len := 40; hc_first_end := Some 40%nat;
                         hc_first_env := {| eo_ok := true; eo_nerrors := 2 |}; hc_whole_env := None;
                         hc_fault := Some 40%nat |}) = OGqlErrors 2.
Proof. reflexivity. Qed.

(* ---- the generated helper's part (Rt/Helper.v; branches read from operation.go.tmpl) ---- *)
From Verif Require Import Rt.Helper.

(* the error that occurred (the client's, or the client getter's) is what the helper returns,
   and nil is returned exactly when nothing failed *)
Theorem C12_helper_returns_the_error_unchanged :
  forall c, let o := run_helper c in
    if (h_getter c && h_getter_fails c) || h_client_fails c
    then ho_err_is_injected o = true /\ ho_err_nil o = false
    else ho_err_nil o = true.
Proof. intros [[] [] []]; vm_compute; auto. Qed.
Print Assumptions C12_helper_returns_the_error_unchanged.

(* PARTIAL: the response struct is non-nil in every case in which a client was obtainable *)
Theorem C12_helper_data_nonnil_partial :
  forall c, h_getter c && h_getter_fails c = false -> ho_data_nonnil (run_helper c) = true.
Proof. intros [[] [] []] H; try discriminate H; reflexivity. Qed.
Print Assumptions C12_helper_data_nonnil_partial.

(* REFUTED: "also when it fails before sending (no client obtainable)": the client_getter branch
   of the template returns before the struct is allocated (known finding
   C12/helper/nil-data-when-client-getter-fails) *)
Theorem C12_helper_data_nonnil_refuted :
  exists c, spec_helper c (run_helper c) = false /\ ho_data_nonnil (run_helper c) = false.
Proof. exists {| h_getter := true; h_getter_fails := true; h_client_fails := false |}. split; reflexivity. Qed.
Print Assumptions C12_helper_data_nonnil_refuted.
