(* C13 — subscription client: no panic, deadlock or race under any interleaving.
   Model: Rt/Ws.v (the client after the fix: commits), at lock/lookup/send granularity. *)
From Verif Require Import Base.Str Rt.Ws Proofs.WsProofs.

(* partial: for EVERY schedule (any number of subscriptions, server frames of any kind, order
   and multiplicity, connection faults, connection loss, receives or not) in which the
   application does not end a subscription while one of its messages is in flight between the
   reader's lookup and its channel send, no goroutine panics *)
Theorem C13_no_panic_partial :
  forall ls, polite_from init ls -> panicked (run ls) = false.
Proof. exact no_panic_polite. Qed.
Print Assumptions C13_no_panic_partial.

(* the full statement (no politeness hypothesis) is REFUTED by the faithful model: open finding *)
Theorem C13_no_panic_refuted : exists ls, panicked (run ls) = true.
Proof. exact no_panic_refuted. Qed.
Print Assumptions C13_no_panic_refuted.

(* every API call returns as long as connection writes complete: in every reachable state of
   every schedule each unfinished call can take its next step under any fault, or waits only
   for the mutex held by the reader in handleErr, whose next step is enabled and frees it *)
Theorem C13_api_returns :
  forall s n pc, reachable s -> nth_error (calls s) n = Some pc ->
  match pc with
  | ADone _ => True
  | ACloseUnsub _ =>
      forall c fault, mem_nat c (close_collected s) = true -> step s (LStep (TCall n) c fault) <> None
  | ACloseLock _ =>
      (forall c fault, step s (LStep (TCall n) c fault) <> None)
      \/ (mutex s = HeldByReader /\ exists s', step s (LStep TReader 0%nat false) = Some s' /\ mutex s' = Free)
  | _ => forall c fault, step s (LStep (TCall n) c fault) <> None
  end.
Proof. exact api_call_progress. Qed.
Print Assumptions C13_api_returns.

(* the reader is never blocked for good on the error channel, and the client mutex is held
   across a scheduling point only inside handleErr (lock discipline of isClosing/errChan) *)
Theorem C13_reader_never_stuck : forall s, reachable s -> InvH s.
Proof. exact reader_never_stuck. Qed.
Print Assumptions C13_reader_never_stuck.

Theorem C13_lockset : forall s, reachable s -> InvM s.
Proof. exact mutex_only_in_handle_err. Qed.
Print Assumptions C13_lockset.

Example C13_ex_polite_nonvacuous :
  polite_from init [LCallSub; LStep (TCall 0%nat) 0%nat false; LServer (FData (Some 0%nat) 7%N);
                    LStep TReader 0%nat false; LStep TReader 0%nat false; LStep TReader 0%nat false; LRecv 0%nat;
                    LCallUnsub 0%nat; LStep (TCall 1%nat) 0%nat false]
  /\ map s_delivered (subs (run [LCallSub; LStep (TCall 0%nat) 0%nat false; LServer (FData (Some 0%nat) 7%N);
                    LStep TReader 0%nat false; LStep TReader 0%nat false; LStep TReader 0%nat false; LRecv 0%nat;
                    LCallUnsub 0%nat; LStep (TCall 1%nat) 0%nat false])) = [[7%N]].
Proof. split; [apply polite_fromb_sound; vm_compute; reflexivity | vm_compute; reflexivity]. Qed.

(* read from graphql/subscription.go by the translator: every subscriptionMap method that touches
   the map holds the RWMutex, the write lock when it writes.  Rt/Ws.v models each such method
   as one atomic step; this is the fact that makes that sound (and "no data races" on the map) *)
From Verif Require Import Gen.Consts.
Theorem C13_map_methods_hold_the_lock : ws_map_methods_hold_the_lock = true.
Proof. reflexivity. Qed.
Print Assumptions C13_map_methods_hold_the_lock.
