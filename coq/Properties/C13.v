(* C13 — subscription client: no panic, deadlock or race under any interleaving.
   Model: Rt/Ws.v (the client after the fix: commits), at lock/lookup/send granularity. *)
From Verif Require Import Base.Str Rt.Ws Proofs.WsProofs.

(* partial: for EVERY schedule (any number of subscriptions, server frames of any kind, order
   and multiplicity, connection faults, connection loss, receives or not) in which the
   application does not end a subscription while one of its messages is in flight between the
   reader's lookup and its channel send, no goroutine panics *)
Theorem C13_no_panic_partial :
  forall ls, polite_from init ls -> panicked (run ls) = false.
Proof. exact no_panic_polite. Qed.
Print Assumptions C13_no_panic_partial.

(* the full statement (no politeness hypothesis) is REFUTED by the faithful model: open finding *)
Theorem C13_no_panic_refuted : exists ls, panicked (run ls) = true.
Proof. exact no_panic_refuted. Qed.
Print Assumptions C13_no_panic_refuted.

(* every API call returns as long as connection writes complete: in every reachable state of
   every schedule each unfinished call can take its next step under any fault, or waits only
   for the mutex held by the reader in handleErr, whose next step is enabled and frees it *)
Theorem C13_api_returns :
  forall s n pc, reachable s -> nth_error (calls s) n = Some pc ->
  match pc with
  | ADone _ => True
  | ACloseUnsub _ =>
      forall c fault, mem_nat c (close_collected s) = true -> step s (LStep (TCall n) c fault) <> None
  | ACloseLock _ =>
      (forall c fault, step s (LStep (TCall n) c fault) <> None)
      \/ (mutex s = HeldByReader /\ exists s', step s (LStep TReader 0%nat false) = Some s' /\ mutex s' = Free)
  | _ => forall c fault, step s (LStep (TCall n) c fault) <> None
  end.
Proof. exact api_call_progress. Qed.
Print Assumptions C13_api_returns.

(* the reader is never blocked for good on the error channel, and the client mutex is held
   across a scheduling point only inside handleErr (lock discipline of isClosing/errChan) *)
Theorem C13_reader_never_stuck : forall s, reachable s -> InvH s.
Proof. exact reader_never_stuck. Qed.
Print Assumptions C13_reader_never_stuck.

Theorem C13_lockset : forall s, reachable s -> InvM s.
Proof. exact mutex_only_in_handle_err. Qed.
Print Assumptions C13_lockset.

Example C13_ex_polite_nonvacuous :
  polite_from init [LCallSub; LStep (TCall 0%nat) 0%nat false; LServer (FData (Some 0%nat) 7%N);
                    LStep TReader 0%nat false; LStep TReader 0%nat false; LStep TReader 0%nat false; LRecv 0%nat;
                    LCallUnsub 0%nat; LStep (TCall 1%nat) 0%nat false]
  /\ map s_delivered (subs (run [LCallSub; LStep (TCall 0%nat) 0%nat false; LServer (FData (Some 0%nat) 7%N);
                    LStep TReader 0%nat false; LStep TReader 0%nat false; LStep TReader 0%nat false; LRecv 0%nat;
                    LCallUnsub 0%nat; LStep (TCall 1%nat) 0%nat false])) = [[7%N]].
Proof. split; [apply polite_fromb_sound; vm_compute; reflexivity | vm_compute; reflexivity]. Qed.

(* read from graphql/subscription.go by the translator: every subscriptionMap method that touches
   the map holds the RWMutex, the write lock when it writes.  Rt/Ws.v models each such method
   as one atomic step; this is the fact that makes that sound (and "no data races" on the map) *)
From Verif Require Import Gen.Consts.
Theorem C13_map_methods_hold_the_lock : ws_map_methods_hold_the_lock = true.
Proof. reflexivity. Qed.
Print Assumptions C13_map_methods_hold_the_lock.

(* ... and no such method calls, while it holds the mutex, another method that acquires it: Go's
   RWMutex is not reentrant (a recursive read lock deadlocks as soon as a writer -- the reader
   goroutine handling `complete`, a concurrent Subscribe or Unsubscribe -- queues up between the two
   acquisitions), and Rt/Ws.v's atomic map steps have no such nested acquisition *)
Theorem C13_map_methods_do_not_reenter_the_lock : ws_map_methods_do_not_reenter_the_lock = true.
Proof. reflexivity. Qed.
Print Assumptions C13_map_methods_do_not_reenter_the_lock.

(* GLOBAL liveness.  The scheduler (thread steps and a helpful application that keeps receiving)
   plays against an adversary that decides, adaptively, which connection operations fail:
   [wins P s] = it can drive s into P whatever the adversary does.
   "Every API call returns as long as connection writes complete": from the state reached by ANY
   schedule with at most one Close, all calls can be brought to return, under every fault
   assignment [fa] ... *)
From Verif Require Import Rt.WsSpec Proofs.WsLive.
Theorem C13_every_call_returns :
  forall ls, close_once ls -> forall fa,
  exists ls', Forall internal ls' /\ follows fa ls' /\ all_done (run_from (run ls) ls') = true.
Proof. exact calls_can_always_complete_any_faults. Qed.
Print Assumptions C13_every_call_returns.

(* ... the one-Close hypothesis is the property's own quantifier ("one Close"); without it the
   MODEL has a deadlock (its Close threads share one list of collected ids; the real code takes
   one GetAllIDs snapshot per call): stated so that the hypothesis is seen to be needed *)
Theorem C13_two_closes_deadlock_in_the_model_refuted :
  ~ (forall s, reachable s -> exists ls, Forall internal ls /\ all_done (run_from s ls) = true).
Proof. exact calls_can_always_complete_needs_close_once. Qed.
Print Assumptions C13_two_closes_deadlock_in_the_model_refuted.

(* "the background reader terminates once the client is closed or the connection is lost":
   from every reachable state that is closing or lost, under every fault assignment *)
Theorem C13_reader_terminates :
  forall s, reachable s -> (is_closing s = true \/ lost s = true) -> forall fa,
  exists ls, Forall internal ls /\ follows fa ls /\ reader (run_from s ls) = RDone.
Proof. exact reader_terminates_after_close_or_loss_any_faults. Qed.
Print Assumptions C13_reader_terminates.

(* non-vacuity: a reachable state with a Subscribe, an Unsubscribe and a Close in flight and the
   reader blocked in a channel send is covered *)
Theorem C13_liveness_witness :
  calls (run busy) = [ADone true; ADone true; ASubWrite 2; AUnsubWrite 1; ACloseUnsub false]
  /\ reader (run busy) = RSend 0 7 /\ close_once busy.
Proof.
  split; [vm_compute; reflexivity|]. split; [vm_compute; reflexivity|].
  unfold close_once. vm_compute. repeat constructor.
Qed.
