(* C14 — subscription data: own channel, in order, once; closed once. *)
From Verif Require Import Base.Str Rt.Ws Proofs.WsProofs.

(* every subscription channel is closed at most once, and exactly when the subscription is
   marked ended -- in every reachable state of every schedule *)
Theorem C14_closed_at_most_once :
  forall s, reachable s -> Forall (fun e => s_closes e = if s_flag e then 1 else 0)%nat (subs s).
Proof. exact closed_at_most_once. Qed.
Print Assumptions C14_closed_at_most_once.

(* after a subscription has ended (flag set by server complete, Unsubscribe or Close) nothing
   more is ever delivered on it and it is not closed again, whatever happens afterwards *)
Theorem C14_nothing_after_end :
  forall s i e ls, InvA s -> get_sub s i = Some e -> s_flag e = true ->
    exists e', get_sub (fold_left step' ls s) i = Some e' /\ s_delivered e' = s_delivered e
               /\ s_flag e' = true /\ s_closes e' = s_closes e.
Proof. exact frozen_run. Qed.
Print Assumptions C14_nothing_after_end.

(* an Unsubscribe that returns nil has ended the subscription *)
Theorem C14_unsubscribe_ends :
  forall s n i c s', nth_error (calls s) n = Some (AUnsubWrite i) ->
    step s (LStep (TCall n) c false) = Some s' -> nth_error (calls s') n = Some (ADone true) ->
    exists e', get_sub s' i = Some e' /\ s_flag e' = true.
Proof. exact unsubscribe_ok_ends. Qed.
Print Assumptions C14_unsubscribe_ends.

(* NOT PROVED (carried by the per-run correspondence and the Go/Coq prefix oracle only):
   C14_isolation_order -- what a channel received is a prefix of the payloads the server sent
   for its id.  The invariant is stated in DESIGN.md section 6 (C14). *)
