(* C14 — subscription data: own channel, in order, once; closed once. *)
From Verif Require Import Base.Str Rt.Ws Proofs.WsProofs.

(* every subscription channel is closed at most once, and exactly when the subscription is
   marked ended -- in every reachable state of every schedule *)
Theorem C14_closed_at_most_once :
  forall s, reachable s -> Forall (fun e => s_closes e = if s_flag e then 1 else 0)%nat (subs s).
Proof. exact closed_at_most_once. Qed.
Print Assumptions C14_closed_at_most_once.

(* after a subscription has ended (flag set by server complete, Unsubscribe or Close) nothing
   more is ever delivered on it and it is not closed again, whatever happens afterwards *)
Theorem C14_nothing_after_end :
  forall s i e ls, InvA s -> get_sub s i = Some e -> s_flag e = true ->
    exists e', get_sub (fold_left step' ls s) i = Some e' /\ s_delivered e' = s_delivered e
               /\ s_flag e' = true /\ s_closes e' = s_closes e.
Proof. exact frozen_run. Qed.
Print Assumptions C14_nothing_after_end.

(* an Unsubscribe that returns nil has ended the subscription *)
Theorem C14_unsubscribe_ends :
  forall s n i c s', nth_error (calls s) n = Some (AUnsubWrite i) ->
    step s (LStep (TCall n) c false) = Some s' -> nth_error (calls s') n = Some (ADone true) ->
    exists e', get_sub s' i = Some e' /\ s_flag e' = true.
Proof. exact unsubscribe_ok_ends. Qed.
Print Assumptions C14_unsubscribe_ends.

(* isolation and order: in EVERY reachable state of EVERY schedule (any interleaving of API calls,
   server frames, faults, receives), what the application received on a subscription's channel
   is a prefix of the payloads the server sent for that subscription's id -- in the order sent,
   each at most once, never another subscription's -- and the rest is accounted for: dropped
   only after the subscription ended, held by the reader, or still queued *)
From Verif Require Import Proofs.WsOrder.
Theorem C14_received_is_a_prefix_of_sent :
  forall s i e, reachable s -> get_sub s i = Some e ->
  exists dropped,
    s_sent e = s_delivered e ++ dropped ++ inflight i (reader s) ++ queued i (inbound s)
    /\ (dropped <> [] -> s_flag e = true \/ s_present e = false).
Proof. exact received_is_a_prefix_of_sent. Qed.
Print Assumptions C14_received_is_a_prefix_of_sent.

(* while the subscription is alive nothing is lost *)
Theorem C14_nothing_lost_while_alive :
  forall s i e, reachable s -> get_sub s i = Some e -> s_flag e = false -> s_present e = true ->
  s_sent e = s_delivered e ++ inflight i (reader s) ++ queued i (inbound s).
Proof. exact nothing_lost_while_alive. Qed.
Print Assumptions C14_nothing_lost_while_alive.

Theorem C14_witness_delivery :
  match get_sub (run w_run) 0 with
  | Some e => s_delivered e = [7%N] /\ s_sent e = [7%N; 8%N] /\ queued 0 (inbound (run w_run)) = [8%N]
  | None => False
  end.
Proof. exact w_run_delivers. Qed.
Print Assumptions C14_witness_delivery.
