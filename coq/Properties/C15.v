(* C15 — wire protocol and resource release under I/O faults. *)
From Verif Require Import Base.Str Rt.Ws Proofs.WsProofs.

(* Start: whichever dial / write / read of the handshake fails, no reader is left and the
   dialled connection is closed; on success the init frame was written before the ack was read *)
Theorem C15_start_fault_cleanup : forall ops, start_ok (run_start_ops ops).
Proof. exact start_fault_cleanup. Qed.
Print Assumptions C15_start_fault_cleanup.

(* Subscribe: a failed write leaves no registered subscription and no frame *)
Theorem C15_subscribe_fault_unregisters :
  forall s n i c s', nth_error (calls s) n = Some (ASubWrite i) ->
    step s (LStep (TCall n) c true) = Some s' ->
    (forall e, nth_error (subs s') i = Some e -> s_present e = false) /\
    nth_error (calls s') n = Some (ADone false) /\ frames s' = frames s.
Proof. exact subscribe_fault_unregisters. Qed.
Print Assumptions C15_subscribe_fault_unregisters.

(* Close sends complete only for registered, still active subscriptions *)
Theorem C15_close_collects_only_active :
  forall s i, In i (active_ids s) ->
    exists e, nth_error (subs s) i = Some e /\ s_present e = true /\ s_flag e = false.
Proof. exact close_collects_only_active. Qed.
Print Assumptions C15_close_collects_only_active.

(* Close: a failing close-frame write does not stop it, and its last step always closes the
   connection and the error channel *)
Theorem C15_close_goes_on :
  forall s n c fault, (exists err, nth_error (calls s) n = Some (ACloseWrite err)) ->
    exists s' err', step s (LStep (TCall n) c fault) = Some s' /\ nth_error (calls s') n = Some (ACloseLock err').
Proof. exact close_goes_on. Qed.
Print Assumptions C15_close_goes_on.

Theorem C15_close_always_releases :
  forall s n err c fault s', nth_error (calls s) n = Some (ACloseLock err) ->
    step s (LStep (TCall n) c fault) = Some s' ->
    conn_closes s' = S (conn_closes s) /\ err_closed s' = S (err_closed s) /\ is_closing s' = true
    /\ nth_error (calls s') n = Some (ADone (negb err)).
Proof. exact close_releases. Qed.
Print Assumptions C15_close_always_releases.

Theorem C15_close_reaches_release :
  forall s n pc, reachable s -> nth_error (calls s) n = Some pc ->
  match pc with
  | ADone _ => True
  | ACloseUnsub _ =>
      forall c fault, mem_nat c (close_collected s) = true -> step s (LStep (TCall n) c fault) <> None
  | ACloseLock _ =>
      (forall c fault, step s (LStep (TCall n) c fault) <> None)
      \/ (mutex s = HeldByReader /\ exists s', step s (LStep TReader 0%nat false) = Some s' /\ mutex s' = Free)
  | _ => forall c fault, step s (LStep (TCall n) c fault) <> None
  end.
Proof. exact api_call_progress. Qed.
Print Assumptions C15_close_reaches_release.

(* "subscribe frames with fresh unique ids": in every reachable state of every schedule the
   subscribe frames written so far carry pairwise distinct ids, each the id of a registered
   subscription *)
From Verif Require Import Proofs.WsFresh.
Theorem C15_subscribe_ids_are_fresh :
  forall s, reachable s ->
  NoDup (sub_ids (frames s)) /\ forall i, In i (sub_ids (frames s)) -> (i < List.length (subs s))%nat.
Proof. exact subscribe_ids_are_fresh. Qed.
Print Assumptions C15_subscribe_ids_are_fresh.

(* The conversation grammar.  For every SEQUENCE of API calls (a call starts when the previous
   ones have returned; only ids that Subscribe returned are unsubscribed; nothing is called after
   Close), every interleaving of it with the reader, the server and the application's receives,
   and every choice of failing connection operations: the frames written so far (newest first)
   have pairwise distinct subscribe ids, at most one complete per id, each complete after the
   subscribe frame of its id, and nothing after the close frame... *)
From Verif Require Import Rt.WsSpec Proofs.WsGrammar.
Theorem C15_conversation_grammar :
  forall ls, sequential ls = true -> grammar (frames (run ls)).
Proof. exact conversation_grammar. Qed.
Print Assumptions C15_conversation_grammar.

(* ... equivalently, the left-to-right check a graphql-transport-ws server makes on the frames
   after connection_init (oldest first) accepts them *)
Theorem C15_conversation_accepted :
  forall ls, sequential ls = true -> conv_ok [] [] (rev (frames (run ls))) = true.
Proof. exact conversation_accepted. Qed.
Print Assumptions C15_conversation_accepted.

(* non-vacuity: a sequential schedule in which an Unsubscribe write fails, the server completes
   the other subscription, and Close writes the one missing complete frame and the close frame *)
Theorem C15_conversation_witness :
  sequential ls0 = true
  /\ frames (run ls0) = [WClose; WComplete 0; WSubscribe 1; WSubscribe 0]
  /\ calls (run ls0) = [ADone true; ADone true; ADone false; ADone true]
  /\ conv_ok [] [] (rev (frames (run ls0))) = true.
Proof. exact conversation_nonvacuous. Qed.
