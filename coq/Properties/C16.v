(* C16 — enum constants are a bijection with the schema's enum values.
   This file holds only the property theorems (closed by [exact]), their
   non-vacuity examples and Print Assumptions. *)
From Verif Require Import Base.Str Gen.Casing Gen.Enum Proofs.EnumProofs.

(* accepted => one constant per schema value, in schema order, whose string is the
   GraphQL name, named by the casing rule in force, all names distinct *)
Theorem C16_ok_bijection :
  forall T algo vs cs,
    convert_enum T algo vs = Ok cs ->
    map snd cs = vs /\ map fst cs = map (enum_value_name T algo) vs /\ NoDup (map fst cs).
Proof. exact convert_enum_ok. Qed.
Print Assumptions C16_ok_bijection.

(* rejected iff two positions receive the same Go identifier; no third outcome *)
Theorem C16_err_iff_clash :
  forall T algo vs,
    convert_enum T algo vs = Err (b "EnumConflict") <-> ~ NoDup (map (enum_value_name T algo) vs).
Proof. exact convert_enum_err_iff. Qed.
Print Assumptions C16_err_iff_clash.

Theorem C16_total :
  forall T algo vs,
    (exists cs, convert_enum T algo vs = Ok cs) \/ convert_enum T algo vs = Err (b "EnumConflict").
Proof. exact convert_enum_total. Qed.
Print Assumptions C16_total.

(* raw casing never clashes on distinct schema values *)
Theorem C16_raw_injective :
  forall T vs, NoDup vs -> exists cs, convert_enum T CRaw vs = Ok cs.
Proof. exact convert_enum_raw_ok. Qed.
Print Assumptions C16_raw_injective.

(* the emitted declaration (type, const block, All slice) for every config,
   typename option, enum name and value list passes the specification checker *)
Theorem C16_emitted_bijection :
  forall cfg tn gql vs d, gen_enum cfg tn gql vs = Ok d -> enum_bijection_b vs d = true.
Proof. exact gen_enum_bijection. Qed.
Print Assumptions C16_emitted_bijection.

(* non-vacuity *)
Example C16_ex_accepts :
  exists d, gen_enum {| cc_default := None; cc_all_enums := None; cc_enums := [] |} None
                     (b "Color") [b "RED"; b "dark_green"; b "_blue_"] = Ok d
            /\ map (fun k => fst (fst k)) (ed_consts d) = [b "ColorRed"; b "ColorDarkGreen"; b "ColorBlue"].
Proof. eexists. split; vm_compute; reflexivity. Qed.

Example C16_ex_clash_default :
  convert_enum (b "E") CDefault [b "FOO_BAR"; b "foo_bar"] = Err (b "EnumConflict")
  /\ exists cs, convert_enum (b "E") CRaw [b "FOO_BAR"; b "foo_bar"] = Ok cs.
Proof. split; [vm_compute; reflexivity | eexists; vm_compute; reflexivity]. Qed.
