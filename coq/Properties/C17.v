(* C17 — where and how operations are written does not change the generated code.
   Model: Gen/Pipeline.v (collect = parse.go getQueries/getQueriesFromGo; generate = generate.go). *)
From Verif Require Import Base.Str Base.Sort Gen.Pipeline Proofs.PipelineProofs.
From Coq Require Import Permutation.

(* one merged document: every definition of every file / literal is collected, so a fragment
   is visible to operations of every other file *)
Theorem C17_collect_complete :
  forall srcs d, In d (collect srcs) <-> exists s, In s srcs /\ In d (src_defs s).
Proof. exact collect_In. Qed.
Print Assumptions C17_collect_complete.

(* regrouping: splitting a file, or moving definitions into Go string literals, collects the
   same definitions; reordering files permutes them *)
Theorem C17_split_file :
  forall n1 n2 n ds1 ds2 rest,
    collect (SGraphql n1 ds1 :: SGraphql n2 ds2 :: rest) = collect (SGraphql n (ds1 ++ ds2) :: rest).
Proof. exact collect_split. Qed.
Print Assumptions C17_split_file.

Theorem C17_go_literals :
  forall n m lits rest, collect (SGo n lits :: rest) = collect (SGraphql m (concat lits) :: rest).
Proof. exact collect_go. Qed.
Print Assumptions C17_go_literals.

Theorem C17_reorder_files :
  forall srcs srcs', Permutation srcs srcs' -> Permutation (collect srcs) (collect srcs').
Proof. exact collect_perm. Qed.
Print Assumptions C17_reorder_files.

(* Generate gives the same output (types sorted by name, operations sorted by name) for any
   two layouts whose collected definitions are permutations of each other -- or fails for both.
   Hypotheses on the two parameters: the validator's verdict and the converter's result for an
   operation depend on the SET of definitions only (validator: third party; converter: see the
   trusted base -- import-alias numbering is the known exception, watched by the oracle). *)
Theorem C17_generate_layout_independent :
  forall (V : list def -> bool) (conv : list def -> def -> option (N * list (str * N))),
    (forall l l', Permutation l l' -> V l = V l') ->
    (forall f f' o, Permutation f f' -> conv f o = conv f' o) ->
    forall srcs srcs',
      srcs <> [] -> srcs' <> [] ->
      (forall s, In s srcs -> src_bad s = false) -> (forall s, In s srcs' -> src_bad s = false) ->
      Permutation (collect srcs) (collect srcs') ->
      NoDup (map d_name (ops_of (collect srcs))) ->
      match generate V conv srcs, generate V conv srcs' with
      | GOk o, GOk o' => o = o'
      | GErr _, GErr _ => True
      | _, _ => False
      end.
Proof. exact generate_layout_independent. Qed.
Print Assumptions C17_generate_layout_independent.
