(* C18 — diagnostics point at the file and line of the offending operation.
   Model: Gen/Errors.v (generate/errors.go + the pseudo-filename of parse.go), at byte level
   including the decimal printing and parsing of the line number. *)
From Verif Require Import Base.Str Gen.Errors Proofs.ErrorsProofs.
From Coq Require Import ZArith.

(* strconv.Atoi (fmt.Sprint n) = n, for every n *)
Theorem C18_line_number_roundtrip : forall n, atoi (dec n) = Some (Z.of_N n).
Proof. exact atoi_dec. Qed.
Print Assumptions C18_line_number_roundtrip.

(* a node on line l of a .graphql file is reported as file:l *)
Theorem C18_graphql_line :
  forall f l, no_colon f -> (0 < l)%N -> error_pos_string f (Z.of_N l) = f ++ [colon] ++ dec l.
Proof. exact pos_string_graphql. Qed.
Print Assumptions C18_graphql_line.

(* a node on line l of a literal whose opening quote is on line L of file.go is reported as
   file.go:(L + l - 1): the line in the Go file, for every L and l *)
Theorem C18_go_line :
  forall f L l, no_colon f -> (0 < L)%N -> (0 < l)%N ->
    error_pos_string (pseudo_filename f L) (Z.of_N l) = f ++ [colon] ++ dec (L + l - 1).
Proof. exact pos_string_go. Qed.
Print Assumptions C18_go_line.

(* without the hypothesis on the path the statement is false (a ':' in the path of a Go file) *)
Theorem C18_go_line_colon_path_refuted :
  exists f L l, (0 < L)%N /\ (0 < l)%N /\
    error_pos_string (pseudo_filename f L) (Z.of_N l) <> f ++ [colon] ++ dec (L + l - 1).
Proof. exact pos_string_go_colon_path_refuted. Qed.
Print Assumptions C18_go_line_colon_path_refuted.

(* errorf: an explicitly passed node position always wins; otherwise the position of a wrapped
   genqlient error, otherwise the first location of a wrapped gqlparser error that names a file *)
Theorem C18_explicit_position_wins : forall p w, lift (Some p) w = Some p.
Proof. exact lift_explicit. Qed.
Print Assumptions C18_explicit_position_wins.

Theorem C18_wrapped_graphql_position :
  forall f l, f <> [] -> lift None (WGraphQL f (Some l)) = Some {| ep_file := f; ep_line := l |}.
Proof. exact lift_wrapped_graphql. Qed.
Print Assumptions C18_wrapped_graphql_position.

Theorem C18_no_position_iff :
  forall w, lift None w = None <->
    match w with
    | WNone | WOther => True
    | WGenqlient p => p = None
    | WGraphQL f _ => f = []
    end.
Proof. exact lift_none_iff. Qed.
Print Assumptions C18_no_position_iff.

Example C18_ex : error_pos_string (pseudo_filename (b "ops/q.go") 17) 4 = b "ops/q.go:20".
Proof. vm_compute. reflexivity. Qed.
