(* C19 — decoding untrusted response bytes fails cleanly, never panics or mis-types.
   Model: Rt/JsonDecode.v (encoding/json's struct decoding as the generated code uses it, the
   generated UnmarshalJSON methods and the __unmarshal<Interface> helpers), run on the
   declarations of Gen/Convert.v.  Bytes that are not JSON at all are rejected by encoding/json's
   scanner before any generated code runs (trusted, exercised by the byte-mutation stream). *)
From Verif Require Import Base.Str Gen.Consts Gen.Gql Gen.Directive Gen.Convert Rt.JsonDecode Proofs.JsonProofs
  Proofs.FuelProofs Proofs.ShapeProofs Proofs.RoundTrip Proofs.TermProofs.

(* for EVERY typemap, type, JSON value and depth: the decoders return a value or an error *)
Theorem C19_no_panic :
  forall tm fuel,
    (forall t j cur, np (decode tm true fuel t j cur))
    /\ (forall n fields j cur, np (plain_struct tm true fuel n fields j cur))
    /\ (forall n fields j cur, np (unmarshal_struct tm true fuel n fields j cur))
    /\ (forall n ptr leaf c cur, np (fill tm true fuel n ptr leaf c cur))
    /\ (forall i j cur, np (unmarshal_iface tm true fuel i j cur)).
Proof. exact decode_no_panic. Qed.
Print Assumptions C19_no_panic.

(* ... and that rests on the wrapper hiding the promoted method: without it the first pass
   re-enters UnmarshalJSON without end (what the translator checks in the template is exactly
   the flag [true] above) *)
Theorem C19_wrapper_is_needed :
  forall tm f n fields j cur, j <> JNull -> exists site, unmarshal_struct tm false (S f) n fields j cur = Panic site.
Proof. exact unwrapped_struct_decoder_panics. Qed.
Print Assumptions C19_wrapper_is_needed.

(* a decoded abstract value holds one of the interface's implementations, the one whose GraphQL
   type IS the response's __typename *)
Theorem C19_dispatch_is_by_typename :
  forall tm fuel i kvs cur v,
  unmarshal_iface tm true fuel i (JObj kvs) cur = Ok v ->
  exists f g sh impls sel tn impl d x,
    fuel = S f /\ assoc i tm = Some (DIface g sh impls sel)
    /\ scan_typename kvs [] = Ok tn /\ tn <> []
    /\ In impl impls /\ assoc impl tm = Some d /\ decl_gql d = tn
    /\ decode tm true f (GStruct impl) (JObj kvs) (VStruct impl []) = Ok x
    /\ v = VIface impl x.
Proof. exact iface_dispatch. Qed.
Print Assumptions C19_dispatch_is_by_typename.

Theorem C19_missing_typename_is_an_error :
  forall tm f i kvs cur g sh impls sel,
  assoc i tm = Some (DIface g sh impls sel) -> (forall k v, In (k, v) kvs -> fold_eqb k typename_name = false) ->
  unmarshal_iface tm true (S f) i (JObj kvs) cur = Err (b "missing-typename").
Proof. exact iface_no_typename_key. Qed.
Print Assumptions C19_missing_typename_is_an_error.

Theorem C19_empty_or_null_typename_is_an_error :
  forall tm f i kvs cur g sh impls sel,
  assoc i tm = Some (DIface g sh impls sel) -> scan_typename kvs [] = Ok [] ->
  unmarshal_iface tm true (S f) i (JObj kvs) cur = Err (b "missing-typename").
Proof. exact iface_missing_typename. Qed.
Print Assumptions C19_empty_or_null_typename_is_an_error.

Theorem C19_unknown_typename_is_an_error :
  forall tm f i kvs cur g sh impls sel tn,
  assoc i tm = Some (DIface g sh impls sel) -> scan_typename kvs [] = Ok tn -> tn <> [] ->
  (forall impl d, In impl impls -> assoc impl tm = Some d -> decl_gql d <> tn) ->
  unmarshal_iface tm true (S f) i (JObj kvs) cur = Err (b "unexpected-typename").
Proof. exact iface_unknown_typename. Qed.
Print Assumptions C19_unknown_typename_is_an_error.

Theorem C19_scalar_or_list_for_an_abstract_value_is_an_error :
  forall tm f i j cur,
  (match j with JNull | JObj _ => False | _ => True end) -> unmarshal_iface tm true (S f) i j cur = Err EDEC.
Proof. exact iface_not_an_object. Qed.
Print Assumptions C19_scalar_or_list_for_an_abstract_value_is_an_error.

(* the hypotheses are met by a concrete program: a known type decodes, an unknown one errs *)
Theorem C19_witness :
  (exists v, decode w_tm true 10 (GStruct (b "QResponse")) w_resp_two (VStruct (b "QResponse") []) = Ok v)
  /\ (exists e, decode w_tm true 10 (GStruct (b "QResponse")) w_resp_bad (VStruct (b "QResponse") []) = Err e).
Proof. split; [eexists; exact w_two_ok | exact w_bad_err]. Qed.
Print Assumptions C19_witness.

(* facts read from the templates of /repo's current tree by the translator (Gen/Consts.v is
   regenerated on every run): the wrapper embeds graphql.NoUnmarshalJSON, and the helper has
   explicit arms for the empty and for an unknown __typename *)
Theorem C19_templates_as_modelled :
  tmpl_unmarshal_has_no_unmarshal_json = true
  /\ tmpl_unmarshal_helper_has_empty_arm = true
  /\ tmpl_unmarshal_helper_has_default_arm = true.
Proof. repeat split; reflexivity. Qed.
Print Assumptions C19_templates_as_modelled.

(* "never loops", as far as the fuel-indexed model can say it: fuel only bounds the depth --
   once any result is produced, every larger fuel produces the same result (all five decoders) *)
Theorem C19_result_independent_of_fuel :
  forall tm w f,
    (forall t j cur, defined (decode tm w f t j cur) -> decode tm w (S f) t j cur = decode tm w f t j cur)
    /\ (forall n fields j cur, defined (plain_struct tm w f n fields j cur) -> plain_struct tm w (S f) n fields j cur = plain_struct tm w f n fields j cur)
    /\ (forall n fields j cur, defined (unmarshal_struct tm w f n fields j cur) -> unmarshal_struct tm w (S f) n fields j cur = unmarshal_struct tm w f n fields j cur)
    /\ (forall n ptr leaf c cur, defined (fill tm w f n ptr leaf c cur) -> fill tm w (S f) n ptr leaf c cur = fill tm w f n ptr leaf c cur)
    /\ (forall i j cur, defined (unmarshal_iface tm w f i j cur) -> unmarshal_iface tm w (S f) i j cur = unmarshal_iface tm w f i j cur).
Proof. exact decode_fuel_monotone. Qed.
Print Assumptions C19_result_independent_of_fuel.

Theorem C19_any_two_sufficient_fuels_agree :
  forall tm w f d t j cur, defined (decode tm w f t j cur) -> decode tm w (d + f) t j cur = decode tm w f t j cur.
Proof. exact decode_fuel_irrelevant. Qed.
Print Assumptions C19_any_two_sufficient_fuels_agree.

(* never mis-typed: whatever the JSON, a decoded value has the Go kind of the type it was decoded
   into; an interface type holds nil or one of ITS implementations *)
Theorem C19_never_mistyped :
  forall tm fuel t j cur v,
  decode tm true fuel t j cur = Ok v -> shape_ok tm t cur -> shape_ok tm t v.
Proof. exact decode_shape. Qed.
Print Assumptions C19_never_mistyped.

(* fuel is a bound on the nesting of the TYPE, not on the size of the input: for the wrapper
   algebra of leaf types (slices at any depth, optional pointer, scalar-like leaf) decoding any
   JSON value, however large or deep, is defined as soon as the fuel exceeds the type's depth *)
Theorem C19_leaf_types_never_run_out_of_fuel :
  forall tm w t fuel j cur,
  wrapper_type tm t = true -> (tdepth t < fuel)%nat -> defined (decode tm w fuel t j cur).
Proof. exact wrapper_decode_terminates. Qed.
Print Assumptions C19_leaf_types_never_run_out_of_fuel.

(* "never loops", for EVERY generated type, recursive ones included.  The decoder hands the same
   JSON value on only from a struct to its embedded (fragment) structs and from an interface to
   its implementations; in a type map where those edges form no cycle (Go rejects a struct that
   embeds itself; Corr/Rtcorr.v evaluates [same_json_acyclicb] on the type map of every explored
   program) decoding ANY JSON value into ANY type is defined for all large enough fuels, and the
   bound depends on the value only through its nesting depth *)
From Verif Require Import Rt.Acyclic Proofs.DecodeTerm.
Theorem C19_decode_terminates :
  forall tm, same_json_acyclic tm -> forall w t j cur,
  exists n, forall m, (n <= m)%nat -> defined (decode tm w m t j cur).
Proof. exact decode_terminates. Qed.
Print Assumptions C19_decode_terminates.

Theorem C19_fuel_bound_depends_on_depth_only :
  forall tm, same_json_acyclic tm -> forall w t d,
  exists n, forall m j cur, (jdepth j <= d)%nat -> (n <= m)%nat -> defined (decode tm w m t j cur).
Proof. exact decode_terminates_depth. Qed.
Print Assumptions C19_fuel_bound_depends_on_depth_only.

(* ... so the model assigns every input ONE result (a value, an error or a panic), the same for
   every sufficient fuel *)
Theorem C19_decode_total :
  forall tm, same_json_acyclic tm -> forall w t j cur,
  exists n r, r <> OutOfFuel /\ forall m, (n <= m)%nat -> decode tm w m t j cur = r.
Proof. exact decode_total. Qed.
Print Assumptions C19_decode_total.

Theorem C19_acyclicity_check_is_sound :
  forall tm, same_json_acyclicb tm = true -> same_json_acyclic tm.
Proof. exact same_json_acyclicb_sound. Qed.
Print Assumptions C19_acyclicity_check_is_sound.

(* non-vacuity: a recursive type map (T -> *T, []T, an interface with two implementations, one
   embedding a fragment struct that leads back to T) passes the check ... *)
Theorem C19_recursive_types_are_covered : same_json_acyclicb r_tm = true.
Proof. exact r_tm_acyclicb. Qed.

(* ... and the hypothesis is needed: for a struct that embeds itself the model's decoder runs
   out of every fuel *)
Theorem C19_self_embedding_struct_diverges :
  forall n cur, decode loop_tm true n (GStruct (b "A")) (JObj []) cur = OutOfFuel.
Proof. exact loop_tm_diverges. Qed.
Print Assumptions C19_self_embedding_struct_diverges.
