(* C20 — a failed run leaves previously generated files untouched; a successful run writes
   exactly the generator's bytes.  Model: Gen/MainRun.v (generate/main.go). *)
From Verif Require Import Base.Str Gen.MainRun Proofs.MainRunProofs.
From Coq Require Import Permutation.

(* If the run ends in a configuration / schema / operation / code-generation error (every
   error of ReadAndValidateConfig and of Generate), then the file system is unchanged and not
   a single mutating operation (mkdir, create, truncate, write) was even attempted -- for every
   prior file system, every generator result and every fault plan. *)
Theorem C20_error_no_write :
  forall cfg_ok gen fail fs,
    is_generation_error (snd (run cfg_ok gen fail fs)) = true ->
    run cfg_ok gen fail fs = (fs, [], snd (run cfg_ok gen fail fs)) /\ (cfg_ok = false \/ gen = None).
Proof. exact run_generation_error. Qed.
Print Assumptions C20_error_no_write.

(* ... and conversely every failing configuration or generation is reported as such *)
Theorem C20_error_reported :
  forall cfg_ok gen fail fs, (cfg_ok = false \/ gen = None) ->
    run cfg_ok gen fail fs = (fs, [], if cfg_ok then ErrGenerate else ErrConfig).
Proof. exact run_error_iff. Qed.
Print Assumptions C20_error_reported.

(* On success every output path holds exactly the bytes the generator produced, every other
   path is untouched, and the writes performed are exactly the generator's outputs. *)
Theorem C20_success_exact :
  forall outs fs, NoDup (map fst outs) ->
    let '(fs', tr, o) := run true (Some outs) None fs in
    o = Done /\
    (forall p c, In (p, c) outs -> fs_get fs' p = Some c) /\
    (forall q, ~ In q (map fst outs) -> fs_get fs' q = fs_get fs q) /\
    writes_of tr = outs.
Proof. exact success_exact. Qed.
Print Assumptions C20_success_exact.

(* ... whatever order Go's map iteration hands the outputs to the write loop in *)
Theorem C20_success_order_independent :
  forall outs outs' fs q, NoDup (map fst outs) -> Permutation outs outs' ->
    fs_get (fst (fst (run true (Some outs) None fs))) q = fs_get (fst (fst (run true (Some outs') None fs))) q.
Proof. exact success_order_independent. Qed.
Print Assumptions C20_success_order_independent.

(* Under ANY outcome (including file-system faults, which the property does not cover) a
   write only ever targets an output path with the generator's bytes for it. *)
Theorem C20_writes_only_generated :
  forall cfg_ok gen fail fs p c,
    In (FWrite p c) (snd (fst (run cfg_ok gen fail fs))) ->
    exists outs, cfg_ok = true /\ gen = Some outs /\ In (p, c) outs.
Proof. exact writes_only_generated. Qed.
Print Assumptions C20_writes_only_generated.

Example C20_ex_nonvacuous :
  let fs := [(b "generated.go", 1); (b "ops.json", 2)] in
  run true None None fs = (fs, [], ErrGenerate) /\
  fs_get (fst (fst (run true (Some [(b "generated.go", 7); (b "ops.json", 8)]) None fs))) (b "generated.go") = Some 7.
Proof. split; vm_compute; reflexivity. Qed.
