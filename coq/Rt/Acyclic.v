(* Which declarations of an emitted type map hand the SAME JSON value on to another declaration
   (a struct to its embedded structs, an interface to its implementations), and an executable
   check that these edges form no cycle.  Definitions only: the hypothesis of the decoder's
   termination theorem (Proofs/DecodeTerm.v), evaluated on the type map of every explored
   program by Corr/Rtcorr.v. *)
From Verif Require Import Base.Str Gen.Consts Gen.Gql Gen.Directive Gen.Convert Rt.JsonDecode.
From Coq Require Import Arith.
Local Open Scope nat_scope.

(* the declarations a declaration hands the SAME JSON value to *)
Definition same_json_targets (d : godecl) : list str :=
  match d with
  | DStruct _ fields _ _ =>
      flat_map (fun fl => match gf_name fl with
                          | [] => match unwrap (gf_type fl) with
                                  | GStruct m => [m]
                                  | GIface m => [m]
                                  | _ => []
                                  end
                          | _ => []
                          end) fields
  | DIface _ _ impls _ => impls
  | _ => []
  end.

Definition rank_of (ranks : list (str * nat)) (n : str) : nat :=
  match assoc n ranks with Some r => r | None => 0 end.

(* only the binding [assoc] finds counts (a shadowed duplicate is never decoded) *)
Definition rank_okb (tm : typemap) (ranks : list (str * nat)) : bool :=
  forallb (fun nd => match assoc (fst nd) tm with
                     | Some d => forallb (fun m => Nat.ltb (rank_of ranks m) (rank_of ranks (fst nd))) (same_json_targets d)
                     | None => true
                     end) tm.

(* candidate ranks: length of the longest same-JSON path, by [length tm] rounds of relaxation *)
Definition rank_step (tm : typemap) (ranks : list (str * nat)) : list (str * nat) :=
  map (fun nd => (fst nd, fold_right (fun m a => Nat.max (S (rank_of ranks m)) a) 0 (same_json_targets (snd nd)))) tm.

Fixpoint rank_iter (tm : typemap) (k : nat) (ranks : list (str * nat)) : list (str * nat) :=
  match k with O => ranks | S k' => rank_iter tm k' (rank_step tm ranks) end.

Definition compute_ranks (tm : typemap) : list (str * nat) := rank_iter tm (length tm) [].

Definition same_json_acyclicb (tm : typemap) : bool := rank_okb tm (compute_ranks tm).

