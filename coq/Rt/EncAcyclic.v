(* C06 / C04: the executable hypotheses of the marshaling termination theorem
   (Proofs/EncodeTerm.v): no struct contains itself BY VALUE (the zero value that a missing field
   is read as is handed on to the field's own encoder), and FlattenedFields finishes within its
   fixed fuel on every struct declaration.  Definitions only; evaluated by Corr/Rtcorr.v on the
   type map of every explored program. *)
From Verif Require Import Base.Str Gen.Consts Gen.Gql Gen.Directive Gen.Convert Rt.JsonDecode Rt.Acyclic Rt.JsonEncode.
From Coq Require Import List PeanoNat.
Import ListNotations.
Local Open Scope nat_scope.

(* the struct a field's ZERO value is handed to by the encoder of the enclosing struct *)
Definition field_targets (fl : gofield) : list str :=
  if special fl then
    if Nat.eqb (sdepth (gf_type fl)) 0 && negb (ispointer (gf_type fl)) then
      match unwrap (gf_type fl) with GStruct m => [m] | _ => [] end
    else []
  else match gf_type fl with GStruct m => [m] | _ => [] end.

Definition enc_targets (tm : typemap) (d : godecl) : list str :=
  match d with
  | DStruct _ fields _ _ =>
      match flattened_fields tm fields with
      | Ok flat => flat_map (fun p => field_targets (fst p)) flat
      | _ => []
      end
  | _ => []
  end.

Definition enc_edge (tm : typemap) (n m : str) : Prop :=
  exists d, assoc n tm = Some d /\ In m (enc_targets tm d).

(* no struct contains itself by value *)
Definition enc_acyclic (tm : typemap) : Prop :=
  exists rank : str -> nat, forall n m, enc_edge tm n m -> rank m < rank n.

(* FlattenedFields finishes within its fixed fuel on every struct declaration *)
Definition flatten_defined (tm : typemap) : Prop :=
  forall n g fields s i, assoc n tm = Some (DStruct g fields s i) -> flattened_fields tm fields <> OutOfFuel.

Definition encode_term_ok (tm : typemap) : Prop := enc_acyclic tm /\ flatten_defined tm.

(* ---- the checks (same scheme as Rt/Acyclic.v, over the by-value edges) ---- *)
Definition enc_rank_okb (tm : typemap) (ranks : list (str * nat)) : bool :=
  forallb (fun nd => match assoc (fst nd) tm with
                     | Some d => forallb (fun m => Nat.ltb (rank_of ranks m) (rank_of ranks (fst nd))) (enc_targets tm d)
                     | None => true
                     end) tm.

Definition enc_rank_step (tm : typemap) (ranks : list (str * nat)) : list (str * nat) :=
  map (fun nd => (fst nd, fold_right (fun m a => Nat.max (S (rank_of ranks m)) a) 0 (enc_targets tm (snd nd)))) tm.

Fixpoint enc_rank_iter (tm : typemap) (k : nat) (ranks : list (str * nat)) : list (str * nat) :=
  match k with O => ranks | S k' => enc_rank_iter tm k' (enc_rank_step tm ranks) end.

Definition enc_compute_ranks (tm : typemap) : list (str * nat) := enc_rank_iter tm (length tm) [].

Definition enc_acyclicb (tm : typemap) : bool := enc_rank_okb tm (enc_compute_ranks tm).

Definition flatten_okb (tm : typemap) : bool :=
  forallb (fun nd => match assoc (fst nd) tm with
                     | Some (DStruct _ fields _ _) =>
                         match flattened_fields tm fields with OutOfFuel => false | _ => true end
                     | _ => true
                     end) tm.

Definition encode_termb (tm : typemap) : bool := enc_acyclicb tm && flatten_okb tm.

