(* Model of the generated operation helper (operation.go.tmpl) as far as C12 speaks about it:
   which error it returns and whether the response struct is non-nil, for the three ways a call
   can go.  The branches are the template's, read from /repo by the translator (Gen/Consts.v). *)
From Verif Require Import Base.Str Gen.Consts.

Record helper_case := { h_getter : bool;          (* the configuration has a client_getter *)
                        h_getter_fails : bool;    (* ... and it returns an error *)
                        h_client_fails : bool }.  (* MakeRequest returns an error *)

Record helper_out := { ho_requests : nat;          (* requests made through the client *)
                       ho_err_is_injected : bool;  (* the returned error IS the one that occurred *)
                       ho_err_nil : bool;
                       ho_data_nonnil : bool }.

Definition run_helper (c : helper_case) : helper_out :=
  if h_getter c && h_getter_fails c then
    {| ho_requests := 0; ho_err_is_injected := true; ho_err_nil := false;
       ho_data_nonnil := negb tmpl_operation_getter_failure_returns_nil_data |}
  else
    {| ho_requests := if tmpl_operation_single_make_request then 1 else 0;
       ho_err_is_injected := h_client_fails c && tmpl_operation_returns_err_unchanged;
       ho_err_nil := negb (h_client_fails c);
       ho_data_nonnil := tmpl_operation_data_before_request |}.

(* what C12 demands of the helper *)
Definition spec_helper (c : helper_case) (o : helper_out) : bool :=
  let failed := (h_getter c && h_getter_fails c) || h_client_fails c in
  (if failed then ho_err_is_injected o && negb (ho_err_nil o) else ho_err_nil o)
  && ho_data_nonnil o.

Definition out_eqb (a c : helper_out) : bool :=
  Nat.eqb (ho_requests a) (ho_requests c) && Bool.eqb (ho_err_is_injected a) (ho_err_is_injected c)
  && Bool.eqb (ho_err_nil a) (ho_err_nil c) && Bool.eqb (ho_data_nonnil a) (ho_data_nonnil c).

(* correspondence: indices of the observed calls the model does not predict *)
Definition helper_mismatches (cs : list (helper_case * helper_out)) : list nat :=
  (fix go (l : list (helper_case * helper_out)) (i : nat) : list nat :=
     match l with
     | [] => []
     | (c, o) :: r =>
         let c' := {| h_getter := h_getter c; h_getter_fails := h_getter_fails c && h_getter c; h_client_fails := h_client_fails c |} in
         if out_eqb (run_helper c') o then go r (S i) else i :: go r (S i)
     end) cs O.
