(* Model of graphql/client.go request construction: createGetRequest,
   createPostRequest, and the parts of net/url they rely on (QueryEscape /
   QueryUnescape, Values.Encode, ParseQuery).  Bytes are N < 256.
   Definitions only. *)
From Verif Require Import Base.Str.

(* ---------- net/url percent codec (query component) ---------- *)
Definition unreserved (c : N) : bool :=
  is_letter c || is_digit c || N.eqb c 45 || N.eqb c 95 || N.eqb c 46 || N.eqb c 126.

Definition hex_digit (n : N) : N := if n <? 10 then 48 + n else 55 + n. (* "0123456789ABCDEF" *)

Definition escape_byte (c : N) : str :=
  if unreserved c then [c]
  else if N.eqb c 32 then [43]
  else [37; hex_digit (c / 16); hex_digit (c mod 16)].

Definition query_escape (s : str) : str := flat_map escape_byte s.

Definition unhex (c : N) : option N :=
  if is_digit c then Some (c - 48)
  else if (65 <=? c) && (c <=? 70) then Some (c - 55)
  else if (97 <=? c) && (c <=? 102) then Some (c - 87)
  else None.

Fixpoint query_unescape (s : str) : option str :=
  match s with
  | [] => Some []
  | c :: r =>
      if N.eqb c 37 then
        match r with
        | h :: l :: r' =>
            match unhex h, unhex l with
            | Some a, Some d => option_map (cons (16 * a + d)) (query_unescape r')
            | _, _ => None
            end
        | _ => None
        end
      else option_map (cons (if N.eqb c 43 then 32 else c)) (query_unescape r)
  end.

(* ---------- url.Values as an ordered pair list ---------- *)
Definition pairs := list (str * str).

Definition vget (k : str) (l : pairs) : list str :=
  map snd (filter (fun p => str_eqb (fst p) k) l).

(* Values.Set: replace all values of k by the single value v *)
Definition vset (k v : str) (l : pairs) : pairs :=
  filter (fun p => negb (str_eqb (fst p) k)) l ++ [(k, v)].

(* bytewise lexicographic order (sort.Strings) *)
Fixpoint str_leb (x y : str) : bool :=
  match x, y with
  | [], _ => true
  | _ :: _, [] => false
  | c :: x', d :: y' => if c <? d then true else if d <? c then false else str_leb x' y'
  end.
Definition str_ltb (x y : str) : bool := negb (str_leb y x).

(* stable insertion sort by key: Encode iterates sorted keys, values in insertion order *)
Fixpoint insert_pair (p : str * str) (l : pairs) : pairs :=
  match l with
  | [] => [p]
  | q :: r => if str_ltb (fst q) (fst p) then q :: insert_pair p r else p :: l
  end.
Definition sort_pairs (l : pairs) : pairs := fold_right insert_pair [] l.

Fixpoint join (sep : str) (l : list str) : str :=
  match l with
  | [] => []
  | [x] => x
  | x :: r => x ++ sep ++ join sep r
  end.

Definition amp : N := 38.   (* '&' *)
Definition eqc : N := 61.   (* '=' *)
Definition semi : N := 59.  (* ';' *)

Definition encode_pair (p : str * str) : str := query_escape (fst p) ++ [eqc] ++ query_escape (snd p).
Definition encode_pairs (l : pairs) : str := join [amp] (map encode_pair l).
Definition values_encode (l : pairs) : str := encode_pairs (sort_pairs l).

(* split at the first occurrence of a separator byte (strings.Cut) *)
Fixpoint cut (sep : N) (s : str) : str * option str :=
  match s with
  | [] => ([], None)
  | c :: r => if N.eqb c sep then ([], Some r)
              else let (a, rest) := cut sep r in (c :: a, rest)
  end.

Fixpoint split_on (sep : N) (s : str) : list str :=
  match s with
  | [] => [[]]
  | c :: r => if N.eqb c sep then [] :: split_on sep r
              else match split_on sep r with
                   | [] => [[c]]
                   | x :: xs => (c :: x) :: xs
                   end
  end.

Definition contains (c : N) (s : str) : bool := existsb (N.eqb c) s.

(* one `k=v` segment of ParseQuery; None = skipped (empty, contains ';', bad escape) *)
Definition parse_segment (seg : str) : option (str * str) :=
  if contains semi seg then None
  else match seg with
       | [] => None
       | _ => let (k, v) := cut eqc seg in
              match query_unescape k, query_unescape (match v with Some v' => v' | None => [] end) with
              | Some k', Some v' => Some (k', v')
              | _, _ => None
              end
       end.

Fixpoint filter_some {A} (l : list (option A)) : list A :=
  match l with
  | [] => []
  | Some a :: r => a :: filter_some r
  | None :: r => filter_some r
  end.

(* url.ParseQuery with its error ignored, as URL.Query() does *)
Definition parse_query (s : str) : pairs :=
  match s with
  | [] => []
  | _ => filter_some (map parse_segment (split_on amp s))
  end.

(* ---------- the request and the endpoint ---------- *)
Record request := {
  rq_query : str;
  rq_opname : str;
  rq_variables : option str;   (* json.Marshal(req.Variables) when Variables != nil *)
}.

(* endpoint split as url.Parse does for ordinary absolute URLs: fragment after the first
   '#', query after the first '?' of the rest *)
Record endpoint := {
  ep_base : str;            (* scheme://host/path, kept verbatim *)
  ep_force_query : bool;    (* endpoint ended in a bare '?' *)
  ep_rawquery : str;
  ep_fragment : option str;
}.

Definition qmark : N := 63.
Definition hash : N := 35.

Definition split_endpoint (s : str) : endpoint :=
  let (pre, frag) := cut hash s in
  let (base, q) := cut qmark pre in
  {| ep_base := base;
     ep_force_query := match q with Some [] => true | _ => false end;
     ep_rawquery := match q with Some r => r | None => [] end;
     ep_fragment := match frag with Some [] => None | f => f end |}.

Definition endpoint_string (e : endpoint) : str :=
  ep_base e
  ++ (match ep_rawquery e with
      | [] => if ep_force_query e then [qmark] else []
      | r => qmark :: r
      end)
  ++ (match ep_fragment e with Some f => hash :: f | None => [] end).

(* strings.TrimSpace (left side) over UTF-8 bytes: unicode.IsSpace is true for
   \t \n \v \f \r ' ' U+0085 U+00A0 U+1680 U+2000..U+200A U+2028 U+2029 U+202F U+205F U+3000;
   bytes that are not part of such a sequence (including invalid UTF-8) stop the trim *)
Definition is_space (c : N) : bool :=
  N.eqb c 9 || N.eqb c 10 || N.eqb c 11 || N.eqb c 12 || N.eqb c 13 || N.eqb c 32.
Definition space2 (c d : N) : bool := N.eqb c 194 && (N.eqb d 133 || N.eqb d 160).
Definition space3 (c d e : N) : bool :=
  (N.eqb c 225 && N.eqb d 154 && N.eqb e 128)
  || (N.eqb c 226 && N.eqb d 128 && (((128 <=? e) && (e <=? 138)) || N.eqb e 168 || N.eqb e 169 || N.eqb e 175))
  || (N.eqb c 226 && N.eqb d 129 && N.eqb e 159)
  || (N.eqb c 227 && N.eqb d 128 && N.eqb e 128).
Fixpoint trim_left_space (s : str) : str :=
  match s with
  | [] => []
  | c :: r =>
      if is_space c then trim_left_space r
      else match r with
           | [] => s
           | d :: r2 =>
               if space2 c d then trim_left_space r2
               else match r2 with
                    | [] => s
                    | e :: r3 => if space3 c d e then trim_left_space r3 else s
                    end
           end
  end.
Definition starts_with_kw (kw : str) (q : str) : bool := is_prefix kw (trim_left_space q).

Definition kw_mutation := b "mutation".
Definition kw_subscription := b "subscription".
Definition kw_query := b "query".

Inductive http_method := GET | POST.

Definition set_if_nonempty (k v : str) (st : pairs * bool) : pairs * bool :=
  match v with
  | [] => st
  | _ => (vset k v (fst st), true)
  end.

Definition k_query := b "query".
Definition k_opname := b "operationName".
Definition k_variables := b "variables".

(* the three conditional Set calls, with the queryUpdated flag *)
Definition apply_sets (r : request) (params : pairs) : pairs * bool :=
  let st := set_if_nonempty k_query (rq_query r) (params, false) in
  let st := set_if_nonempty k_opname (rq_opname r) st in
  match rq_variables r with
  | Some v => (vset k_variables v (fst st), true)
  | None => st
  end.

Definition create_get_parts (ep : str) (r : request) : res endpoint :=
  let e := split_endpoint ep in
  let params := parse_query (ep_rawquery e) in
  if negb (str_eqb (rq_query r) []) && starts_with_kw kw_mutation (rq_query r) then Err (b "NoMutations")
  else if negb (str_eqb (rq_query r) []) && starts_with_kw kw_subscription (rq_query r) then Err (b "NoSubscriptions")
  else
    let st := apply_sets r params in
    Ok (if snd st
        then {| ep_base := ep_base e; ep_force_query := ep_force_query e;
                ep_rawquery := values_encode (fst st); ep_fragment := ep_fragment e |}
        else e).

Definition create_get (ep : str) (r : request) : res str :=
  do e <- create_get_parts ep r; Ok (endpoint_string e).

(* SPECIFICATION: what the decoded parameter k of the request URL must be *)
Definition expected_param (r : request) (orig : pairs) (k : str) : list str :=
  match rq_variables r with
  | Some v => if str_eqb k k_variables then [v] else
      if str_eqb k k_opname && negb (str_eqb (rq_opname r) []) then [rq_opname r] else
      if str_eqb k k_query && negb (str_eqb (rq_query r) []) then [rq_query r] else vget k orig
  | None =>
      if str_eqb k k_opname && negb (str_eqb (rq_opname r) []) then [rq_opname r] else
      if str_eqb k k_query && negb (str_eqb (rq_query r) []) then [rq_query r] else vget k orig
  end.

(* POST: the body is the JSON object {"query":..,"variables":..(omitted when nil),"operationName":..} *)
Inductive body_field := BQuery (q : str) | BVariables (raw : str) | BOpName (n : str).

Definition create_post (r : request) : res (list body_field) :=
  if negb (str_eqb (rq_query r) []) && starts_with_kw kw_subscription (rq_query r) then Err (b "NoSubscriptions")
  else Ok ([BQuery (rq_query r)]
           ++ (match rq_variables r with Some v => [BVariables v] | None => [] end)
           ++ [BOpName (rq_opname r)]).

(* the text genqlient emits for an operation: "\n" ++ keyword ++ " " ++ Name ... *)
Definition emitted_doc (kw name rest : str) : str := [10] ++ kw ++ [32] ++ name ++ rest.
