(* Model of the response half of client.MakeRequest (graphql/client.go) as a small
   operational trace over (Do result, status, body stream with optional read fault).
   Decoding of the JSON envelope is encoding/json's: its verdict on the first value of
   the stream / on the whole body enters as part of the input (see DESIGN.md C12).
   Definitions only. *)
From Verif Require Import Base.Str.

Record env_outcome := {
  eo_ok : bool;          (* json decoding of the envelope into Response succeeded *)
  eo_nerrors : nat;      (* length of its "errors" list *)
}.

Record hcase := {
  hc_do_err : bool;                      (* Doer.Do returned an error (no response) *)
  hc_status : N;
  hc_len : nat;                          (* body length *)
  hc_first_end : option nat;             (* the first JSON value of the stream ends after this many bytes *)
  hc_first_env : env_outcome;            (* verdict for that value, decoded into the caller's Response *)
  hc_whole_env : option env_outcome;     (* verdict for the whole body as one JSON document (non-200 path) *)
  hc_fault : option nat;                 (* Body.Read fails once this many bytes were delivered *)
}.

Inductive outcome :=
| OTransport                                            (* Do's error, returned as is *)
| OHTTPError (status : N) (from_body : bool) (nerrors : nat)
      (* *HTTPError with that status; from_body: Response decoded from the body,
         otherwise one synthetic error carrying the raw text / unreadable marker *)
| OGqlErrors (n : nat)                                  (* 200, gqlerror.List of n>0 errors *)
| ONil                                                  (* 200, no errors *)
| OOther.                                               (* some other error (undecodable / unreadable 200 body) *)

Inductive event := EDo | EReadAll | EDecode | EClose.

Record hresult := {
  r_out : outcome;
  r_events : list event;
  r_data_decoded : bool;   (* the caller's resp.Data was filled (200 path, envelope decoded) *)
}.

Definition faults_before (f : option nat) (n : nat) : bool :=
  match f with Some k => Nat.ltb k n | None => false end.

Definition run_response (c : hcase) : hresult :=
  if hc_do_err c then {| r_out := OTransport; r_events := [EDo]; r_data_decoded := false |}
  else if negb (N.eqb (hc_status c) 200) then
    let out :=
      match hc_fault c with
      | Some _ => OHTTPError (hc_status c) false 1          (* "<unreadable: ...>" is not JSON *)
      | None =>
          match hc_whole_env c with
          | Some e => if eo_ok e then OHTTPError (hc_status c) true (eo_nerrors e)
                      else OHTTPError (hc_status c) false 1
          | None => OHTTPError (hc_status c) false 1
          end
      end in
    {| r_out := out; r_events := [EDo; EReadAll; EClose]; r_data_decoded := false |}
  else
    match hc_first_end c with
    | Some e =>
        if faults_before (hc_fault c) e
        then {| r_out := OOther; r_events := [EDo; EDecode; EClose]; r_data_decoded := false |}
        else if eo_ok (hc_first_env c)
        then {| r_out := if Nat.ltb 0 (eo_nerrors (hc_first_env c)) then OGqlErrors (eo_nerrors (hc_first_env c)) else ONil;
                r_events := [EDo; EDecode; EClose]; r_data_decoded := true |}
        else {| r_out := OOther; r_events := [EDo; EDecode; EClose]; r_data_decoded := false |}
    | None => {| r_out := OOther; r_events := [EDo; EDecode; EClose]; r_data_decoded := false |}
    end.

Definition count_close (l : list event) : nat :=
  List.length (filter (fun e => match e with EClose => true | _ => false end) l).

(* ---- specification: the documented classification, as predicates over the input ---- *)
(* the 200 body yields a decodable envelope: its first JSON value arrives completely
   before any read fault and decodes *)
Definition envelope_arrives (c : hcase) : bool :=
  match hc_first_end c with
  | Some e => negb (faults_before (hc_fault c) e) && eo_ok (hc_first_env c)
  | None => false
  end.

Definition spec_outcome_ok (c : hcase) (o : outcome) : bool :=
  match o with
  | OTransport => hc_do_err c
  | OHTTPError s _ _ => negb (hc_do_err c) && negb (N.eqb (hc_status c) 200) && N.eqb s (hc_status c)
  | OGqlErrors n => negb (hc_do_err c) && N.eqb (hc_status c) 200 && envelope_arrives c
                    && Nat.ltb 0 n && Nat.eqb n (eo_nerrors (hc_first_env c))
  | ONil => negb (hc_do_err c) && N.eqb (hc_status c) 200 && envelope_arrives c
            && Nat.eqb 0 (eo_nerrors (hc_first_env c))
  | OOther => negb (hc_do_err c) && N.eqb (hc_status c) 200 && negb (envelope_arrives c)
  end.

(* body handling: closed exactly once iff a response was obtained, and Close is the last event *)
Definition spec_close_ok (c : hcase) (r : hresult) : bool :=
  Nat.eqb (count_close (r_events r)) (if hc_do_err c then 0 else 1)
  && (if hc_do_err c then true
      else match rev (r_events r) with EClose :: _ => true | _ => false end).

(* partial data: whenever the outcome is a gqlerror list or nil, the data was decoded *)
Definition spec_data_ok (r : hresult) : bool :=
  match r_out r with
  | OGqlErrors _ | ONil => r_data_decoded r
  | _ => true
  end.
