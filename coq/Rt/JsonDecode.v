(* Model of decoding a JSON value into a generated response type: the part of encoding/json the
   generated code relies on (struct decoding with exact-then-case-insensitive key match, null
   rules per kind, RawMessage capture) and the generated UnmarshalJSON methods and __unmarshal
   helpers (unmarshal.go.tmpl, unmarshal_helper.go.tmpl) over the declarations of Gen/Convert.v.
   Definitions only. *)
From Verif Require Import Base.Str Gen.Consts Gen.Gql Gen.Directive Gen.Convert.
From Coq Require Import ZArith.

Inductive jval :=
| JNull
| JBool (v : bool)
| JNum (id : Z) (integral : bool)   (* numbers are compared by identity; [integral]: fits a Go int *)
| JStr (s : str)
| JArr (l : list jval)
| JObj (l : list (str * jval)).     (* keys in document order, duplicates possible *)

Inductive gval :=
| VZero                              (* untouched zero value of a scalar-like type *)
| VScalar (j : jval)                 (* a scalar-like Go value holding this JSON scalar / object *)
| VNilPtr | VPtr (v : gval)
| VNilSlice | VSlice (l : list gval)
| VNilIface | VIface (impl : str) (v : gval)
| VStruct (name : str) (fields : list (str * gval)).   (* Go field name, or the embedded type's name *)

Definition EDEC : str := b "decode".

(* ---- what kind of Go value sits behind a scalar-like type ---- *)
Inductive skind := KStr | KInt | KFloat | KBoolean | KAny.

Definition kind_of_ref (r : str) : skind :=
  if str_eqb r (b "string") then KStr
  else if str_eqb r (b "int") then KInt
  else if str_eqb r (b "float64") then KFloat
  else if str_eqb r (b "bool") then KBoolean
  else if str_eqb r (b "map[string]interface{}") then KAny
  else KStr.   (* the harness binds scalars to string-kinded types *)

Fixpoint put_obj (fs : list (str * jval)) (k : str) (v : jval) : list (str * jval) :=
  match fs with
  | [] => [(k, v)]
  | (k', x) :: r => if str_eqb k' k then (k, v) :: r else (k', x) :: put_obj r k v
  end.

Definition decode_scalar (k : skind) (j : jval) (cur : gval) : res gval :=
  match j with
  | JNull => match k with KAny => Ok VZero | _ => Ok cur end   (* null empties a map / interface{}, leaves other kinds alone *)
  | _ =>
      match k, j with
      | KStr, JStr _ => Ok (VScalar j)
      | KInt, JNum _ true => Ok (VScalar j)
      | KFloat, JNum _ _ => Ok (VScalar j)
      | KBoolean, JBool _ => Ok (VScalar j)
      | KAny, JObj nw =>
          (* a non-nil map is reused: existing entries stay, keys of the new object overwrite *)
          match cur with
          | VScalar (JObj old) => Ok (VScalar (JObj (fold_left (fun acc kv => put_obj acc (fst kv) (snd kv)) nw old)))
          | _ => Ok (VScalar (JObj (fold_left (fun acc kv => put_obj acc (fst kv) (snd kv)) nw [])))
          end
      | KStr, _ => Err (b "decode:not-a-string")
      | KInt, _ => Err (b "decode:not-an-int")
      | KFloat, _ => Err (b "decode:not-a-number")
      | KBoolean, _ => Err (b "decode:not-a-bool")
      | KAny, _ => Err (b "decode:not-an-object")
      end
  end.

(* a binding may name a slice or pointer type: `[]pkg.T` -> Some (true, "pkg.T"), `*pkg.T` ->
   Some (false, "pkg.T") *)
Definition ref_shape (r : str) : option (bool * str) :=
  match r with
  | c1 :: rest =>
      if N.eqb c1 42 then Some (false, rest)
      else if N.eqb c1 91 then match rest with
                               | c2 :: rest' => if N.eqb c2 93 then Some (true, rest') else None
                               | [] => None
                               end
      else None
  | [] => None
  end.

(* ---- ASCII case folding of keys (encoding/json falls back to a case-insensitive match) ---- *)
Definition fold_eqb (x y : str) : bool := str_eqb (map to_lower x) (map to_lower y).

Definition find_key {A} (fields : list (str * A)) (k : str) : option nat :=
  let fix exact (l : list (str * A)) (i : nat) :=
    match l with [] => None | (t, _) :: r => if str_eqb t k then Some i else exact r (S i) end in
  let fix folded (l : list (str * A)) (i : nat) :=
    match l with [] => None | (t, _) :: r => if fold_eqb t k then Some i else folded r (S i) end in
  match exact fields O with Some i => Some i | None => folded fields O end.

Fixpoint set_nth {A} (l : list A) (n : nat) (x : A) : list A :=
  match l, n with
  | [], _ => []
  | _ :: r, O => x :: r
  | y :: r, S k => y :: set_nth r k x
  end.

(* a field is handled by generated code (not by plain struct decoding) *)
Definition special (f : gofield) : bool :=
  match gf_name f with
  | [] => true
  | _ => match unwrap (gf_type f) with
         | GOpaque _ _ m u => nonempty m || nonempty u
         | GIface _ => true
         | _ => false
         end
  end.

Definition struct_needs_unmarshal (fields : list gofield) : bool := existsb special fields.

Fixpoint sdepth (t : gotype) : nat := match t with GSlice e => S (sdepth e) | _ => O end.
Fixpoint ispointer (t : gotype) : bool := match t with GSlice e => ispointer e | GPtr _ => true | _ => false end.

(* capture of a []^n json.RawMessage field by encoding/json *)
Inductive raw :=
| RAbsent                       (* key not in the object: nil *)
| RLeaf (j : jval)              (* n = 0 *)
| RNilList                      (* JSON null at a list level *)
| RList (l : list raw).

Fixpoint map_res {A B} (f : A -> res B) (l : list A) : res (list B) :=
  match l with
  | [] => Ok []
  | x :: r => do a <- f x; do rest <- map_res f r; Ok (a :: rest)
  end.

Fixpoint capture (n : nat) (j : jval) : res raw :=
  match n with
  | O => Ok (RLeaf j)
  | S k =>
      match j with
      | JNull => Ok RNilList
      | JArr l =>
          do rs <- map_res (capture k) l;
          Ok (RList rs)
      | _ => Err (b "decode:raw-not-a-list")
      end
  end.

Fixpoint put_kv {A} (fs : list (str * A)) (k : str) (v : A) : list (str * A) :=
  match fs with
  | [] => [(k, v)]
  | (k', x) :: r => if str_eqb k' k then (k, v) :: r else (k', x) :: put_kv r k v
  end.

(* error context: which field was being decoded *)
Definition at_field {A} (k : str) (r : res A) : res A :=
  match r with Err e => Err (e ++ b "@" ++ k) | x => x end.

Section Decode.
  Variable tm : typemap.
  (* the wrapper type `firstPass` has no UnmarshalJSON of its own only because it embeds BOTH
     *T and graphql.NoUnmarshalJSON at the same depth (translated from the template) *)
  Variable wrapper_hides_method : bool.

  Definition zero_of (t : gotype) : gval :=
    match t with
    | GPtr _ => VNilPtr
    | GSlice _ => VNilSlice
    | GIface _ => VNilIface
    | GStruct n =>
        VStruct n []     (* fields materialise when decoded; absent = zero *)
    | _ => VZero
    end.

  Definition field_key (f : gofield) : str :=
    match gf_name f with [] => reference (unwrap (gf_type f)) | n => n end.

  Definition get_field (fs : list (str * gval)) (k : str) (dflt : gval) : gval :=
    match assoc k fs with Some v => v | None => dflt end.
  Definition put_field (fs : list (str * gval)) (k : str) (v : gval) : list (str * gval) := put_kv fs k v.
  Definition elem_zero (k : nat) (ptr : bool) (leaf : gotype) : gval :=
    match k with O => if ptr then VNilPtr else zero_of leaf | S _ => VNilSlice end.

  Definition scalar_kind (t : gotype) : skind :=
    match t with
    | GOpaque r _ _ _ => kind_of_ref r
    | GAlias n => match assoc n tm with Some (DAlias bi _) => kind_of_ref bi | _ => KStr end
    | _ => KStr
    end.

  (* the loops of the decoders, over an abstract element decoder *)
  Section Loops.
    Variable dec : gotype -> jval -> gval -> res gval.
    Variable filler : nat -> bool -> gotype -> raw -> gval -> res gval.

    (* encoding/json over the keys of an object, for a struct whose fields are keyed by tag *)
    Fixpoint obj_loop (fields : list (str * gofield)) (kvs : list (str * jval)) (acc : list (str * gval))
      : res (list (str * gval)) :=
      match kvs with
      | [] => Ok acc
      | (k, v) :: r =>
          match find_key fields k with
          | None => obj_loop fields r acc
          | Some i =>
              match nth_error fields i with
              | Some (_, fl) =>
                  do x <- at_field (field_key fl) (dec (gf_type fl) v (get_field acc (field_key fl) (zero_of (gf_type fl))));
                  obj_loop fields r (put_field acc (field_key fl) x)
              | None => obj_loop fields r acc
              end
          end
      end.

    (* first pass of a generated UnmarshalJSON: ordinary fields decoded, special ones captured raw *)
    Fixpoint first_pass (all : list (str * (bool * gofield))) (kvs : list (str * jval))
        (acc : list (str * gval)) (caps : list (str * raw)) : res (list (str * gval) * list (str * raw)) :=
      match kvs with
      | [] => Ok (acc, caps)
      | (k, v) :: r =>
          match find_key all k with
          | None => first_pass all r acc caps
          | Some i =>
              match nth_error all i with
              | Some (_, (true, fl)) =>
                  do c <- capture (sdepth (gf_type fl)) v;
                  first_pass all r acc (put_kv caps (gf_name fl) c)
              | Some (_, (false, fl)) =>
                  do x <- at_field (field_key fl) (dec (gf_type fl) v (get_field acc (field_key fl) (zero_of (gf_type fl))));
                  first_pass all r (put_field acc (field_key fl) x) caps
              | None => first_pass all r acc caps
              end
          end
      end.

    (* second pass, in field order *)
    Fixpoint second_pass (j : jval) (caps : list (str * raw)) (fls : list gofield) (acc : list (str * gval))
      : res (list (str * gval)) :=
      match fls with
      | [] => Ok acc
      | fl :: r =>
          if negb (special fl) then second_pass j caps r acc
          else match gf_name fl with
               | [] =>
                   (* embedded fragment struct: the same bytes again *)
                   let k := field_key fl in
                   do x <- dec (unwrap (gf_type fl)) j (get_field acc k (zero_of (unwrap (gf_type fl))));
                   second_pass j caps r (put_field acc k x)
               | name =>
                   let c := match assoc name caps with Some c => c | None => RAbsent end in
                   do x <- at_field name (filler (sdepth (gf_type fl)) (ispointer (gf_type fl)) (unwrap (gf_type fl)) c
                                (get_field acc name (zero_of (gf_type fl))));
                   second_pass j caps r (put_field acc name x)
               end
      end.
  End Loops.

  (* struct { TypeName string `json:"__typename"` }: last matching key wins; null leaves "" *)
  Fixpoint scan_typename (kvs : list (str * jval)) (acc : str) : res str :=
    match kvs with
    | [] => Ok acc
    | (k, v) :: r =>
        if fold_eqb k typename_name
        then match v with
             | JStr s => scan_typename r s
             | JNull => scan_typename r acc
             | _ => Err EDEC
             end
        else scan_typename r acc
    end.

  Definition find_impl (impls : list str) (tn : str) : option str :=
    find (fun impl => match assoc impl tm with Some d => str_eqb (decl_gql d) tn | None => false end) impls.

  Fixpoint decode (fuel : nat) (t : gotype) (j : jval) (cur : gval) {struct fuel} : res gval :=
    match fuel with
    | O => OutOfFuel
    | S f =>
        match t with
        | GOpaque r g m u =>
            (* a binding may name a slice or pointer type: `[]pkg.T`, `*pkg.T` *)
            match ref_shape r with
            | Some (true, rest) => decode f (GSlice (GOpaque rest g m u)) j cur
            | Some (false, rest) => decode f (GPtr (GOpaque rest g m u)) j cur
            | None => decode_scalar (scalar_kind t) j cur
            end
        | GAlias _ | GEnum _ => decode_scalar (scalar_kind t) j cur
        | GGeneric _ e => Err (b "generic-not-modelled")
        | GPtr e =>
            match j with
            | JNull => Ok VNilPtr
            | _ => do v <- decode f e j (match cur with VPtr x => x | _ => zero_of e end); Ok (VPtr v)
            end
        | GSlice e =>
            match j with
            | JNull => Ok VNilSlice
            | JArr l =>
                do vs <- map_res (fun x => decode f e x (zero_of e)) l;
                Ok (VSlice vs)
            | _ => Err (b "decode:slice-not-a-list")
            end
        | GIface n =>
            (* an interface-typed value is only ever decoded through its helper *)
            unmarshal_iface f n j cur
        | GStruct n =>
            match assoc n tm with
            | Some (DStruct _ fields _ _) =>
                if struct_needs_unmarshal fields then unmarshal_struct f n fields j cur
                else plain_struct f n (map (fun fl => (gf_json fl, fl)) fields) j cur
            | _ => Err (b "no-such-struct")
            end
        end
    end

  (* encoding/json on a struct: fields keyed by their JSON tag *)
  with plain_struct (fuel : nat) (n : str) (fields : list (str * gofield)) (j : jval) (cur : gval) {struct fuel} : res gval :=
    match fuel with
    | O => OutOfFuel
    | S f =>
        match j with
        | JNull => Ok cur
        | JObj kvs =>
            let cur_fields := match cur with VStruct _ fs => fs | _ => [] end in
            do fs <- obj_loop (fun t j c => decode f t j c) fields kvs cur_fields;
            Ok (VStruct n fs)
        | _ => Err (b "decode:struct-not-an-object")
        end
    end

  (* the generated UnmarshalJSON of a struct with special fields *)
  with unmarshal_struct (fuel : nat) (n : str) (fields : list gofield) (j : jval) (cur : gval) {struct fuel} : res gval :=
    match fuel with
    | O => OutOfFuel
    | S f =>
        match j with
        | JNull => Ok cur
        | _ =>
            if negb wrapper_hides_method then Panic (b "firstPass promotes UnmarshalJSON: infinite recursion")
            else
              (* first pass: ordinary fields + raw captures of the special non-embedded ones *)
              let ordinary := flat_map (fun fl => if special fl then [] else [(gf_json fl, fl)]) fields in
              let raws := flat_map (fun fl => if special fl && nonempty (gf_name fl) then [(gf_json fl, fl)] else []) fields in
              match j with
              | JObj kvs =>
                  let cur_fields := match cur with VStruct _ fs => fs | _ => [] end in
                  (* keys are matched over the union of both field sets: raw fields sit at depth 0,
                     promoted ordinary fields at depth 1; a depth-0 field wins a name clash *)
                  let all := map (fun p => (fst p, (true, snd p))) raws ++ map (fun p => (fst p, (false, snd p))) ordinary in
                  do st <- first_pass (fun t j c => decode f t j c) all kvs cur_fields [];
                  let '(acc1, caps) := st in
                  do fs <- second_pass (fun t j c => decode f t j c) (fun n p l r c => fill f n p l r c) j caps fields acc1;
                  Ok (VStruct n fs)
              | _ => Err EDEC
              end
        end
    end

  (* the per-depth loops of the template over the captured raw value *)
  with fill (fuel : nat) (n : nat) (ptr : bool) (leaf : gotype) (c : raw) (cur : gval) {struct fuel} : res gval :=
    match fuel with
    | O => OutOfFuel
    | S f =>
        match n with
        | S k =>
            (* `*dst = make([]..., len(src))`: a nil raw list gives an EMPTY non-nil slice *)
            match c with
            | RList l =>
                do vs <- map_res (fun x => fill f k ptr leaf x (elem_zero k ptr leaf)) l;
                Ok (VSlice vs)
            | _ => Ok (VSlice [])
            end
        | O =>
            match c with
            | RLeaf JNull | RAbsent | RNilList | RList _ => Ok cur    (* len(src) == 0 or "null": skip *)
            | RLeaf j =>
                let target := match cur with VPtr x => x | _ => zero_of leaf end in
                do v <- match leaf with
                        | GIface i => unmarshal_iface f i j (if ptr then VNilIface else target)
                        | GOpaque r _ _ _ => decode_scalar (kind_of_ref r) j (if ptr then VZero else target)   (* the custom unmarshaler *)
                        | other => decode f other j (if ptr then zero_of other else target)
                        end;
                Ok (if ptr then VPtr v else v)
            end
        end
    end

  (* __unmarshal<Interface> *)
  with unmarshal_iface (fuel : nat) (i : str) (j : jval) (cur : gval) {struct fuel} : res gval :=
    match fuel with
    | O => OutOfFuel
    | S f =>
        match j with
        | JNull => Ok cur
        | JObj kvs =>
            do tn <- scan_typename kvs [];
            match assoc i tm with
            | Some (DIface _ _ impls _) =>
                match tn with
                | [] => Err (b "missing-typename")
                | _ =>
                    match find_impl impls tn with
                    | Some impl => do v <- decode f (GStruct impl) j (VStruct impl []); Ok (VIface impl v)
                    | None => Err (b "unexpected-typename")
                    end
                end
            | _ => Err (b "no-such-interface")
            end
        | _ => Err EDEC
        end
    end.
End Decode.
