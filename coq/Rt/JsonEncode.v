(* Model of marshaling a generated type back to JSON: FlattenedFields (types.go), the
   __premarshal structs and MarshalJSON methods (marshal.go.tmpl), the __marshal<Interface>
   helpers (marshal_helper.go.tmpl) and the part of encoding/json.Marshal they rely on
   (omitempty, nil pointer/slice/interface, dominance of the shallower `__typename`).
   Definitions only. *)
From Verif Require Import Base.Str Gen.Consts Gen.Gql Gen.Directive Gen.Convert Rt.JsonDecode.
From Coq Require Import ZArith.

Definition zero_json (k : skind) : jval :=
  match k with
  | KStr => JStr []
  | KInt | KFloat => JNum 0 true
  | KBoolean => JBool false
  | KAny => JNull            (* a nil map *)
  end.

(* "empty" in the encoding/json sense, for an ORDINARY field of the given type *)
Definition is_struct_type (t : gotype) : bool := match t with GStruct _ => true | _ => false end.
Definition json_empty (j : jval) : bool :=
  match j with
  | JBool false | JStr [] | JNum 0 _ | JObj [] | JArr [] | JNull => true
  | _ => false
  end.
Definition is_empty (t : gotype) (v : gval) : bool :=
  match v with
  | VZero => negb (is_struct_type t)
  | VScalar j => json_empty j
  | VNilPtr | VNilSlice | VNilIface => true
  | VSlice [] => true
  | _ => false
  end.

(* ---- FlattenedFields: breadth-first over the embedded structs, first field per JSON name ---- *)
Section Flatten.
  Variable tm : typemap.

  Definition sel_key (fl : gofield) : str :=
    match gf_name fl with [] => reference (unwrap (gf_type fl)) | n => n end.

  Fixpoint flatten_bfs (fuel : nat) (queue : list (gofield * list str)) (seen : list str)
    : res (list (gofield * list str)) :=
    match fuel with
    | O => OutOfFuel
    | S f =>
        match queue with
        | [] => Ok []
        | (fl, path) :: rest =>
            match gf_name fl with
            | [] =>
                match unwrap (gf_type fl) with
                | GStruct n =>
                    match assoc n tm with
                    | Some (DStruct _ fields _ _) =>
                        flatten_bfs f (rest ++ map (fun sub => (sub, path ++ [sel_key fl])) fields) seen
                    | _ => Err (b "embedded-not-a-struct")
                    end
                | _ => Err (b "embedded-not-a-struct")
                end
            | _ =>
                if existsb (str_eqb (gf_json fl)) seen then flatten_bfs f rest seen
                else do more <- flatten_bfs f rest (gf_json fl :: seen); Ok ((fl, path) :: more)
            end
        end
    end.

  Definition FLATTEN_FUEL : nat := 2000.
  Definition flattened_fields (fields : list gofield) : res (list (gofield * list str)) :=
    flatten_bfs FLATTEN_FUEL (map (fun fl => (fl, [])) fields) [].
End Flatten.

(* follow a selector path through embedded struct values *)
Fixpoint select_path (v : gval) (path : list str) : gval :=
  match path with
  | [] => v
  | k :: r =>
      match v with
      | VStruct _ fs => match assoc k fs with Some x => select_path x r | None => VZero end
      | _ => VZero
      end
  end.

Definition struct_field (v : gval) (k : str) : gval :=
  match v with
  | VStruct _ fs => match assoc k fs with Some x => x | None => VZero end
  | _ => VZero
  end.

Section Encode.
  Variable tm : typemap.

  (* one level of `make([]json.RawMessage, len(src))` per slice depth: a nil slice gives [] *)
  Fixpoint enc_levels (n : nat) (leaf : gval -> res jval) (v : gval) : res jval :=
    match n with
    | O => leaf v
    | S k =>
        match v with
        | VSlice l => do js <- map_res (enc_levels k leaf) l; Ok (JArr js)
        | _ => Ok (JArr [])
        end
    end.

  (* a special field is omitted (omitempty on its []^n RawMessage) iff ... *)
  Definition special_empty (n : nat) (ptr : bool) (v : gval) : bool :=
    match n with
    | O => ptr && match v with VPtr _ => false | _ => true end      (* nil RawMessage: only a nil pointer *)
    | S _ => match v with VSlice (_ :: _) => false | _ => true end
    end.

  Section Fields.
    Variable enc : gotype -> gval -> res jval.
    Variable enc_iface : str -> gval -> res jval.

    Definition enc_special_leaf (ptr : bool) (leaf : gotype) (v : gval) : res jval :=
      let call (x : gval) : res jval :=
        match leaf with
        | GIface i => enc_iface i x
        | other => enc other x       (* the user's marshaler (modelled as the default encoding), or json.Marshal *)
        end in
      if ptr then match v with VPtr x => call x | _ => Ok JNull end
      else call v.

    Fixpoint enc_fields (v : gval) (fls : list (gofield * list str)) : res (list (str * jval)) :=
      match fls with
      | [] => Ok []
      | (fl, path) :: r =>
          let x := struct_field (select_path v path) (gf_name fl) in
          if special fl then
            let n := sdepth (gf_type fl) in
            let ptr := ispointer (gf_type fl) in
            if gf_omitempty fl && special_empty n ptr x then enc_fields v r
            else do j <- enc_levels n (enc_special_leaf ptr (unwrap (gf_type fl))) x;
                 do rest <- enc_fields v r; Ok ((gf_json fl, j) :: rest)
          else
            if gf_omitempty fl && is_empty (gf_type fl) x then enc_fields v r
            else do j <- enc (gf_type fl) x;
                 do rest <- enc_fields v r; Ok ((gf_json fl, j) :: rest)
      end.
  End Fields.

  Fixpoint encode (fuel : nat) (t : gotype) (v : gval) {struct fuel} : res jval :=
    match fuel with
    | O => OutOfFuel
    | S f =>
        match t with
        | GOpaque r g m u =>
            match ref_shape r with
            | Some (true, rest) => encode f (GSlice (GOpaque rest g m u)) v
            | Some (false, rest) => encode f (GPtr (GOpaque rest g m u)) v
            | None => match v with VScalar j => Ok j | _ => Ok (zero_json (scalar_kind tm t)) end
            end
        | GAlias _ | GEnum _ => match v with VScalar j => Ok j | _ => Ok (zero_json (scalar_kind tm t)) end
        | GGeneric _ _ => Err (b "generic-not-modelled")
        | GPtr e => match v with VPtr x => encode f e x | _ => Ok JNull end
        | GSlice e =>
            match v with
            | VSlice l => do js <- map_res (encode f e) l; Ok (JArr js)
            | _ => Ok JNull
            end
        | GIface i => encode_iface f i v
        | GStruct n => do kvs <- encode_struct f n v; Ok (JObj kvs)
        end
    end

  with encode_struct (fuel : nat) (n : str) (v : gval) {struct fuel} : res (list (str * jval)) :=
    match fuel with
    | O => OutOfFuel
    | S f =>
        match assoc n tm with
        | Some (DStruct _ fields _ _) =>
            do flat <- flattened_fields tm fields;
            enc_fields (encode f) (encode_iface f) v flat
        | _ => Err (b "no-such-struct")
        end
    end

  (* __marshal<Interface>: struct { TypeName string `json:"__typename"`; *<premarshal of the impl> } *)
  with encode_iface (fuel : nat) (i : str) (v : gval) {struct fuel} : res jval :=
    match fuel with
    | O => OutOfFuel
    | S f =>
        match v with
        | VIface impl x =>
            match assoc i tm, assoc impl tm with
            | Some (DIface _ _ impls _), Some d =>
                if existsb (str_eqb impl) impls then
                  do kvs <- encode_struct f impl x;
                  (* the shallower TypeName field hides the implementation's own `__typename` *)
                  Ok (JObj ((typename_name, JStr (decl_gql d)) :: filter (fun kv => negb (str_eqb (fst kv) typename_name)) kvs))
                else Err (b "unexpected-concrete-type")
            | _, _ => Err (b "unexpected-concrete-type")
            end
        | _ => Ok JNull
        end
    end.
End Encode.
