(* Small-step model of the WebSocket subscription client (graphql/websocket.go,
   graphql/subscription.go, and the generated forwarder's channel send) AFTER the
   fix: commits, at the granularity of the deterministic controller: each step releases
   one thread from one pause point (yield hook / connection operation / forwarder send)
   to the next.  Start is modelled separately (WsStart below).
   Definitions only. *)
From Verif Require Import Base.Str.
From Coq Require Import Arith.

(* ---- subscriptions: index = order of Subscribe calls (stands for the fresh uuid) ---- *)
Record sub := {
  s_present : bool;          (* entry exists in the subscription map *)
  s_flag : bool;             (* hasBeenUnsubscribed *)
  s_closes : nat;            (* how many times the channel was closed *)
  s_delivered : list N;      (* payloads received by the application, oldest first *)
  s_sent : list N;           (* history: well-formed payloads the server sent for it, oldest first *)
}.

Definition sub0 : sub :=
  {| s_present := true; s_flag := false; s_closes := 0; s_delivered := []; s_sent := [] |}.

(* ---- frames ---- *)
Inductive sframe :=                 (* server -> client *)
| FData (i : option nat) (p : N)    (* next frame with a decodable payload, for subscription i (None: unknown/absent id) *)
| FBad (i : option nat)             (* frame whose payload the forwarder cannot decode (also `error`, `ping`, ...) *)
| FComplete (i : option nat)
| FGarbage.                         (* not JSON *)

Inductive wframe :=                 (* client -> server, successfully written *)
| WSubscribe (i : nat) | WComplete (i : nat) | WClose.

(* ---- threads ---- *)
Inductive rpc :=
| RLoop | RRead
| RLooked (f : sframe) (found : bool) (stale_flag : bool)
| RSend (i : nat) (p : N)
| RErrLock | RErrLocked | RExit | RDone.

Inductive apc :=
| ASubWrite (i : nat)
| AUnsubWrite (i : nat)
| ACloseUnsub (err : bool)          (* inside UnsubscribeAll, paused at some complete write *)
| ACloseWrite (err : bool)          (* paused at the close-frame write *)
| ACloseLock (err : bool)           (* paused at close.beforeLock *)
| ADone (ok : bool).

Inductive tid := TReader | TCall (n : nat).

Inductive owner := Free | HeldByReader.

Record st := {
  subs : list sub;
  calls : list apc;
  reader : rpc;
  frames : list wframe;           (* newest first *)
  inbound : list sframe;          (* oldest first *)
  lost : bool;
  conn_closes : nat;
  is_closing : bool;
  err_buf : nat;                  (* errors buffered in errChan (capacity 1) *)
  err_closed : nat;               (* times errChan was closed *)
  errs_seen : nat;
  mutex : owner;
  panicked : bool;                (* a goroutine panicked (reader recovered by the hook, or an API call) *)
  reader_stuck : bool;            (* reader blocked forever on a full error channel *)
  close_collected : list nat;     (* ids collected by the running Close's GetAllIDs and not yet processed *)
}.

Definition init : st :=
  {| subs := []; calls := []; reader := RLoop; frames := []; inbound := []; lost := false;
     conn_closes := 0; is_closing := false; err_buf := 0; err_closed := 0; errs_seen := 0;
     mutex := Free; panicked := false; reader_stuck := false; close_collected := [] |}.

(* ---- labels: the controller's actions, with the environment's choices made explicit ---- *)
Inductive label :=
| LCallSub | LCallUnsub (i : nat) | LCallClose
| LStep (t : tid) (choice : nat) (fault : bool)
     (* choice: for a Close thread inside UnsubscribeAll, the id whose complete frame is released;
        fault: the connection operation released by this step fails *)
| LServer (f : sframe) | LLost | LRecv (i : nat) | LRecvErr.

(* ---- list helpers ---- *)
Fixpoint upd {A} (l : list A) (n : nat) (f : A -> A) : list A :=
  match l, n with
  | [], _ => []
  | x :: r, O => f x :: r
  | x :: r, S n' => x :: upd r n' f
  end.

Definition get_sub (s : st) (i : nat) : option sub := nth_error (subs s) i.

Definition set_subs (s : st) (l : list sub) : st :=
  {| subs := l; calls := calls s; reader := reader s; frames := frames s; inbound := inbound s;
     lost := lost s; conn_closes := conn_closes s; is_closing := is_closing s; err_buf := err_buf s;
     err_closed := err_closed s; errs_seen := errs_seen s; mutex := mutex s; panicked := panicked s;
     reader_stuck := reader_stuck s; close_collected := close_collected s |}.
Definition set_calls (s : st) (l : list apc) : st :=
  {| subs := subs s; calls := l; reader := reader s; frames := frames s; inbound := inbound s;
     lost := lost s; conn_closes := conn_closes s; is_closing := is_closing s; err_buf := err_buf s;
     err_closed := err_closed s; errs_seen := errs_seen s; mutex := mutex s; panicked := panicked s;
     reader_stuck := reader_stuck s; close_collected := close_collected s |}.
Definition set_reader (s : st) (r : rpc) : st :=
  {| subs := subs s; calls := calls s; reader := r; frames := frames s; inbound := inbound s;
     lost := lost s; conn_closes := conn_closes s; is_closing := is_closing s; err_buf := err_buf s;
     err_closed := err_closed s; errs_seen := errs_seen s; mutex := mutex s; panicked := panicked s;
     reader_stuck := reader_stuck s; close_collected := close_collected s |}.
Definition set_frames (s : st) (l : list wframe) : st :=
  {| subs := subs s; calls := calls s; reader := reader s; frames := l; inbound := inbound s;
     lost := lost s; conn_closes := conn_closes s; is_closing := is_closing s; err_buf := err_buf s;
     err_closed := err_closed s; errs_seen := errs_seen s; mutex := mutex s; panicked := panicked s;
     reader_stuck := reader_stuck s; close_collected := close_collected s |}.
Definition set_inbound (s : st) (l : list sframe) : st :=
  {| subs := subs s; calls := calls s; reader := reader s; frames := frames s; inbound := l;
     lost := lost s; conn_closes := conn_closes s; is_closing := is_closing s; err_buf := err_buf s;
     err_closed := err_closed s; errs_seen := errs_seen s; mutex := mutex s; panicked := panicked s;
     reader_stuck := reader_stuck s; close_collected := close_collected s |}.
Definition set_mutex (s : st) (o : owner) : st :=
  {| subs := subs s; calls := calls s; reader := reader s; frames := frames s; inbound := inbound s;
     lost := lost s; conn_closes := conn_closes s; is_closing := is_closing s; err_buf := err_buf s;
     err_closed := err_closed s; errs_seen := errs_seen s; mutex := o; panicked := panicked s;
     reader_stuck := reader_stuck s; close_collected := close_collected s |}.
Definition set_panicked (s : st) : st :=
  {| subs := subs s; calls := calls s; reader := reader s; frames := frames s; inbound := inbound s;
     lost := lost s; conn_closes := conn_closes s; is_closing := is_closing s; err_buf := err_buf s;
     err_closed := err_closed s; errs_seen := errs_seen s; mutex := mutex s; panicked := true;
     reader_stuck := reader_stuck s; close_collected := close_collected s |}.
Definition set_collected (s : st) (l : list nat) : st :=
  {| subs := subs s; calls := calls s; reader := reader s; frames := frames s; inbound := inbound s;
     lost := lost s; conn_closes := conn_closes s; is_closing := is_closing s; err_buf := err_buf s;
     err_closed := err_closed s; errs_seen := errs_seen s; mutex := mutex s; panicked := panicked s;
     reader_stuck := reader_stuck s; close_collected := l |}.
Definition set_err (s : st) (buf closed seen : nat) (stuck : bool) : st :=
  {| subs := subs s; calls := calls s; reader := reader s; frames := frames s; inbound := inbound s;
     lost := lost s; conn_closes := conn_closes s; is_closing := is_closing s; err_buf := buf;
     err_closed := closed; errs_seen := seen; mutex := mutex s; panicked := panicked s;
     reader_stuck := stuck; close_collected := close_collected s |}.
Definition set_closing (s : st) : st :=
  {| subs := subs s; calls := calls s; reader := reader s; frames := frames s; inbound := inbound s;
     lost := lost s; conn_closes := S (conn_closes s); is_closing := true; err_buf := err_buf s;
     err_closed := S (err_closed s); errs_seen := errs_seen s; mutex := mutex s; panicked := panicked s;
     reader_stuck := reader_stuck s; close_collected := close_collected s |}.
Definition set_lost (s : st) : st :=
  {| subs := subs s; calls := calls s; reader := reader s; frames := frames s; inbound := inbound s;
     lost := true; conn_closes := conn_closes s; is_closing := is_closing s; err_buf := err_buf s;
     err_closed := err_closed s; errs_seen := errs_seen s; mutex := mutex s; panicked := panicked s;
     reader_stuck := reader_stuck s; close_collected := close_collected s |}.

(* subscriptionMap.Unsubscribe(i) after the fix: idempotent; returns (state, known) *)
Definition map_unsubscribe (s : st) (i : nat) : st * bool :=
  match get_sub s i with
  | Some e =>
      if s_present e then
        if s_flag e then (s, true)
        else (set_subs s (upd (subs s) i (fun e =>
               {| s_present := true; s_flag := true; s_closes := S (s_closes e);
                  s_delivered := s_delivered e; s_sent := s_sent e |})), true)
      else (s, false)
  | None => (s, false)
  end.

(* GetAllIDs after the fix: present and not flagged *)
Fixpoint active_ids_from (l : list sub) (k : nat) : list nat :=
  match l with
  | [] => []
  | e :: r => (if s_present e && negb (s_flag e) then [k] else []) ++ active_ids_from r (S k)
  end.
Definition active_ids (s : st) : list nat := active_ids_from (subs s) 0.

Fixpoint remove_nat (x : nat) (l : list nat) : list nat :=
  match l with
  | [] => []
  | y :: r => if Nat.eqb x y then r else y :: remove_nat x r
  end.
Fixpoint mem_nat (x : nat) (l : list nat) : bool :=
  match l with [] => false | y :: r => Nat.eqb x y || mem_nat x r end.

Definition sub_ended (s : st) (i : nat) : bool :=
  match get_sub s i with Some e => s_present e && s_flag e | None => false end.

Definition set_call (s : st) (n : nat) (p : apc) : st := set_calls s (upd (calls s) n (fun _ => p)).

Definition read_enabled (s : st) : bool :=
  match inbound s with [] => lost s || Nat.ltb 0 (conn_closes s) | _ => true end.

Definition lookup (s : st) (i : option nat) : bool * bool :=   (* found, flag copy *)
  match i with
  | None => (false, false)
  | Some k => match get_sub s k with
              | Some e => if s_present e then (true, s_flag e) else (false, false)
              | None => (false, false)
              end
  end.

Definition frame_id (f : sframe) : option nat :=
  match f with FData i _ => i | FBad i => i | FComplete i => i | FGarbage => None end.

(* reader: one step from its current pause point; None = not enabled *)
Definition step_reader (s : st) (fault : bool) : option st :=
  if reader_stuck s then None else
  match reader s with
  | RLoop =>
      match mutex s with
      | HeldByReader => None
      | Free => Some (set_reader s (if is_closing s then RExit else RRead))
      end
  | RRead =>
      if read_enabled s then
        match inbound s with
        | [] => Some (set_reader s RErrLock)
        | f :: r =>
            if fault then Some (set_reader s RErrLock)       (* the read itself fails; the frame stays unread *)
            else
              let s1 := set_inbound s r in
              match f with
              | FGarbage => Some (set_reader s1 RErrLock)
              | _ => let (found, fl) := lookup s1 (frame_id f) in
                     Some (set_reader s1 (RLooked f found fl))
              end
        end
      else None
  | RLooked f found fl =>
      if negb found then Some (set_reader s RErrLock)
      else if fl then Some (set_reader s RLoop)
      else match f with
           | FComplete (Some i) =>
               let (s1, known) := map_unsubscribe s i in
               Some (set_reader s1 (if known then RLoop else RErrLock))
           | FData (Some i) p => Some (set_reader s (RSend i p))
           | _ => Some (set_reader s RErrLock)
           end
  | RSend i p => None   (* blocked in the channel send: only the application's receive (LRecv) moves it *)
  | RErrLock =>
      match mutex s with
      | Free => Some (set_reader (set_mutex s HeldByReader) RErrLocked)
      | HeldByReader => None
      end
  | RErrLocked =>
      if is_closing s then Some (set_reader (set_mutex s Free) RExit)
      else if Nat.ltb (err_buf s) 1
      then Some (set_reader (set_mutex (set_err s (S (err_buf s)) (err_closed s) (errs_seen s) false) Free) RExit)
      else Some (set_err s (err_buf s) (err_closed s) (errs_seen s) true)   (* blocks forever holding the mutex *)
  | RExit => Some (set_reader s RDone)
  | RDone => None
  end.

Definition push_frame (s : st) (f : wframe) : st := set_frames s (f :: frames s).

(* an API-call thread: one step *)
Definition step_call (s : st) (n : nat) (choice : nat) (fault : bool) : option st :=
  match nth_error (calls s) n with
  | Some (ASubWrite i) =>
      if fault
      then Some (set_call (set_subs s (upd (subs s) i (fun e =>
                   {| s_present := false; s_flag := s_flag e; s_closes := s_closes e;
                      s_delivered := s_delivered e; s_sent := s_sent e |}))) n (ADone false))
      else Some (set_call (push_frame s (WSubscribe i)) n (ADone true))
  | Some (AUnsubWrite i) =>
      if fault then Some (set_call s n (ADone false))
      else let (s1, known) := map_unsubscribe (push_frame s (WComplete i)) i in
           Some (set_call s1 n (ADone known))
  | Some (ACloseUnsub err) =>
      if mem_nat choice (close_collected s) then
        let s0 := if fault then s else push_frame s (WComplete choice) in
        let (s1, known) := map_unsubscribe s0 choice in
        let err' := err || fault || negb known in
        (* UnsubscribeAll goes on to the next collected id that has not ended meanwhile
           (Unsubscribe returns at once, writing nothing, for an ended subscription) *)
        let rest := filter (fun k => negb (sub_ended s1 k)) (remove_nat choice (close_collected s)) in
        let s2 := set_collected s1 rest in
        Some (set_call s2 n (match rest with [] => ACloseWrite err' | _ => ACloseUnsub err' end))
      else None
  | Some (ACloseWrite err) =>
      let s0 := if fault then s else push_frame s WClose in
      Some (set_call s0 n (ACloseLock (err || fault)))
  | Some (ACloseLock err) =>
      match mutex s with
      | HeldByReader => None
      | Free => Some (set_call (set_closing s) n (ADone (negb err)))
      end
  | Some (ADone _) => None
  | None => None
  end.

Definition deliver (e : sub) (p : N) : sub :=
  {| s_present := s_present e; s_flag := s_flag e; s_closes := s_closes e;
     s_delivered := s_delivered e ++ [p]; s_sent := s_sent e |}.
Definition record_sent (e : sub) (p : N) : sub :=
  {| s_present := s_present e; s_flag := s_flag e; s_closes := s_closes e;
     s_delivered := s_delivered e; s_sent := s_sent e ++ [p] |}.

Definition norm_id (s : st) (i : option nat) : option nat :=
  match i with
  | Some k => if Nat.ltb k (List.length (subs s)) then Some k else None
  | None => None
  end.
Definition norm_frame (s : st) (f : sframe) : sframe :=
  match f with
  | FData i p => FData (norm_id s i) p
  | FBad i => FBad (norm_id s i)
  | FComplete i => FComplete (norm_id s i)
  | FGarbage => FGarbage
  end.

Definition step (s : st) (l : label) : option st :=
  match l with
  | LCallSub =>
      let i := List.length (subs s) in
      Some (set_calls (set_subs s (subs s ++ [sub0])) (calls s ++ [ASubWrite i]))
  | LCallUnsub i =>
      (* Unsubscribe returns nil at once, writing nothing, when the subscription has already ended *)
      Some (set_calls s (calls s ++ [if sub_ended s i then ADone true else AUnsubWrite i]))
  | LCallClose =>
      let ids := active_ids s in
      Some (set_collected (set_calls s (calls s ++ [match ids with [] => ACloseWrite false | _ => ACloseUnsub false end])) ids)
  | LStep TReader _ fault => step_reader s fault
  | LStep (TCall n) choice fault => step_call s n choice fault
  | LServer f0 =>
      (* ids are fresh uuids: a frame can only name a subscription that already exists *)
      let f := norm_frame s f0 in
      let s1 := set_inbound s (inbound s ++ [f]) in
      match f with
      | FData (Some i) p => Some (set_subs s1 (upd (subs s1) i (fun e => record_sent e p)))
      | _ => Some s1
      end
  | LLost => Some (set_lost s)
  | LRecv i =>
      match reader s, get_sub s i with
      | RSend j p, Some e =>
          if Nat.eqb i j then
            if Nat.ltb 0 (s_closes e) then Some (set_reader (set_panicked s) RExit)
            else Some (set_reader (set_subs s (upd (subs s) i (fun e => deliver e p))) RLoop)
          else Some s
      | _, _ => Some s
      end
  | LRecvErr =>
      if Nat.ltb 0 (err_buf s) then Some (set_err s (err_buf s - 1) (err_closed s) (S (errs_seen s)) (reader_stuck s))
      else Some s
  end.

(* run a label list; a label that is not enabled is skipped (as the controller does) *)
Definition step' (s : st) (l : label) : st := match step s l with Some s' => s' | None => s end.
Definition run (ls : list label) : st := fold_left step' ls init.

(* ================= Start (handshake), modelled on its own ================= *)
Inductive start_pc := SDial | SInit | SAck | SOk | SFail.
Record start_st := { sp : start_pc; s_dialed : bool; s_conn_closed : nat; s_init_written : bool; s_reader_spawned : bool }.
Definition start_init : start_st :=
  {| sp := SDial; s_dialed := false; s_conn_closed := 0; s_init_written := false; s_reader_spawned := false |}.

(* one connection operation of Start: [fault] it fails; [ack] (for reads) the frame is connection_ack;
   [garbage] the frame is not JSON *)
Definition start_step (s : start_st) (fault ack garbage : bool) : start_st :=
  match sp s with
  | SDial => if fault then {| sp := SFail; s_dialed := false; s_conn_closed := 0; s_init_written := false; s_reader_spawned := false |}
             else {| sp := SInit; s_dialed := true; s_conn_closed := 0; s_init_written := false; s_reader_spawned := false |}
  | SInit => if fault then {| sp := SFail; s_dialed := true; s_conn_closed := 1; s_init_written := false; s_reader_spawned := false |}
             else {| sp := SAck; s_dialed := true; s_conn_closed := 0; s_init_written := true; s_reader_spawned := false |}
  | SAck => if fault || garbage then {| sp := SFail; s_dialed := true; s_conn_closed := 1; s_init_written := true; s_reader_spawned := false |}
            else if ack then {| sp := SOk; s_dialed := true; s_conn_closed := 0; s_init_written := true; s_reader_spawned := true |}
            else s
  | _ => s
  end.
