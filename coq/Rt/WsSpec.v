(* What C15 calls a valid client conversation, and which schedules are SEQUENCES of API calls:
   executable definitions only (used by the theorem in Proofs/WsGrammar.v and, on the frames
   the real client wrote, by Corr/Wscorr.v). *)
From Verif Require Import Base.Str Rt.Ws.
From Coq Require Import Arith.

Definition is_call (l : label) : bool :=
  match l with LCallSub | LCallUnsub _ | LCallClose => true | _ => false end.
Definition is_done (a : apc) : bool := match a with ADone _ => true | _ => false end.
Definition all_done (s : st) : bool := forallb is_done (calls s).
(* Subscribe for i has returned an id: the entry is still registered once every call has returned *)
Definition obtained (s : st) (i : nat) : bool :=
  match get_sub s i with Some e => s_present e | None => false end.

Fixpoint sequential_from (s : st) (closed : bool) (ls : list label) : bool :=
  match ls with
  | [] => true
  | l :: r =>
      (if is_call l
       then all_done s && negb closed && match l with LCallUnsub i => obtained s i | _ => true end
       else true)
      && sequential_from (step' s l) (closed || match l with LCallClose => true | _ => false end) r
  end.
Definition sequential (ls : list label) : bool := sequential_from init false ls.

(* the same, as the left-to-right check a server would make (oldest frame first) *)
Fixpoint conv_ok (subscribed completed : list nat) (l : list wframe) : bool :=
  match l with
  | [] => true
  | WSubscribe i :: r => negb (mem_nat i subscribed) && conv_ok (i :: subscribed) completed r
  | WComplete i :: r => mem_nat i subscribed && negb (mem_nat i completed) && conv_ok subscribed (i :: completed) r
  | WClose :: r => match r with [] => true | _ :: _ => false end
  end.

