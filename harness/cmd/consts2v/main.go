// consts2v regenerates coq/Gen/Consts.v from /repo's current Go sources and
// templates: the table-like facts the theorems mention.  It is deliberately
// shallow (go/ast over literals and constants, text search over templates).
package main

import (
	"flag"
	"fmt"
	"go/ast"
	"go/parser"
	"go/token"
	"os"
	"path/filepath"
	"sort"
	"strconv"
	"strings"

	"verifharness/coqfmt"
)

type pkgInfo struct {
	files map[string]*ast.File
	fset  *token.FileSet
}

func load(dir string) *pkgInfo {
	fset := token.NewFileSet()
	pkgs, err := parser.ParseDir(fset, dir, func(fi os.FileInfo) bool {
		return !strings.HasSuffix(fi.Name(), "_test.go")
	}, parser.ParseComments)
	if err != nil {
		fmt.Fprintln(os.Stderr, "consts2v: parse error:", err)
		os.Exit(2)
	}
	info := &pkgInfo{files: map[string]*ast.File{}, fset: fset}
	for _, p := range pkgs {
		for name, f := range p.Files {
			info.files[name] = f
		}
	}
	return info
}

// findVar returns the value expression of a package-level var/const.
func (p *pkgInfo) findValue(name string) ast.Expr {
	for _, f := range p.files {
		for _, d := range f.Decls {
			gd, ok := d.(*ast.GenDecl)
			if !ok {
				continue
			}
			for _, s := range gd.Specs {
				vs, ok := s.(*ast.ValueSpec)
				if !ok {
					continue
				}
				for i, n := range vs.Names {
					if n.Name == name && i < len(vs.Values) {
						return vs.Values[i]
					}
				}
			}
		}
	}
	return nil
}

func unq(e ast.Expr) (string, bool) {
	bl, ok := e.(*ast.BasicLit)
	if !ok || bl.Kind != token.STRING {
		return "", false
	}
	s, err := strconv.Unquote(bl.Value)
	return s, err == nil
}

func (p *pkgInfo) stringConst(name string) (string, bool) {
	v := p.findValue(name)
	if v == nil {
		return "", false
	}
	return unq(v)
}

// map[string]bool / map[string]string composite literal
func (p *pkgInfo) mapLit(name string) (keys []string, vals []string, ok bool) {
	v := p.findValue(name)
	cl, isCl := v.(*ast.CompositeLit)
	if !isCl {
		return nil, nil, false
	}
	for _, el := range cl.Elts {
		kv, isKv := el.(*ast.KeyValueExpr)
		if !isKv {
			return nil, nil, false
		}
		k, ok1 := unq(kv.Key)
		if !ok1 {
			return nil, nil, false
		}
		keys = append(keys, k)
		if s, ok2 := unq(kv.Value); ok2 {
			vals = append(vals, s)
		} else if id, ok3 := kv.Value.(*ast.Ident); ok3 {
			vals = append(vals, id.Name)
		} else {
			vals = append(vals, "?")
		}
	}
	return keys, vals, true
}

func (p *pkgInfo) sliceLit(name string) ([]string, bool) {
	v := p.findValue(name)
	cl, isCl := v.(*ast.CompositeLit)
	if !isCl {
		return nil, false
	}
	var out []string
	for _, el := range cl.Elts {
		s, ok := unq(el)
		if !ok {
			return nil, false
		}
		out = append(out, s)
	}
	return out, true
}

// caseStrings collects the string literals used as `case` labels of switch
// statements inside function fn whose tag mentions tagHint.
func (p *pkgInfo) caseStrings(fn string) []string {
	var out []string
	for _, f := range p.files {
		for _, d := range f.Decls {
			fd, ok := d.(*ast.FuncDecl)
			if !ok || fd.Name.Name != fn || fd.Body == nil {
				continue
			}
			ast.Inspect(fd.Body, func(n ast.Node) bool {
				cc, ok := n.(*ast.CaseClause)
				if !ok {
					return true
				}
				for _, e := range cc.List {
					if s, ok := unq(e); ok {
						out = append(out, s)
					}
				}
				return true
			})
		}
	}
	return out
}

func boolV(v bool) string { return coqfmt.Bool(v) }

// mapLockDiscipline: every method of subscriptionMap that touches s.map_ holds the embedded
// RWMutex -- the write lock (s.Lock) when it assigns to or deletes from the map, at least the
// read lock otherwise.  Rt/Ws.v treats each of these methods as ONE atomic step; that is sound
// only under this discipline.
func (p *pkgInfo) mapLockDiscipline() (ok bool, methods int) {
	ok = true
	for _, f := range p.files {
		for _, d := range f.Decls {
			fd, isFn := d.(*ast.FuncDecl)
			if !isFn || fd.Recv == nil || len(fd.Recv.List) != 1 || fd.Body == nil {
				continue
			}
			star, isStar := fd.Recv.List[0].Type.(*ast.StarExpr)
			if !isStar {
				continue
			}
			if id, isID := star.X.(*ast.Ident); !isID || id.Name != "subscriptionMap" {
				continue
			}
			recv := ""
			if len(fd.Recv.List[0].Names) == 1 {
				recv = fd.Recv.List[0].Names[0].Name
			}
			isMap := func(e ast.Expr) bool {
				se, ok := e.(*ast.SelectorExpr)
				if !ok || se.Sel.Name != "map_" {
					return false
				}
				id, ok := se.X.(*ast.Ident)
				return ok && id.Name == recv
			}
			touches, writes, lock, rlock := false, false, false, false
			ast.Inspect(fd.Body, func(n ast.Node) bool {
				switch x := n.(type) {
				case *ast.SelectorExpr:
					if isMap(x) {
						touches = true
					}
				case *ast.AssignStmt:
					for _, l := range x.Lhs {
						if ie, ok := l.(*ast.IndexExpr); ok && isMap(ie.X) {
							writes = true
						}
						if isMap(l) {
							writes = true
						}
					}
				case *ast.CallExpr:
					if id, ok := x.Fun.(*ast.Ident); ok && id.Name == "delete" && len(x.Args) > 0 && isMap(x.Args[0]) {
						writes = true
					}
					if se, ok := x.Fun.(*ast.SelectorExpr); ok {
						if id, ok := se.X.(*ast.Ident); ok && id.Name == recv {
							switch se.Sel.Name {
							case "Lock":
								lock = true
							case "RLock":
								rlock = true
							}
						}
					}
				}
				return true
			})
			if !touches {
				continue
			}
			methods++
			if writes && !lock {
				ok = false
			}
			if !writes && !lock && !rlock {
				ok = false
			}
		}
	}
	return ok, methods
}

// mapLockReentry reports whether some subscriptionMap method calls, while it holds the map's
// RWMutex (it calls Lock or RLock on its receiver), another subscriptionMap method that acquires
// that mutex itself, directly or through further methods.  sync.RWMutex is not reentrant: a
// recursive read lock deadlocks as soon as a writer queues up between the two acquisitions.
func (p *pkgInfo) mapLockReentry() (reenters bool) {
	type info struct {
		locks bool
		calls []string
	}
	ms := map[string]*info{}
	for _, f := range p.files {
		for _, d := range f.Decls {
			fd, isFn := d.(*ast.FuncDecl)
			if !isFn || fd.Recv == nil || len(fd.Recv.List) != 1 || fd.Body == nil {
				continue
			}
			star, isStar := fd.Recv.List[0].Type.(*ast.StarExpr)
			if !isStar {
				continue
			}
			if id, isID := star.X.(*ast.Ident); !isID || id.Name != "subscriptionMap" {
				continue
			}
			recv := ""
			if len(fd.Recv.List[0].Names) == 1 {
				recv = fd.Recv.List[0].Names[0].Name
			}
			in := &info{}
			ast.Inspect(fd.Body, func(n ast.Node) bool {
				if x, ok := n.(*ast.CallExpr); ok {
					if se, ok := x.Fun.(*ast.SelectorExpr); ok {
						if id, ok := se.X.(*ast.Ident); ok && id.Name == recv && recv != "" {
							switch se.Sel.Name {
							case "Lock", "RLock":
								in.locks = true
							case "Unlock", "RUnlock":
							default:
								in.calls = append(in.calls, se.Sel.Name)
							}
						}
					}
				}
				return true
			})
			ms[fd.Name.Name] = in
		}
	}
	// acquires[m]: m takes the lock itself or through a method it calls
	acquires := map[string]bool{}
	for changed := true; changed; {
		changed = false
		for name, in := range ms {
			if acquires[name] {
				continue
			}
			a := in.locks
			for _, c := range in.calls {
				if acquires[c] {
					a = true
				}
			}
			if a {
				acquires[name] = true
				changed = true
			}
		}
	}
	for _, in := range ms {
		if !in.locks {
			continue
		}
		for _, c := range in.calls {
			if _, isMethod := ms[c]; isMethod && acquires[c] {
				return true
			}
		}
	}
	return false
}

func main() {
	repo := flag.String("repo", "/repo", "repository root")
	out := flag.String("out", "", "output .v file")
	flag.Parse()

	gen := load(filepath.Join(*repo, "generate"))
	gql := load(filepath.Join(*repo, "graphql"))

	var sb strings.Builder
	w := func(format string, args ...interface{}) { fmt.Fprintf(&sb, format, args...) }
	w("(* GENERATED by harness/cmd/consts2v from /repo's current sources. Do not edit. *)\n")
	w("From Verif Require Import Base.Str.\n\n")

	// goKeywords
	keys, vals, ok := gen.mapLit("goKeywords")
	var kw []string
	if ok {
		for i, k := range keys {
			if vals[i] == "true" {
				kw = append(kw, k)
			}
		}
	}
	sort.Strings(kw)
	w("Definition go_keywords : list str := %s.\n\n", coqfmt.StrList(kw))

	// builtinTypes
	keys, vals, _ = gen.mapLit("builtinTypes")
	type kv struct{ k, v string }
	var bt []kv
	for i := range keys {
		bt = append(bt, kv{keys[i], vals[i]})
	}
	sort.Slice(bt, func(i, j int) bool { return bt[i].k < bt[j].k })
	var items []string
	for _, e := range bt {
		items = append(items, coqfmt.Pair(coqfmt.Str(e.k), coqfmt.Str(e.v)))
	}
	w("Definition builtin_types : list (str * str) := %s.\n\n", coqfmt.List(items))

	// casing constants
	for _, c := range []struct{ goName, coqName string }{
		{"CasingDefault", "casing_default_name"},
		{"CasingRaw", "casing_raw_name"},
		{"CasingAutoCamelCase", "casing_auto_name"},
	} {
		s, _ := gen.stringConst(c.goName)
		w("Definition %s : str := %s.\n", c.coqName, coqfmt.Str(s))
	}
	w("\n")

	// config file names, operation file extensions
	cfgs, _ := gen.sliceLit("cfgFilenames")
	w("Definition cfg_filenames : list str := %s.\n", coqfmt.StrList(cfgs))
	exts := gen.caseStrings("getQueries")
	sort.Strings(exts)
	w("Definition operation_exts : list str := %s.\n\n", coqfmt.StrList(exts))

	// websocket protocol constants
	for _, c := range []struct{ goName, coqName string }{
		{"webSocketTypeConnInit", "ws_conn_init"},
		{"webSocketTypeConnAck", "ws_conn_ack"},
		{"webSocketTypeSubscribe", "ws_subscribe"},
		{"webSocketTypeNext", "ws_next"},
		{"webSocketTypeError", "ws_error"},
		{"webSocketTypeComplete", "ws_complete"},
	} {
		s, _ := gql.stringConst(c.goName)
		w("Definition %s : str := %s.\n", c.coqName, coqfmt.Str(s))
	}
	w("\n")

	// template tripwires (text-level facts)
	readT := func(name string) string {
		data, err := os.ReadFile(filepath.Join(*repo, "generate", name))
		if err != nil {
			return ""
		}
		return string(data)
	}
	uh := readT("unmarshal_helper.go.tmpl")
	w("Definition tmpl_unmarshal_helper_has_empty_arm : bool := %s.\n", boolV(strings.Contains(uh, `case "":`)))
	w("Definition tmpl_unmarshal_helper_has_default_arm : bool := %s.\n", boolV(strings.Contains(uh, "default:")))
	w("Definition tmpl_unmarshal_helper_null_guard : bool := %s.\n", boolV(strings.Contains(uh, `if string(b) == "null"`)))
	um := readT("unmarshal.go.tmpl")
	w("Definition tmpl_unmarshal_has_no_unmarshal_json : bool := %s.\n", boolV(strings.Contains(um, "graphql.NoUnmarshalJSON")))
	w("Definition tmpl_unmarshal_null_guard : bool := %s.\n", boolV(strings.Contains(um, `if string(b) == "null"`)))
	op := readT("operation.go.tmpl")
	iData := strings.Index(op, "data_ = &{{.ResponseName}}{}")
	iCall := strings.Index(op, "client_.MakeRequest(")
	w("Definition tmpl_operation_data_before_request : bool := %s.\n", boolV(iData >= 0 && iCall > iData))
	w("Definition tmpl_operation_single_make_request : bool := %s.\n", boolV(strings.Count(op, "client_.MakeRequest(") == 1))
	// the client-getter branch: does it return before `data_` is allocated?
	iGetter := strings.Index(op, "{{ref .Config.ClientGetter}}(")
	iRet := -1
	if iGetter >= 0 {
		if k := strings.Index(op[iGetter:], "return nil,"); k >= 0 {
			iRet = iGetter + k
		}
	}
	w("Definition tmpl_operation_getter_failure_returns_nil_data : bool := %s.\n", boolV(iGetter >= 0 && iRet > iGetter && (iData < 0 || iRet < iData)))
	w("Definition tmpl_operation_returns_err_unchanged : bool := %s.\n", boolV(strings.Contains(op, "err_ = client_.MakeRequest(") && strings.Contains(op, "err_\n}")))

	disc, nm := gql.mapLockDiscipline()
	w("\n(* graphql/subscription.go: the %d methods of subscriptionMap that touch the map hold its lock\n   (the write lock when they write) *)\n", nm)
	w("Definition ws_map_methods_hold_the_lock : bool := %s.\n", boolV(disc && nm >= 5))
	w("(* ... and none of them calls, while holding it, another method that acquires it (sync.RWMutex is\n   not reentrant: a recursive RLock deadlocks once a writer waits in between) *)\n")
	w("Definition ws_map_methods_do_not_reenter_the_lock : bool := %s.\n", boolV(!gql.mapLockReentry()))

	if *out == "" {
		fmt.Print(sb.String())
		return
	}
	old, err := os.ReadFile(*out)
	if err == nil && string(old) == sb.String() {
		return // unchanged: keep mtime so make does nothing
	}
	if err := os.WriteFile(*out, []byte(sb.String()), 0o644); err != nil {
		fmt.Fprintln(os.Stderr, "consts2v:", err)
		os.Exit(2)
	}
}
