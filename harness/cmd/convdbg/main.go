// convdbg: development tool: run N random conv cases, print mismatch diagnostics.
package main

import (
	"flag"
	"fmt"
	"os"
	"os/exec"
	"strings"

	"verifharness/core"
	"verifharness/props/conv"
)

func main() {
	n := flag.Int("n", 40, "cases")
	seed := flag.Int64("seed", 1, "seed")
	only := flag.Int("only", -1, "show this case in detail")
	pd := flag.Float64("decor", 0.3, "decoration probability")
	pb := flag.Float64("bad", 0.02, "bad decoration probability")
	flag.Parse()
	r := core.NewRng(*seed)
	dir := core.Scratch("convdbg")
	defer os.RemoveAll(dir)
	out := "/verif/_build/run/convdbg"
	os.MkdirAll(out, 0o755)
	var terms []string
	classes := map[string]int{}
	errs := map[string]int{}
	defer func() {
		for k, v := range errs {
			fmt.Println(v, k)
		}
	}()
	var cases []*conv.Case
	for i := 0; i < *n; i++ {
		c := conv.GenCase(r, i, *pd, *pb)
		o := conv.Observe(dir+"/p", c)
		classes[o.Class]++
		if o.Class == "err" {
			m := o.Err
			if i := strings.Index(m, ": "); i >= 0 && i < 40 {
				m = m[i+2:]
			}
			if len(m) > 60 {
				m = m[:60]
			}
			errs[m]++
		}
		if *only == i {
			p := c.Program()
			for k, v := range p.Files {
				fmt.Printf("==== %s\n%s\n", k, v)
			}
			fmt.Printf("cfg: %+v\n", c.Cfg)
			fmt.Println("class:", o.Class, o.Err)
			if o.Em != nil {
				for _, d := range o.Em.Decls {
					fmt.Printf("OBS %s %s %v %v %v %v %v %s\n", d.Kind, d.Name, d.Fields, d.Methods, d.Embeds, d.Impls, d.Values, d.Builtin)
				}
				fmt.Println("OBS ops", o.Em.Response)
			}
		}
		if o.Class == "pipeline" || o.Class == "TIMEOUT" {
			continue
		}
		t, ok := conv.CaseTerm(i, c, o)
		if !ok {
			classes["harness-export-failed"]++
			continue
		}
		terms = append(terms, t)
		cases = append(cases, c)
		if *only == i {
			os.WriteFile(out+"/one.v", []byte("From Verif Require Import Base.Str Gen.Casing Gen.Gql Gen.Directive Gen.Convert Corr.Convcorr.\nDefinition c : conv_case := "+t+".\nEval vm_compute in conv_show c.\nEval vm_compute in conv_agrees c.\n"), 0o644)
		}
	}
	fmt.Println(classes)
	files, _ := conv.WriteCases(out, "dbg", terms, 20)
	for _, f := range files {
		cmd := exec.Command("coqc", "-Q", "/verif/coq", "Verif", "-w", "-notation-overridden", f)
		b, _ := cmd.CombinedOutput()
		s := string(b)
		if i := strings.Index(s, "MISMATCH ="); i >= 0 {
			fmt.Println(strings.TrimSpace(s[i:]))
		} else {
			fmt.Println(s)
		}
	}
}
