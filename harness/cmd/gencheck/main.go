// gencheck measures the random program generator: validity rate, acceptance rate, error classes.
package main

import (
	"flag"
	"fmt"
	"os"
	"sort"
	"strings"

	"verifharness/core"
	"verifharness/gen"
)

func main() {
	n := flag.Int("n", 200, "programs")
	seed := flag.Int64("seed", 1, "seed")
	show := flag.Int("show", 0, "print this program")
	flag.Parse()
	r := core.NewRng(*seed)
	classes := map[string]int{}
	firstOf := map[string]string{}
	dir := core.Scratch("gencheck")
	defer os.RemoveAll(dir)
	for i := 0; i < *n; i++ {
		s := gen.RandomSchema(r, gen.DefaultSchemaOpts())
		d := gen.RandomDoc(r, s, gen.DefaultOpOpts())
		defs := d.Defs()
		p := gen.Program(s, defs, gen.SingleFile(len(defs)), nil)
		if i == *show && *show > 0 {
			for k, v := range p.Files {
				fmt.Printf("==== %s\n%s\n", k, v)
			}
		}
		os.RemoveAll(dir)
		os.MkdirAll(dir, 0o755)
		oc := core.RunGenerate(dir, p)
		cls := "ok"
		if oc.Panicked {
			cls = "PANIC " + oc.PanicVal
		} else if oc.TimedOut {
			cls = "TIMEOUT"
		} else if oc.Err != nil {
			m := oc.Err.Error()
			m = strings.ReplaceAll(m, dir, "")
			if i := strings.Index(m, ": "); i >= 0 && i < 40 {
				m = m[i+2:]
			}
			if len(m) > 70 {
				m = m[:70]
			}
			cls = "err: " + m
		}
		classes[cls]++
		if _, ok := firstOf[cls]; !ok {
			firstOf[cls] = fmt.Sprint(i)
		}
	}
	var ks []string
	for k := range classes {
		ks = append(ks, k)
	}
	sort.Strings(ks)
	for _, k := range ks {
		fmt.Printf("%5d  (first #%s)  %s\n", classes[k], firstOf[k], k)
	}
}
