// genqlientbin is the genqlient command line (same main as /repo/main.go), built from the
// harness module so that building it never touches /repo's go.sum.
package main

import "github.com/Khan/genqlient/generate"

func main() { generate.Main() }
