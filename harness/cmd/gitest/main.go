package main

import (
	"fmt"
	"os"

	"golang.org/x/tools/imports"
)

func main() {
	src, _ := os.ReadFile(os.Args[1])
	out, err := imports.Process(os.Args[1], src, nil)
	fmt.Println(string(out), err)
}
