// showcase: run one conv replay and print the emitted Go file.
package main

import (
	"fmt"
	"os"

	"verifharness/core"
	"verifharness/props/conv"
)

func main() {
	c, err := conv.LoadReplay(os.Args[1])
	if err != nil {
		panic(err)
	}
	dir := core.Scratch("show")
	defer os.RemoveAll(dir)
	o := conv.Observe(dir+"/p", c)
	fmt.Println("class:", o.Class, o.Err)
	fmt.Println(string(o.GoBytes))
}
