// vdrv runs one property's driver against /repo's current code and writes result.json.
package main

import (
	"flag"
	"fmt"
	"os"
	"path/filepath"
	"strings"

	"verifharness/core"
	"verifharness/props/c11"
	"verifharness/props/c12"
	"verifharness/props/c16"
	"verifharness/props/c20"
	"verifharness/props/conv"
	"verifharness/props/pipe"
	"verifharness/props/rt"
	"verifharness/props/ws"
)

type runner func(tier string, seed int64, outDir string, replay string) (*core.Result, error)

var drivers = map[string]runner{
	"C07": conv.RunC07,
	"C09": conv.RunC09,
	"C10": conv.RunC10,
	"C11": c11.Run,
	"C12": runC12,
	"C13": ws.RunFor("C13"),
	"C14": ws.RunFor("C14"),
	"C15": ws.RunFor("C15"),
	"C16": c16.Run,
	"C20": c20.Run,
	"C01": conv.RunC01,
	"C02": rt.RunC02,
	"C04": rt.RunC04,
	"C03": pipe.RunC03,
	"C06": rt.RunC06,
	"C19": rt.RunC19,
	"C05": pipe.RunC05,
	"C08": pipe.RunC08,
	"C17": pipe.RunC17,
	"C18": pipe.RunC18,
}

// C12 = the HTTP client's classification (props/c12) + the generated helper's part (props/rt).
func runC12(tier string, seed int64, out string, replay string) (*core.Result, error) {
	helperReplay := false
	if replay != "" {
		if data, err := os.ReadFile(replay); err == nil && strings.Contains(string(data), "\"helper_leg\"") {
			helperReplay = true
		}
	}
	var res *core.Result
	var err error
	if helperReplay {
		res = core.NewResult("C12", tier, seed)
	} else {
		res, err = c12.Run(tier, seed, out, replay)
		if err != nil {
			return nil, err
		}
		if replay != "" {
			return res, nil
		}
	}
	if err := rt.HelperLegC12(res, tier, seed, out, map[bool]string{true: replay, false: ""}[helperReplay]); err != nil {
		return nil, err
	}
	return res, nil
}

func main() {
	prop := flag.String("prop", "", "property id")
	tier := flag.String("tier", "quick", "quick|thorough")
	seed := flag.Int64("seed", 1, "PRNG seed")
	out := flag.String("out", "", "output directory")
	replay := flag.String("replay", "", "replay file")
	flag.Parse()
	run, ok := drivers[*prop]
	if !ok {
		fmt.Fprintln(os.Stderr, "vdrv: unknown property", *prop)
		os.Exit(2)
	}
	if err := os.MkdirAll(*out, 0o755); err != nil {
		fmt.Fprintln(os.Stderr, err)
		os.Exit(2)
	}
	res, err := run(*tier, *seed, *out, *replay)
	if err != nil {
		fmt.Fprintln(os.Stderr, "vdrv:", err)
		os.Exit(2)
	}
	if err := res.Write(filepath.Join(*out, "result.json")); err != nil {
		fmt.Fprintln(os.Stderr, err)
		os.Exit(2)
	}
}
