// Package coqfmt prints Go values as Gallina terms for cases.v files.
package coqfmt

import (
	"fmt"
	"strings"
)

// Str renders a Go string as a term of type [str] (list N of its bytes).
func Str(s string) string {
	plain := true
	for i := 0; i < len(s); i++ {
		c := s[i]
		if c < 32 || c > 126 || c == '"' {
			plain = false
			break
		}
	}
	if plain {
		return `(b "` + s + `")`
	}
	var sb strings.Builder
	sb.WriteString("([")
	for i := 0; i < len(s); i++ {
		if i > 0 {
			sb.WriteString(";")
		}
		fmt.Fprintf(&sb, "%d", s[i])
	}
	sb.WriteString("]%N : str)")
	if len(s) == 0 {
		return "([] : str)"
	}
	return sb.String()
}

// List renders a list of already-rendered terms.
func List(items []string) string {
	if len(items) == 0 {
		return "[]"
	}
	return "[" + strings.Join(items, "; ") + "]"
}

func StrList(ss []string) string {
	items := make([]string, len(ss))
	for i, s := range ss {
		items[i] = Str(s)
	}
	return List(items)
}

func Bool(v bool) string {
	if v {
		return "true"
	}
	return "false"
}

func Nat(n int) string { return fmt.Sprintf("%d%%nat", n) }
func N(n int) string   { return fmt.Sprintf("%d%%N", n) }
func Z(n int64) string {
	if n < 0 {
		return fmt.Sprintf("(%d)%%Z", n)
	}
	return fmt.Sprintf("%d%%Z", n)
}

func Some(t string) string { return "(Some " + t + ")" }
func None() string         { return "None" }

func OptStr(s *string) string {
	if s == nil {
		return "None"
	}
	return Some(Str(*s))
}

func Pair(a, b string) string { return "(" + a + ", " + b + ")" }

// App renders a constructor/function application.
func App(f string, args ...string) string {
	if len(args) == 0 {
		return f
	}
	return "(" + f + " " + strings.Join(args, " ") + ")"
}
