// Package core holds what every property driver shares: the result format, the
// single PRNG, scratch directories, and running the real generator safely.
package core

import (
	"crypto/sha256"
	"encoding/hex"
	"encoding/json"
	"fmt"
	"math/rand"
	"os"
	"path/filepath"
	"regexp"
	"runtime/debug"
	"sort"
	"strings"
	"time"

	"github.com/Khan/genqlient/generate"
)

// Failure is one case on which the property's oracle (or the drivers' crash /
// hang detection) failed on the IMPLEMENTATION.
type Failure struct {
	Case   string      `json:"case"`   // case id
	Class  string      `json:"class"`  // narrow mechanism classifier (matched against KNOWN_FINDINGS.json)
	What   string      `json:"what"`   // human-readable
	Replay interface{} `json:"replay"` // concrete input, enough to re-run
	// ReplayHash identifies the replay object (hash of its JSON); entries beyond the first 200
	// keep only case, class and this hash
	ReplayHash string `json:"replay_hash,omitempty"`
}

func hashOf(v interface{}) string {
	data, err := json.Marshal(v)
	if err != nil {
		return ""
	}
	h := sha256.Sum256(data)
	return hex.EncodeToString(h[:8])
}

// Result is what a driver hands back to ./check.
type Result struct {
	Property     string                 `json:"property"`
	Tier         string                 `json:"tier"`
	Seed         int64                  `json:"seed"`
	Evaluations  int                    `json:"evaluations"`
	Distinct     int                    `json:"distinct_nontrivial"`
	Rule         string                 `json:"rule"`
	Samples      []interface{}          `json:"samples"`
	Distribution map[string]int         `json:"distribution"`
	Failures     []Failure              `json:"failures"`
	CasesV       []string               `json:"cases_v"` // files for the in-kernel correspondence
	ModelCases   int                    `json:"model_cases"`
	Exhaustive   bool                   `json:"exhaustive"`
	Notes        []string               `json:"notes"`
	Extra        map[string]interface{} `json:"extra,omitempty"`
	distinctSeen map[string]bool
	perClass     map[string]int
}

func NewResult(prop, tier string, seed int64) *Result {
	return &Result{Property: prop, Tier: tier, Seed: seed,
		Distribution: map[string]int{}, distinctSeen: map[string]bool{},
		Extra: map[string]interface{}{}}
}

// Count records one evaluated case; key is its canonical form; nontrivial says
// whether it counts by the driver's stated rule.
func (r *Result) Count(key string, nontrivial bool) {
	r.Evaluations++
	if !nontrivial {
		return
	}
	h := sha256.Sum256([]byte(key))
	k := hex.EncodeToString(h[:8])
	if !r.distinctSeen[k] {
		r.distinctSeen[k] = true
		r.Distinct++
	}
}

func (r *Result) Dist(key string) { r.Distribution[key]++ }

func (r *Result) Sample(v interface{}) {
	if len(r.Samples) < 5 {
		r.Samples = append(r.Samples, v)
	}
}

func (r *Result) Fail(f Failure) {
	f.ReplayHash = hashOf(f.Replay)
	if r.perClass == nil {
		r.perClass = map[string]int{}
	}
	r.perClass[f.Class]++
	switch {
	case r.perClass[f.Class] <= 12:
		// full entries for the first failures of EVERY class
		r.Failures = append(r.Failures, f)
	case len(r.Failures) < 50000:
		// light entry: enough to classify a kernel-side verdict on the same case
		r.Failures = append(r.Failures, Failure{Case: f.Case, Class: f.Class, ReplayHash: f.ReplayHash})
	}
}

func (r *Result) Write(path string) error {
	if ci, ok := r.Extra["case_index"].(map[string]interface{}); ok {
		hashes := map[string]string{}
		for k, v := range ci {
			hashes[k] = hashOf(v)
		}
		r.Extra["case_hash"] = hashes
	}
	data, err := json.MarshalIndent(r, "", " ")
	if err != nil {
		return err
	}
	return os.WriteFile(path, data, 0o644)
}

// Rng is the single source of randomness of a run.
type Rng struct{ *rand.Rand }

func NewRng(seed int64) *Rng { return &Rng{rand.New(rand.NewSource(seed))} }

func (r *Rng) Pick(ss []string) string { return ss[r.Intn(len(ss))] }
func (r *Rng) Chance(p float64) bool   { return r.Float64() < p }

// Scratch returns a fresh directory under /var/tmp; the caller removes it.
func Scratch(prefix string) string {
	base := "/var/tmp"
	d, err := os.MkdirTemp(base, "verif."+prefix+".")
	if err != nil {
		panic(err)
	}
	return d
}

// Program is a generator input laid out on disk.
type Program struct {
	Files  map[string]string // relative path -> content (schema, operations, go files)
	Schema []string          // relative globs/paths
	Ops    []string
	Cfg    func(c *generate.Config) // further settings
}

// Outcome of running the real generator.
type Outcome struct {
	Files     map[string][]byte
	Err       error
	Panicked  bool
	PanicVal  string
	PanicSite string // first genqlient function on the panicking stack
	TimedOut  bool
	ImportLog [][2]string // (package path, alias) in the order addImportFor chose them (verif hook)
}

var siteRe = regexp.MustCompile(`github\.com/Khan/genqlient/generate\.(?:\(\*?\w+\)\.)?(\w+)`)

func panicSite(stack string) string {
	// skip the frames of the recover machinery: take the first genqlient frame after "panic("
	i := strings.Index(stack, "panic(")
	if i >= 0 {
		stack = stack[i:]
	}
	if m := siteRe.FindStringSubmatch(stack); m != nil {
		return m[1]
	}
	if j := strings.Index(stack, "github.com/vektah/gqlparser"); j >= 0 {
		return "gqlparser"
	}
	return "unknown"
}

// RunGenerate lays the program out under dir and calls generate.Generate with
// a hand-built Config (no packages.Load), recovering panics and watching for hangs.
func RunGenerate(dir string, p *Program) *Outcome {
	for name, content := range p.Files {
		full := filepath.Join(dir, name)
		_ = os.MkdirAll(filepath.Dir(full), 0o755)
		if err := os.WriteFile(full, []byte(content), 0o644); err != nil {
			panic(err)
		}
	}
	cfg := &generate.Config{
		Generated:   filepath.Join(dir, "generated.go"),
		Package:     "gen",
		ContextType: "-",
	}
	for _, s := range p.Schema {
		cfg.Schema = append(cfg.Schema, filepath.Join(dir, s))
	}
	for _, s := range p.Ops {
		cfg.Operations = append(cfg.Operations, filepath.Join(dir, s))
	}
	if p.Cfg != nil {
		p.Cfg(cfg)
	}
	return RunConfig(cfg)
}

func RunConfig(cfg *generate.Config) *Outcome {
	ch := make(chan *Outcome, 1)
	go func() {
		o := &Outcome{}
		defer func() {
			if v := recover(); v != nil {
				o.Panicked = true
				o.PanicVal = fmt.Sprint(v)
				o.PanicSite = panicSite(string(debug.Stack()))
			}
			ch <- o
		}()
		o.Files, o.Err = generate.Generate(cfg)
		o.ImportLog = generate.VerifTakeImportLog()
	}()
	select {
	case o := <-ch:
		return o
	case <-time.After(20 * time.Second):
		return &Outcome{TimedOut: true}
	}
}

func SortedKeysB(m map[string]bool) []string {
	ks := make([]string, 0, len(m))
	for k := range m {
		ks = append(ks, k)
	}
	sort.Strings(ks)
	return ks
}

func SortedKeys(m map[string]int) []string {
	ks := make([]string, 0, len(m))
	for k := range m {
		ks = append(ks, k)
	}
	sort.Strings(ks)
	return ks
}

// ErrClass maps a generator error to a small enum by message fragments.
func ErrClass(err error) string {
	if err == nil {
		return "ok"
	}
	m := err.Error()
	switch {
	case strings.Contains(m, "conflicting Go name"):
		return "EnumConflict"
	case strings.Contains(m, "invalid schema"):
		return "InvalidSchema"
	case strings.Contains(m, "query-spec does not match schema"):
		return "QueryInvalid"
	case strings.Contains(m, "invalid query-spec file"):
		return "QueryParse"
	case strings.Contains(m, "conflicting definition for"):
		return "TypeConflict"
	case strings.Contains(m, "genqlient internal error"):
		return "Internal"
	}
	return "Other"
}

// Pick2 picks from a list of ints.
func (r *Rng) Pick2(xs []int) int { return xs[r.Intn(len(xs))] }
