// Package export turns gqlparser's validated AST (the same front end genqlient uses) into the
// Gallina terms of coq/Gen/Gql.v.  Arguments, directives and variable definitions are opaque
// to the models: they are rendered canonically and interned as numeric ids.
package export

import (
	"fmt"
	"sort"
	"strings"

	"github.com/vektah/gqlparser/v2"
	"github.com/vektah/gqlparser/v2/ast"
	"github.com/vektah/gqlparser/v2/gqlerror"
	"github.com/vektah/gqlparser/v2/parser"
	"github.com/vektah/gqlparser/v2/validator"
	_ "github.com/vektah/gqlparser/v2/validator/rules"

	"verifharness/coqfmt"
)

// Interner maps canonical strings to small ids (0 = empty).
type Interner struct {
	ids    map[string]int
	Rev    []string
	SrcIdx map[*ast.Source]int // source -> index in the exported source list (nil: everything is source 0)
}

func (in *Interner) src(p *ast.Position) int {
	if p == nil || in.SrcIdx == nil {
		return 0
	}
	return in.SrcIdx[p.Src]
}

func NewInterner() *Interner { return &Interner{ids: map[string]int{"": 0}, Rev: []string{""}} }

func (in *Interner) ID(s string) int {
	if v, ok := in.ids[s]; ok {
		return v
	}
	v := len(in.Rev)
	in.ids[s] = v
	in.Rev = append(in.Rev, s)
	return v
}

func LoadSchema(files map[string]string) (*ast.Schema, error) {
	var names []string
	for k := range files {
		names = append(names, k)
	}
	sort.Strings(names)
	var srcs []*ast.Source
	for _, k := range names {
		srcs = append(srcs, &ast.Source{Name: k, Input: files[k]})
	}
	s, err := gqlparser.LoadSchema(srcs...)
	if err != nil {
		return nil, err
	}
	return s, nil
}

// ParseAndValidate parses a query document and runs the validator (which also attaches field
// definitions to the nodes).
func ParseAndValidate(schema *ast.Schema, name, text string) (*ast.QueryDocument, gqlerror.List) {
	doc, err := parser.ParseQuery(&ast.Source{Name: name, Input: text})
	if err != nil {
		var ge *gqlerror.Error
		if e, ok := err.(*gqlerror.Error); ok {
			ge = e
		} else {
			ge = &gqlerror.Error{Message: err.Error()}
		}
		return nil, gqlerror.List{ge}
	}
	errs := validator.Validate(schema, doc)
	return doc, errs
}

func dirsString(ds ast.DirectiveList) string {
	var parts []string
	for _, d := range ds {
		var as []string
		for _, a := range d.Arguments {
			as = append(as, a.Name+":"+a.Value.String())
		}
		parts = append(parts, "@"+d.Name+"("+strings.Join(as, ",")+")")
	}
	return strings.Join(parts, " ")
}

func argsString(args ast.ArgumentList) string {
	var as []string
	for _, a := range args {
		as = append(as, a.Name+":"+a.Value.String())
	}
	return strings.Join(as, ",")
}

func TypeTerm(t *ast.Type) string {
	if t == nil {
		return `(TNamed ([] : str) false)`
	}
	if t.Elem != nil {
		return "(TList " + TypeTerm(t.Elem) + " " + coqfmt.Bool(t.NonNull) + ")"
	}
	return "(TNamed " + coqfmt.Str(t.NamedType) + " " + coqfmt.Bool(t.NonNull) + ")"
}

func line(p *ast.Position) int {
	if p == nil {
		return 0
	}
	return p.Line
}

func (in *Interner) SelTerm(s ast.Selection) string {
	switch s := s.(type) {
	case *ast.Field:
		var ft *ast.Type
		if s.Definition != nil {
			ft = s.Definition.Type
		}
		parent := ""
		if s.ObjectDefinition != nil {
			parent = s.ObjectDefinition.Name
		}
		extra := in.ID("(" + argsString(s.Arguments) + ")" + dirsString(s.Directives))
		if len(s.Arguments) == 0 && len(s.Directives) == 0 {
			extra = 0
		}
		return fmt.Sprintf("(SField %s %s %s %s %d%%N %s %d%%N)", coqfmt.Str(s.Alias), coqfmt.Str(s.Name), TypeTerm(ft),
			coqfmt.Str(parent), extra, in.SelsTerm(s.SelectionSet), line(s.Position))
	case *ast.InlineFragment:
		return fmt.Sprintf("(SInline %s %d%%N %s %d%%N)", coqfmt.Str(s.TypeCondition), in.ID(dirsString(s.Directives)),
			in.SelsTerm(s.SelectionSet), line(s.Position))
	case *ast.FragmentSpread:
		return fmt.Sprintf("(SSpread %s %d%%N %d%%N)", coqfmt.Str(s.Name), in.ID(dirsString(s.Directives)), line(s.Position))
	}
	return "(SSpread [] 0%N 0%N)"
}

func (in *Interner) SelsTerm(ss ast.SelectionSet) string {
	var items []string
	for _, s := range ss {
		items = append(items, in.SelTerm(s))
	}
	return coqfmt.List(items)
}

func (in *Interner) FragTerm(f *ast.FragmentDefinition) string {
	return fmt.Sprintf("{| fr_name := %s; fr_on := %s; fr_extra := %d%%N; fr_sel := %s; fr_line := %d%%N; fr_src := %d%%nat |}",
		coqfmt.Str(f.Name), coqfmt.Str(f.TypeCondition), in.ID(dirsString(f.Directives)), in.SelsTerm(f.SelectionSet), line(f.Position), in.src(f.Position))
}

func OpKind(o ast.Operation) int {
	switch o {
	case ast.Mutation:
		return 1
	case ast.Subscription:
		return 2
	}
	return 0
}

func VarDefsString(o *ast.OperationDefinition) string {
	var vs []string
	for _, v := range o.VariableDefinitions {
		x := "$" + v.Variable + ":" + v.Type.String()
		if v.DefaultValue != nil {
			x += "=" + v.DefaultValue.String()
		}
		if len(v.Directives) > 0 {
			x += " " + dirsString(v.Directives)
		}
		vs = append(vs, x)
	}
	return strings.Join(vs, ",") + "|" + dirsString(o.Directives)
}

func (in *Interner) OpTerm(o *ast.OperationDefinition) string {
	var vars []string
	for _, v := range o.VariableDefinitions {
		vars = append(vars, fmt.Sprintf("{| vd_name := %s; vd_type := %s; vd_line := %d%%N |}", coqfmt.Str(v.Variable), TypeTerm(v.Type), line(v.Position)))
	}
	return fmt.Sprintf("{| op_kind := %d%%N; op_name := %s; op_extra := %d%%N; op_sel := %s; op_line := %d%%N; op_src := %d%%nat; op_vars := %s |}",
		OpKind(o.Operation), coqfmt.Str(o.Name), in.ID(VarDefsString(o)), in.SelsTerm(o.SelectionSet), line(o.Position), in.src(o.Position), coqfmt.List(vars))
}

func kindTerm(k ast.DefinitionKind) string {
	switch k {
	case ast.Object:
		return "KObject"
	case ast.Interface:
		return "KInterface"
	case ast.Union:
		return "KUnion"
	case ast.Enum:
		return "KEnum"
	case ast.InputObject:
		return "KInput"
	}
	return "KScalar"
}

// SchemaTerm exports the schema: full=false keeps only names and kinds (enough for Doc.v).
func SchemaTerm(s *ast.Schema, full bool) string {
	var names []string
	for n := range s.Types {
		if strings.HasPrefix(n, "__") {
			continue
		}
		names = append(names, n)
	}
	sort.Strings(names)
	var items []string
	for _, n := range names {
		t := s.Types[n]
		fields, ifaces, members, values := "[]", "[]", "[]", "[]"
		if full {
			var fs []string
			for _, f := range t.Fields {
				if strings.HasPrefix(f.Name, "__") {
					continue
				}
				fs = append(fs, fmt.Sprintf("{| fd_name := %s; fd_type := %s; fd_has_default := %s |}", coqfmt.Str(f.Name), TypeTerm(f.Type), coqfmt.Bool(f.DefaultValue != nil)))
			}
			fields = coqfmt.List(fs)
			ifaces = coqfmt.StrList(t.Interfaces)
			members = coqfmt.StrList(t.Types)
			var vs []string
			for _, v := range t.EnumValues {
				vs = append(vs, v.Name)
			}
			values = coqfmt.StrList(vs)
		}
		items = append(items, fmt.Sprintf("{| td_name := %s; td_kind := %s; td_fields := %s; td_ifaces := %s; td_members := %s; td_values := %s |}",
			coqfmt.Str(n), kindTerm(t.Kind), fields, ifaces, members, values))
	}
	return coqfmt.List(items)
}
