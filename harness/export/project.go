package export

import (
	"fmt"
	"sort"
	"strings"

	"github.com/vektah/gqlparser/v2/ast"
	"github.com/vektah/gqlparser/v2/gqlerror"
	"github.com/vektah/gqlparser/v2/parser"
	"github.com/vektah/gqlparser/v2/validator"

	"verifharness/coqfmt"
)

// Source is one unit genqlient parses on its own: a .graphql file or the value of one
// `# @genqlient` Go string literal.
type Source struct{ Name, Text string }

type Exported struct {
	Schema *ast.Schema
	Doc    *ast.QueryDocument
	In     *Interner
	Errs   gqlerror.List
	Srcs   []Source
}

// Project parses every source separately (as getQueries does, in name order), merges the
// definitions into one document and validates it (which attaches definitions to the nodes).
func Project(schemaFiles map[string]string, sources []Source) (*Exported, error) {
	schema, err := LoadSchema(schemaFiles)
	if err != nil {
		return nil, err
	}
	ex := &Exported{Schema: schema, In: NewInterner(), Doc: &ast.QueryDocument{}, Srcs: sources}
	ex.In.SrcIdx = map[*ast.Source]int{}
	for i, s := range sources {
		src := &ast.Source{Name: s.Name, Input: s.Text}
		ex.In.SrcIdx[src] = i
		d, perr := parser.ParseQuery(src)
		if perr != nil {
			return nil, fmt.Errorf("source %s: %v", s.Name, perr)
		}
		ex.Doc.Operations = append(ex.Doc.Operations, d.Operations...)
		ex.Doc.Fragments = append(ex.Doc.Fragments, d.Fragments...)
	}
	ex.Errs = validator.Validate(schema, ex.Doc)
	return ex, nil
}

// LineKinds classifies the lines of a source the way parsePrecedingComment reads them.
func LineKinds(text string) string {
	var items []string
	// as parsePrecedingComment splits (and the lexer counts): "\n", "\r\n" and a bare "\r" end a line
	for _, l := range strings.Split(strings.NewReplacer("\r\n", "\n", "\r", "\n").Replace(text), "\n") {
		t := strings.TrimSpace(l)
		switch {
		case strings.HasPrefix(t, "# @genqlient"):
			items = append(items, directiveLine(strings.TrimSpace(strings.TrimPrefix(t, "#"))))
		case strings.HasPrefix(t, "#"):
			items = append(items, "LComment")
		default:
			items = append(items, "LOther")
		}
	}
	return coqfmt.List(items)
}

func directiveLine(trimmed string) string {
	doc, err := parser.ParseQuery(&ast.Source{Input: fmt.Sprintf("query %v { field }", trimmed)})
	if err != nil || len(doc.Operations) == 0 || len(doc.Operations[0].Directives) == 0 {
		return "LDirBad"
	}
	d := doc.Operations[0].Directives[0]
	if d.Name != "genqlient" {
		return "LDirBad"
	}
	var args []string
	for _, a := range d.Arguments {
		v := "VOther"
		switch a.Value.Kind {
		case ast.BooleanValue:
			v = "(VBool " + coqfmt.Bool(a.Value.Raw == "true") + ")"
		case ast.StringValue, ast.BlockValue:
			v = "(VStr " + coqfmt.Str(a.Value.Raw) + ")"
		}
		args = append(args, coqfmt.Pair(coqfmt.Str(a.Name), v))
	}
	return "(LDir " + coqfmt.List(args) + ")"
}

func (ex *Exported) SrcsTerm() string {
	var items []string
	for _, s := range ex.Srcs {
		items = append(items, LineKinds(s.Text))
	}
	return coqfmt.List(items)
}

func (ex *Exported) FragsTerm() string {
	var items []string
	for _, f := range ex.Doc.Fragments {
		items = append(items, ex.In.FragTerm(f))
	}
	return coqfmt.List(items)
}

func (ex *Exported) OpsTerm() string {
	var items []string
	for _, o := range ex.Doc.Operations {
		items = append(items, ex.In.OpTerm(o))
	}
	return coqfmt.List(items)
}

// ConfigTerm renders the converter-relevant configuration.
type Binding struct{ Type, Marshaler, Unmarshaler string }
type Config struct {
	CasingDefault, CasingAllEnums string
	CasingEnums                   map[string]string
	Optional                      string
	GenericType                   string
	StructRefs                    bool
	Bindings                      map[string]Binding
}

func casingTerm(s string) string {
	switch s {
	case "raw":
		return "(Some CRaw)"
	case "auto_camel_case":
		return "(Some CAuto)"
	case "default":
		return "(Some CDefault)"
	}
	return "None"
}

func (c *Config) Term() string {
	var enums []string
	var ks []string
	for k := range c.CasingEnums {
		ks = append(ks, k)
	}
	sort.Strings(ks)
	for _, k := range ks {
		t := casingTerm(c.CasingEnums[k])
		enums = append(enums, coqfmt.Pair(coqfmt.Str(k), strings.TrimSuffix(strings.TrimPrefix(t, "(Some "), ")")))
	}
	opt := 0
	switch c.Optional {
	case "pointer":
		opt = 1
	case "generic":
		opt = 2
	}
	var bs []string
	ks = nil
	for k := range c.Bindings {
		ks = append(ks, k)
	}
	sort.Strings(ks)
	for _, k := range ks {
		bd := c.Bindings[k]
		bs = append(bs, coqfmt.Pair(coqfmt.Str(k), fmt.Sprintf("{| bd_type := %s; bd_marshaler := %s; bd_unmarshaler := %s |}", coqfmt.Str(bd.Type), coqfmt.Str(bd.Marshaler), coqfmt.Str(bd.Unmarshaler))))
	}
	return fmt.Sprintf("{| cfg_casing := {| cc_default := %s; cc_all_enums := %s; cc_enums := %s |}; cfg_optional := %d%%N; cfg_generic_type := %s; cfg_struct_refs := %s; cfg_bindings := %s |}",
		casingTerm(c.CasingDefault), casingTerm(c.CasingAllEnums), coqfmt.List(enums), opt, coqfmt.Str(c.GenericType), coqfmt.Bool(c.StructRefs), coqfmt.List(bs))
}
