package gen

import (
	"fmt"
	"strings"

	"verifharness/core"
)

// AdversarialNames, when set, are used for `typename:` values half of the time (names of
// fragments, of other operations' response types, of auto-generated types ...).
var AdversarialNames []string

// Decorate attaches `# @genqlient(...)` comment directives to random nodes of the document.
// Mostly placements that genqlient accepts; with probability pBad a placement it must reject.
func Decorate(r *core.Rng, s *Schema, d *Doc, p float64, pBad float64) {
	k := 0
	uniq := func(prefix string) string {
		k++
		if len(AdversarialNames) > 0 && strings.HasSuffix(prefix, "Ty") && r.Chance(0.5) {
			return AdversarialNames[r.Intn(len(AdversarialNames))]
		}
		return fmt.Sprintf("%s%d", prefix, k)
	}
	var decorateSels func(sels []*Sel)
	decorateSels = func(sels []*Sel) {
		for _, sel := range sels {
			switch sel.Kind {
			case "field":
				if sel.Name != "__typename" && r.Chance(p) {
					var opts []string
					leaf := s.IsLeaf(sel.Type.Base())
					if r.Chance(0.5) {
						opts = append(opts, fmt.Sprintf("pointer: %v", r.Chance(0.7)))
					}
					if r.Chance(0.25) {
						opts = append(opts, fmt.Sprintf("alias: %q", uniq("Al")))
					}
					customScalar := false
					if td := s.Get(sel.Type.Base()); td != nil && td.Kind == "SCALAR" {
						customScalar = true
					}
					if r.Chance(0.25) {
						if leaf && (customScalar || r.Chance(0.5)) {
							opts = append(opts, fmt.Sprintf("bind: %q", []string{"example.com/b.T", "-", "string", "[]example.com/c.U", "*example.com/c.V"}[r.Intn(5)]))
						} else {
							opts = append(opts, fmt.Sprintf("typename: %q", uniq("Ty")))
						}
					}
					onlyFields, oneSpread := true, len(sel.Sub) == 1 && sel.Sub[0].Kind == "spread"
					for _, x := range sel.Sub {
						if x.Kind != "field" {
							onlyFields = false
						}
					}
					if !leaf && s.IsAbstract(sel.Type.Base()) && (onlyFields || r.Chance(pBad)) && r.Chance(0.3) {
						opts = append(opts, fmt.Sprintf("struct: %v", r.Chance(0.8)))
					} else if !leaf && s.IsAbstract(sel.Type.Base()) && r.Chance(0.4) {
						// opting a field (back) out is documented and must leave it abstract
						opts = append(opts, "struct: false")
					}
					if !leaf && (oneSpread && r.Chance(0.5) || r.Chance(pBad)) {
						opts = append(opts, fmt.Sprintf("flatten: %v", r.Chance(0.8)))
					}
					if r.Chance(pBad) {
						opts = append(opts, []string{"omitempty: true", "nonsense: 1", "pointer: \"yes\"", "for: \"A.b\", pointer: true"}[r.Intn(4)])
					}
					if len(opts) > 0 {
						if r.Chance(0.3) && len(opts) > 1 {
							// two directive lines with a plain comment between them
							sel.Comment = append(sel.Comment, "@genqlient("+opts[0]+")", "a plain comment", "@genqlient("+strings.Join(opts[1:], ", ")+")")
						} else {
							sel.Comment = append(sel.Comment, "@genqlient("+strings.Join(opts, ", ")+")")
						}
					}
				}
				decorateSels(sel.Sub)
			case "inline":
				if r.Chance(pBad / 2) {
					sel.Comment = append(sel.Comment, "@genqlient(pointer: true)")
				}
				decorateSels(sel.Sub)
			case "spread":
				if r.Chance(pBad / 2) {
					sel.Comment = append(sel.Comment, "@genqlient(pointer: true)")
				}
			}
		}
	}
	forCustom := map[string]bool{}
	forTargets := func() []string {
		var out []string
		isCustom := func(t *TypeRef) bool { td := s.Get(t.Base()); return td != nil && td.Kind == "SCALAR" }
		for _, t := range s.Types {
			switch t.Kind {
			case "OBJECT", "INTERFACE":
				for _, f := range t.Fields {
					out = append(out, t.Name+"."+f.Name)
					forCustom[t.Name+"."+f.Name] = isCustom(f.Type)
				}
			case "INPUT":
				for _, a := range t.Inputs {
					out = append(out, t.Name+"."+a.Name)
					forCustom[t.Name+"."+a.Name] = isCustom(a.Type)
				}
			}
		}
		return out
	}()
	topLevel := func(isOp bool) []string {
		var lines []string
		if r.Chance(p) {
			var opts []string
			if r.Chance(0.4) {
				opts = append(opts, fmt.Sprintf("pointer: %v", r.Chance(0.6)))
			}
			if isOp && r.Chance(0.2) {
				opts = append(opts, fmt.Sprintf("omitempty: %v", r.Chance(0.7)))
			}
			if isOp && r.Chance(0.2) {
				opts = append(opts, fmt.Sprintf("typename: %q", uniq("Resp")))
			}
			if r.Chance(0.15) {
				opts = append(opts, "flatten: true")
			}
			if isOp && r.Chance(0.15) {
				opts = append(opts, "struct: true")
			}
			if len(opts) > 0 {
				lines = append(lines, "@genqlient("+strings.Join(opts, ", ")+")")
			}
		}
		for len(forTargets) > 0 && r.Chance(p*0.8) {
			t := forTargets[r.Intn(len(forTargets))]
			// (no `alias` through `for`: a field selected twice under two GraphQL aliases would get one Go name twice)
			opt := []string{"pointer: true", "pointer: false", "omitempty: true", "omitempty: false", fmt.Sprintf("typename: %q", uniq("ForTy")),
				"pointer: true", "bind: \"example.com/b.FT\""}[r.Intn(7)]
			if strings.HasPrefix(opt, "typename") && forCustom[t] {
				opt = "pointer: true"
			}
			lines = append(lines, fmt.Sprintf("@genqlient(for: %q, %s)", t, opt))
			if r.Chance(0.6) {
				break
			}
		}
		if r.Chance(pBad) {
			lines = append(lines, []string{"@genqlient(bind: \"example.com/b.T\")", "@genqlient(for: \"Nope.x\", pointer: true)", "@genqlient(pointer: true, pointer: false)", "@genqlient(pointer: )"}[r.Intn(4)])
		}
		return lines
	}
	for _, op := range d.Ops {
		op.Comment = append(op.Comment, topLevel(true)...)
		for _, v := range op.Vars {
			if r.Chance(p) {
				var opts []string
				if r.Chance(0.5) {
					opts = append(opts, fmt.Sprintf("pointer: %v", r.Chance(0.7)))
				}
				if !v.Type.NonNull && r.Chance(0.5) {
					pTrue := 0.8
					if td := s.Get(v.Type.Base()); td != nil && td.Kind == "INPUT" {
						pTrue = 0.5 // an explicit `omitempty: false` matters under use_struct_references
					}
					opts = append(opts, fmt.Sprintf("omitempty: %v", r.Chance(pTrue)))
				}
				if v.Type.NonNull && r.Chance(pBad) {
					opts = append(opts, "omitempty: true")
				}
				if r.Chance(0.15) {
					opts = append(opts, fmt.Sprintf("typename: %q", uniq("VarTy")))
				}
				if len(opts) > 0 {
					v.Comment = append(v.Comment, "@genqlient("+strings.Join(opts, ", ")+")")
				}
			}
		}
		decorateSels(op.Sel)
	}
	for _, f := range d.Frags {
		f.Comment = append(f.Comment, topLevel(false)...)
		decorateSels(f.Sel)
	}
}

// RandomCfg draws genqlient.yaml settings.
func RandomCfg(r *core.Rng, s *Schema) *CfgOpts {
	c := &CfgOpts{Bindings: map[string]string{}}
	c.Optional = []string{"", "", "value", "pointer", "generic"}[r.Intn(5)]
	c.StructReferences = r.Chance(0.3)
	c.Casing = []string{"", "", "default", "raw", "auto_camel_case"}[r.Intn(5)]
	c.Marshalers = map[string][2]string{}
	k := 0
	for _, t := range s.Types {
		if t.Kind == "SCALAR" {
			switch r.Intn(4) {
			case 0:
				c.Bindings[t.Name] = "string"
			case 1:
				c.Bindings[t.Name] = fmt.Sprintf("example.com/%c/types.T%d", 'a'+byte(k), k)
			case 2:
				c.Bindings[t.Name] = fmt.Sprintf("example.com/m.M%d", k)
				mu := [2]string{fmt.Sprintf("example.com/m.Marshal%d", k), fmt.Sprintf("example.com/m.Unmarshal%d", k)}
				// both are documented as independently optional
				switch r.Intn(4) {
				case 0:
					mu[0] = ""
				case 1:
					mu[1] = ""
				}
				c.Marshalers[t.Name] = mu
			default:
				c.Bindings[t.Name] = "map[string]interface{}"
			}
			k++
		}
	}
	// occasionally bind an object or an enum type globally
	for _, t := range s.Types {
		if (t.Kind == "ENUM" || t.Kind == "OBJECT") && t.Name != "Query" && t.Name != "Mutation" && t.Name != "Subscription" && r.Chance(0.05) {
			c.Bindings[t.Name] = "example.com/bound.B" + strings.ReplaceAll(t.Name, "_", "")
		}
	}
	return c
}

// DecorateSafe attaches only options that the documentation says are valid where they are put,
// so that the decorated program is still in the supported fragment (C01's quantifier).
func DecorateSafe(r *core.Rng, s *Schema, d *Doc, p float64) {
	k := 0
	uniq := func(prefix string) string { k++; return fmt.Sprintf("%s%d", prefix, k) }
	fragOn := map[string]string{}
	for _, f := range d.Frags {
		fragOn[f.Name] = f.On
	}
	matches := func(fieldType, fragType string) bool {
		if fieldType == fragType {
			return true
		}
		ft, fr := s.Get(fieldType), s.Get(fragType)
		if ft == nil || fr == nil {
			return false
		}
		for _, i := range ft.Implements {
			if i == fragType {
				return true
			}
		}
		if fr.Kind == "UNION" {
			for _, m := range fr.Members {
				if m == fieldType {
					return true
				}
			}
		}
		return false
	}
	keyCount := map[string]int{}
	var countKeys func(sels []*Sel)
	countKeys = func(sels []*Sel) {
		for _, sel := range sels {
			if sel.Kind == "field" {
				keyCount[sel.Key()]++
			}
			countKeys(sel.Sub)
		}
	}
	var decorateSels func(sels []*Sel)
	decorateSels = func(sels []*Sel) {
		for _, sel := range sels {
			// a field selected several times in one definition must carry the same options on
			// every occurrence (genqlient keeps the first one's): leave those alone
			if sel.Kind == "field" && sel.Name != "__typename" && keyCount[sel.Key()] == 1 && r.Chance(p) {
				var opts []string
				leaf := s.IsLeaf(sel.Type.Base())
				td := s.Get(sel.Type.Base())
				custom := td != nil && td.Kind == "SCALAR"
				if r.Chance(0.5) {
					opts = append(opts, fmt.Sprintf("pointer: %v", r.Chance(0.7)))
				}
				if r.Chance(0.25) {
					opts = append(opts, fmt.Sprintf("alias: %q", uniq("Al")))
				}
				if r.Chance(0.2) && !custom {
					opts = append(opts, fmt.Sprintf("typename: %q", uniq("Ty")))
				} else if leaf && r.Chance(0.15) {
					// bind to a Go type that can hold the JSON: string-kinded stubs for
					// string-valued scalars and enums, a slice of them for one list level
					base := sel.Type.Base()
					stringy := base == "String" || base == "ID" || (td != nil && td.Kind == "ENUM")
					switch {
					case stringy && sel.Type.Elem == nil:
						opts = append(opts, fmt.Sprintf("bind: %q", []string{"example.com/b.T", "string", "*example.com/c.V", "example.com/d/types.T5"}[r.Intn(4)]))
					case stringy && sel.Type.Elem != nil && sel.Type.Elem.Elem == nil:
						opts = append(opts, "bind: \"[]example.com/c.U\"")
					}
				}
				onlyFields := true
				for _, x := range sel.Sub {
					if x.Kind != "field" {
						onlyFields = false
					}
				}
				if !leaf && s.IsAbstract(sel.Type.Base()) && onlyFields && r.Chance(0.4) {
					opts = append(opts, "struct: true")
				} else if !leaf && s.IsAbstract(sel.Type.Base()) && onlyFields && r.Chance(0.4) {
					// the documented way to opt one field back out (the option, with either value,
					// is documented as allowed only when no fragments are in play)
					opts = append(opts, "struct: false")
				}
				if !leaf && len(sel.Sub) == 1 && sel.Sub[0].Kind == "spread" && matches(sel.Type.Base(), fragOn[sel.Sub[0].Name]) && r.Chance(0.6) {
					opts = append(opts, "flatten: true")
				}
				if len(opts) > 0 {
					sel.Comment = append(sel.Comment, "@genqlient("+strings.Join(opts, ", ")+")")
				}
			}
			noFrags := true
			for _, x := range sel.Sub {
				if x.Kind != "field" {
					noFrags = false
				}
			}
			if p > 0 && noFrags && sel.Kind == "field" && len(sel.Comment) == 0 && keyCount[sel.Key()] == 1 && sel.Type != nil && s.IsAbstract(sel.Type.Base()) && r.Chance(0.3) {
				// explicitly opting one abstract field out of the struct form is documented
				sel.Comment = append(sel.Comment, "@genqlient(struct: false)")
			}
			decorateSels(sel.Sub)
		}
	}
	var outTargets []string
	for _, t := range s.Types {
		if t.Kind == "OBJECT" || t.Kind == "INTERFACE" {
			for _, f := range t.Fields {
				outTargets = append(outTargets, t.Name+"."+f.Name)
			}
		}
	}
	top := func(hasInputVars bool) []string {
		var lines []string
		if r.Chance(p) {
			// an operation-level `pointer: true` also reaches the fields of input objects, where
			// genqlient (deliberately) rejects a pointer on a non-null field without omitempty
			v := r.Chance(0.6)
			if hasInputVars {
				v = false
			}
			lines = append(lines, fmt.Sprintf("@genqlient(pointer: %v)", v))
		}
		if len(outTargets) > 0 && r.Chance(p) {
			lines = append(lines, fmt.Sprintf("@genqlient(for: %q, pointer: %v)", outTargets[r.Intn(len(outTargets))], r.Chance(0.7)))
		}
		return lines
	}
	for _, op := range d.Ops {
		hasInput := false
		for _, v := range op.Vars {
			if td := s.Get(v.Type.Base()); td != nil && td.Kind == "INPUT" {
				hasInput = true
			}
		}
		op.Comment = append(op.Comment, top(hasInput)...)
		if r.Chance(p * 0.5) {
			op.Comment = append(op.Comment, fmt.Sprintf("@genqlient(typename: %q)", uniq("Resp")))
		}
		for _, v := range op.Vars {
			if r.Chance(p) {
				var opts []string
				td := s.Get(v.Type.Base())
				isInput := td != nil && td.Kind == "INPUT"
				if r.Chance(0.6) {
					opts = append(opts, fmt.Sprintf("pointer: %v", r.Chance(0.7)))
				}
				if !v.Type.NonNull && r.Chance(0.5) {
					opts = append(opts, fmt.Sprintf("omitempty: %v", !isInput || r.Chance(0.5)))
				}
				_ = isInput
				if len(opts) > 0 {
					v.Comment = append(v.Comment, "@genqlient("+strings.Join(opts, ", ")+")")
				}
			}
		}
		keyCount = map[string]int{}
		countKeys(op.Sel)
		decorateSels(op.Sel)
	}
	for _, f := range d.Frags {
		f.Comment = append(f.Comment, top(false)...)
		keyCount = map[string]int{}
		countKeys(f.Sel)
		decorateSels(f.Sel)
	}
}

// RandomCfgSafe: settings within the supported fragment (every custom scalar bound; no
// global binding of composite types).
func RandomCfgSafe(r *core.Rng, s *Schema) *CfgOpts {
	c := RandomCfg(r, s)
	for k := range c.Bindings {
		if td := s.Get(k); td != nil && td.Kind != "SCALAR" {
			delete(c.Bindings, k)
		}
	}
	c.Extensions = r.Chance(0.3)
	switch r.Intn(6) {
	case 0:
		c.ContextType = "-"
	case 1:
		c.ContextType = "example.com/cx.MyCtx"
	}
	if r.Chance(0.2) {
		c.ClientGetter = "example.com/cg.GetClient"
		if c.ContextType == "-" {
			c.ClientGetter = "example.com/cg.GetClientNoCtx"
		}
	}
	return c
}
