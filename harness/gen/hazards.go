package gen

import (
	"fmt"
	"strings"

	"verifharness/core"
)

// Hazard families: program shapes on which the documented rules of genqlient are delicate.
// They are ordinary programs (valid GraphQL, documented options); the unchanged generator
// rejects some of them -- those are dropped by the runtime drivers, which speak about accepted
// programs only.

// RenameType renames a composite type everywhere it is referenced.
func (s *Schema) RenameType(old, nw string) {
	var fix func(t *TypeRef)
	fix = func(t *TypeRef) {
		for ; t != nil; t = t.Elem {
			if t.Name == old {
				t.Name = nw
			}
		}
	}
	for _, t := range s.Types {
		if t.Name == old {
			t.Name = nw
		}
		for i, m := range t.Members {
			if m == old {
				t.Members[i] = nw
			}
		}
		for i, m := range t.Implements {
			if m == old {
				t.Implements[i] = nw
			}
		}
		for _, f := range t.Fields {
			fix(f.Type)
			for _, a := range f.Args {
				fix(a.Type)
			}
		}
		for _, a := range t.Inputs {
			fix(a.Type)
		}
	}
	s.by = nil
}

// SuffixNames makes names collide the way names.go documents: a root field of abstract type I
// is named some<I> (or just <i>) and one of I's possible types is named Some<I>, so the
// interface's name is a suffix of an implementation's name and both are suffixes of the field's.
func SuffixNames(r *core.Rng, s *Schema) *Def {
	q := s.Get("Query")
	if q == nil {
		return nil
	}
	for _, f := range q.Fields {
		base := f.Type.Base()
		if !s.IsAbstract(base) {
			continue
		}
		ps := s.PossibleTypes(base)
		if len(ps) == 0 {
			continue
		}
		word := []string{"Some", "My", "Leaf"}[r.Intn(3)]
		implName := word + base
		if s.Get(implName) != nil {
			continue
		}
		fname := strings.ToLower(word[:1]) + word[1:] + base
		if s.Field("Query", fname) != nil {
			continue
		}
		req := false
		for _, a := range f.Args {
			if a.Type.NonNull && a.Default == "" {
				req = true
			}
		}
		if req {
			continue
		}
		s.RenameType(ps[r.Intn(len(ps))], implName)
		f.Name = fname
		// an operation selecting that field: shared leaf fields plus one leaf per possible type
		var sb strings.Builder
		fmt.Fprintf(&sb, "query HzSfxOp {\n  %s {\n    __typename\n", fname)
		leafOf := func(tn string, skip map[string]bool) string {
			for _, lf := range s.FieldsOf(tn) {
				if s.IsLeaf(lf.Type.Base()) && len(lf.Args) == 0 && !skip[lf.Name] {
					return lf.Name
				}
			}
			return ""
		}
		shared := map[string]bool{}
		if l := leafOf(base, nil); l != "" {
			fmt.Fprintf(&sb, "    %s\n", l)
		}
		for _, lf := range s.FieldsOf(base) {
			shared[lf.Name] = true
		}
		// the same leaf name with different types on two possible types would not validate:
		// give each one an alias
		for i, p := range s.PossibleTypes(base) {
			if l := leafOf(p, shared); l != "" && r.Chance(0.7) {
				fmt.Fprintf(&sb, "    ... on %s {\n      hz%d: %s\n    }\n", p, i, l)
			}
		}
		sb.WriteString("  }\n}\n")
		return &Def{Kind: "query", Name: "HzSfxOp", Text: sb.String()}
	}
	return nil
}

// TwoSpreadsOp: an operation whose object-typed root field selects exactly two fragment spreads,
// under an operation-level directive with `flatten: true` (documented to apply only where it
// is valid, so it is ignored here) -- and the two fragments.
func TwoSpreadsOp(r *core.Rng, s *Schema, tag string) []*Def {
	for _, f := range s.FieldsOf("Query") {
		td := s.Get(f.Type.Base())
		if td == nil || td.Kind != "OBJECT" {
			continue
		}
		req := false
		for _, a := range f.Args {
			if a.Type.NonNull && a.Default == "" {
				req = true
			}
		}
		var leaves []*FieldDef
		for _, lf := range td.Fields {
			if s.IsLeaf(lf.Type.Base()) && len(lf.Args) == 0 {
				leaves = append(leaves, lf)
			}
		}
		if req || len(leaves) < 2 {
			continue
		}
		a, b := leaves[0], leaves[1+r.Intn(len(leaves)-1)]
		fa := fmt.Sprintf("fragment Hz%sA on %s {\n  %s\n}\n", tag, td.Name, a.Name)
		fb := fmt.Sprintf("fragment Hz%sB on %s {\n  %s\n}\n", tag, td.Name, b.Name)
		dir := []string{"# @genqlient(flatten: true)\n", "# @genqlient(flatten: true, pointer: true)\n", ""}[r.Intn(3)]
		// ... and, under the same operation-level options, an interface-typed field selecting
		// only shared fields (flatten does not apply to it; it must stay abstract)
		abs := ""
		for _, af := range s.FieldsOf("Query") {
			atd := s.Get(af.Type.Base())
			if atd == nil || atd.Kind != "INTERFACE" || af.Name == f.Name {
				continue
			}
			areq := false
			for _, a := range af.Args {
				if a.Type.NonNull && a.Default == "" {
					areq = true
				}
			}
			if areq {
				continue
			}
			for _, lf := range atd.Fields {
				if s.IsLeaf(lf.Type.Base()) && len(lf.Args) == 0 {
					abs = fmt.Sprintf("  hzAbs: %s {\n    %s\n  }\n", af.Name, lf.Name)
					break
				}
			}
			if abs != "" {
				break
			}
		}
		op := fmt.Sprintf("%squery Hz%sOp {\n  %s {\n    ...Hz%sA\n    ...Hz%sB\n  }\n%s}\n", dir, tag, f.Name, tag, tag, abs)
		return []*Def{{Name: "Hz" + tag + "A", Kind: "fragment", Text: fa}, {Name: "Hz" + tag + "B", Kind: "fragment", Text: fb},
			{Name: "Hz" + tag + "Op", Kind: "query", Text: op}}
	}
	return nil
}

// AliasTwinDefs: one response key carried twice in one Go struct -- by the selection itself and
// by a spread fragment, or by two spread fragments -- where one carrier renames its Go field with
// the documented `alias` option (same JSON key, different Go names).
func AliasTwinDefs(r *core.Rng, s *Schema, tag string) []*Def {
	for _, f := range s.FieldsOf("Query") {
		td := s.Get(f.Type.Base())
		if td == nil || td.Kind != "OBJECT" {
			continue
		}
		req := false
		for _, a := range f.Args {
			if a.Type.NonNull && a.Default == "" {
				req = true
			}
		}
		var leaves []*FieldDef
		for _, lf := range td.Fields {
			if s.IsLeaf(lf.Type.Base()) && len(lf.Args) == 0 {
				leaves = append(leaves, lf)
			}
		}
		if req || len(leaves) < 2 {
			continue
		}
		a, b := leaves[0], leaves[1]
		fa := fmt.Sprintf("fragment Hz%sP on %s {\n  %s\n  %s\n}\n", tag, td.Name, a.Name, b.Name)
		fb := fmt.Sprintf("fragment Hz%sQ on %s {\n  # @genqlient(alias: \"Hz%sRenamed\")\n  %s\n}\n", tag, td.Name, tag, a.Name)
		var op string
		if r.Chance(0.5) {
			op = fmt.Sprintf("query Hz%sAl {\n  %s {\n    ...Hz%sQ\n    ...Hz%sP\n  }\n}\n", tag, f.Name, tag, tag)
		} else {
			op = fmt.Sprintf("query Hz%sAl {\n  %s {\n    # @genqlient(alias: \"Hz%sOwn\")\n    %s\n    ...Hz%sP\n    ...Hz%sQ\n  }\n}\n", tag, f.Name, tag, a.Name, tag, tag)
		}
		return []*Def{{Name: "Hz" + tag + "P", Kind: "fragment", Text: fa}, {Name: "Hz" + tag + "Q", Kind: "fragment", Text: fb},
			{Name: "Hz" + tag + "Al", Kind: "query", Text: op}}
	}
	return nil
}

// InlineTwinOp: two selections of one interface-typed root field that are given the same Go type
// name by `typename` and differ only INSIDE an inline fragment.
func InlineTwinOp(r *core.Rng, s *Schema, typename string) *Def {
	for _, f := range s.FieldsOf("Query") {
		td := s.Get(f.Type.Base())
		if td == nil || td.Kind != "INTERFACE" {
			continue
		}
		req := false
		for _, a := range f.Args {
			if a.Type.NonNull && a.Default == "" {
				req = true
			}
		}
		if req {
			continue
		}
		for _, p := range s.PossibleTypes(td.Name) {
			var leaves []string
			for _, lf := range s.FieldsOf(p) {
				if s.IsLeaf(lf.Type.Base()) && len(lf.Args) == 0 {
					leaves = append(leaves, lf.Name)
				}
			}
			if len(leaves) < 2 {
				continue
			}
			a, b := leaves[0], leaves[1+r.Intn(len(leaves)-1)]
			text := fmt.Sprintf("query ZTwinI {\n  # @genqlient(typename: %q)\n  t1: %s {\n    ... on %s {\n      %s\n    }\n  }\n  # @genqlient(typename: %q)\n  t2: %s {\n    ... on %s {\n      %s\n    }\n  }\n}\n",
				typename, f.Name, p, a, typename, f.Name, p, b)
			return &Def{Kind: "query", Name: "ZTwinI", Text: text}
		}
	}
	return nil
}

// RenameFragment renames a named fragment and every spread of it.
func (d *Doc) RenameFragment(old, nw string) {
	var walk func(sels []*Sel)
	walk = func(sels []*Sel) {
		for _, x := range sels {
			if x.Kind == "spread" && x.Name == old {
				x.Name = nw
			}
			walk(x.Sub)
		}
	}
	for _, f := range d.Frags {
		if f.Name == old {
			f.Name = nw
		}
		walk(f.Sel)
	}
	for _, o := range d.Ops {
		walk(o.Sel)
	}
}

// FragmentNameClash renames one fragment to <other fragment><possible type of that fragment's
// type>: the name genqlient gives the other fragment's implementation struct for that type.
func FragmentNameClash(r *core.Rng, s *Schema, d *Doc) bool {
	for _, f := range d.Frags {
		if !s.IsAbstract(f.On) {
			continue
		}
		ps := s.PossibleTypes(f.On)
		if len(ps) == 0 {
			continue
		}
		// first choice: a fragment ON one of the possible types (same GraphQL type as the
		// implementation struct it collides with); otherwise any other fragment
		var order []*Fragment
		for _, g := range d.Frags {
			for _, p := range ps {
				if g != f && g.On == p {
					order = append(order, g)
				}
			}
		}
		for _, g := range d.Frags {
			order = append(order, g)
		}
		for _, g := range order {
			if g == f {
				continue
			}
			p := ps[r.Intn(len(ps))]
			for _, q := range ps {
				if g.On == q {
					p = q
				}
			}
			nw := f.Name + strings.ToUpper(p[:1]) + p[1:]
			taken := false
			for _, h := range d.Frags {
				if h.Name == nw {
					taken = true
				}
			}
			if taken {
				continue
			}
			d.RenameFragment(g.Name, nw)
			return true
		}
	}
	return false
}

// ScalarHazard adds, for the first custom scalar of the schema, root fields that take it as an
// argument at list depths 0, 1 and 2 and return it in a list, and an operation that passes
// variables of those types and selects the result.  Returns the scalar's name and the operation.
func ScalarHazard(r *core.Rng, s *Schema) (string, *Def) {
	q := s.Get("Query")
	if q == nil {
		return "", nil
	}
	for _, t := range s.Types {
		if t.Kind != "SCALAR" || s.Field("Query", "hzArg"+t.Name) != nil {
			continue
		}
		n := t.Name
		q.Fields = append(q.Fields,
			&FieldDef{Name: "hzArg" + n, Type: Named("Boolean", false), Args: []*Arg{
				{Name: "v", Type: ListOf(Named(n, true), false)}, {Name: "w", Type: Named(n, false)},
				{Name: "deep", Type: ListOf(ListOf(Named(n, false), false), false)}}},
			&FieldDef{Name: "hzOut" + n, Type: ListOf(Named(n, false), false)})
		text := fmt.Sprintf("query HzScalar(\n  $v: [%s!],\n  $w: %s,\n  $deep: [[%s]],\n) {\n  hzArg%s(v: $v, w: $w, deep: $deep)\n  hzOut%s\n}\n", n, n, n, n, n)
		return n, &Def{Kind: "query", Name: "HzScalar", Text: text}
	}
	return "", nil
}

// FragImplClashDefs: fragment F on an interface I and a fragment named F<A> on an implementation
// A of I (the name genqlient gives F's struct for A), each used by its own operation.
func FragImplClashDefs(r *core.Rng, s *Schema, tag string) []*Def {
	for _, f := range s.FieldsOf("Query") {
		td := s.Get(f.Type.Base())
		if td == nil || td.Kind != "INTERFACE" {
			continue
		}
		req := false
		for _, a := range f.Args {
			if a.Type.NonNull && a.Default == "" {
				req = true
			}
		}
		if req {
			continue
		}
		ileaf := ""
		for _, lf := range td.Fields {
			if s.IsLeaf(lf.Type.Base()) && len(lf.Args) == 0 {
				ileaf = lf.Name
			}
		}
		if ileaf == "" {
			continue
		}
		for _, p := range s.PossibleTypes(td.Name) {
			aleaf := ""
			for _, lf := range s.FieldsOf(p) {
				if s.IsLeaf(lf.Type.Base()) && len(lf.Args) == 0 && lf.Name != ileaf {
					aleaf = lf.Name
				}
			}
			if aleaf == "" {
				continue
			}
			fI := "Hz" + tag + "F"
			fA := fI + strings.ToUpper(p[:1]) + p[1:]
			return []*Def{
				{Kind: "fragment", Name: fA, Text: fmt.Sprintf("fragment %s on %s {\n  %s\n}\n", fA, p, aleaf)},
				{Kind: "fragment", Name: fI, Text: fmt.Sprintf("fragment %s on %s {\n  %s\n}\n", fI, td.Name, ileaf)},
				{Kind: "query", Name: "Hz" + tag + "Q1", Text: fmt.Sprintf("query Hz%sQ1 {\n  %s {\n    ...%s\n  }\n}\n", tag, f.Name, fA)},
				{Kind: "query", Name: "Hz" + tag + "Q2", Text: fmt.Sprintf("query Hz%sQ2 {\n  %s {\n    ...%s\n  }\n}\n", tag, f.Name, fI)},
			}
		}
	}
	return nil
}

// EnclosingTypenameOp: a nested object field given, by `typename:`, exactly the name the naming
// scheme produces for the type of the field that ENCLOSES it.  The inner type is registered
// while the outer one is still being built, so only the outer type's final registration can see
// the clash (genqlient must reject this: two different types, one name).
func EnclosingTypenameOp(s *Schema, tag string) *Def {
	noReq := func(f *FieldDef) bool {
		for _, a := range f.Args {
			if a.Type.NonNull && a.Default == "" {
				return false
			}
		}
		return true
	}
	for _, f := range s.FieldsOf("Query") {
		td := s.Get(f.Type.Base())
		if td == nil || td.Kind != "OBJECT" || !noReq(f) {
			continue
		}
		for _, g := range td.Fields {
			gd := s.Get(g.Type.Base())
			if gd == nil || gd.Kind != "OBJECT" || !noReq(g) || gd.Name == td.Name {
				continue
			}
			leaf := ""
			for _, l := range gd.Fields {
				if s.IsLeaf(l.Type.Base()) && noReq(l) {
					leaf = l.Name
				}
			}
			if leaf == "" {
				continue
			}
			op := "Hz" + tag + "Q"
			outer := op + "W"
			tn := strings.ToUpper(td.Name[:1]) + td.Name[1:]
			if !strings.HasSuffix(outer, tn) {
				outer += tn
			}
			return &Def{Kind: "query", Name: op, Text: fmt.Sprintf(
				"query %s {\n  w: %s {\n    # @genqlient(typename: %q)\n    %s {\n      %s\n    }\n  }\n}\n",
				op, f.Name, outer, g.Name, leaf)}
		}
	}
	return nil
}

// FlattenTypenameDefs: `flatten: true` on a field that selects an explicit `__typename` next to
// its one fragment spread.  genqlient must refuse it (the field has a selection of its own that
// the fragment's type cannot carry); accepting it would drop `__typename` from the response.
func FlattenTypenameDefs(s *Schema, tag string, abstract bool) []*Def {
	for _, f := range s.FieldsOf("Query") {
		td := s.Get(f.Type.Base())
		if td == nil || (abstract && td.Kind != "INTERFACE") || (!abstract && td.Kind != "OBJECT") {
			continue
		}
		req := false
		for _, a := range f.Args {
			if a.Type.NonNull && a.Default == "" {
				req = true
			}
		}
		if req {
			continue
		}
		leaf := ""
		for _, lf := range td.Fields {
			if s.IsLeaf(lf.Type.Base()) && len(lf.Args) == 0 {
				leaf = lf.Name
			}
		}
		if leaf == "" {
			continue
		}
		fr := "Hz" + tag + "F"
		return []*Def{
			{Kind: "fragment", Name: fr, Text: fmt.Sprintf("fragment %s on %s {\n  %s\n}\n", fr, td.Name, leaf)},
			{Kind: "query", Name: "Hz" + tag + "Q", Text: fmt.Sprintf("query Hz%sQ {\n  # @genqlient(flatten: true)\n  %s {\n    __typename\n    ...%s\n  }\n}\n", tag, f.Name, fr)},
		}
	}
	return nil
}

// LateTypenameDefs: an abstract-typed field that selects `__typename` explicitly, but AFTER an
// inline fragment and after a fragment spread (nothing may be added: it is selected already).
func LateTypenameDefs(s *Schema, tag string) []*Def {
	for _, f := range s.FieldsOf("Query") {
		td := s.Get(f.Type.Base())
		if td == nil || (td.Kind != "INTERFACE" && td.Kind != "UNION") {
			continue
		}
		req := false
		for _, a := range f.Args {
			if a.Type.NonNull && a.Default == "" {
				req = true
			}
		}
		if req {
			continue
		}
		for _, p := range s.PossibleTypes(td.Name) {
			leaf := ""
			for _, lf := range s.FieldsOf(p) {
				if s.IsLeaf(lf.Type.Base()) && len(lf.Args) == 0 {
					leaf = lf.Name
				}
			}
			if leaf == "" {
				continue
			}
			fr := "Hz" + tag + "F"
			return []*Def{
				{Kind: "fragment", Name: fr, Text: fmt.Sprintf("fragment %s on %s {\n  %s\n}\n", fr, p, leaf)},
				{Kind: "query", Name: "Hz" + tag + "Q1", Text: fmt.Sprintf("query Hz%sQ1 {\n  %s {\n    ... on %s {\n      %s\n    }\n    __typename\n  }\n}\n", tag, f.Name, p, leaf)},
				{Kind: "query", Name: "Hz" + tag + "Q2", Text: fmt.Sprintf("query Hz%sQ2 {\n  %s {\n    ...%s\n    __typename\n  }\n}\n", tag, f.Name, fr)},
			}
		}
	}
	return nil
}

// InputThenScalarsOp: an operation whose variable definitions stand on ONE line, an input-object
// typed variable first and scalar / enum / list variables after it (the arguments of one or two
// root fields).  Each variable has its own options: what use_struct_references does to the input
// object must not reach its neighbours.
func InputThenScalarsOp(s *Schema, tag string) *Def {
	isInput := func(t *TypeRef) bool { d := s.Get(t.Base()); return d != nil && d.Kind == "INPUT" }
	builtin := func(t *TypeRef) bool {
		switch t.Base() {
		case "Int", "Float", "String", "Boolean", "ID":
			return true
		}
		d := s.Get(t.Base())
		return d != nil && d.Kind == "ENUM"
	}
	var withInput, withScalar *FieldDef
	for _, f := range s.FieldsOf("Query") {
		ok := true
		hasIn, hasSc := false, false
		for _, a := range f.Args {
			switch {
			case isInput(a.Type):
				hasIn = true
			case builtin(a.Type):
				hasSc = true
			default:
				ok = false // a custom scalar: bound to arbitrary Go types elsewhere
			}
		}
		if !ok {
			continue
		}
		if hasIn && withInput == nil {
			withInput = f
		}
		if hasSc && !hasIn && withScalar == nil {
			withScalar = f
		}
		if hasIn && hasSc {
			withInput, withScalar = f, nil
			break
		}
	}
	if withInput == nil {
		return nil
	}
	fields := []*FieldDef{withInput}
	if withScalar != nil {
		fields = append(fields, withScalar)
	}
	type vr struct {
		name, typ string
		input     bool
	}
	var vars []vr
	var sels []string
	for fi, f := range fields {
		var args []string
		for _, a := range f.Args {
			vn := fmt.Sprintf("v%d%s", fi, a.Name)
			vars = append(vars, vr{vn, a.Type.String(), isInput(a.Type)})
			args = append(args, a.Name+": $"+vn)
		}
		sel := fmt.Sprintf("  f%d: %s(%s)", fi, f.Name, strings.Join(args, ", "))
		if !s.IsLeaf(f.Type.Base()) {
			sel += " {\n    __typename\n  }"
		}
		sels = append(sels, sel)
	}
	hasScalar := false
	for _, v := range vars {
		if !v.input {
			hasScalar = true
		}
	}
	if !hasScalar {
		return nil
	}
	var ordered []string
	for _, in := range []bool{true, false} {
		for _, v := range vars {
			if v.input == in {
				ordered = append(ordered, "$"+v.name+": "+v.typ)
			}
		}
	}
	op := "Hz" + tag + "Q"
	return &Def{Kind: "query", Name: op, Text: fmt.Sprintf("query %s(%s) {\n%s\n}\n", op, strings.Join(ordered, ", "), strings.Join(sels, "\n"))}
}

// LeafTypenameClashOp: two leaf fields of DIFFERENT scalar types given the same `typename`
// (no selection set to compare: only the GraphQL type tells them apart; must be rejected).
func LeafTypenameClashOp(s *Schema, tag string) *Def {
	noReq := func(f *FieldDef) bool {
		for _, a := range f.Args {
			if a.Type.NonNull && a.Default == "" {
				return false
			}
		}
		return true
	}
	builtin := func(n string) bool {
		switch n {
		case "Int", "Float", "String", "Boolean", "ID":
			return true
		}
		return false
	}
	for _, f := range s.FieldsOf("Query") {
		td := s.Get(f.Type.Base())
		if td == nil || td.Kind != "OBJECT" || !noReq(f) {
			continue
		}
		var a, c *FieldDef
		for _, l := range td.Fields {
			if !builtin(l.Type.Base()) || !noReq(l) {
				continue
			}
			if a == nil {
				a = l
			} else if c == nil && l.Type.Base() != a.Type.Base() {
				c = l
			}
		}
		if a == nil || c == nil {
			continue
		}
		op := "Hz" + tag + "Q"
		tn := "Hz" + tag + "Amount"
		return &Def{Kind: "query", Name: op, Text: fmt.Sprintf(
			"query %s {\n  %s {\n    # @genqlient(typename: %q)\n    %s\n    # @genqlient(typename: %q)\n    %s\n  }\n}\n",
			op, f.Name, tn, a.Name, tn, c.Name)}
	}
	return nil
}

// BoundObjectUnboundHereOp: an object type with a GLOBAL binding, used once with the documented
// `typename: ..., bind: "-"` (generate a struct here after all).  Returns the operation and the
// bound type's name.
func BoundObjectUnboundHereOp(s *Schema, tag string) (*Def, string) {
	for _, f := range s.FieldsOf("Query") {
		td := s.Get(f.Type.Base())
		if td == nil || td.Kind != "OBJECT" || len(td.Implements) > 0 {
			continue
		}
		// (a bound type cannot be an implementation of an abstract type genqlient generates)
		member := false
		for _, u := range s.Types {
			if u.Kind == "UNION" {
				for _, m := range u.Members {
					if m == td.Name {
						member = true
					}
				}
			}
		}
		if member {
			continue
		}
		req := false
		for _, a := range f.Args {
			if a.Type.NonNull && a.Default == "" {
				req = true
			}
		}
		if req {
			continue
		}
		leaf := ""
		for _, lf := range td.Fields {
			switch lf.Type.Base() {
			case "Int", "Float", "String", "Boolean", "ID":
				if len(lf.Args) == 0 {
					leaf = lf.Name
				}
			}
		}
		if leaf == "" {
			continue
		}
		op := "Hz" + tag + "Q"
		return &Def{Kind: "query", Name: op, Text: fmt.Sprintf(
			"query %s {\n  # @genqlient(typename: \"Hz%sHere\", bind: \"-\")\n  %s {\n    %s\n  }\n}\n", op, tag, f.Name, leaf)}, td.Name
	}
	return nil, ""
}

// TripleTypenameOp: the same `typename` three times -- twice on one field with one selection (a
// legitimate reuse), then on a field of ANOTHER type (must be rejected however often the name
// was reused successfully before).
func TripleTypenameOp(s *Schema, tag string) *Def { return tripleTypenameOp(s, tag, false) }

// TripleTypenameAbstractOp: the same over two different ABSTRACT types (selection: one inline
// fragment per possible type is not needed -- `__typename` alone is a selection).
func TripleTypenameAbstractOp(s *Schema, tag string) *Def { return tripleTypenameOp(s, tag, true) }

func tripleTypenameOp(s *Schema, tag string, abstract bool) *Def {
	type cand struct {
		f    *FieldDef
		leaf string
	}
	var cs []cand
	for _, f := range s.FieldsOf("Query") {
		td := s.Get(f.Type.Base())
		if td == nil || (!abstract && td.Kind != "OBJECT") || (abstract && td.Kind != "INTERFACE" && td.Kind != "UNION") {
			continue
		}
		req := false
		for _, a := range f.Args {
			if a.Type.NonNull && a.Default == "" {
				req = true
			}
		}
		if req {
			continue
		}
		if abstract {
			cs = append(cs, cand{f, "__typename"})
			continue
		}
		for _, lf := range td.Fields {
			if s.IsLeaf(lf.Type.Base()) && len(lf.Args) == 0 {
				cs = append(cs, cand{f, lf.Name})
				break
			}
		}
	}
	for i := range cs {
		for j := range cs {
			if cs[i].f.Type.Base() != cs[j].f.Type.Base() {
				op := "Hz" + tag + "Q"
				tn := "Hz" + tag + "Who"
				return &Def{Kind: "query", Name: op, Text: fmt.Sprintf(
					"query %s {\n  # @genqlient(typename: %q)\n  a1: %s {\n    %s\n  }\n  # @genqlient(typename: %q)\n  a2: %s {\n    %s\n  }\n  # @genqlient(typename: %q)\n  a3: %s {\n    %s\n  }\n}\n",
					op, tn, cs[i].f.Name, cs[i].leaf, tn, cs[i].f.Name, cs[i].leaf, tn, cs[j].f.Name, cs[j].leaf)}
			}
		}
	}
	return nil
}

// OpFlattenAbstractPlainOp: an operation-level `flatten: true` (applied only where it is valid)
// over an interface-typed field that selects plain fields only: nothing is flattened there, and
// the field stays an interface with its `__typename` dispatch.
func OpFlattenAbstractPlainOp(s *Schema, tag string) *Def {
	for _, f := range s.FieldsOf("Query") {
		td := s.Get(f.Type.Base())
		if td == nil || td.Kind != "INTERFACE" {
			continue
		}
		req := false
		for _, a := range f.Args {
			if a.Type.NonNull && a.Default == "" {
				req = true
			}
		}
		if req {
			continue
		}
		leaf := ""
		for _, lf := range td.Fields {
			if s.IsLeaf(lf.Type.Base()) && len(lf.Args) == 0 {
				leaf = lf.Name
			}
		}
		if leaf == "" {
			continue
		}
		op := "Hz" + tag + "Q"
		return &Def{Kind: "query", Name: op, Text: fmt.Sprintf("# @genqlient(flatten: true)\nquery %s {\n  %s {\n    %s\n  }\n}\n", op, f.Name, leaf)}
	}
	return nil
}

// OmitemptyFalseOp: an input-object typed variable with an explicit `omitempty: false` (and one
// without any option): under use_struct_references the explicit option must win over the default.
func OmitemptyFalseOp(s *Schema, tag string) *Def {
	for _, f := range s.FieldsOf("Query") {
		var in *Arg
		ok := true
		for _, a := range f.Args {
			d := s.Get(a.Type.Base())
			switch {
			case d != nil && d.Kind == "INPUT" && a.Type.Elem == nil && !a.Type.NonNull:
				if in == nil {
					in = a
				}
			case a.Type.NonNull && a.Default == "":
				ok = false
			}
		}
		if in == nil || !ok {
			continue
		}
		sel := fmt.Sprintf("  a: %s(%s: $keep)", f.Name, in.Name)
		sel2 := fmt.Sprintf("  b: %s(%s: $plain)", f.Name, in.Name)
		if !s.IsLeaf(f.Type.Base()) {
			sel += " {\n    __typename\n  }"
			sel2 += " {\n    __typename\n  }"
		}
		op := "Hz" + tag + "Q"
		return &Def{Kind: "query", Name: op, Text: fmt.Sprintf(
			"query %s(\n  # @genqlient(omitempty: false)\n  $keep: %s,\n  $plain: %s,\n) {\n%s\n%s\n}\n", op, in.Type.String(), in.Type.String(), sel, sel2)}
	}
	return nil
}

// SharedInputTwoOpsDefs: two operations that take the SAME input-object type as a variable under
// DIFFERENT operation-level options; the second gives its variable a `typename`, the documented
// way to get the input struct generated again with this operation's own options.  The options
// of the first operation must not reach the second one's struct (input-object fields are schema
// nodes that every operation visits).  The input type (all fields nullable, so that both options
// are legal on every field) and a root field taking it are added to the schema.
// which = 0: the first operation has `omitempty: true`; which = 1: the second has `pointer: true`.
func SharedInputTwoOpsDefs(s *Schema, tag string, which int) []*Def {
	q := s.Get("Query")
	in := "Hz" + tag + "Filter"
	if q == nil || s.Get(in) != nil {
		return nil
	}
	s.add(&TypeDef{Kind: "INPUT", Name: in, Inputs: []*Arg{
		{Name: "name", Type: Named("String", false)},
		{Name: "limit", Type: Named("Int", false)},
		{Name: "tags", Type: ListOf(Named("String", true), false)},
		{Name: "sub", Type: Named(in, false)}}})
	fld := "hz" + tag + "Find"
	q.Fields = append(q.Fields, &FieldDef{Name: fld, Type: Named("Boolean", false), Args: []*Arg{{Name: "f", Type: Named(in, false)}}})
	opA, opB := "Hz"+tag+"A", "Hz"+tag+"B"
	dirA, dirB := "# @genqlient(omitempty: true)\n", ""
	if which == 1 {
		dirA, dirB = "", "# @genqlient(pointer: true)\n"
	}
	return []*Def{
		{Kind: "query", Name: opA, Text: fmt.Sprintf("%squery %s($v: %s) {\n  %s(f: $v)\n}\n", dirA, opA, in, fld)},
		{Kind: "query", Name: opB, Text: fmt.Sprintf("%squery %s(\n  # @genqlient(typename: \"%sIn\")\n  $v: %s,\n) {\n  %s(f: $v)\n}\n", dirB, opB, opB, in, fld)},
	}
}

// TypenameEqualsAbstractFragmentDefs: a named fragment F on an INTERFACE (its selection: one leaf
// field) spread by one operation, and in another operation a field of that interface type that
// selects exactly the same leaf field and is given `typename: "F"`.  The two places need
// different Go declarations (the field's selection carries the `__typename` genqlient adds to
// abstract selections, a fragment's top level does not): this must be a conflict, whichever of
// the two is converted first (firstField: the operation with the field sorts first).
func TypenameEqualsAbstractFragmentDefs(s *Schema, tag string, firstField bool) []*Def {
	for _, f := range s.FieldsOf("Query") {
		td := s.Get(f.Type.Base())
		if td == nil || td.Kind != "INTERFACE" || len(s.PossibleTypes(td.Name)) == 0 {
			continue
		}
		req := false
		for _, a := range f.Args {
			if a.Type.NonNull && a.Default == "" {
				req = true
			}
		}
		if req {
			continue
		}
		ileaf := ""
		for _, lf := range td.Fields {
			if s.IsLeaf(lf.Type.Base()) && len(lf.Args) == 0 {
				ileaf = lf.Name
			}
		}
		if ileaf == "" {
			continue
		}
		fr := "Hz" + tag + "Frag"
		qs, qf := "Hz"+tag+"Q1", "Hz"+tag+"Q2"
		if firstField {
			qs, qf = qf, qs
		}
		return []*Def{
			{Kind: "fragment", Name: fr, Text: fmt.Sprintf("fragment %s on %s {\n  %s\n}\n", fr, td.Name, ileaf)},
			{Kind: "query", Name: qs, Text: fmt.Sprintf("query %s {\n  %s {\n    ...%s\n  }\n}\n", qs, f.Name, fr)},
			{Kind: "query", Name: qf, Text: fmt.Sprintf("query %s {\n  # @genqlient(typename: \"%s\")\n  %s {\n    %s\n  }\n}\n", qf, fr, f.Name, ileaf)},
		}
	}
	return nil
}
