package gen

import (
	"fmt"
	"strconv"
	"strings"

	"verifharness/core"
)

// Literal is one `# @genqlient` string literal inside a Go file.
type Literal struct {
	Defs    []int  `json:"defs"`    // indices into the definition list
	Raw     bool   `json:"raw"`     // back-quoted (else interpreted, with escapes)
	Lead    string `json:"lead"`    // text between the opening quote and "# @genqlient" (whitespace/newlines)
	Form    int    `json:"form"`    // expression context (see goForms)
	SameRow bool   `json:"samerow"` // placed on the same source line as the previous literal
	Tail    string `json:"tail,omitempty"` // blanks after "# @genqlient" on the marker line
}

type File struct {
	Name string     `json:"name"`
	Defs []int      `json:"defs,omitempty"` // .graphql: definitions in order
	Lits []*Literal `json:"lits,omitempty"` // .go
	Pad  int        `json:"pad,omitempty"`  // blank lines at the top of the file
	OneLine bool    `json:"oneline,omitempty"` // .go: all literals interpreted, elements of ONE composite literal on one source line
	EOL     string  `json:"eol,omitempty"`     // line terminator of the GraphQL text ("" = "\n"; "\r\n"; "\r"): the whole .graphql file, the value of interpreted Go literals
}

func (f *File) eol(s string) string {
	if f.EOL == "" || f.EOL == "\n" {
		return s
	}
	return strings.ReplaceAll(s, "\n", f.EOL)
}

type Layout struct {
	Files []*File `json:"files"`
}

var graphqlExts = []string{".graphql", ".graphql", ".gql", ".graphqls"}

// RandomLayout distributes n definitions over files of both kinds.
func RandomLayout(r *core.Rng, n int, allowGo bool) *Layout {
	l := &Layout{}
	perm := r.Perm(n)
	nfiles := 1 + r.Intn(3)
	if nfiles > n {
		nfiles = n
	}
	if nfiles == 0 {
		nfiles = 1
	}
	buckets := make([][]int, nfiles)
	for i, d := range perm {
		b := i % nfiles
		if i >= nfiles {
			b = r.Intn(nfiles)
		}
		buckets[b] = append(buckets[b], d)
	}
	for i, b := range buckets {
		if allowGo && r.Chance(0.35) {
			f := &File{Name: fmt.Sprintf("ops/q%d.go", i), Pad: r.Intn(4)}
			for len(b) > 0 {
				k := 1 + r.Intn(len(b))
				lit := &Literal{Defs: b[:k], Raw: r.Chance(0.75), Form: r.Intn(len(goForms)),
					Lead: []string{"", "", "\n", "\n\n", " ", "\n  "}[r.Intn(6)],
					Tail: []string{"", "", "", " ", "\t", "  "}[r.Intn(6)]}
				f.Lits = append(f.Lits, lit)
				b = b[k:]
			}
			if len(f.Lits) > 1 && r.Chance(0.4) {
				f.OneLine = true
				for _, lit := range f.Lits {
					lit.Raw = false
				}
			}
			l.Files = append(l.Files, f)
		} else {
			l.Files = append(l.Files, &File{Name: fmt.Sprintf("ops/f%d%s", i, graphqlExts[r.Intn(len(graphqlExts))]), Defs: b, Pad: r.Intn(3)})
		}
	}
	// line terminators: derived from what was drawn already (no extra draws, so that the
	// definitions and layouts of existing seeds stay what they were)
	for i, f := range l.Files {
		f.EOL = []string{"", "", "\r\n", "", "\r", ""}[(f.Pad+i+len(f.Defs)+2*len(f.Lits))%6]
	}
	return l
}

// SingleFile is the canonical layout: everything in one .graphql file, in order.
func SingleFile(n int) *Layout {
	f := &File{Name: "ops/all.graphql"}
	for i := 0; i < n; i++ {
		f.Defs = append(f.Defs, i)
	}
	return &Layout{Files: []*File{f}}
}

var goForms = []string{
	"const q%d = %s\n",
	"var q%d = fmt.Sprint(%s)\n",
	"var q%d = []string{%s}\n",
	"var q%d = struct{ Q string }{Q: %s}\n",
	"func f%d() string {\n\treturn %s\n}\n",
}

// LitText is the value of the literal.
func LitText(l *Literal, defs []*Def) string { return litText(l, defs) }

func litText(l *Literal, defs []*Def) string {
	var sb strings.Builder
	sb.WriteString(l.Lead + "# @genqlient" + l.Tail + "\n")
	for _, d := range l.Defs {
		sb.WriteString(defs[d].Text)
		sb.WriteString("\n")
	}
	return sb.String()
}

// Render produces file contents.  For each definition it also reports the file and the
// 1-based line at which its text starts in that file.
func (l *Layout) Render(defs []*Def) (files map[string]string, where map[int]Loc) {
	files = map[string]string{}
	where = map[int]Loc{}
	for _, f := range l.Files {
		var sb strings.Builder
		line := 1
		emit := func(s string) {
			sb.WriteString(s)
			line += strings.Count(s, "\n")
		}
		if strings.HasSuffix(f.Name, ".go") {
			emit("package ops\n\nimport \"fmt\"\n\nvar _ = fmt.Sprint\n")
			emit(strings.Repeat("\n", f.Pad))
			if f.OneLine {
				emit("var all = []string{")
				for i, lit := range f.Lits {
					if i > 0 {
						emit(", ")
					}
					off := strings.Count(lit.Lead, "\n") + 1
					for _, d := range lit.Defs {
						where[d] = Loc{File: f.Name, Line: line, LitLine: line, InLit: off + 1, Interpreted: true}
						off += strings.Count(defs[d].Text, "\n") + 1
					}
					emit(strconv.Quote(f.eol(litText(lit, defs))))
				}
				emit("}\n")
				files[f.Name] = sb.String()
				continue
			}
			for i, lit := range f.Lits {
				text := litText(lit, defs)
				var quoted string
				if lit.Raw {
					quoted = "`" + text + "`"
				} else {
					quoted = strconv.Quote(f.eol(text))
				}
				form := goForms[lit.Form%len(goForms)]
				pre := form[:strings.Index(form, "%s")]
				pre = strings.Replace(pre, "%d", strconv.Itoa(i), 1)
				post := form[strings.Index(form, "%s")+2:]
				emit(pre)
				litLine := line // line of the opening quote
				// definitions' lines inside the literal
				off := strings.Count(lit.Lead, "\n") + 1 // "# @genqlient" line
				for _, d := range lit.Defs {
					if lit.Raw {
						where[d] = Loc{File: f.Name, Line: litLine + off, LitLine: litLine, InLit: off + 1}
					} else {
						where[d] = Loc{File: f.Name, Line: litLine, LitLine: litLine, InLit: off + 1, Interpreted: true}
					}
					off += strings.Count(defs[d].Text, "\n") + 1
				}
				emit(quoted)
				emit(post)
			}
		} else {
			emit(strings.Repeat("\n", f.Pad))
			for _, d := range f.Defs {
				where[d] = Loc{File: f.Name, Line: line}
				emit(defs[d].Text)
				emit("\n")
			}
			files[f.Name] = f.eol(sb.String())
			continue
		}
		files[f.Name] = sb.String()
	}
	return files, where
}

// Loc says where a definition's first line is.
type Loc struct {
	File        string `json:"file"`
	Line        int    `json:"line"`     // line in the file of the definition's first line (raw literals and .graphql)
	LitLine     int    `json:"lit_line"` // Go: line of the literal's opening quote
	InLit       int    `json:"in_lit"`   // Go: 1-based line inside the literal's value
	Interpreted bool   `json:"interpreted"`
}

func (l *Layout) Globs() []string {
	seen := map[string]bool{}
	var out []string
	for _, f := range l.Files {
		if !seen[f.Name] {
			seen[f.Name] = true
			out = append(out, f.Name)
		}
	}
	return out
}

// SpreadDirs renames the files of a layout so that they sit in two directories and pairs of them
// have the SAME name relative to their directory (ops/f0.graphql, more/f0.graphql, ops/f1..., ):
// each is its own `operations:` entry, so an entry is identified by its whole path only.
func SpreadDirs(l *Layout) {
	dirs := []string{"ops", "more"}
	for i, f := range l.Files {
		ext := f.Name[strings.LastIndex(f.Name, "."):]
		if i%2 == 1 {
			prev := l.Files[i-1].Name
			pext := prev[strings.LastIndex(prev, "."):]
			if (pext == ".go") == (ext == ".go") {
				ext = pext
			}
		}
		f.Name = fmt.Sprintf("%s/f%d%s", dirs[i%2], i/2, ext)
	}
}

// OneLineGoLayout: ONE Go file in which every definition is its own interpreted `# @genqlient`
// string literal, all of them elements of one composite literal on ONE source line -- so every
// literal has the same pseudo file name (`file.go:<line>`), and the literals have different
// numbers of lines.
func OneLineGoLayout(n int) *Layout {
	f := &File{Name: "ops/q0.go", OneLine: true}
	for i := 0; i < n; i++ {
		f.Lits = append(f.Lits, &Literal{Defs: []int{i}})
	}
	return &Layout{Files: []*File{f}}
}
