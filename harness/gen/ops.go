package gen

import (
	"fmt"
	"sort"
	"strings"

	"verifharness/core"
)

// Sel is one selection: a field, an inline fragment or a fragment spread.
type Sel struct {
	Kind     string   `json:"k"` // field | inline | spread
	Alias    string   `json:"alias,omitempty"`
	Name     string   `json:"name,omitempty"`
	Args     []string `json:"args,omitempty"` // rendered "name: value"
	Dirs     []string `json:"dirs,omitempty"` // rendered "@skip(if: true)"
	Sub      []*Sel   `json:"sub,omitempty"`
	TypeCond string   `json:"on,omitempty"`
	Comment  []string `json:"comment,omitempty"` // lines (without '#') placed above the node
	Parent   string   `json:"-"`                 // type the selection is made on
	Type     *TypeRef `json:"-"`                 // field type
}

func (s *Sel) Key() string {
	if s.Alias != "" {
		return s.Alias
	}
	return s.Name
}

type VarDef struct {
	Name    string   `json:"name"`
	Type    *TypeRef `json:"type"`
	Default string   `json:"default,omitempty"`
	Comment []string `json:"comment,omitempty"`
}

type Operation struct {
	Kind    string    `json:"kind"` // query | mutation | subscription
	Name    string    `json:"name"`
	Vars    []*VarDef `json:"vars,omitempty"`
	Sel     []*Sel    `json:"sel"`
	Comment []string  `json:"comment,omitempty"`
	// VarsOneLine: all variable definitions on the operation's own line (only when no variable
	// carries a comment directive of its own)
	VarsOneLine bool `json:"vars_one_line,omitempty"`
}

type Fragment struct {
	Name    string   `json:"name"`
	On      string   `json:"on"`
	Sel     []*Sel   `json:"sel"`
	Comment []string `json:"comment,omitempty"`
	keys    map[string]string
	uses    []string
}

type Doc struct {
	Ops   []*Operation `json:"ops"`
	Frags []*Fragment  `json:"frags"`
}

// ---- rendering ------------------------------------------------------------------------

func renderComment(sb *strings.Builder, indent string, lines []string) {
	for _, l := range lines {
		sb.WriteString(indent + "# " + l + "\n")
	}
}

func renderSels(sb *strings.Builder, sels []*Sel, indent string) {
	for _, s := range sels {
		renderComment(sb, indent, s.Comment)
		switch s.Kind {
		case "field":
			sb.WriteString(indent)
			if s.Alias != "" && s.Alias != s.Name {
				sb.WriteString(s.Alias + ": ")
			}
			sb.WriteString(s.Name)
			if len(s.Args) > 0 {
				sb.WriteString("(" + strings.Join(s.Args, ", ") + ")")
			}
			for _, d := range s.Dirs {
				sb.WriteString(" " + d)
			}
			if len(s.Sub) > 0 {
				sb.WriteString(" {\n")
				renderSels(sb, s.Sub, indent+"  ")
				sb.WriteString(indent + "}")
			}
			sb.WriteString("\n")
		case "inline":
			sb.WriteString(indent + "...")
			if s.TypeCond != "" {
				sb.WriteString(" on " + s.TypeCond)
			}
			for _, d := range s.Dirs {
				sb.WriteString(" " + d)
			}
			sb.WriteString(" {\n")
			renderSels(sb, s.Sub, indent+"  ")
			sb.WriteString(indent + "}\n")
		case "spread":
			sb.WriteString(indent + "..." + s.Name)
			for _, d := range s.Dirs {
				sb.WriteString(" " + d)
			}
			sb.WriteString("\n")
		}
	}
}

func (o *Operation) Text() string {
	var sb strings.Builder
	renderComment(&sb, "", o.Comment)
	sb.WriteString(o.Kind + " " + o.Name)
	oneLine := o.VarsOneLine
	for _, v := range o.Vars {
		if len(v.Comment) > 0 {
			oneLine = false
		}
	}
	if len(o.Vars) > 0 && oneLine {
		sb.WriteString("(")
		for i, v := range o.Vars {
			if i > 0 {
				sb.WriteString(", ")
			}
			sb.WriteString("$" + v.Name + ": " + v.Type.String())
			if v.Default != "" {
				sb.WriteString(" = " + v.Default)
			}
		}
		sb.WriteString(")")
	} else if len(o.Vars) > 0 {
		sb.WriteString("(\n")
		for _, v := range o.Vars {
			renderComment(&sb, "  ", v.Comment)
			sb.WriteString("  $" + v.Name + ": " + v.Type.String())
			if v.Default != "" {
				sb.WriteString(" = " + v.Default)
			}
			sb.WriteString(",\n")
		}
		sb.WriteString(")")
	}
	sb.WriteString(" {\n")
	renderSels(&sb, o.Sel, "  ")
	sb.WriteString("}\n")
	return sb.String()
}

func (f *Fragment) Text() string {
	var sb strings.Builder
	renderComment(&sb, "", f.Comment)
	sb.WriteString("fragment " + f.Name + " on " + f.On + " {\n")
	renderSels(&sb, f.Sel, "  ")
	sb.WriteString("}\n")
	return sb.String()
}

// Def is one top-level definition with its rendered text.
type Def struct {
	Kind string `json:"kind"` // query | mutation | subscription | fragment
	Name string `json:"name"`
	Text string `json:"text"`
}

func (d *Doc) Defs() []*Def {
	var out []*Def
	for _, o := range d.Ops {
		out = append(out, &Def{Kind: o.Kind, Name: o.Name, Text: o.Text()})
	}
	for _, f := range d.Frags {
		out = append(out, &Def{Kind: "fragment", Name: f.Name, Text: f.Text()})
	}
	return out
}

// ---- generation -----------------------------------------------------------------------

type OpOpts struct {
	MaxOps      int
	MaxFrags    int
	MaxDepth    int
	Aliases     bool
	Directives  bool // @skip / @include
	Inline      bool
	BareInline  bool // inline fragments without type condition (known generator crash)
	RepeatLeaf  bool
	Variables   bool
	OpNames     []string
	FragNames   []string
	TypenameSel bool // explicit __typename selections
}

func DefaultOpOpts() OpOpts {
	return OpOpts{MaxOps: 3, MaxFrags: 3, MaxDepth: 4, Aliases: true, Directives: true, Inline: true, RepeatLeaf: true, Variables: true, TypenameSel: true}
}

var opNamePool = []string{"GetThing", "ListAll", "Q", "Lookup", "Search", "getUser", "GetUser", "Fetch", "Op1", "Op2", "My_Query", "A", "B"}
var fragNamePool = []string{"FragF", "UserFields", "NodeParts", "Contact", "Names", "FragG", "FragH", "Details", "inner_frag"}
var aliasPool = []string{"x", "y", "other", "first", "second", "A", "renamed", "f", "g", "snake_alias", "ID", "Id"}

type opGen struct {
	r     *core.Rng
	s     *Schema
	o     OpOpts
	frags []*Fragment
	vars  *[]*VarDef // current operation's variables (nil inside fragments)
	varN  int
}

// scope tracks response keys of one merged selection set.
type scope map[string]string

func (g *opGen) sig(parent string, f *FieldDef, args []string) string {
	if g.s.IsLeaf(f.Type.Base()) {
		return f.Name + "(" + strings.Join(args, ",") + "):" + f.Type.String() + "#leaf"
	}
	return parent + "." + f.Name + "(" + strings.Join(args, ",") + "):" + f.Type.String()
}

func (g *opGen) genArgs(f *FieldDef) []string {
	var out []string
	for _, a := range f.Args {
		required := a.Type.NonNull && a.Default == ""
		if !required && !g.r.Chance(0.5) {
			continue
		}
		if g.vars != nil && g.o.Variables && g.r.Chance(0.6) {
			g.varN++
			name := fmt.Sprintf("%s%d", a.Name, g.varN)
			if g.r.Chance(0.3) {
				name = a.Name
				for _, v := range *g.vars {
					if v.Name == name {
						name = fmt.Sprintf("%s%d", a.Name, g.varN)
					}
				}
			}
			vt := a.Type
			if !vt.NonNull && g.r.Chance(0.3) {
				c := *vt
				c.NonNull = true
				vt = &c
			}
			v := &VarDef{Name: name, Type: vt}
			if !vt.NonNull && vt.Elem == nil && builtinScalars[vt.Name] && g.r.Chance(0.2) {
				v.Default = literalFor(g.s, &TypeRef{Name: vt.Name, NonNull: true}, g.r, 0)
			}
			*g.vars = append(*g.vars, v)
			out = append(out, a.Name+": $"+name)
		} else {
			out = append(out, a.Name+": "+literalFor(g.s, a.Type, g.r, 0))
		}
	}
	return out
}

// selSet builds a selection set on type `on`; sc is the response-key scope shared with
// enclosing inline fragments.
func (g *opGen) selSet(on string, depth int, sc scope, fragLimit int) []*Sel {
	var out []*Sel
	td := g.s.Get(on)
	fields := g.s.FieldsOf(on)
	n := 1 + g.r.Intn(4)
	if depth >= g.o.MaxDepth {
		n = 1 + g.r.Intn(2)
	}
	addField := func(f *FieldDef) {
		leaf := g.s.IsLeaf(f.Type.Base())
		if !leaf && depth >= g.o.MaxDepth {
			return
		}
		alias := ""
		if g.o.Aliases && g.r.Chance(0.25) {
			alias = aliasPool[g.r.Intn(len(aliasPool))]
		}
		args := g.genArgs(f)
		s := &Sel{Kind: "field", Alias: alias, Name: f.Name, Args: args, Parent: on, Type: f.Type}
		key := s.Key()
		sg := g.sig(on, f, args)
		if old, dup := sc[key]; dup {
			if !(leaf && old == sg && g.o.RepeatLeaf) {
				return
			}
		} else if normClash(sc, key) {
			return // another key that differs only by case/underscores: the Go field names would collide
		}
		if !leaf {
			s.Sub = g.selSet(f.Type.Base(), depth+1, scope{}, fragLimit)
			if len(s.Sub) == 0 {
				return
			}
		}
		if g.o.Directives && g.r.Chance(0.08) {
			s.Dirs = []string{[]string{"@skip(if: false)", "@include(if: true)", "@skip(if: true)"}[g.r.Intn(3)]}
		}
		sc[key] = sg
		out = append(out, s)
	}
	if td.Kind == "UNION" || len(fields) == 0 {
		n = 0
	}
	for i := 0; i < n; i++ {
		addField(fields[g.r.Intn(len(fields))])
	}
	if g.o.TypenameSel && g.r.Chance(0.15) {
		if _, dup := sc["__typename"]; !dup {
			sc["__typename"] = "__typename"
			s := &Sel{Kind: "field", Name: "__typename", Parent: on, Type: Named("String", true)}
			if _, used := sc["tnAlias"]; !used && g.r.Chance(0.35) {
				// the meta field under another response key
				s.Alias = "tnAlias"
				sc["tnAlias"] = "__typename"
			}
			if g.r.Chance(0.5) {
				out = append([]*Sel{s}, out...)
			} else {
				out = append(out, s)
			}
		}
	}
	// inline fragments
	if g.o.Inline && depth < g.o.MaxDepth && (g.s.IsAbstract(on) && g.r.Chance(0.7) || g.r.Chance(0.1)) {
		cands := g.overlapping(on)
		k := 1 + g.r.Intn(2)
		for i := 0; i < k && len(cands) > 0; i++ {
			tc := cands[g.r.Intn(len(cands))]
			sub := g.selSet(tc, depth+1, sc, fragLimit)
			if len(sub) == 0 {
				continue
			}
			out = append(out, &Sel{Kind: "inline", TypeCond: tc, Sub: sub, Parent: on})
		}
	}
	if g.o.BareInline && g.r.Chance(0.1) && td.Kind != "UNION" {
		sub := g.selSet(on, depth+1, sc, fragLimit)
		if len(sub) > 0 {
			out = append(out, &Sel{Kind: "inline", Sub: sub, Parent: on})
		}
	}
	// fragment spreads
	if fragLimit > 0 && g.r.Chance(0.45) {
		for tries := 0; tries < 3; tries++ {
			f := g.frags[g.r.Intn(fragLimit)]
			if !g.s.Overlap(f.On, on) {
				continue
			}
			ok := true
			for k := range f.keys {
				if _, dup := sc[k]; !dup && normClash(sc, k) {
					ok = false
				}
			}
			for k, sg := range f.keys {
				if old, dup := sc[k]; dup && old != sg {
					ok = false
				}
				if old, dup := sc[k]; dup && old == sg && !strings.HasSuffix(sg, "#leaf") && sg != "__typename" {
					ok = false
				}
			}
			if !ok {
				continue
			}
			for k, sg := range f.keys {
				sc[k] = sg
			}
			out = append(out, &Sel{Kind: "spread", Name: f.Name, Parent: on})
			break
		}
	}
	if len(out) == 0 {
		// guarantee a non-empty selection
		if td.Kind == "UNION" || len(fields) == 0 {
			if _, dup := sc["__typename"]; !dup {
				sc["__typename"] = "__typename"
				out = append(out, &Sel{Kind: "field", Name: "__typename", Parent: on, Type: Named("String", true)})
			}
		} else {
			for _, f := range fields {
				if g.s.IsLeaf(f.Type.Base()) {
					before := len(out)
					addField(f)
					if len(out) > before {
						break
					}
				}
			}
			if len(out) == 0 {
				if _, dup := sc["__typename"]; !dup {
					sc["__typename"] = "__typename"
					out = append(out, &Sel{Kind: "field", Name: "__typename", Parent: on, Type: Named("String", true)})
				}
			}
		}
	}
	// an explicit __typename may stand anywhere among the selections, also after fragments
	if len(out) > 2 && g.r.Chance(0.5) {
		for i, x := range out {
			if x.Kind == "field" && x.Name == "__typename" {
				rest := append(append([]*Sel{}, out[:i]...), out[i+1:]...)
				j := g.r.Intn(len(rest) + 1)
				out = append(append(append([]*Sel{}, rest[:j]...), x), rest[j:]...)
				break
			}
		}
	}
	return out
}

func (g *opGen) overlapping(on string) []string {
	var out []string
	for _, t := range g.s.Types {
		if t.Kind != "OBJECT" && t.Kind != "INTERFACE" && t.Kind != "UNION" {
			continue
		}
		if t.Name == "Query" || t.Name == "Mutation" || t.Name == "Subscription" {
			continue
		}
		if g.s.Overlap(t.Name, on) {
			out = append(out, t.Name)
		}
	}
	sort.Strings(out)
	return out
}

// collectKeys computes the response keys a fragment contributes to the scope it is spread in.
func (g *opGen) collectKeys(sels []*Sel, into map[string]string) {
	for _, s := range sels {
		switch s.Kind {
		case "field":
			if s.Name == "__typename" {
				into[s.Key()] = "__typename"
				continue
			}
			f := g.s.Field(s.Parent, s.Name)
			into[s.Key()] = g.sig(s.Parent, f, s.Args)
		case "inline":
			g.collectKeys(s.Sub, into)
		case "spread":
			for _, f := range g.frags {
				if f.Name == s.Name {
					for k, v := range f.keys {
						into[k] = v
					}
				}
			}
		}
	}
}

func usesOf(sels []*Sel, into map[string]bool) {
	for _, s := range sels {
		if s.Kind == "spread" {
			into[s.Name] = true
		}
		usesOf(s.Sub, into)
	}
}

// RandomDoc builds operations and the named fragments they use (every fragment is used).
func RandomDoc(r *core.Rng, s *Schema, o OpOpts) *Doc {
	g := &opGen{r: r, s: s, o: o}
	d := &Doc{}
	nf := r.Intn(o.MaxFrags + 1)
	fnames := o.FragNames
	if fnames == nil {
		fnames = pickDistinct(r, fragNamePool, nf, map[string]bool{})
	}
	var composite []string
	for _, t := range s.Types {
		if (t.Kind == "OBJECT" || t.Kind == "INTERFACE" || t.Kind == "UNION") && t.Name != "Query" && t.Name != "Mutation" && t.Name != "Subscription" {
			composite = append(composite, t.Name)
		}
	}
	for i, fn := range fnames {
		if len(composite) == 0 {
			break
		}
		on := composite[r.Intn(len(composite))]
		f := &Fragment{Name: fn, On: on}
		sc := scope{}
		f.Sel = g.selSet(on, 1, sc, i)
		f.keys = map[string]string{}
		if r.Chance(0.3) {
			f.Comment = []string{"fragment doc " + fn}
		}
		g.collectKeys(f.Sel, f.keys)
		g.frags = append(g.frags, f)
	}
	nops := 1 + r.Intn(o.MaxOps)
	onames := o.OpNames
	if onames == nil {
		onames = pickDistinct(r, opNamePool, nops, map[string]bool{})
	}
	for _, on := range onames {
		kind := "query"
		root := "Query"
		if s.Mutation && r.Chance(0.2) {
			kind, root = "mutation", "Mutation"
		} else if s.Subscription && r.Chance(0.1) {
			kind, root = "subscription", "Subscription"
		}
		op := &Operation{Kind: kind, Name: on}
		g.vars = &op.Vars
		g.varN = 0
		if kind == "subscription" {
			// a subscription selects exactly one root field, and no introspection field
			saveT, saveI := g.o.TypenameSel, g.o.Inline
			g.o.TypenameSel, g.o.Inline = false, false
			for tries := 0; tries < 10; tries++ {
				op.Vars = nil
				op.Sel = g.selSet(root, 0, scope{}, 0)
				var fs []*Sel
				for _, x := range op.Sel {
					if x.Kind == "field" && x.Name != "__typename" {
						fs = append(fs, x)
					}
				}
				if len(fs) > 0 {
					op.Sel = fs[:1]
					break
				}
				op.Sel = nil
			}
			g.o.TypenameSel, g.o.Inline = saveT, saveI
			if len(op.Sel) == 0 {
				kind, root = "query", "Query"
				op.Kind = kind
				op.Sel = g.selSet(root, 0, scope{}, len(g.frags))
			}
		} else {
			op.Sel = g.selSet(root, 0, scope{}, len(g.frags))
		}
		g.vars = nil
		if r.Chance(0.5) {
			op.Comment = []string{"documentation of " + on, "second line"}
		}
		pruneVars(op)
		d.Ops = append(d.Ops, op)
	}
	// keep only fragments that are (transitively) used; variables used inside must not exist (none)
	used := map[string]bool{}
	for _, op := range d.Ops {
		usesOf(op.Sel, used)
	}
	changed := true
	for changed {
		changed = false
		for _, f := range g.frags {
			if used[f.Name] {
				m := map[string]bool{}
				usesOf(f.Sel, m)
				for k := range m {
					if !used[k] {
						used[k] = true
						changed = true
					}
				}
			}
		}
	}
	for _, f := range g.frags {
		if used[f.Name] {
			d.Frags = append(d.Frags, f)
		}
	}
	return d
}

func selText(sels []*Sel) string {
	var sb strings.Builder
	renderSels(&sb, sels, "")
	return sb.String()
}

// pruneVars drops variable definitions that no argument uses (an unused variable is invalid).
func pruneVars(op *Operation) {
	text := selText(op.Sel)
	var kept []*VarDef
	for _, v := range op.Vars {
		used := false
		idx := 0
		for {
			i := strings.Index(text[idx:], "$"+v.Name)
			if i < 0 {
				break
			}
			end := idx + i + 1 + len(v.Name)
			if end >= len(text) || !isNameChar(text[end]) {
				used = true
				break
			}
			idx = end
		}
		if used {
			kept = append(kept, v)
		}
	}
	op.Vars = kept
}

func isNameChar(c byte) bool {
	return c == '_' || c >= '0' && c <= '9' || c >= 'a' && c <= 'z' || c >= 'A' && c <= 'Z'
}

// FragDagDoc builds k named fragments on one composite type forming a random DAG of spreads
// (diamonds, chains, shared leaves) and several operations that each spread a random subset.
func FragDagDoc(r *core.Rng, s *Schema) *Doc {
	// a root field of composite (non-union) type without required arguments, having a leaf field
	var root *FieldDef
	var leaf *FieldDef
	for _, f := range s.FieldsOf("Query") {
		td := s.Get(f.Type.Base())
		if td == nil || (td.Kind != "OBJECT" && td.Kind != "INTERFACE") {
			continue
		}
		req := false
		for _, a := range f.Args {
			if a.Type.NonNull && a.Default == "" {
				req = true
			}
		}
		if req {
			continue
		}
		for _, lf := range td.Fields {
			if s.IsLeaf(lf.Type.Base()) && len(lf.Args) == 0 {
				root, leaf = f, lf
			}
		}
	}
	if root == nil {
		return nil
	}
	on := root.Type.Base()
	k := 3 + r.Intn(4)
	d := &Doc{}
	names := pickDistinct(r, []string{"Za", "Xb", "Yc", "Wd", "Ve", "Uf", "Tg", "Sh"}, k, map[string]bool{})
	for i, n := range names {
		f := &Fragment{Name: n, On: on}
		f.Sel = append(f.Sel, &Sel{Kind: "field", Alias: fmt.Sprintf("a%d", i), Name: leaf.Name, Parent: on, Type: leaf.Type})
		for j := 0; j < i; j++ {
			if r.Chance(0.45) {
				f.Sel = append(f.Sel, &Sel{Kind: "spread", Name: names[j], Parent: on})
			}
		}
		if r.Chance(0.5) {
			// reverse so that spreads come first sometimes
			for a, b := 0, len(f.Sel)-1; a < b; a, b = a+1, b-1 {
				f.Sel[a], f.Sel[b] = f.Sel[b], f.Sel[a]
			}
		}
		d.Frags = append(d.Frags, f)
	}
	nops := 2 + r.Intn(3)
	used := map[string]bool{}
	for _, on2 := range pickDistinct(r, opNamePool, nops, map[string]bool{}) {
		op := &Operation{Kind: "query", Name: on2}
		fsel := &Sel{Kind: "field", Name: root.Name, Parent: "Query", Type: root.Type}
		for _, n := range names {
			if r.Chance(0.35) {
				fsel.Sub = append(fsel.Sub, &Sel{Kind: "spread", Name: n, Parent: on})
			}
		}
		if len(fsel.Sub) == 0 {
			fsel.Sub = append(fsel.Sub, &Sel{Kind: "spread", Name: names[len(names)-1], Parent: on})
		}
		usesOf(fsel.Sub, used)
		op.Sel = []*Sel{fsel}
		d.Ops = append(d.Ops, op)
	}
	// drop fragments nobody reaches (an unused fragment is invalid)
	changed := true
	for changed {
		changed = false
		for _, f := range d.Frags {
			if used[f.Name] {
				m := map[string]bool{}
				usesOf(f.Sel, m)
				for x := range m {
					if !used[x] {
						used[x] = true
						changed = true
					}
				}
			}
		}
	}
	var kept []*Fragment
	for _, f := range d.Frags {
		if used[f.Name] {
			kept = append(kept, f)
		}
	}
	d.Frags = kept
	return d
}

func normKey(k string) string { return strings.ToLower(strings.ReplaceAll(k, "_", "")) }

func normClash(sc scope, key string) bool {
	n := normKey(key)
	for k := range sc {
		if k != key && normKey(k) == n {
			return true
		}
	}
	return false
}

// NestedTwinOp: two selections of one root field given the SAME typename whose selection sets
// agree at the top level and differ one or two levels down (genqlient must reject this).
func NestedTwinOp(r *core.Rng, s *Schema, typename string) *Def {
	noReq := func(f *FieldDef) bool {
		for _, a := range f.Args {
			if a.Type.NonNull && a.Default == "" {
				return false
			}
		}
		return true
	}
	for _, f := range s.FieldsOf("Query") {
		td := s.Get(f.Type.Base())
		if td == nil || td.Kind != "OBJECT" || !noReq(f) {
			continue
		}
		for _, g := range td.Fields {
			gd := s.Get(g.Type.Base())
			if gd == nil || gd.Kind != "OBJECT" || !noReq(g) {
				continue
			}
			var leaf *FieldDef
			for _, l := range gd.Fields {
				if s.IsLeaf(l.Type.Base()) && noReq(l) {
					leaf = l
				}
			}
			if leaf == nil {
				continue
			}
			extra := "zz: " + leaf.Name
			if r.Chance(0.5) {
				extra = "__typename"
			}
			// the larger selection second, or first (then the later one is a strict prefix)
			a1, a2 := "t1", "t2"
			if r.Chance(0.5) {
				a1, a2 = "t2", "t1"
			}
			text := fmt.Sprintf("query ZTwin {\n  # @genqlient(typename: %q)\n  %s: %s {\n    %s {\n      %s\n    }\n  }\n  # @genqlient(typename: %q)\n  %s: %s {\n    %s {\n      %s\n      %s\n    }\n  }\n}\n",
				typename, a1, f.Name, g.Name, leaf.Name, typename, a2, f.Name, g.Name, leaf.Name, extra)
			if a1 == "t2" {
				text = fmt.Sprintf("query ZTwin {\n  # @genqlient(typename: %q)\n  t1: %s {\n    %s {\n      %s\n      %s\n    }\n  }\n  # @genqlient(typename: %q)\n  t2: %s {\n    %s {\n      %s\n    }\n  }\n}\n",
					typename, f.Name, g.Name, leaf.Name, extra, typename, f.Name, g.Name, leaf.Name)
			}
			return &Def{Kind: "query", Name: "ZTwin", Text: text}
		}
	}
	return nil
}

// CaseFoldDefs: a fragment selecting leaf field `x` and an operation that spreads it next to
// another field under the alias `X` (same letters, other case): Go field names stay distinct
// (X vs the fragment's field), JSON keys differ only by case.
func CaseFoldDefs(r *core.Rng, s *Schema) []*Def {
	noReq := func(f *FieldDef) bool {
		for _, a := range f.Args {
			if a.Type.NonNull && a.Default == "" {
				return false
			}
		}
		return true
	}
	for _, f := range s.FieldsOf("Query") {
		td := s.Get(f.Type.Base())
		if td == nil || td.Kind != "OBJECT" || !noReq(f) {
			continue
		}
		var a, c *FieldDef
		for _, l := range td.Fields {
			if !s.IsLeaf(l.Type.Base()) || !noReq(l) || strings.ToUpper(l.Name) == l.Name {
				continue
			}
			if a == nil {
				a = l
			} else if c == nil && l.Type.String() != a.Type.String() {
				c = l
			}
		}
		if a == nil || c == nil {
			continue
		}
		up := strings.ToUpper(a.Name)
		return []*Def{
			{Kind: "fragment", Name: "ZFold", Text: fmt.Sprintf("fragment ZFold on %s {\n  %s\n}\n", td.Name, a.Name)},
			{Kind: "query", Name: "ZCaseFold", Text: fmt.Sprintf("query ZCaseFold {\n  %s {\n    ...ZFold\n    %s: %s\n  }\n}\n", f.Name, up, c.Name)},
		}
	}
	return nil
}
