package gen

import (
	"github.com/Khan/genqlient/generate"

	"verifharness/core"
)

// CfgOpts are the genqlient.yaml settings a generated program uses.
type CfgOpts struct {
	Optional         string            `json:"optional,omitempty"` // "", value, pointer, generic
	StructReferences bool              `json:"struct_refs,omitempty"`
	Extensions       bool              `json:"extensions,omitempty"`
	ContextType      string            `json:"context_type,omitempty"`
	ClientGetter     string            `json:"client_getter,omitempty"`
	Casing           string            `json:"casing,omitempty"`
	Export           bool              `json:"export,omitempty"`
	Bindings         map[string]string `json:"bindings,omitempty"` // GraphQL name -> Go type
	Marshalers       map[string][2]string `json:"marshalers,omitempty"` // GraphQL name -> (marshaler, unmarshaler)
}

func (c *CfgOpts) Apply(s *Schema) func(cfg *generate.Config) {
	return func(cfg *generate.Config) {
		cfg.Optional = c.Optional
		if c.Optional == "generic" {
			cfg.OptionalGenericType = "example.com/opt.Option"
		}
		cfg.StructReferences = c.StructReferences
		cfg.Extensions = c.Extensions
		cfg.ContextType = c.ContextType
		if cfg.ContextType == "" {
			cfg.ContextType = "context.Context"
		}
		cfg.ClientGetter = c.ClientGetter
		if c.Casing != "" {
			cfg.Casing.Default = generate.CasingAlgorithm(c.Casing)
		}
		if c.Export {
			cfg.ExportOperations = cfg.Generated[:len(cfg.Generated)-len("generated.go")] + "operations.json"
		}
		cfg.Bindings = map[string]*generate.TypeBinding{}
		for _, t := range s.Types {
			if t.Kind == "SCALAR" {
				cfg.Bindings[t.Name] = &generate.TypeBinding{Type: "string"}
			}
		}
		for k, v := range c.Bindings {
			cfg.Bindings[k] = &generate.TypeBinding{Type: v}
			if m, ok := c.Marshalers[k]; ok {
				cfg.Bindings[k].Marshaler, cfg.Bindings[k].Unmarshaler = m[0], m[1]
			}
		}
	}
}

// Program lays out schema + documents.
func Program(s *Schema, defs []*Def, l *Layout, c *CfgOpts) *core.Program {
	files, _ := l.Render(defs)
	files["schema.graphql"] = s.SDL()
	p := &core.Program{Files: files, Schema: []string{"schema.graphql"}, Ops: l.Globs()}
	if c == nil {
		c = &CfgOpts{}
	}
	p.Cfg = c.Apply(s)
	return p
}
