// Package gen: seeded generators of GraphQL schemas, operations, layouts and configurations.
// Everything is derived from one *core.Rng; programs are mostly valid by construction
// (type-directed), with separate fault-injection helpers.
package gen

import (
	"fmt"
	"sort"
	"strings"

	"verifharness/core"
)

type TypeRef struct {
	Name    string   `json:"name,omitempty"`
	NonNull bool     `json:"nn,omitempty"`
	Elem    *TypeRef `json:"elem,omitempty"`
}

func Named(n string, nonNull bool) *TypeRef { return &TypeRef{Name: n, NonNull: nonNull} }
func ListOf(e *TypeRef, nonNull bool) *TypeRef {
	return &TypeRef{Elem: e, NonNull: nonNull}
}

func (t *TypeRef) String() string {
	s := t.Name
	if t.Elem != nil {
		s = "[" + t.Elem.String() + "]"
	}
	if t.NonNull {
		s += "!"
	}
	return s
}

func (t *TypeRef) Base() string {
	for t.Elem != nil {
		t = t.Elem
	}
	return t.Name
}

func (t *TypeRef) Depth() int {
	d := 0
	for t.Elem != nil {
		t = t.Elem
		d++
	}
	return d
}

type Arg struct {
	Name    string   `json:"name"`
	Type    *TypeRef `json:"type"`
	Default string   `json:"default,omitempty"`
}

type FieldDef struct {
	Name string   `json:"name"`
	Type *TypeRef `json:"type"`
	Args []*Arg   `json:"args,omitempty"`
}

type TypeDef struct {
	Kind       string      `json:"kind"` // OBJECT INTERFACE UNION ENUM INPUT SCALAR
	Name       string      `json:"name"`
	Fields     []*FieldDef `json:"fields,omitempty"`
	Implements []string    `json:"implements,omitempty"`
	Members    []string    `json:"members,omitempty"`
	Values     []string    `json:"values,omitempty"`
	Inputs     []*Arg      `json:"inputs,omitempty"`
	Desc       string      `json:"desc,omitempty"`
}

type Schema struct {
	Types        []*TypeDef `json:"types"`
	Mutation     bool       `json:"mutation"`
	Subscription bool       `json:"subscription"`
	by           map[string]*TypeDef
}

func (s *Schema) Get(name string) *TypeDef {
	if s.by == nil {
		s.by = map[string]*TypeDef{}
		for _, t := range s.Types {
			s.by[t.Name] = t
		}
	}
	return s.by[name]
}

// Reindex forgets the name index (after Types was changed from outside the package).
func (s *Schema) Reindex() { s.by = nil }

func (s *Schema) add(t *TypeDef) *TypeDef {
	s.Types = append(s.Types, t)
	s.by = nil
	return t
}

var builtinScalars = map[string]bool{"Int": true, "Float": true, "String": true, "Boolean": true, "ID": true}

func (s *Schema) IsLeaf(name string) bool {
	if builtinScalars[name] {
		return true
	}
	t := s.Get(name)
	return t != nil && (t.Kind == "ENUM" || t.Kind == "SCALAR")
}

func (s *Schema) IsAbstract(name string) bool {
	t := s.Get(name)
	return t != nil && (t.Kind == "INTERFACE" || t.Kind == "UNION")
}

// PossibleTypes: the object types a value of the named type can have (sorted).
func (s *Schema) PossibleTypes(name string) []string {
	t := s.Get(name)
	if t == nil {
		return nil
	}
	var out []string
	switch t.Kind {
	case "OBJECT":
		out = []string{name}
	case "UNION":
		out = append(out, t.Members...)
	case "INTERFACE":
		for _, o := range s.Types {
			if o.Kind == "OBJECT" {
				for _, i := range o.Implements {
					if i == name {
						out = append(out, o.Name)
					}
				}
			}
		}
	}
	sort.Strings(out)
	return out
}

func (s *Schema) Overlap(a, b string) bool {
	pa := s.PossibleTypes(a)
	for _, x := range s.PossibleTypes(b) {
		for _, y := range pa {
			if x == y {
				return true
			}
		}
	}
	return false
}

// FieldsOf returns the fields selectable on the named composite type (unions: none but __typename).
func (s *Schema) FieldsOf(name string) []*FieldDef {
	t := s.Get(name)
	if t == nil {
		return nil
	}
	return t.Fields
}

func (s *Schema) Field(typ, field string) *FieldDef {
	for _, f := range s.FieldsOf(typ) {
		if f.Name == field {
			return f
		}
	}
	return nil
}

// SDL renders the schema; with parts > 1 the definitions are spread over several sources
// (the caller decides the file names); `extend` is used for some enum values / fields when
// extends is true.
func (s *Schema) SDL() string {
	var sb strings.Builder
	for _, t := range s.Types {
		sb.WriteString(s.typeSDL(t))
	}
	return sb.String()
}

func (s *Schema) typeSDL(t *TypeDef) string {
	var sb strings.Builder
	if t.Desc != "" {
		fmt.Fprintf(&sb, "\"\"\"%s\"\"\"\n", t.Desc)
	}
	fields := func() {
		sb.WriteString(" {\n")
		for _, f := range t.Fields {
			sb.WriteString("  " + f.Name)
			if len(f.Args) > 0 {
				var as []string
				for _, a := range f.Args {
					x := a.Name + ": " + a.Type.String()
					if a.Default != "" {
						x += " = " + a.Default
					}
					as = append(as, x)
				}
				sb.WriteString("(" + strings.Join(as, ", ") + ")")
			}
			sb.WriteString(": " + f.Type.String() + "\n")
		}
		sb.WriteString("}\n")
	}
	switch t.Kind {
	case "OBJECT":
		sb.WriteString("type " + t.Name)
		if len(t.Implements) > 0 {
			sb.WriteString(" implements " + strings.Join(t.Implements, " & "))
		}
		fields()
	case "INTERFACE":
		sb.WriteString("interface " + t.Name)
		fields()
	case "UNION":
		sb.WriteString("union " + t.Name + " = " + strings.Join(t.Members, " | ") + "\n")
	case "ENUM":
		sb.WriteString("enum " + t.Name + " {\n")
		for _, v := range t.Values {
			sb.WriteString("  " + v + "\n")
		}
		sb.WriteString("}\n")
	case "SCALAR":
		sb.WriteString("scalar " + t.Name + "\n")
	case "INPUT":
		sb.WriteString("input " + t.Name + " {\n")
		for _, a := range t.Inputs {
			x := "  " + a.Name + ": " + a.Type.String()
			if a.Default != "" {
				x += " = " + a.Default
			}
			sb.WriteString(x + "\n")
		}
		sb.WriteString("}\n")
	}
	return sb.String()
}

// ---- random schemas ---------------------------------------------------------------------

var objNames = []string{"User", "Post", "Comment", "Item", "Node", "Video", "Article", "Tag", "Team", "Org", "Leaf", "SomeNode", "OtherNode", "Animal", "Dog", "Cat", "T", "U", "BC", "C"}
var ifaceNames = []string{"Entity", "Node", "Content", "Being", "I", "Item"}
var unionNames = []string{"SearchResult", "Media", "Either", "UNode"}
var fieldNames = []string{"id", "name", "title", "body", "count", "score", "ok", "kind", "owner", "author", "items", "children", "parent", "tags", "related", "user", "node", "someNode", "leafItem", "a", "ab", "abc", "b", "createdAt", "meta", "snake_case_field", "Name", "ID", "data", "next"}
var enumNames = []string{"Role", "Kind", "Color", "status_code"}
var enumValuePool = []string{"ADMIN", "USER", "GUEST", "RED", "GREEN", "blue", "Dark_Red", "A", "B", "C_D", "lower_case", "MixedCase"}
var inputNames = []string{"UserInput", "Filter", "PageInput", "Nested", "recursive_input"}
var inputFieldNames = []string{"id", "name", "limit", "offset", "tags", "role", "filter", "and", "or", "when", "active", "score", "nested"}
var customScalars = []string{"Date", "JSON", "Opaque"}

type SchemaOpts struct {
	MaxObjects int
	Interfaces bool
	Unions     bool
	Inputs     bool
	Custom     bool // custom scalars
	AllCustom  bool // use every custom scalar of the pool
	ListDepth  int
}

func DefaultSchemaOpts() SchemaOpts {
	return SchemaOpts{MaxObjects: 6, Interfaces: true, Unions: true, Inputs: true, Custom: true, ListDepth: 3}
}

func pickDistinct(r *core.Rng, pool []string, n int, used map[string]bool) []string {
	var out []string
	perm := r.Perm(len(pool))
	for _, i := range perm {
		if len(out) >= n {
			break
		}
		if used[pool[i]] {
			continue
		}
		used[pool[i]] = true
		out = append(out, pool[i])
	}
	return out
}

func wrap(r *core.Rng, base string, maxDepth int) *TypeRef {
	t := Named(base, r.Chance(0.5))
	d := 0
	if maxDepth > 0 && r.Chance(0.35) {
		d = 1 + r.Intn(maxDepth)
		if r.Chance(0.6) {
			d = 1
		}
	}
	for i := 0; i < d; i++ {
		t = ListOf(t, r.Chance(0.5))
	}
	return t
}

// RandomSchema builds a random valid schema.
func RandomSchema(r *core.Rng, o SchemaOpts) *Schema {
	s := &Schema{}
	used := map[string]bool{"Query": true, "Mutation": true, "Subscription": true}
	var leafTypes = []string{"Int", "Float", "String", "Boolean", "ID"}
	if o.Custom {
		nc := 1 + r.Intn(2)
		if o.AllCustom {
			nc = len(customScalars)
		}
		for _, c := range pickDistinct(r, customScalars, nc, used) {
			s.add(&TypeDef{Kind: "SCALAR", Name: c})
			leafTypes = append(leafTypes, c)
		}
	}
	var enums []string
	for _, e := range pickDistinct(r, enumNames, r.Intn(3), used) {
		vals := pickDistinct(r, enumValuePool, 2+r.Intn(3), map[string]bool{})
		s.add(&TypeDef{Kind: "ENUM", Name: e, Values: vals})
		enums = append(enums, e)
		leafTypes = append(leafTypes, e)
	}
	// input objects
	var inputs []string
	if o.Inputs {
		names := pickDistinct(r, inputNames, r.Intn(4), used)
		for _, n := range names {
			s.add(&TypeDef{Kind: "INPUT", Name: n})
			inputs = append(inputs, n)
		}
		for _, n := range names {
			t := s.Get(n)
			for _, fn := range pickDistinct(r, inputFieldNames, 1+r.Intn(4), map[string]bool{}) {
				var ft *TypeRef
				if r.Chance(0.3) && len(inputs) > 0 {
					// nested / recursive input: keep it nullable or a list so that values are finite
					in := inputs[r.Intn(len(inputs))]
					ft = Named(in, false)
					if r.Chance(0.4) {
						ft = ListOf(Named(in, true), r.Chance(0.3))
					}
				} else {
					ft = wrap(r, leafTypes[r.Intn(len(leafTypes))], 2)
				}
				a := &Arg{Name: fn, Type: ft}
				if ft.Elem == nil && builtinScalars[ft.Name] && r.Chance(0.2) {
					a.Default = literalFor(s, ft, r, 0)
				}
				t.Inputs = append(t.Inputs, a)
			}
		}
	}
	// composite output types
	nObj := 2 + r.Intn(o.MaxObjects-1)
	objs := pickDistinct(r, objNames, nObj, used)
	var ifaces, unions []string
	if o.Interfaces {
		ifaces = pickDistinct(r, ifaceNames, r.Intn(3), used)
	}
	if o.Unions {
		unions = pickDistinct(r, unionNames, r.Intn(2), used)
	}
	composites := append(append(append([]string{}, objs...), ifaces...), unions...)
	randFieldType := func() *TypeRef {
		if r.Chance(0.45) {
			return wrap(r, composites[r.Intn(len(composites))], o.ListDepth)
		}
		return wrap(r, leafTypes[r.Intn(len(leafTypes))], o.ListDepth)
	}
	randArgs := func() []*Arg {
		if !r.Chance(0.3) {
			return nil
		}
		var as []*Arg
		for _, an := range pickDistinct(r, inputFieldNames, 1+r.Intn(2), map[string]bool{}) {
			var at *TypeRef
			if len(inputs) > 0 && r.Chance(0.4) {
				at = wrap(r, inputs[r.Intn(len(inputs))], 1)
			} else {
				at = wrap(r, leafTypes[r.Intn(len(leafTypes))], 2)
			}
			as = append(as, &Arg{Name: an, Type: at})
		}
		return as
	}
	// interfaces first (their fields are copied into implementers)
	for _, in := range ifaces {
		t := s.add(&TypeDef{Kind: "INTERFACE", Name: in})
		for _, fn := range pickDistinct(r, fieldNames, 1+r.Intn(3), map[string]bool{}) {
			t.Fields = append(t.Fields, &FieldDef{Name: fn, Type: randFieldType(), Args: randArgs()})
		}
	}
	for _, on := range objs {
		t := s.add(&TypeDef{Kind: "OBJECT", Name: on})
		usedF := map[string]bool{}
		for _, in := range ifaces {
			if r.Chance(0.5) {
				ok := true
				for _, f := range s.Get(in).Fields {
					if usedF[f.Name] {
						ok = false
					}
				}
				if !ok {
					continue
				}
				t.Implements = append(t.Implements, in)
				for _, f := range s.Get(in).Fields {
					usedF[f.Name] = true
					t.Fields = append(t.Fields, &FieldDef{Name: f.Name, Type: f.Type, Args: f.Args})
				}
			}
		}
		for _, fn := range pickDistinct(r, fieldNames, 1+r.Intn(4), usedF) {
			t.Fields = append(t.Fields, &FieldDef{Name: fn, Type: randFieldType(), Args: randArgs()})
		}
	}
	// every interface needs at least one implementer (else its selections can never match)
	for _, in := range ifaces {
		if len(s.PossibleTypes(in)) == 0 {
			for _, on := range objs {
				o := s.Get(on)
				clash := false
				for _, f := range s.Get(in).Fields {
					if s.Field(on, f.Name) != nil {
						clash = true
					}
				}
				if clash {
					continue
				}
				o.Implements = append(o.Implements, in)
				for _, f := range s.Get(in).Fields {
					o.Fields = append(o.Fields, &FieldDef{Name: f.Name, Type: f.Type, Args: f.Args})
				}
				break
			}
		}
	}
	for _, un := range unions {
		t := s.add(&TypeDef{Kind: "UNION", Name: un})
		t.Members = pickDistinct(r, objs, 1+r.Intn(min(3, len(objs))), map[string]bool{})
		sort.Strings(t.Members)
	}
	// drop interfaces that ended without implementers
	var kept []*TypeDef
	dropped := map[string]bool{}
	for _, t := range s.Types {
		if t.Kind == "INTERFACE" && len(s.PossibleTypes(t.Name)) == 0 {
			dropped[t.Name] = true
			continue
		}
		kept = append(kept, t)
	}
	s.Types = kept
	s.by = nil
	if len(dropped) > 0 {
		for _, t := range s.Types {
			for _, f := range t.Fields {
				if dropped[f.Type.Base()] {
					b := f.Type
					for b.Elem != nil {
						b = b.Elem
					}
					b.Name = objs[0]
				}
			}
		}
	}
	// roots
	q := &TypeDef{Kind: "OBJECT", Name: "Query"}
	usedQ := map[string]bool{}
	for _, c := range composites {
		if dropped[c] {
			continue
		}
		fn := pickDistinct(r, fieldNames, 1, usedQ)
		if len(fn) == 0 {
			break
		}
		q.Fields = append(q.Fields, &FieldDef{Name: fn[0], Type: wrap(r, c, o.ListDepth), Args: randArgs()})
	}
	for _, fn := range pickDistinct(r, fieldNames, 1+r.Intn(2), usedQ) {
		q.Fields = append(q.Fields, &FieldDef{Name: fn, Type: wrap(r, leafTypes[r.Intn(len(leafTypes))], 2), Args: randArgs()})
	}
	s.Types = append([]*TypeDef{q}, s.Types...)
	s.by = nil
	if r.Chance(0.5) {
		s.Mutation = true
		m := &TypeDef{Kind: "OBJECT", Name: "Mutation"}
		for _, fn := range pickDistinct(r, fieldNames, 1+r.Intn(2), map[string]bool{}) {
			var as []*Arg
			if len(inputs) > 0 {
				as = []*Arg{{Name: "input", Type: Named(inputs[r.Intn(len(inputs))], r.Chance(0.6))}}
			} else {
				as = []*Arg{{Name: "id", Type: Named("ID", true)}}
			}
			m.Fields = append(m.Fields, &FieldDef{Name: fn, Type: wrap(r, composites0(composites, dropped, r), 1), Args: as})
		}
		s.add(m)
	}
	if r.Chance(0.25) {
		s.Subscription = true
		sub := &TypeDef{Kind: "OBJECT", Name: "Subscription"}
		sub.Fields = append(sub.Fields, &FieldDef{Name: "updates", Type: Named(composites0(composites, dropped, r), false)})
		s.add(sub)
	}
	return s
}

func composites0(cs []string, dropped map[string]bool, r *core.Rng) string {
	for i := 0; i < 20; i++ {
		c := cs[r.Intn(len(cs))]
		if !dropped[c] {
			return c
		}
	}
	return cs[0]
}

func min(a, b int) int {
	if a < b {
		return a
	}
	return b
}

// Exotic switches on string literals that stress the printer (escapes, block strings, unicode).
var Exotic bool
var ExoticStrings = []string{`"tab\tnewline\nend"`, `"back\\slash"`, `"""block string"""`, `"""multi
line block"""`, `"emoji 😀"`, `"\u00e9 escaped"`, `"slash \/ ok"`, `"# not a comment"`, `"$notAVar"`, `"{braces} [brackets]"`}

// literalFor renders a GraphQL literal of the given (input) type.
func literalFor(s *Schema, t *TypeRef, r *core.Rng, depth int) string {
	if !t.NonNull && r.Chance(0.1) {
		return "null"
	}
	if t.Elem != nil {
		n := r.Intn(3)
		if depth >= 3 {
			n = 0
		}
		var xs []string
		for i := 0; i < n; i++ {
			xs = append(xs, literalFor(s, t.Elem, r, depth+1))
		}
		return "[" + strings.Join(xs, ", ") + "]"
	}
	switch t.Name {
	case "Int":
		return fmt.Sprint(r.Intn(100))
	case "Float":
		return fmt.Sprintf("%d.5", r.Intn(10))
	case "String":
		if Exotic && r.Chance(0.5) {
			return ExoticStrings[r.Intn(len(ExoticStrings))]
		}
		return []string{`"s"`, `"hello world"`, `"with \"quotes\""`, `"unicode é"`, `""`}[r.Intn(5)]
	case "Boolean":
		return []string{"true", "false"}[r.Intn(2)]
	case "ID":
		return []string{`"id1"`, `42`}[r.Intn(2)]
	}
	td := s.Get(t.Name)
	if td == nil {
		return `"x"`
	}
	switch td.Kind {
	case "ENUM":
		return td.Values[r.Intn(len(td.Values))]
	case "SCALAR":
		return `"2020-01-02"`
	case "INPUT":
		var fs []string
		for _, a := range td.Inputs {
			required := a.Type.NonNull && a.Default == ""
			if required || (depth < 2 && r.Chance(0.4)) {
				if !required && depth >= 2 {
					continue
				}
				fs = append(fs, a.Name+": "+literalFor(s, a.Type, r, depth+1))
			}
		}
		return "{" + strings.Join(fs, ", ") + "}"
	}
	return `"x"`
}
