package gen

import (
	"fmt"
	"strings"

	"verifharness/core"
)

// SplitInfo describes how one enum was spread over files (for the order prediction).
type SplitInfo struct {
	Enum  string              `json:"enum"`
	Files map[string][2][]string `json:"files"` // file -> (values defined there, values added by extend there)
}

// SplitSDL spreads the schema over n files: each type definition goes to a random file; enums
// (and input objects) may be cut into a base definition plus `extend` blocks in other files.
func SplitSDL(r *core.Rng, s *Schema, n int) (map[string]string, []*SplitInfo) {
	names := make([]string, n)
	bufs := make([]*strings.Builder, n)
	for i := range names {
		names[i] = fmt.Sprintf("schema/s%d_%c.graphql", r.Intn(90)+10, 'a'+byte(r.Intn(26)))
		for j := 0; j < i; j++ {
			if names[j] == names[i] {
				names[i] = fmt.Sprintf("schema/t%d.graphql", i)
			}
		}
		bufs[i] = &strings.Builder{}
	}
	var infos []*SplitInfo
	for _, t := range s.Types {
		home := r.Intn(n)
		switch {
		case t.Kind == "ENUM" && len(t.Values) >= 2 && n > 1:
			info := &SplitInfo{Enum: t.Name, Files: map[string][2][]string{}}
			k := 1 + r.Intn(len(t.Values)-1)
			base := &TypeDef{Kind: "ENUM", Name: t.Name, Values: t.Values[:k]}
			bufs[home].WriteString(s.typeSDL(base))
			e := info.Files[names[home]]
			e[0] = append(e[0], t.Values[:k]...)
			info.Files[names[home]] = e
			for _, v := range t.Values[k:] {
				f := r.Intn(n)
				fmt.Fprintf(bufs[f], "extend enum %s {\n  %s\n}\n", t.Name, v)
				e := info.Files[names[f]]
				e[1] = append(e[1], v)
				info.Files[names[f]] = e
			}
			infos = append(infos, info)
		case t.Kind == "INPUT" && len(t.Inputs) >= 2 && n > 1 && r.Chance(0.6):
			k := 1 + r.Intn(len(t.Inputs)-1)
			base := &TypeDef{Kind: "INPUT", Name: t.Name, Inputs: t.Inputs[:k]}
			bufs[home].WriteString(s.typeSDL(base))
			for _, a := range t.Inputs[k:] {
				f := r.Intn(n)
				x := a.Name + ": " + a.Type.String()
				if a.Default != "" {
					x += " = " + a.Default
				}
				fmt.Fprintf(bufs[f], "extend input %s {\n  %s\n}\n", t.Name, x)
			}
		default:
			bufs[home].WriteString(s.typeSDL(t))
		}
	}
	out := map[string]string{}
	for i, nm := range names {
		text := bufs[i].String()
		if text == "" {
			text = "# empty\n"
		}
		out[nm] = text
	}
	return out, infos
}
