module verifharness

go 1.22.5

require (
	github.com/Khan/genqlient v0.0.0
	github.com/vektah/gqlparser/v2 v2.5.19
	golang.org/x/tools v0.24.0
)

require (
	github.com/agnivade/levenshtein v1.1.1 // indirect
	github.com/alexflint/go-arg v1.5.1 // indirect
	github.com/alexflint/go-scalar v1.2.0 // indirect
	github.com/bmatcuk/doublestar/v4 v4.6.1 // indirect
	github.com/google/uuid v1.6.0 // indirect
	golang.org/x/mod v0.20.0 // indirect
	golang.org/x/sync v0.8.0 // indirect
	gopkg.in/yaml.v2 v2.4.0 // indirect
)

replace github.com/Khan/genqlient => /repo
