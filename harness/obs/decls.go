// Package obs: observers of what the generator emitted.
package obs

import (
	"fmt"
	"go/ast"
	"go/parser"
	"go/token"
	"reflect"
	"sort"
	"strconv"
	"strings"

	"verifharness/coqfmt"
)

type ODecl struct {
	Kind    string      `json:"kind"` // struct | iface | enum | alias
	Name    string      `json:"name"`
	Fields  [][3]string `json:"fields,omitempty"`  // go name ("" embedded), type, json tag
	Methods [][2]string `json:"methods,omitempty"` // interface getters: name, result type
	Embeds  []string    `json:"embeds,omitempty"`
	Impls   []string    `json:"impls,omitempty"`
	Values  [][2]string `json:"values,omitempty"` // enum: constant, string value
	Builtin string      `json:"builtin,omitempty"`
}

type Emitted struct {
	Decls    []*ODecl
	Response map[string]string // operation function -> response type reference
	Getters  map[string][][2]string
	// Dispatch: Go interface name -> GraphQL __typename -> implementation struct, read from the
	// switch of the generated __unmarshal<Interface> helper
	Dispatch map[string]map[string]string
	// Premarshal: struct name -> Go field name -> JSON key, from the __premarshal<Struct> type
	Premarshal map[string]map[string]string
}

func readDispatch(fd *ast.FuncDecl) map[string]string {
	out := map[string]string{}
	ast.Inspect(fd.Body, func(n ast.Node) bool {
		cc, ok := n.(*ast.CaseClause)
		if !ok || len(cc.List) != 1 {
			return true
		}
		bl, ok := cc.List[0].(*ast.BasicLit)
		if !ok {
			return true
		}
		tn, _ := strconv.Unquote(bl.Value)
		for _, st := range cc.Body {
			ast.Inspect(st, func(m ast.Node) bool {
				if ce, ok := m.(*ast.CallExpr); ok {
					if id, ok := ce.Fun.(*ast.Ident); ok && id.Name == "new" && len(ce.Args) == 1 {
						if a, ok := ce.Args[0].(*ast.Ident); ok {
							out[tn] = a.Name
						}
					}
				}
				return true
			})
		}
		return true
	})
	return out
}

type printer struct{ imports map[string]string }

func (p *printer) expr(e ast.Expr) string {
	switch e := e.(type) {
	case *ast.Ident:
		return e.Name
	case *ast.SelectorExpr:
		if id, ok := e.X.(*ast.Ident); ok {
			if path, ok := p.imports[id.Name]; ok {
				return path + "." + e.Sel.Name
			}
			return id.Name + "." + e.Sel.Name
		}
		return p.expr(e.X) + "." + e.Sel.Name
	case *ast.StarExpr:
		return "*" + p.expr(e.X)
	case *ast.ArrayType:
		if e.Len == nil {
			return "[]" + p.expr(e.Elt)
		}
		return "[" + p.expr(e.Len) + "]" + p.expr(e.Elt)
	case *ast.MapType:
		return "map[" + p.expr(e.Key) + "]" + p.expr(e.Value)
	case *ast.IndexExpr:
		return p.expr(e.X) + "[" + p.expr(e.Index) + "]"
	case *ast.InterfaceType:
		return "interface{}"
	case *ast.BasicLit:
		return e.Value
	case *ast.ChanType:
		return "chan " + p.expr(e.Value)
	}
	return fmt.Sprintf("<%T>", e)
}

// ReadEmitted parses the generated file.
func ReadEmitted(src []byte, opNames map[string]bool) (*Emitted, error) {
	fset := token.NewFileSet()
	f, err := parser.ParseFile(fset, "generated.go", src, 0)
	if err != nil {
		return nil, err
	}
	p := &printer{imports: map[string]string{}}
	for _, im := range f.Imports {
		path, _ := strconv.Unquote(im.Path.Value)
		alias := path[strings.LastIndex(path, "/")+1:]
		if im.Name != nil {
			alias = im.Name.Name
		}
		p.imports[alias] = path
	}
	em := &Emitted{Response: map[string]string{}, Getters: map[string][][2]string{}, Dispatch: map[string]map[string]string{}, Premarshal: map[string]map[string]string{}}
	byName := map[string]*ODecl{}
	allVars := map[string]bool{}
	consts := map[string][][2]string{}
	impls := map[string][]string{}
	wsResp := map[string]string{}
	for _, d := range f.Decls {
		switch d := d.(type) {
		case *ast.GenDecl:
			for _, s := range d.Specs {
				switch s := s.(type) {
				case *ast.TypeSpec:
					n := s.Name.Name
					if strings.HasPrefix(n, "__premarshal") {
						if st, ok := s.Type.(*ast.StructType); ok {
							m := map[string]string{}
							for _, fl := range st.Fields.List {
								tag := ""
								if fl.Tag != nil {
									raw, _ := strconv.Unquote(fl.Tag.Value)
									tag = strings.Split(reflect.StructTag(raw).Get("json"), ",")[0]
								}
								for _, nm := range fl.Names {
									m[nm.Name] = tag
								}
							}
							em.Premarshal[strings.TrimPrefix(n, "__premarshal")] = m
						}
						continue
					}
					if strings.HasSuffix(n, "WsResponse") {
						if ix, ok := s.Type.(*ast.IndexExpr); ok {
							wsResp[strings.TrimSuffix(n, "WsResponse")] = strings.TrimPrefix(p.expr(ix.Index), "*")
							continue
						}
					}
					od := &ODecl{Name: n}
					switch t := s.Type.(type) {
					case *ast.StructType:
						od.Kind = "struct"
						for _, fl := range t.Fields.List {
							tag := ""
							if fl.Tag != nil {
								raw, _ := strconv.Unquote(fl.Tag.Value)
								tag = reflect.StructTag(raw).Get("json")
							}
							typ := p.expr(fl.Type)
							if len(fl.Names) == 0 {
								od.Fields = append(od.Fields, [3]string{"", typ, tag})
							}
							for _, nm := range fl.Names {
								od.Fields = append(od.Fields, [3]string{nm.Name, typ, tag})
							}
						}
					case *ast.InterfaceType:
						od.Kind = "iface"
						for _, m := range t.Methods.List {
							if len(m.Names) == 0 {
								od.Embeds = append(od.Embeds, p.expr(m.Type))
								continue
							}
							mn := m.Names[0].Name
							if strings.HasPrefix(mn, "implementsGraphQLInterface") {
								continue
							}
							ft := m.Type.(*ast.FuncType)
							res := ""
							if ft.Results != nil && len(ft.Results.List) > 0 {
								res = p.expr(ft.Results.List[0].Type)
							}
							od.Methods = append(od.Methods, [2]string{mn, res})
						}
					default:
						od.Kind = "alias"
						od.Builtin = p.expr(s.Type)
					}
					byName[n] = od
					em.Decls = append(em.Decls, od)
				case *ast.ValueSpec:
					if d.Tok == token.VAR {
						for _, nm := range s.Names {
							if strings.HasPrefix(nm.Name, "All") {
								allVars[strings.TrimPrefix(nm.Name, "All")] = true
							}
						}
					}
					if d.Tok == token.CONST && s.Type != nil {
						tn := p.expr(s.Type)
						for i, nm := range s.Names {
							if i < len(s.Values) {
								if bl, ok := s.Values[i].(*ast.BasicLit); ok {
									v, _ := strconv.Unquote(bl.Value)
									consts[tn] = append(consts[tn], [2]string{nm.Name, v})
								}
							}
						}
					}
				}
			}
		case *ast.FuncDecl:
			if d.Recv != nil && len(d.Recv.List) == 1 {
				recv := strings.TrimPrefix(p.expr(d.Recv.List[0].Type), "*")
				if strings.HasPrefix(d.Name.Name, "implementsGraphQLInterface") {
					in := strings.TrimPrefix(d.Name.Name, "implementsGraphQLInterface")
					impls[in] = append(impls[in], recv)
				} else if strings.HasPrefix(d.Name.Name, "Get") && d.Type.Results != nil && len(d.Type.Results.List) == 1 {
					em.Getters[recv] = append(em.Getters[recv], [2]string{d.Name.Name, p.expr(d.Type.Results.List[0].Type)})
				}
				continue
			}
			if d.Recv == nil && strings.HasPrefix(d.Name.Name, "__unmarshal") && d.Body != nil {
				em.Dispatch[strings.TrimPrefix(d.Name.Name, "__unmarshal")] = readDispatch(d)
			}
			if d.Recv == nil && opNames[d.Name.Name] && d.Type.Results != nil && len(d.Type.Results.List) > 0 {
				em.Response[d.Name.Name] = strings.TrimPrefix(p.expr(d.Type.Results.List[0].Type), "*")
			}
		}
	}
	for op, r := range wsResp {
		if opNames[op] {
			em.Response[op] = r
		}
	}
	for _, od := range em.Decls {
		switch od.Kind {
		case "iface":
			od.Impls = impls[od.Name]
		case "alias":
			if allVars[od.Name] {
				od.Kind = "enum"
				od.Values = consts[od.Name]
				od.Builtin = ""
			}
		}
	}
	sort.Slice(em.Decls, func(i, j int) bool { return em.Decls[i].Name < em.Decls[j].Name })
	return em, nil
}

func pairList(ps [][2]string) string {
	var items []string
	for _, p := range ps {
		items = append(items, coqfmt.Pair(coqfmt.Str(p[0]), coqfmt.Str(p[1])))
	}
	return coqfmt.List(items)
}

func (d *ODecl) Term() string {
	switch d.Kind {
	case "struct":
		var fs []string
		for _, f := range d.Fields {
			fs = append(fs, "("+coqfmt.Str(f[0])+", "+coqfmt.Str(f[1])+", "+coqfmt.Str(f[2])+")")
		}
		return "OStruct " + coqfmt.Str(d.Name) + " " + coqfmt.List(fs)
	case "iface":
		return "OIface " + coqfmt.Str(d.Name) + " " + pairList(d.Methods) + " " + coqfmt.StrList(d.Embeds) + " " + coqfmt.StrList(d.Impls)
	case "enum":
		return "OEnum " + coqfmt.Str(d.Name) + " " + pairList(d.Values)
	}
	return "OAlias " + coqfmt.Str(d.Name) + " " + coqfmt.Str(d.Builtin)
}

func DeclsTerm(ds []*ODecl) string {
	var items []string
	for _, d := range ds {
		items = append(items, d.Term())
	}
	return coqfmt.List(items)
}
