// Package c11: HTTP clients encode requests losslessly and gate operation kinds.
package c11

import (
	"bytes"
	"context"
	"encoding/json"
	"fmt"
	"io"
	"net/http"
	"net/url"
	"os"
	"path/filepath"
	"reflect"
	"strings"
	"sync"
	"time"
	"unicode/utf8"

	"github.com/Khan/genqlient/graphql"
	"github.com/vektah/gqlparser/v2/ast"
	"github.com/vektah/gqlparser/v2/parser"

	"verifharness/coqfmt"
	"verifharness/core"
)

type Case struct {
	ID        string          `json:"id"`
	Method    string          `json:"method"` // GET | POST
	Endpoint  string          `json:"endpoint"`
	Query     string          `json:"query"`
	OpName    string          `json:"op_name"`
	Variables json.RawMessage `json:"variables"` // null => nil
	Kind      string          `json:"kind"`      // how the query text was produced
}

type Obs struct {
	Err        string `json:"err,omitempty"`
	DoCalls    int    `json:"do_calls"`
	Method     string `json:"method,omitempty"`
	URL        string `json:"url,omitempty"`
	Body       string `json:"body,omitempty"`
	CT         string `json:"content_type,omitempty"`
	CtxOK      bool   `json:"ctx_ok"`
	Panicked   string `json:"panicked,omitempty"`
}

type ctxKey struct{}

type stubDoer struct {
	calls      int
	req        *http.Request
	body       []byte
	beforeRead func() // runs inside Do before the request body is read
}

func (d *stubDoer) Do(r *http.Request) (*http.Response, error) {
	d.calls++
	d.req = r
	if d.beforeRead != nil {
		d.beforeRead()
	}
	if r.Body != nil {
		d.body, _ = io.ReadAll(r.Body)
	}
	return &http.Response{StatusCode: 200, Body: io.NopCloser(strings.NewReader(`{"data":null}`)), Header: http.Header{}}, nil
}

// swDoer lets several requests share ONE client while each is observed by its own stub.
type swDoer struct{ cur *stubDoer }

func (d *swDoer) Do(r *http.Request) (*http.Response, error) { return d.cur.Do(r) }

// observeOn runs one request on an existing client (whose Doer is sw).
func observeOn(cl graphql.Client, sw *swDoer, c *Case) (o *Obs) {
	o = &Obs{}
	defer func() {
		if v := recover(); v != nil {
			o.Panicked = fmt.Sprint(v)
		}
	}()
	d := &stubDoer{}
	sw.cur = d
	marker := &struct{ x int }{42}
	ctx := context.WithValue(context.Background(), ctxKey{}, marker)
	req := &graphql.Request{Query: c.Query, OpName: c.OpName, Variables: variablesValue(c)}
	var data interface{}
	resp := &graphql.Response{Data: &data}
	err := cl.MakeRequest(ctx, req, resp)
	o.DoCalls = d.calls
	if err != nil {
		o.Err = err.Error()
	}
	if d.req != nil {
		o.Method = d.req.Method
		o.URL = d.req.URL.String()
		o.Body = string(d.body)
		o.CT = d.req.Header.Get("Content-Type")
		o.CtxOK = d.req.Context().Value(ctxKey{}) == interface{}(marker)
	}
	return o
}

func variablesValue(c *Case) interface{} {
	if len(c.Variables) == 0 || string(c.Variables) == "null" {
		return nil
	}
	var v interface{}
	dec := json.NewDecoder(bytes.NewReader(c.Variables))
	dec.UseNumber()
	if err := dec.Decode(&v); err != nil {
		return nil
	}
	return v
}

func Observe(c *Case) (o *Obs) { return ObserveWith(c, nil) }

// ObserveWith runs one request; beforeRead (if any) runs inside Do before the body is read,
// which lets a history interleave a second request between building and sending the first.
func ObserveWith(c *Case, beforeRead func()) (o *Obs) {
	o = &Obs{}
	defer func() {
		if v := recover(); v != nil {
			o.Panicked = fmt.Sprint(v)
		}
	}()
	d := &stubDoer{beforeRead: beforeRead}
	var cl graphql.Client
	if c.Method == "GET" {
		cl = graphql.NewClientUsingGet(c.Endpoint, d)
	} else {
		cl = graphql.NewClient(c.Endpoint, d)
	}
	marker := &struct{ x int }{42}
	ctx := context.WithValue(context.Background(), ctxKey{}, marker)
	req := &graphql.Request{Query: c.Query, OpName: c.OpName, Variables: variablesValue(c)}
	var data interface{}
	resp := &graphql.Response{Data: &data}
	err := cl.MakeRequest(ctx, req, resp)
	o.DoCalls = d.calls
	if err != nil {
		o.Err = err.Error()
	}
	if d.req != nil {
		o.Method = d.req.Method
		o.URL = d.req.URL.String()
		o.Body = string(d.body)
		o.CT = d.req.Header.Get("Content-Type")
		o.CtxOK = d.req.Context().Value(ctxKey{}) == interface{}(marker)
	}
	return o
}

// selectedKind determines, independently of the client's textual test, the kind of the
// operation the server would execute: by gqlparser. "" when the text does not parse.
func selectedKind(c *Case) (kind string, first string) {
	doc, err := parser.ParseQuery(&ast.Source{Input: c.Query})
	if err != nil || len(doc.Operations) == 0 {
		return "", ""
	}
	first = string(doc.Operations[0].Operation)
	for _, op := range doc.Operations {
		if op.Name == c.OpName && c.OpName != "" {
			return string(op.Operation), first
		}
	}
	return first, first
}

func errClass(e string) string {
	switch {
	case e == "":
		return ""
	case strings.Contains(e, "does not support mutations"):
		return "NoMutations"
	case strings.Contains(e, "does not support subscriptions"):
		return "NoSubscriptions"
	}
	return "Other"
}

func textuallyHidden(q, kw string) bool {
	return !strings.HasPrefix(strings.TrimSpace(q), kw)
}

// Oracle checks the property on the implementation's observable behaviour.
func Oracle(c *Case, o *Obs) (class, what string) {
	if o.Panicked != "" {
		return "C11/panic", o.Panicked
	}
	kind, _ := selectedKind(c)
	forbidden := (c.Method == "GET" && (kind == "mutation" || kind == "subscription")) ||
		(c.Method == "POST" && kind == "subscription")
	if forbidden {
		if o.DoCalls > 0 {
			if textuallyHidden(c.Query, kind) {
				return "C11/gate-textual-prefix-bypass", fmt.Sprintf("%s client transmitted a %s whose keyword is not the first token of the text (%q...)", c.Method, kind, head(c.Query))
			}
			return "C11/gate-miss", fmt.Sprintf("%s client transmitted a %s (%q...)", c.Method, kind, head(c.Query))
		}
		if o.Err == "" {
			return "C11/gate-no-error", "no request and no error"
		}
		return "", ""
	}
	if o.DoCalls == 0 {
		if kind == "query" || (kind == "mutation" && c.Method == "POST") {
			// the textual gate looks at the first keyword of the text, not at the selected operation
			if _, first := selectedKind(c); first != kind && errClass(o.Err) != "Other" {
				return "C11/refused-allowed-kind/first-operation-is-not-the-selected-one", fmt.Sprintf("%s client refused a %s because the document's FIRST operation is a %s: %s", c.Method, kind, first, o.Err)
			}
			return "C11/refused-allowed-kind", fmt.Sprintf("%s client refused a %s: %s", c.Method, kind, o.Err)
		}
		if kind == "" && errClass(o.Err) != "" && errClass(o.Err) != "Other" {
			return "", "" // unparsable text refused by the textual gate: allowed
		}
		if o.Err == "" {
			return "C11/no-request-no-error", "Do not called and no error"
		}
		return "", "" // e.g. unparsable endpoint
	}
	if o.DoCalls != 1 {
		return "C11/do-count", fmt.Sprintf("Do called %d times", o.DoCalls)
	}
	if o.CT != "application/json" {
		return "C11/content-type", "Content-Type = " + o.CT
	}
	if !o.CtxOK {
		return "C11/context", "caller's context not attached to the request"
	}
	if o.Method != c.Method {
		return "C11/method", "method " + o.Method
	}
	wantVars := variablesValue(c)
	if c.Method == "POST" {
		var m map[string]json.RawMessage
		if err := json.Unmarshal([]byte(o.Body), &m); err != nil {
			return "C11/post-body-not-json", err.Error()
		}
		var q, n string
		if err := json.Unmarshal(m["query"], &q); err != nil || q != c.Query {
			return "C11/post-query", fmt.Sprintf("body query %q != %q", q, c.Query)
		}
		if err := json.Unmarshal(m["operationName"], &n); err != nil || n != c.OpName {
			return "C11/post-opname", fmt.Sprintf("body operationName %q != %q", n, c.OpName)
		}
		raw, has := m["variables"]
		if (wantVars == nil) == has {
			return "C11/post-variables-presence", fmt.Sprintf("variables key present=%v, request variables nil=%v", has, wantVars == nil)
		}
		if has && !jsonEqual(raw, c.Variables) {
			return "C11/post-variables", fmt.Sprintf("body variables %s != %s", raw, c.Variables)
		}
		for k := range m {
			if k != "query" && k != "operationName" && k != "variables" {
				return "C11/post-extra-key", k
			}
		}
		if o.URL != c.Endpoint {
			if u, err := url.Parse(c.Endpoint); err != nil || u.String() != o.URL {
				return "C11/post-url", o.URL
			}
		}
		return "", ""
	}
	// GET
	got, err := url.Parse(o.URL)
	if err != nil {
		return "C11/get-url-unparsable", err.Error()
	}
	orig, err := url.Parse(c.Endpoint)
	if err != nil {
		return "", ""
	}
	if got.Scheme != orig.Scheme || got.Host != orig.Host || got.EscapedPath() != orig.EscapedPath() {
		return "C11/get-base", fmt.Sprintf("base changed: %s vs %s", o.URL, c.Endpoint)
	}
	if got.EscapedFragment() != orig.EscapedFragment() {
		return "C11/get-fragment", fmt.Sprintf("fragment %q vs %q", got.Fragment, orig.Fragment)
	}
	gq, gerr := url.ParseQuery(got.RawQuery)
	if gerr != nil && (c.Query != "" || c.OpName != "" || wantVars != nil) {
		return "C11/get-query-unparsable", gerr.Error()
	}
	oq, oerr := url.ParseQuery(orig.RawQuery)
	expect := func(k, v string, set bool) (string, string) {
		if set {
			if vs := gq[k]; len(vs) != 1 || vs[0] != v {
				return "C11/get-" + k, fmt.Sprintf("decoded %s = %q, want [%q]", k, gq[k], v)
			}
		} else if !reflect.DeepEqual(gq[k], oq[k]) {
			return "C11/get-" + k + "-unset", fmt.Sprintf("decoded %s = %q, endpoint had %q", k, gq[k], oq[k])
		}
		return "", ""
	}
	if cl, w := expect("query", c.Query, c.Query != ""); cl != "" {
		return cl, w
	}
	if cl, w := expect("operationName", c.OpName, c.OpName != ""); cl != "" {
		return cl, w
	}
	if wantVars != nil {
		vs := gq["variables"]
		if len(vs) != 1 || !jsonEqual([]byte(vs[0]), c.Variables) {
			return "C11/get-variables", fmt.Sprintf("decoded variables = %q, want %s", vs, c.Variables)
		}
	} else if !reflect.DeepEqual(gq["variables"], oq["variables"]) {
		return "C11/get-variables-unset", "variables parameter changed"
	}
	for k, vs := range oq {
		if k == "query" || k == "operationName" || k == "variables" {
			continue
		}
		if !reflect.DeepEqual(gq[k], vs) {
			return "C11/get-other-param", fmt.Sprintf("endpoint parameter %q: %q became %q", k, vs, gq[k])
		}
	}
	for k := range gq {
		if _, ok := oq[k]; !ok && k != "query" && k != "operationName" && k != "variables" {
			return "C11/get-new-param", k
		}
	}
	if oerr != nil && (c.Query != "" || c.OpName != "" || wantVars != nil) {
		// the endpoint had segments net/url cannot decode (bad escape, ';'): they must survive verbatim
		for _, seg := range strings.Split(orig.RawQuery, "&") {
			if _, e := url.ParseQuery(seg); e != nil && !strings.Contains("&"+got.RawQuery+"&", "&"+seg+"&") {
				return "C11/get-drops-unparseable-endpoint-params", fmt.Sprintf("endpoint query segment %q was dropped from %q", seg, got.RawQuery)
			}
		}
	}
	return "", ""
}

func head(s string) string {
	if len(s) > 40 {
		return s[:40]
	}
	return s
}

func jsonEqual(a, b []byte) bool {
	var x, y interface{}
	if json.Unmarshal(a, &x) != nil || json.Unmarshal(b, &y) != nil {
		return false
	}
	return reflect.DeepEqual(x, y)
}

// ---------- generators ----------
var runes = []rune{'a', 'Z', '0', ' ', '&', '=', '+', '%', '#', '?', '/', ';', ':', '"', '\'', '<', '>', '\\', '\n', '\t', 'é', 'ß', '中', '🙂', '~', '-', '_', '.', '{', '}', '$', '!', '@', ',', 0x2028, 0x7f, 0x01}

func randText(r *core.Rng, max int) string {
	n := r.Intn(max + 1)
	var sb strings.Builder
	for i := 0; i < n; i++ {
		sb.WriteRune(runes[r.Intn(len(runes))])
	}
	return sb.String()
}

func randName(r *core.Rng) string {
	const a = "abcXYZ_09"
	n := 1 + r.Intn(6)
	bs := make([]byte, n)
	for i := range bs {
		bs[i] = a[r.Intn(len(a))]
		if i == 0 && bs[i] >= '0' && bs[i] <= '9' {
			bs[i] = 'q'
		}
	}
	return string(bs)
}

func randJSON(r *core.Rng, depth int) interface{} {
	switch k := r.Intn(7); {
	case k == 0:
		return nil
	case k == 1:
		return r.Chance(0.5)
	case k == 2:
		return r.Intn(100000) - 500
	case k == 3:
		return randText(r, 8)
	case k == 4 && depth > 0:
		n := r.Intn(3)
		l := make([]interface{}, n)
		for i := range l {
			l[i] = randJSON(r, depth-1)
		}
		return l
	case k >= 5 && depth > 0:
		n := r.Intn(3)
		m := map[string]interface{}{}
		for i := 0; i < n; i++ {
			m[randText(r, 4)] = randJSON(r, depth-1)
		}
		return m
	}
	return 1.5
}

func genQuery(r *core.Rng) (string, string) {
	name := randName(r)
	body := " { f(a: \"" + strings.ReplaceAll(strings.ReplaceAll(randText(r, 5), "\\", ""), "\"", "") + "\") }"
	body = strings.Map(func(c rune) rune {
		if c < 0x20 || c == 0x7f || c == 0x2028 {
			return 'x'
		}
		return c
	}, body)
	kw := r.Pick([]string{"query", "query", "mutation", "subscription"})
	switch r.Intn(12) {
	case 0, 1, 2, 3, 4:
		return "\n" + kw + " " + name + body + "\n", "emitted"
	case 5:
		return r.Pick([]string{" ", "\t\n", "\r\n  ", " ", "\u0085"}) + kw + " " + name + body, "leading-space"
	case 6:
		return kw + r.Pick([]string{"{ f }", "\n" + name + "{ f }", "\t" + name + " { f }", "(" + "$v: Int){ f }", " " + name + "{f}"}), "compact"
	case 7:
		return r.Pick([]string{"# c\n", ",", "\ufeff", ",,\n", "#\n"}) + kw + " " + name + body, "hidden-prefix"
	case 8:
		return "fragment F on T { f }\n" + kw + " " + name + " { ...F }", "fragment-first"
	case 9:
		other := r.Pick([]string{"query", "mutation", "subscription"})
		return other + " A { f }\n" + kw + " " + name + body, "multi-op"
	case 10:
		return randText(r, 30), "random-text"
	default:
		return "", "empty"
	}
}

func genEndpoint(r *core.Rng, malformed bool) string {
	var sb strings.Builder
	sb.WriteString(r.Pick([]string{"http://example.com", "https://h:8080", "http://10.0.0.1:81"}))
	for i := r.Intn(3); i > 0; i-- {
		sb.WriteString("/" + randName(r))
	}
	if r.Chance(0.6) {
		sb.WriteString("?")
		n := r.Intn(4)
		for i := 0; i < n; i++ {
			if i > 0 {
				sb.WriteString("&")
			}
			k := r.Pick([]string{"a", "b", "token", "query", "variables", "operationName", "x y", "k&=", "é", ""})
			v := r.Pick([]string{"1", "", "a b", "a+b", "%", "&x=1", "é中", "v#1", "q?"})
			switch r.Intn(6) {
			case 0:
				sb.WriteString(url.QueryEscape(k)) // no '='
			case 1:
				sb.WriteString(strings.ReplaceAll(url.QueryEscape(k), "+", "%20") + "=" + strings.ReplaceAll(url.QueryEscape(v), "+", "%20"))
			case 2:
				sb.WriteString(strings.ToLower(url.QueryEscape(k)) + "=" + strings.ToLower(url.QueryEscape(v)))
			default:
				sb.WriteString(url.QueryEscape(k) + "=" + url.QueryEscape(v))
			}
		}
		if malformed {
			if n > 0 {
				sb.WriteString("&")
			}
			sb.WriteString(r.Pick([]string{"bad=%zz", "p=1;q=2", "%=1", "c=%4"}))
		}
	}
	if r.Chance(0.25) {
		sb.WriteString("#" + r.Pick([]string{"frag", "a-b", "x/y"}))
	}
	return sb.String()
}

func GenCase(r *core.Rng, id int) *Case {
	c := &Case{ID: fmt.Sprintf("g%d", id)}
	c.Method = r.Pick([]string{"GET", "GET", "POST"})
	c.Endpoint = genEndpoint(r, r.Chance(0.08))
	c.Query, c.Kind = genQuery(r)
	switch r.Intn(4) {
	case 0:
		c.OpName = ""
	case 1:
		c.OpName = randText(r, 6)
	default:
		c.OpName = randName(r)
	}
	if r.Chance(0.6) {
		v := randJSON(r, 3)
		if m, ok := v.(map[string]interface{}); ok || r.Chance(0.3) {
			_ = m
			c.Variables, _ = json.Marshal(v)
		} else {
			c.Variables, _ = json.Marshal(map[string]interface{}{"v": v})
		}
	}
	if string(c.Variables) == "null" {
		c.Variables = nil
	}
	return c
}

func runHistory(a, b2 *Case, mode int) (oa, ob *Obs) {
	if mode == 2 {
		// one client serves both requests, one after the other: nothing of the first may
		// show up in the second (same method and endpoint by construction)
		sw := &swDoer{}
		var cl graphql.Client
		if a.Method == "GET" {
			cl = graphql.NewClientUsingGet(a.Endpoint, sw)
		} else {
			cl = graphql.NewClient(a.Endpoint, sw)
		}
		oa = observeOn(cl, sw, a)
		ob = observeOn(cl, sw, b2)
		return oa, ob
	}
	if mode == 0 {
		oa = ObserveWith(a, func() { ob = Observe(b2) })
		return oa, ob
	}
	var wg sync.WaitGroup
	barrier := make(chan struct{})
	arrived := make(chan struct{}, 2)
	wait := func() { arrived <- struct{}{}; <-barrier }
	wg.Add(2)
	go func() { defer wg.Done(); oa = ObserveWith(a, wait) }()
	go func() { defer wg.Done(); ob = ObserveWith(b2, wait) }()
	for i := 0; i < 2; i++ {
		select {
		case <-arrived:
		case <-time.After(2 * time.Second):
		}
	}
	close(barrier)
	wg.Wait()
	return oa, ob
}

func corpus() []*Case {
	return []*Case{
		{ID: "k1", Method: "GET", Endpoint: "http://h/graphql?token=a+b&x=1#f", Query: "\nquery Q { f }\n", OpName: "Q", Variables: json.RawMessage(`{"a":"x&y=z"}`), Kind: "emitted"},
		{ID: "k2", Method: "GET", Endpoint: "http://h/graphql", Query: "\nmutation M { f }\n", OpName: "M", Kind: "emitted"},
		{ID: "k3", Method: "POST", Endpoint: "http://h/graphql", Query: "\nsubscription S { f }\n", OpName: "S", Kind: "emitted"},
		{ID: "k4", Method: "GET", Endpoint: "http://h/graphql?query=old&variables=old&operationName=old&keep=1", Query: "", OpName: "", Kind: "empty"},
		{ID: "k5", Method: "GET", Endpoint: "http://h/graphql?query=old&keep=1&keep=2", Query: "\nquery Q { f }\n", OpName: "", Kind: "emitted"},
		{ID: "k6", Method: "GET", Endpoint: "http://h/graphql", Query: "mutation{ f }", OpName: "", Kind: "compact"},
		{ID: "k7", Method: "POST", Endpoint: "http://h/graphql", Query: "subscription\tS{ f }", OpName: "S", Kind: "compact"},
		{ID: "k8", Method: "GET", Endpoint: "http://h/graphql", Query: "# c\nmutation M { f }", OpName: "M", Kind: "hidden-prefix"},
		{ID: "k9", Method: "GET", Endpoint: "http://h/graphql?bad=%zz&keep=1", Query: "\nquery Q { f }\n", OpName: "Q", Kind: "emitted"},
		{ID: "k10", Method: "GET", Endpoint: "http://h/graphql?z=1&a=2&m=%41", Query: "\nquery Q { f }\n", OpName: "Q", Variables: json.RawMessage(`{"k":[1,{"é":null}]}`), Kind: "emitted"},
	}
}

func bodyFieldsTerm(body string) (string, bool) {
	dec := json.NewDecoder(strings.NewReader(body))
	tok, err := dec.Token()
	if err != nil || tok != json.Delim('{') {
		return "", false
	}
	var items []string
	for dec.More() {
		kt, err := dec.Token()
		if err != nil {
			return "", false
		}
		k, _ := kt.(string)
		var raw json.RawMessage
		if err := dec.Decode(&raw); err != nil {
			return "", false
		}
		switch k {
		case "query", "operationName":
			var s string
			if json.Unmarshal(raw, &s) != nil {
				return "", false
			}
			if k == "query" {
				items = append(items, "BQuery "+coqfmt.Str(s))
			} else {
				items = append(items, "BOpName "+coqfmt.Str(s))
			}
		case "variables":
			items = append(items, "BVariables "+coqfmt.Str(string(raw)))
		default:
			return "", false
		}
	}
	return coqfmt.List(items), true
}

func CoqCase(idx int, c *Case, o *Obs) (string, bool) {
	if !utf8.ValidString(c.Query) || !utf8.ValidString(c.OpName) {
		return "", false
	}
	vars := "None"
	if v := variablesValue(c); v != nil {
		m, err := json.Marshal(v)
		if err != nil {
			return "", false
		}
		vars = coqfmt.Some(coqfmt.Str(string(m)))
	}
	req := fmt.Sprintf("{| rq_query := %s; rq_opname := %s; rq_variables := %s |}", coqfmt.Str(c.Query), coqfmt.Str(c.OpName), vars)
	var obsURL, obsBody string
	cls := errClass(o.Err)
	switch {
	case o.DoCalls == 0 && (cls == "NoMutations" || cls == "NoSubscriptions"):
		obsURL = "(Err " + coqfmt.Str(cls) + ")"
		obsBody = "(Err " + coqfmt.Str(cls) + ")"
	case o.DoCalls == 1:
		obsURL = "(Ok " + coqfmt.Str(o.URL) + ")"
		if c.Method == "POST" {
			t, ok := bodyFieldsTerm(o.Body)
			if !ok {
				return "", false
			}
			obsBody = "(Ok " + t + ")"
		} else {
			obsBody = "(Ok [])"
		}
	default:
		return "", false
	}
	return fmt.Sprintf("{| g_id := %d; g_get := %s; g_ep := %s; g_req := %s; g_obs_url := %s; g_obs_body := %s |}",
		idx, coqfmt.Bool(c.Method == "GET"), coqfmt.Str(c.Endpoint), req, obsURL, obsBody), true
}

func Run(tier string, seed int64, outDir string, replay string) (*core.Result, error) {
	res := core.NewResult("C11", tier, seed)
	res.Rule = "random graphql.Request values (documents: generator-shaped for each operation kind, leading white space, compact `kw{`, hidden-prefix comment/comma/BOM, fragment-first, multi-operation, random Unicode text, empty; operation names and variables with URL-significant and non-ASCII characters) x endpoints with and without query strings (repeated keys, keys colliding with query/variables/operationName, escapes, fragments; 8% with segments net/url cannot decode) x {GET, POST} client, against a recording Doer; non-trivial = Do was called or the gate fired; distinct by (method, endpoint, request); plus two-request histories (nested inside Do / concurrent behind a barrier) where the second request is built before the first body is read"
	if replay != "" {
		data, err := os.ReadFile(replay)
		if err != nil {
			return nil, err
		}
		var wrap struct {
			Replay json.RawMessage `json:"replay"`
		}
		if err := json.Unmarshal(data, &wrap); err != nil {
			return nil, err
		}
		var hist struct {
			History []*Case `json:"history"`
			Mode    int     `json:"mode"`
		}
		if json.Unmarshal(wrap.Replay, &hist) == nil && len(hist.History) == 2 {
			a, b2 := hist.History[0], hist.History[1]
			var oa, ob *Obs
			oa, ob = runHistory(a, b2, hist.Mode)
			for _, pr := range []struct {
				c *Case
				o *Obs
			}{{a, oa}, {b2, ob}} {
				ob2, _ := json.Marshal(pr.o)
				fmt.Printf("replay %s: %s\n", pr.c.ID, ob2)
				if pr.o == nil {
					continue
				}
				if cls, what := Oracle(pr.c, pr.o); cls != "" {
					res.Fail(core.Failure{Case: pr.c.ID, Class: cls, What: what, Replay: hist})
				}
			}
			res.Count(a.ID, true)
			return res, nil
		}
		c := &Case{}
		if err := json.Unmarshal(wrap.Replay, c); err != nil {
			return nil, err
		}
		o := Observe(c)
		cls, what := Oracle(c, o)
		ob, _ := json.Marshal(o)
		fmt.Printf("replay %s: %s\n", c.ID, ob)
		if cls != "" {
			res.Fail(core.Failure{Case: c.ID, Class: cls, What: what, Replay: c})
		}
		res.Count(c.ID, true)
		return res, nil
	}
	n := 1500
	if tier == "thorough" {
		n = 20000
	}
	rng := core.NewRng(seed)
	cases := corpus()
	for i := 0; i < n; i++ {
		cases = append(cases, GenCase(rng, i))
	}
	caseIndex := map[string]interface{}{}
	res.Extra["case_index"] = caseIndex
	var coqCases []string
	for i, c := range cases {
		o := Observe(c)
		key, _ := json.Marshal([]interface{}{c.Method, c.Endpoint, c.Query, c.OpName, string(c.Variables)})
		res.Count(string(key), o.DoCalls > 0 || errClass(o.Err) != "")
		res.Dist("method:" + c.Method)
		res.Dist("doc:" + c.Kind)
		k, _ := selectedKind(c)
		if k == "" {
			k = "unparsable"
		}
		res.Dist("kind:" + k)
		if o.DoCalls > 0 {
			res.Dist("outcome:sent")
		} else {
			res.Dist("outcome:" + errClass(o.Err))
		}
		if i%211 == 0 {
			res.Sample(map[string]interface{}{"case": c, "observed": o})
		}
		if cls, what := Oracle(c, o); cls != "" {
			res.Fail(core.Failure{Case: c.ID, Class: cls, What: what, Replay: c})
		}
		if t, ok := CoqCase(i, c, o); ok {
			caseIndex[fmt.Sprint(i)] = c
			coqCases = append(coqCases, t)
		}
	}
	// histories: a second request is built (nested inside the first one's Do, or concurrently
	// behind a barrier) before the first one's body has been read; each must still carry its own data
	nh := 150
	if tier == "thorough" {
		nh = 1500
	}
	for h := 0; h < nh; h++ {
		a, b2 := GenCase(rng, 100000+2*h), GenCase(rng, 100001+2*h)
		a.Method, b2.Method = "POST", "POST"
		if rng.Chance(0.3) {
			a.Method, b2.Method = "GET", "POST"
		}
		a.Query, a.Kind = "\nquery Outer { f(a: \""+strings.Repeat("x", rng.Intn(60))+"\") }\n", "emitted"
		b2.Query, b2.Kind = "\nquery In { f }\n", "emitted"
		a.ID, b2.ID = fmt.Sprintf("h%d.outer", h), fmt.Sprintf("h%d.inner", h)
		a.Endpoint, b2.Endpoint = genEndpoint(rng, false), genEndpoint(rng, false)
		mode := h % 2
		if h%3 == 2 {
			// same client, sequential: the second request has fewer parts than the first
			mode = 2
			b2.Endpoint = a.Endpoint
			a.Method = []string{"GET", "POST"}[(h/3)%2]
			b2.Method = a.Method
			if a.Variables == nil {
				a.Variables = json.RawMessage(`{"first":"request"}`)
			}
			if a.OpName == "" {
				a.OpName = "Outer"
			}
			switch (h / 6) % 3 {
			case 0:
				b2.Variables = nil
			case 1:
				b2.OpName = ""
			}
		}
		oa, ob := runHistory(a, b2, mode)
		res.Count(a.ID+a.Endpoint+a.Query+b2.Endpoint+string(b2.Variables), true)
		res.Dist("history:" + []string{"nested", "concurrent", "same-client"}[mode])
		for _, pr := range []struct {
			c *Case
			o *Obs
		}{{a, oa}, {b2, ob}} {
			if pr.o == nil {
				res.Fail(core.Failure{Case: pr.c.ID, Class: "C11/history-no-observation", What: "request did not complete", Replay: []*Case{a, b2}})
				continue
			}
			if cls, what := Oracle(pr.c, pr.o); cls != "" {
				res.Fail(core.Failure{Case: pr.c.ID, Class: cls, What: what + []string{" (second request built before this body was read)", " (second request built before this body was read)", " (two requests through one client, one after the other)"}[mode], Replay: map[string]interface{}{"history": []*Case{a, b2}, "mode": mode}})
			}
		}
	}
	shard := 400
	for s := 0; s*shard < len(coqCases); s++ {
		end := (s + 1) * shard
		if end > len(coqCases) {
			end = len(coqCases)
		}
		var sb strings.Builder
		sb.WriteString("From Verif Require Import Base.Str Rt.Http Corr.C11corr.\n")
		sb.WriteString("Definition cases : list c11_case := [\n")
		sb.WriteString(strings.Join(coqCases[s*shard:end], ";\n"))
		sb.WriteString("\n].\n")
		sb.WriteString("Definition MISMATCH := Eval vm_compute in c11_mismatches cases.\nPrint MISMATCH.\n")
		sb.WriteString("Definition SPECFAIL := Eval vm_compute in c11_specfails cases.\nPrint SPECFAIL.\n")
		name := filepath.Join(outDir, fmt.Sprintf("cases_%d.v", s))
		if err := os.WriteFile(name, []byte(sb.String()), 0o644); err != nil {
			return nil, err
		}
		res.CasesV = append(res.CasesV, name)
	}
	res.ModelCases = len(coqCases)
	return res, nil
}
