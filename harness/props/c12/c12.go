// Package c12: every HTTP outcome is classified, data kept, body closed.
package c12

import (
	"bytes"
	"context"
	"encoding/json"
	"errors"
	"fmt"
	"io"
	"math"
	"net/http"
	"os"
	"path/filepath"
	"reflect"
	"strings"

	"github.com/Khan/genqlient/graphql"
	"github.com/vektah/gqlparser/v2/gqlerror"

	"verifharness/coqfmt"
	"verifharness/core"
)

type Case struct {
	ID       string `json:"id"`
	DoErr    bool   `json:"do_err"`
	Status   int    `json:"status"`
	Body     string `json:"body"`
	FaultAt  int    `json:"fault_at"` // -1: none; k: Read fails after k bytes were delivered
	Chunk    int    `json:"chunk"`    // max bytes per Read
	CloseErr bool   `json:"close_err"`
	Kind     string `json:"kind"`
	NilCtx   bool   `json:"nil_ctx,omitempty"` // the helper generated under context_type: "-" passes a nil context
}

type target struct {
	F string `json:"f"`
	N int    `json:"n"`
}

var errDo = errors.New("verif: transport failure")
var errRead = errors.New("verif: body read failure")

type faultBody struct {
	data           []byte
	pos            int
	faultAt        int
	chunk          int
	reads, closes  int
	readAfterClose bool
	closeErr       bool
}

func (b *faultBody) Read(p []byte) (int, error) {
	b.reads++
	if b.closes > 0 {
		b.readAfterClose = true
	}
	limit := len(b.data)
	if b.faultAt >= 0 && b.faultAt < limit {
		limit = b.faultAt
	}
	if b.pos >= limit {
		if b.faultAt >= 0 && b.pos >= b.faultAt {
			return 0, errRead
		}
		return 0, io.EOF
	}
	n := limit - b.pos
	if n > len(p) {
		n = len(p)
	}
	if b.chunk > 0 && n > b.chunk {
		n = b.chunk
	}
	copy(p, b.data[b.pos:b.pos+n])
	b.pos += n
	return n, nil
}

func (b *faultBody) Close() error {
	b.closes++
	if b.closeErr {
		return errors.New("verif: close failure")
	}
	return nil
}

type doer struct {
	c    *Case
	body *faultBody
}

func (d *doer) Do(r *http.Request) (*http.Response, error) {
	if d.c.DoErr {
		return nil, errDo
	}
	fa := d.c.FaultAt
	if fa > len(d.c.Body) {
		fa = len(d.c.Body)
	}
	d.body = &faultBody{data: []byte(d.c.Body), faultAt: fa, chunk: d.c.Chunk, closeErr: d.c.CloseErr}
	// what net/http reports next to (status, body): the declared length is unknown (-1: chunked,
	// gunzipped or close-delimited bodies), absent (0, as hand-made stubs leave it) or exact; the
	// outcome must not depend on it (derived from the case so that replays are exact)
	cl := int64(0)
	switch (len(d.c.Body) + d.c.Status) % 3 {
	case 0:
		cl = -1
	case 1:
		cl = int64(len(d.c.Body))
	}
	return &http.Response{StatusCode: d.c.Status, Body: d.body, Header: http.Header{}, ContentLength: cl}, nil
}

type Obs struct {
	Outcome        string                 `json:"outcome"` // Transport | HTTPError | GqlErrors | Nil | Other | Panic
	Status         int                    `json:"status,omitempty"`
	FromBody       bool                   `json:"from_body,omitempty"`
	NErrors        int                    `json:"n_errors,omitempty"`
	Messages       []string               `json:"messages,omitempty"`
	ErrText        string                 `json:"err_text,omitempty"`
	Closes         int                    `json:"closes"`
	ReadAfterClose bool                   `json:"read_after_close,omitempty"`
	Data           target                 `json:"data"`
	Ext            map[string]interface{} `json:"ext,omitempty"`
	Panic          string                 `json:"panic,omitempty"`
}

func Observe(c *Case, post bool) (o *Obs) {
	o = &Obs{}
	d := &doer{c: c}
	defer func() {
		if v := recover(); v != nil {
			o.Outcome = "Panic"
			o.Panic = fmt.Sprint(v)
		}
		if d.body != nil {
			o.Closes = d.body.closes
			o.ReadAfterClose = d.body.readAfterClose
		}
	}()
	var cl graphql.Client
	if post {
		cl = graphql.NewClient("http://h/graphql", d)
	} else {
		cl = graphql.NewClientUsingGet("http://h/graphql", d)
	}
	var data target
	resp := &graphql.Response{Data: &data}
	ctx := context.Background()
	if c.NilCtx {
		ctx = nil //nolint:staticcheck // what generated code without a context type passes
	}
	err := cl.MakeRequest(ctx, &graphql.Request{Query: "query Q { f n }", OpName: "Q"}, resp)
	o.Data = data
	o.Ext = resp.Extensions
	var he *graphql.HTTPError
	gl, isList := err.(gqlerror.List) // direct assertion: gqlerror.List.Is/As dereference nil elements
	switch {
	case err == nil:
		o.Outcome = "Nil"
	case isList:
		o.Outcome = "GqlErrors"
		o.NErrors = len(gl)
		for _, e := range gl {
			if e == nil {
				o.Messages = append(o.Messages, "<nil>")
			} else {
				o.Messages = append(o.Messages, e.Message)
			}
		}
	case errors.Is(err, errDo):
		o.Outcome = "Transport"
	case errors.As(err, &he):
		o.Outcome = "HTTPError"
		o.Status = he.StatusCode
		o.NErrors = len(he.Response.Errors)
		for _, e := range he.Response.Errors {
			if e == nil {
				o.Messages = append(o.Messages, "<nil>")
			} else {
				o.Messages = append(o.Messages, e.Message)
			}
		}
		o.FromBody = !(o.NErrors == 1 && he.Response.Errors[0] != nil &&
			(he.Response.Errors[0].Message == c.Body || strings.HasPrefix(he.Response.Errors[0].Message, "<unreadable")))
	default:
		o.Outcome = "Other"
		o.ErrText = err.Error()
	}
	return o
}

// independent view of the body (encoding/json as the trusted decoder of the envelope)
type view struct {
	firstEnd   int // -1: no complete first JSON value
	firstOK    bool
	firstNErr  int
	firstMsgs  []string
	firstData  target
	firstExt   map[string]interface{}
	wholeValid bool // whole body is one JSON document decodable into Response
	wholeNErr  int
	wholeMsgs  []string
}

func msgs(l gqlerror.List) []string {
	var out []string
	for _, e := range l {
		if e == nil {
			out = append(out, "<nil>")
		} else {
			out = append(out, e.Message)
		}
	}
	return out
}

func analyse(body string) *view {
	v := &view{firstEnd: -1}
	dec := json.NewDecoder(strings.NewReader(body))
	var raw json.RawMessage
	if err := dec.Decode(&raw); err == nil {
		v.firstEnd = int(dec.InputOffset())
		// a bare literal (null, true, false, a number) is only complete once the decoder has seen
		// the byte AFTER it or a clean end of input: it needs one more successful read
		if t := strings.TrimSpace(string(raw)); t != "" && t[0] != '{' && t[0] != '[' && t[0] != '"' {
			v.firstEnd++
		}
		var t target
		r := graphql.Response{Data: &t}
		if err := json.Unmarshal(raw, &r); err == nil {
			v.firstOK = true
			v.firstNErr = len(r.Errors)
			v.firstMsgs = msgs(r.Errors)
			v.firstData = t
			v.firstExt = r.Extensions
		}
	}
	var w graphql.Response
	if err := json.Unmarshal([]byte(body), &w); err == nil {
		v.wholeValid = true
		v.wholeNErr = len(w.Errors)
		v.wholeMsgs = msgs(w.Errors)
	}
	return v
}

// Oracle: the documented classification, judged on the implementation's behaviour.
func Oracle(c *Case, o *Obs) (class, what string) {
	if o.Outcome == "Panic" {
		return "C12/panic", o.Panic
	}
	if c.DoErr {
		if o.Outcome != "Transport" {
			return "C12/transport-not-returned", "Do failed but outcome is " + o.Outcome
		}
		return "", ""
	}
	if o.Closes != 1 {
		return "C12/body-close-count", fmt.Sprintf("response body closed %d times (status %d, outcome %s)", o.Closes, c.Status, o.Outcome)
	}
	if o.ReadAfterClose {
		return "C12/read-after-close", "body read after Close"
	}
	v := analyse(c.Body)
	faulted := c.FaultAt >= 0
	if c.Status != 200 {
		if o.Outcome != "HTTPError" {
			return "C12/non200-not-httperror", fmt.Sprintf("status %d gave outcome %s %s", c.Status, o.Outcome, o.ErrText)
		}
		if o.Status != c.Status {
			return "C12/httperror-status", fmt.Sprintf("HTTPError carries %d for status %d", o.Status, c.Status)
		}
		if !faulted && v.wholeValid {
			if !reflect.DeepEqual(o.Messages, v.wholeMsgs) {
				return "C12/httperror-errors", fmt.Sprintf("HTTPError errors %q, body has %q", o.Messages, v.wholeMsgs)
			}
		} else if !faulted {
			if len(o.Messages) != 1 || o.Messages[0] != c.Body {
				return "C12/httperror-rawtext", fmt.Sprintf("HTTPError errors %q, want the raw body text", o.Messages)
			}
		} else if len(o.Messages) != 1 {
			return "C12/httperror-unreadable", fmt.Sprintf("unreadable body gave errors %q", o.Messages)
		}
		return "", ""
	}
	arrives := v.firstEnd >= 0 && !(faulted && c.FaultAt < v.firstEnd) && v.firstOK
	if !arrives {
		if o.Outcome != "Other" {
			return "C12/undecodable-200-not-error", fmt.Sprintf("undecodable/unreadable 200 body gave outcome %s", o.Outcome)
		}
		return "", ""
	}
	if v.firstNErr > 0 {
		if o.Outcome != "GqlErrors" || !reflect.DeepEqual(o.Messages, v.firstMsgs) {
			return "C12/errors-not-returned", fmt.Sprintf("200 with errors %q gave outcome %s %q", v.firstMsgs, o.Outcome, o.Messages)
		}
	} else if o.Outcome != "Nil" {
		return "C12/no-errors-not-nil", fmt.Sprintf("200 without errors gave outcome %s %q %s", o.Outcome, o.Messages, o.ErrText)
	}
	if o.Data != v.firstData {
		return "C12/data-not-kept", fmt.Sprintf("data decoded as %+v, body carries %+v", o.Data, v.firstData)
	}
	if !reflect.DeepEqual(o.Ext, v.firstExt) {
		return "C12/extensions", fmt.Sprintf("extensions %v vs %v", o.Ext, v.firstExt)
	}
	return "", ""
}

// ---------- generator ----------
func genErrors(r *core.Rng) string {
	switch r.Intn(10) {
	case 0:
		return "[]"
	case 1:
		return "null"
	case 2:
		return r.Pick([]string{`"x"`, `[1]`, `{"message":"m"}`, `[{"message":5}]`, `[[{"message":"m"}]]`, `[{"message":"m","path":"p"}]`, `[{"message":"m","locations":[1]}]`, `[{"message":"m","extensions":[]}]`})
	case 3:
		return `[null]`
	default:
		n := 1 + r.Intn(3)
		var items []string
		for i := 0; i < n; i++ {
			it := fmt.Sprintf(`{"message":"m%d"`, r.Intn(100))
			if r.Chance(0.4) {
				it += `,"path":["a",` + fmt.Sprint(r.Intn(4)) + `,"b"]`
			}
			if r.Chance(0.3) {
				it += `,"locations":[{"line":1,"column":2}]`
			}
			if r.Chance(0.3) {
				it += `,"extensions":{"code":"X"}`
			}
			if r.Chance(0.1) {
				it += `,"unknown":1`
			}
			items = append(items, it+"}")
		}
		return "[" + strings.Join(items, ",") + "]"
	}
}

func genBody(r *core.Rng) (string, string) {
	switch r.Intn(14) {
	case 0:
		return r.Pick([]string{"", " ", "\n"}), "empty"
	case 1:
		return r.Pick([]string{"<html>502 Bad Gateway</html>", "Internal Server Error", "not json {", "\xff\xfe", "{\"data\""}), "non-json"
	case 2:
		return r.Pick([]string{"null", "[]", "3", `"s"`, "true", "[{}]", `{"a":1}`, "{}"}), "wrong-toplevel"
	}
	var fields []string
	data := r.Pick([]string{`{"f":"x","n":3}`, `{"f":"héllo","n":-1}`, `null`, `{"f":"x"}`, `{}`, `{"f":1}`, `"str"`, `[1]`, `{"f":"x","n":1.5}`, `{"F":"cased","N":9}`, `{"f":"y","n":7,"extra":[1,2]}`})
	if r.Chance(0.9) {
		fields = append(fields, `"data":`+data)
	}
	if r.Chance(0.55) {
		key := "errors"
		if r.Chance(0.08) {
			key = r.Pick([]string{"Errors", "ERRORS"})
		}
		fields = append(fields, `"`+key+`":`+genErrors(r))
	}
	if r.Chance(0.3) {
		fields = append(fields, `"extensions":`+r.Pick([]string{`{"a":1}`, `null`, `{}`, `[1]`, `"x"`, `{"k":{"n":[1,2]}}`}))
	}
	if r.Chance(0.1) {
		fields = append(fields, `"other":1`)
	}
	r.Shuffle(len(fields), func(i, j int) { fields[i], fields[j] = fields[j], fields[i] })
	body := "{" + strings.Join(fields, ",") + "}"
	kind := "envelope"
	switch r.Intn(12) {
	case 0:
		body = body + r.Pick([]string{" garbage", "{}", "\n\n", "  ", "]", `{"data":null}`})
		kind = "envelope+trailing"
	case 1:
		body = "  \n" + body
		kind = "envelope+leading-space"
	case 2:
		if len(body) > 2 {
			body = body[:1+r.Intn(len(body)-1)]
			kind = "truncated"
		}
	}
	return body, kind
}

func GenCase(r *core.Rng, id int) *Case {
	c := &Case{ID: fmt.Sprintf("g%d", id), FaultAt: -1}
	c.Body, c.Kind = genBody(r)
	switch r.Intn(10) {
	case 0, 1, 2, 3, 4:
		c.Status = 200
	case 5:
		c.Status = r.Pick2([]int{201, 204, 301, 302, 400, 401, 403, 404, 418, 429, 500, 502, 503})
	default:
		c.Status = 100 + r.Intn(500)
	}
	if r.Chance(0.06) {
		c.DoErr = true
	}
	if r.Chance(0.35) {
		c.FaultAt = r.Intn(len(c.Body) + 1)
	}
	c.Chunk = r.Pick2([]int{0, 0, 1, 2, 7, 64})
	c.CloseErr = r.Chance(0.1)
	c.NilCtx = id%5 == 2
	return c
}

func corpus() []*Case {
	env := `{"data":{"f":"x","n":3},"errors":[{"message":"boom"}],"extensions":{"a":1}}`
	cs := []*Case{
		{ID: "k1", Status: 200, Body: `{"data":{"f":"x","n":3}}`, FaultAt: -1, Kind: "envelope"},
		{ID: "k2", Status: 200, Body: env, FaultAt: -1, Kind: "envelope"},
		{ID: "k3", Status: 500, Body: env, FaultAt: -1, Kind: "envelope"},
		{ID: "k4", Status: 502, Body: "<html>bad gateway</html>", FaultAt: -1, Kind: "non-json"},
		{ID: "k5", Status: 200, Body: `{"data":{"f":"x","n":3},"errors":[]}`, FaultAt: -1, Kind: "envelope"},
		{ID: "k6", Status: 200, Body: `{"data":{"f":1}}`, FaultAt: -1, Kind: "envelope"},
		{ID: "k7", DoErr: true, Status: 200, Body: "", FaultAt: -1, Kind: "empty"},
		{ID: "k8", Status: 404, Body: "null", FaultAt: -1, Kind: "wrong-toplevel"},
		{ID: "k9", Status: 200, Body: `{"data":{"f":"x","n":3}} trailing`, FaultAt: -1, Kind: "envelope+trailing"},
	}
	// every fault position over one envelope, for 200 and for 500
	for k := 0; k <= len(env); k++ {
		cs = append(cs, &Case{ID: fmt.Sprintf("f200.%d", k), Status: 200, Body: env, FaultAt: k, Chunk: 3, Kind: "fault-sweep"})
		cs = append(cs, &Case{ID: fmt.Sprintf("f500.%d", k), Status: 500, Body: env, FaultAt: k, Chunk: 5, Kind: "fault-sweep"})
	}
	// every status code once over a plain envelope
	for s := 100; s <= 599; s++ {
		cs = append(cs, &Case{ID: fmt.Sprintf("s%d", s), Status: s, Body: `{"data":{"f":"s","n":1},"errors":[{"message":"e"}]}`, FaultAt: -1, Kind: "status-sweep"})
	}
	return cs
}

func optNat(n int) string {
	if n < 0 {
		return "None"
	}
	return coqfmt.Some(coqfmt.Nat(n))
}

func CoqCase(idx int, c *Case, o *Obs) (string, bool) {
	v := analyse(c.Body)
	whole := "None"
	if v.wholeValid {
		whole = fmt.Sprintf("(Some {| eo_ok := true; eo_nerrors := %s |})", coqfmt.Nat(v.wholeNErr))
	}
	fa := c.FaultAt
	if fa > len(c.Body) {
		fa = len(c.Body)
	}
	in := fmt.Sprintf("{| hc_do_err := %s; hc_status := %s; hc_len := %s; hc_first_end := %s; hc_first_env := {| eo_ok := %s; eo_nerrors := %s |}; hc_whole_env := %s; hc_fault := %s |}",
		coqfmt.Bool(c.DoErr), coqfmt.N(c.Status), coqfmt.Nat(len(c.Body)), optNat(v.firstEnd),
		coqfmt.Bool(v.firstOK), coqfmt.Nat(v.firstNErr), whole, optNat(fa))
	var out string
	switch o.Outcome {
	case "Transport":
		out = "OTransport"
	case "HTTPError":
		out = fmt.Sprintf("(OHTTPError %s %s %s)", coqfmt.N(o.Status), coqfmt.Bool(o.FromBody), coqfmt.Nat(o.NErrors))
	case "GqlErrors":
		out = fmt.Sprintf("(OGqlErrors %s)", coqfmt.Nat(o.NErrors))
	case "Nil":
		out = "ONil"
	case "Other":
		out = "OOther"
	default:
		return "", false
	}
	dataOK := (o.Outcome == "Nil" || o.Outcome == "GqlErrors") && o.Data == v.firstData
	return fmt.Sprintf("{| h_id := %d; h_in := %s; h_obs_out := %s; h_obs_closes := %s; h_obs_data := %s |}",
		idx, in, out, coqfmt.Nat(o.Closes), coqfmt.Bool(dataOK)), true
}

// ---- failing before sending: the request cannot be built ----
type badMarshaler struct{}

func (badMarshaler) MarshalJSON() ([]byte, error) { return nil, errors.New("verif: cannot marshal") }

var preSendVars = []struct {
	name string
	v    interface{}
}{
	{"marshaler-error", badMarshaler{}},
	{"nested-marshaler-error", map[string]interface{}{"a": []interface{}{1, badMarshaler{}}}},
	{"channel", map[string]interface{}{"c": make(chan int)}},
	{"func", map[string]interface{}{"f": func() {}}},
	{"infinity", map[string]interface{}{"x": math.Inf(1)}},
}

// preSend: variables that do not marshal, through both clients: an error, no panic, no contact.
func preSend(k int, post bool) (class, what string) {
	d := &doer{c: &Case{Status: 200, Body: `{"data":{"f":"x","n":1}}`, FaultAt: -1, Chunk: 64}}
	var err error
	panicked := ""
	func() {
		defer func() {
			if v := recover(); v != nil {
				panicked = fmt.Sprint(v)
			}
		}()
		var cl graphql.Client
		if post {
			cl = graphql.NewClient("http://h/graphql", d)
		} else {
			cl = graphql.NewClientUsingGet("http://h/graphql", d)
		}
		var data target
		err = cl.MakeRequest(context.Background(), &graphql.Request{Query: "query Q { f n }", OpName: "Q", Variables: preSendVars[k].v}, &graphql.Response{Data: &data})
	}()
	m := map[bool]string{true: "POST", false: "GET"}[post]
	switch {
	case panicked != "":
		return "C12/pre-send-panic", fmt.Sprintf("%s client, variables that do not marshal (%s): MakeRequest panicked: %s", m, preSendVars[k].name, panicked)
	case err == nil:
		return "C12/pre-send-no-error", fmt.Sprintf("%s client, variables that do not marshal (%s): MakeRequest returned nil", m, preSendVars[k].name)
	case d.body != nil:
		return "C12/pre-send-contacted-server", fmt.Sprintf("%s client, variables that do not marshal (%s): the server was contacted", m, preSendVars[k].name)
	}
	return "", ""
}

func Run(tier string, seed int64, outDir string, replay string) (*core.Result, error) {
	res := core.NewResult("C12", tier, seed)
	res.Rule = "fixed corpus (every fault position k over one envelope for status 200 and 500; every status code 100-599) + random (status, body, fault plan): bodies from a grammar (valid {data,errors,extensions} combinations incl. wrong shapes, null, case-variant keys, unknown keys; wrong top-level values; trailing data; leading space; truncations; non-JSON; empty), Do failure, Body.Read failing after k bytes for random k with chunked reads, Close failing; each run through the real POST and GET clients against an instrumented body, every fifth with the nil context that a helper generated without a context type passes; plus requests that cannot be built (variables that do not marshal: failing MarshalJSON at top level and nested, channel, func, +Inf) through both clients: an error, no panic, server not contacted; non-trivial = all; distinct by (do_err,status,body,fault,chunk)"
	if replay != "" {
		data, err := os.ReadFile(replay)
		if err != nil {
			return nil, err
		}
		var wrap struct {
			Replay Case `json:"replay"`
		}
		if err := json.Unmarshal(data, &wrap); err != nil {
			return nil, err
		}
		c := &wrap.Replay
		if c.Kind == "pre-send" {
			for _, post := range []bool{true, false} {
				if cls, what := preSend(c.Status, post); cls != "" {
					res.Fail(core.Failure{Case: c.ID, Class: cls, What: what, Replay: c})
				}
			}
			res.Count(c.ID, true)
			return res, nil
		}
		for _, post := range []bool{true, false} {
			o := Observe(c, post)
			ob, _ := json.Marshal(o)
			fmt.Printf("replay %s post=%v: %s\n", c.ID, post, ob)
			if cls, what := Oracle(c, o); cls != "" {
				res.Fail(core.Failure{Case: c.ID, Class: cls, What: what, Replay: c})
			}
		}
		res.Count(c.ID, true)
		return res, nil
	}
	n := 2500
	if tier == "thorough" {
		n = 40000
	}
	rng := core.NewRng(seed)
	cases := corpus()
	for i := 0; i < n; i++ {
		cases = append(cases, GenCase(rng, i))
	}
	caseIndex := map[string]interface{}{}
	res.Extra["case_index"] = caseIndex
	var coqCases []string
	for i, c := range cases {
		post := i%2 == 0
		o := Observe(c, post)
		key, _ := json.Marshal([]interface{}{c.DoErr, c.Status, c.Body, c.FaultAt, c.Chunk})
		res.Count(string(key), true)
		res.Dist("body:" + c.Kind)
		res.Dist("outcome:" + o.Outcome)
		if c.FaultAt >= 0 {
			res.Dist("fault:read")
		}
		if c.Status == 200 {
			res.Dist("status:200")
		} else {
			res.Dist(fmt.Sprintf("status:%dxx", c.Status/100))
		}
		if i%397 == 0 {
			res.Sample(map[string]interface{}{"case": c, "observed": o})
		}
		if cls, what := Oracle(c, o); cls != "" {
			res.Fail(core.Failure{Case: c.ID, Class: cls, What: what, Replay: c})
		}
		if t, ok := CoqCase(i, c, o); ok {
			caseIndex[fmt.Sprint(i)] = c
			coqCases = append(coqCases, t)
		}
	}
	for k := range preSendVars {
		for _, post := range []bool{true, false} {
			res.Count(fmt.Sprintf("pre-send/%d/%v", k, post), true)
			res.Dist("pre-send")
			if cls, what := preSend(k, post); cls != "" {
				res.Fail(core.Failure{Case: "presend-" + preSendVars[k].name, Class: cls, What: what, Replay: &Case{ID: "presend-" + preSendVars[k].name, Kind: "pre-send", Status: k}})
			}
		}
	}
	shard := 1000
	for s := 0; s*shard < len(coqCases); s++ {
		end := (s + 1) * shard
		if end > len(coqCases) {
			end = len(coqCases)
		}
		var sb bytes.Buffer
		sb.WriteString("From Verif Require Import Base.Str Rt.HttpResp Corr.C12corr.\n")
		sb.WriteString("Definition cases : list c12_case := [\n")
		sb.WriteString(strings.Join(coqCases[s*shard:end], ";\n"))
		sb.WriteString("\n].\n")
		sb.WriteString("Definition MISMATCH := Eval vm_compute in c12_mismatches cases.\nPrint MISMATCH.\n")
		sb.WriteString("Definition SPECFAIL := Eval vm_compute in c12_specfails cases.\nPrint SPECFAIL.\n")
		name := filepath.Join(outDir, fmt.Sprintf("cases_%d.v", s))
		if err := os.WriteFile(name, sb.Bytes(), 0o644); err != nil {
			return nil, err
		}
		res.CasesV = append(res.CasesV, name)
	}
	res.ModelCases = len(coqCases)
	return res, nil
}
