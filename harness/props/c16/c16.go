// Package c16: enum constants are a bijection with the schema's values.
package c16

import (
	"encoding/json"
	"fmt"
	"go/ast"
	"go/parser"
	"go/token"
	"os"
	"path/filepath"
	"regexp"
	"strconv"
	"strings"

	"github.com/Khan/genqlient/generate"

	"verifharness/coqfmt"
	"verifharness/core"
)

// Case is one generated enum with its configuration; it is also the replay format.
type Case struct {
	ID        string            `json:"id"`
	Gql       string            `json:"gql"`      // enum's GraphQL name
	Values    []string          `json:"values"`   // schema order
	Default   string            `json:"default"`  // casing.default ("" unset)
	AllEnums  string            `json:"all_enums"`
	Enums     map[string]string `json:"enums"`
	TypeName  string            `json:"typename"` // @genqlient(typename:) on the use site ("" none)
	Usage     string            `json:"usage"`    // result | variable | inputfield
	Twin      string            `json:"twin,omitempty"` // a SECOND enum, used as a variable, whose Go type name is the same (first letter in the other case)
}

type Decl struct {
	Type     string      `json:"type"`
	Consts   [][3]string `json:"consts"` // name, type, value
	AllName  string      `json:"all_name"`
	AllElem  string      `json:"all_elem"`
	All      []string    `json:"all"`
}

type Obs struct {
	Class string `json:"class"` // ok | EnumConflict | ...
	Msg   string `json:"msg,omitempty"`
	Decl  *Decl  `json:"decl,omitempty"`
}

var valueAlphabets = []string{
	"ABab_1", "AB_", "abcXYZ_09", "a_B",
}

func genName(r *core.Rng, alpha string, maxLen int, allowLeadingDigit bool) string {
	n := 1 + r.Intn(maxLen)
	var sb strings.Builder
	for i := 0; i < n; i++ {
		c := alpha[r.Intn(len(alpha))]
		if i == 0 && !allowLeadingDigit && c >= '0' && c <= '9' {
			c = 'x'
		}
		sb.WriteByte(c)
	}
	s := sb.String()
	if s == "true" || s == "false" || s == "null" {
		s += "x"
	}
	return s
}

var casingNames = []string{"", "default", "raw", "auto_camel_case"}

// variants of a base name that tend to collide under some casing
func variants(r *core.Rng, base string) string {
	switch r.Intn(7) {
	case 0:
		return strings.ToUpper(base)
	case 1:
		return strings.ToLower(base)
	case 2:
		return "_" + base
	case 3:
		return base + "_"
	case 4:
		return strings.ReplaceAll(base, "_", "__")
	case 5:
		return strings.ReplaceAll(base, "_", "")
	default:
		if len(base) > 1 {
			i := 1 + r.Intn(len(base)-1)
			return base[:i] + "_" + base[i:]
		}
		return base + "_a"
	}
}

func validName(s string) bool {
	if s == "" || s == "true" || s == "false" || s == "null" {
		return false
	}
	if s[0] >= '0' && s[0] <= '9' {
		return false
	}
	if strings.HasPrefix(s, "__") {
		return false // reserved by GraphQL introspection
	}
	return true
}

func GenCase(r *core.Rng, id int) *Case {
	c := &Case{ID: fmt.Sprintf("c%d", id), Enums: map[string]string{}}
	typeAlpha := "AaBb_"
	for {
		c.Gql = genName(r, typeAlpha, 6, false)
		if validName(c.Gql) && c.Gql != "Query" && c.Gql != "I" && strings.Trim(c.Gql, "_") != "" {
			break
		}
	}
	alpha := r.Pick(valueAlphabets)
	n := 1 + r.Intn(6)
	seen := map[string]bool{}
	for len(c.Values) < n {
		var v string
		if len(c.Values) > 0 && r.Chance(0.35) {
			v = variants(r, c.Values[r.Intn(len(c.Values))])
		} else {
			v = genName(r, alpha, 7, false)
		}
		if !validName(v) {
			continue
		}
		if seen[v] && !r.Chance(0.05) { // rarely keep an exact duplicate
			continue
		}
		seen[v] = true
		c.Values = append(c.Values, v)
	}
	c.Default = r.Pick(casingNames)
	c.AllEnums = r.Pick(casingNames)
	if r.Chance(0.4) {
		c.Enums[c.Gql] = r.Pick(casingNames[1:])
	}
	if r.Chance(0.2) {
		c.Enums["Other"] = r.Pick(casingNames[1:])
	}
	if r.Chance(0.15) {
		c.TypeName = r.Pick([]string{"MyEnum", "my_enum", "E2", "X_y"})
	}
	c.Usage = r.Pick([]string{"result", "result", "variable", "inputfield"})
	return c
}

func program(c *Case) *core.Program {
	var schema strings.Builder
	fmt.Fprintf(&schema, "enum %s {\n", c.Gql)
	for _, v := range c.Values {
		fmt.Fprintf(&schema, "  %s\n", v)
	}
	schema.WriteString("}\n")
	schema.WriteString("input I { e: " + c.Gql + " }\n")
	twinField := ""
	if c.Twin != "" {
		schema.WriteString("enum " + c.Twin + " {\n  TWIN_ONLY_1\n  TWIN_ONLY_2\n}\n")
		twinField = " k(t: " + c.Twin + "): String"
	}
	schema.WriteString("type Query { f: " + c.Gql + " g(e: " + c.Gql + "): String h(i: I): String" + twinField + " }\n")
	dir := ""
	if c.TypeName != "" {
		dir = "# @genqlient(typename: \"" + c.TypeName + "\")\n"
	}
	var op string
	switch c.Usage {
	case "result":
		op = "query Q {\n" + dir + "f\n}\n"
	case "variable":
		op = "query Q(\n" + dir + "$e: " + c.Gql + "\n) { g(e: $e) }\n"
	default:
		// typename on input fields is set through `for:`
		d := ""
		if c.TypeName != "" {
			d = "# @genqlient(for: \"I.e\", typename: \"" + c.TypeName + "\")\n"
		}
		op = d + "query Q(\n$i: I\n) { h(i: $i) }\n"
	}
	if c.Twin != "" {
		// both enums in one operation: the result first, the twin as a variable
		op = "query Q(\n$t: " + c.Twin + "\n) {\nf\nk(t: $t)\n}\n"
	}
	return &core.Program{
		Files:  map[string]string{"schema.graphql": schema.String(), "ops.graphql": op},
		Schema: []string{"schema.graphql"},
		Ops:    []string{"ops.graphql"},
		Cfg: func(cfg *generate.Config) {
			cfg.Casing.Default = generate.CasingAlgorithm(c.Default)
			cfg.Casing.AllEnums = generate.CasingAlgorithm(c.AllEnums)
			if len(c.Enums) > 0 {
				cfg.Casing.Enums = map[string]generate.CasingAlgorithm{}
				for k, v := range c.Enums {
					cfg.Casing.Enums[k] = generate.CasingAlgorithm(v)
				}
			}
		},
	}
}

// Observe runs the real generator and extracts the enum declaration.
func Observe(c *Case) *Obs {
	dir := core.Scratch("c16")
	defer os.RemoveAll(dir)
	out := core.RunGenerate(dir, program(c))
	if out.Panicked {
		return &Obs{Class: "Panic", Msg: out.PanicVal}
	}
	if out.TimedOut {
		return &Obs{Class: "Timeout"}
	}
	if out.Err != nil {
		return &Obs{Class: core.ErrClass(out.Err), Msg: out.Err.Error()}
	}
	src := out.Files[filepath.Join(dir, "generated.go")]
	d, err := ExtractEnum(src, c)
	if err != nil {
		return &Obs{Class: "Unparsable", Msg: err.Error()}
	}
	return &Obs{Class: "ok", Decl: d}
}

// ExtractEnum finds the (single) `type T string` declaration whose constants
// exist, via go/ast.  The enum's Go type name is discovered, not predicted.
func ExtractEnum(src []byte, c *Case) (*Decl, error) {
	fset := token.NewFileSet()
	f, err := parser.ParseFile(fset, "generated.go", src, 0)
	if err != nil {
		return nil, err
	}
	var stringTypes []string
	for _, d := range f.Decls {
		gd, ok := d.(*ast.GenDecl)
		if !ok || gd.Tok != token.TYPE {
			continue
		}
		for _, s := range gd.Specs {
			ts := s.(*ast.TypeSpec)
			if id, ok := ts.Type.(*ast.Ident); ok && id.Name == "string" {
				stringTypes = append(stringTypes, ts.Name.Name)
			}
		}
	}
	if len(stringTypes) != 1 {
		return nil, fmt.Errorf("expected exactly one `type T string`, got %v", stringTypes)
	}
	decl := &Decl{Type: stringTypes[0]}
	for _, d := range f.Decls {
		gd, ok := d.(*ast.GenDecl)
		if !ok {
			continue
		}
		switch gd.Tok {
		case token.CONST:
			for _, s := range gd.Specs {
				vs := s.(*ast.ValueSpec)
				if len(vs.Names) != 1 || len(vs.Values) != 1 {
					continue
				}
				typ := ""
				if id, ok := vs.Type.(*ast.Ident); ok {
					typ = id.Name
				}
				bl, ok := vs.Values[0].(*ast.BasicLit)
				if !ok || bl.Kind != token.STRING {
					continue
				}
				val, _ := strconv.Unquote(bl.Value)
				if strings.HasSuffix(vs.Names[0].Name, "_Operation") {
					continue
				}
				decl.Consts = append(decl.Consts, [3]string{vs.Names[0].Name, typ, val})
			}
		case token.VAR:
			for _, s := range gd.Specs {
				vs := s.(*ast.ValueSpec)
				if len(vs.Names) != 1 || len(vs.Values) != 1 || !strings.HasPrefix(vs.Names[0].Name, "All") {
					continue
				}
				cl, ok := vs.Values[0].(*ast.CompositeLit)
				if !ok {
					continue
				}
				at, ok := cl.Type.(*ast.ArrayType)
				if !ok {
					continue
				}
				decl.AllName = vs.Names[0].Name
				if id, ok := at.Elt.(*ast.Ident); ok {
					decl.AllElem = id.Name
				}
				for _, e := range cl.Elts {
					if id, ok := e.(*ast.Ident); ok {
						decl.All = append(decl.All, id.Name)
					} else {
						decl.All = append(decl.All, "?")
					}
				}
			}
		}
	}
	return decl, nil
}

var conflictRe = regexp.MustCompile(`enum values (\S+) and (\S+) have conflicting Go name (\S+);`)

// Oracle is the specification check, run on the IMPLEMENTATION's output only.
// It returns "" when the property holds on this case.
func Oracle(c *Case, o *Obs) (class, what string) {
	if c.Twin != "" {
		// two enums, one Go type name: there is no way to give each its constants; only a
		// refusal is right
		switch o.Class {
		case "ok", "Unparsable":
			return "C16/two-enums-one-go-type", fmt.Sprintf("enums %s and %s are both used and both map to one Go type name, yet generation succeeded: one of them has no constants", c.Gql, c.Twin)
		case "Panic", "Timeout":
			return "C16/" + o.Class, "unexpected outcome: " + o.Class + " " + o.Msg
		}
		return "", ""
	}
	switch o.Class {
	case "ok":
		d := o.Decl
		if len(d.Consts) != len(c.Values) {
			return "C16/const-count", fmt.Sprintf("%d constants for %d schema values", len(d.Consts), len(c.Values))
		}
		names := map[string]bool{}
		for i, k := range d.Consts {
			if k[2] != c.Values[i] {
				return "C16/const-value", fmt.Sprintf("constant %d has string %q, schema value is %q", i, k[2], c.Values[i])
			}
			if k[1] != d.Type {
				return "C16/const-type", fmt.Sprintf("constant %s has type %q, want %q", k[0], k[1], d.Type)
			}
			if names[k[0]] {
				return "C16/dup-const", fmt.Sprintf("constant name %s emitted twice", k[0])
			}
			names[k[0]] = true
		}
		if d.AllName != "All"+d.Type || d.AllElem != d.Type {
			return "C16/all-decl", fmt.Sprintf("All slice is %s []%s for type %s", d.AllName, d.AllElem, d.Type)
		}
		if len(d.All) != len(d.Consts) {
			return "C16/all-count", fmt.Sprintf("All%s has %d elements for %d constants", d.Type, len(d.All), len(d.Consts))
		}
		for i, n := range d.All {
			if n != d.Consts[i][0] {
				return "C16/all-order", fmt.Sprintf("All%s[%d] = %s, want %s", d.Type, i, n, d.Consts[i][0])
			}
		}
		return "", ""
	case "EnumConflict":
		// an error is only legitimate when two *positions* of the value list really clash;
		// the message names them.
		m := conflictRe.FindStringSubmatch(o.Msg)
		if m == nil {
			return "C16/conflict-msg", "conflict error does not name the two values: " + o.Msg
		}
		ia, ib := -1, -1
		for i, v := range c.Values {
			if v == m[2] && ia < 0 {
				ia = i
			}
		}
		for i, v := range c.Values {
			if v == m[1] && i != ia {
				ib = i
			}
		}
		if ia < 0 || ib < 0 {
			return "C16/conflict-phantom", "conflict reported between values that are not two positions of the enum: " + o.Msg
		}
		return "", ""
	case "InvalidSchema":
		return "", "" // generator-side reject (e.g. duplicate value rejected by the schema validator)
	default:
		return "C16/" + o.Class, "unexpected outcome: " + o.Class + " " + o.Msg
	}
}

func casingTerm(s string) string {
	switch s {
	case "default":
		return "(Some CDefault)"
	case "raw":
		return "(Some CRaw)"
	case "auto_camel_case":
		return "(Some CAuto)"
	}
	return "None"
}

func casingTermPlain(s string) string {
	switch s {
	case "raw":
		return "CRaw"
	case "auto_camel_case":
		return "CAuto"
	}
	return "CDefault"
}

// CoqCase renders case + observation for Corr/C16corr.v.
func CoqCase(idx int, c *Case, o *Obs) string {
	var enums []string
	// deterministic order
	for _, k := range []string{c.Gql, "Other"} {
		if v, ok := c.Enums[k]; ok {
			enums = append(enums, coqfmt.Pair(coqfmt.Str(k), casingTermPlain(v)))
		}
	}
	cfg := fmt.Sprintf("{| cc_default := %s; cc_all_enums := %s; cc_enums := %s |}",
		casingTerm(c.Default), casingTerm(c.AllEnums), coqfmt.List(enums))
	tn := "None"
	if c.TypeName != "" {
		tn = coqfmt.Some(coqfmt.Str(c.TypeName))
	}
	var obs string
	switch o.Class {
	case "ok":
		var consts []string
		for _, k := range o.Decl.Consts {
			consts = append(consts, fmt.Sprintf("(%s, %s, %s)", coqfmt.Str(k[0]), coqfmt.Str(k[1]), coqfmt.Str(k[2])))
		}
		obs = fmt.Sprintf("(Ok {| ed_type := %s; ed_consts := %s; ed_all_name := %s; ed_all_elem_type := %s; ed_all := %s |})",
			coqfmt.Str(o.Decl.Type), coqfmt.List(consts), coqfmt.Str(o.Decl.AllName), coqfmt.Str(o.Decl.AllElem), coqfmt.StrList(o.Decl.All))
	default:
		obs = "(Err " + coqfmt.Str(o.Class) + ")"
	}
	return fmt.Sprintf("{| c_id := %d; c_cfg := %s; c_typename := %s; c_gql := %s; c_vals := %s; c_obs := %s |}",
		idx, cfg, tn, coqfmt.Str(c.Gql), coqfmt.StrList(c.Values), obs)
}

// corpus: hand-written adversarial cases that always run first
func corpus() []*Case {
	mk := func(id, gql string, vals []string, def, all string, enums map[string]string, tn, usage string) *Case {
		if enums == nil {
			enums = map[string]string{}
		}
		return &Case{ID: id, Gql: gql, Values: vals, Default: def, AllEnums: all, Enums: enums, TypeName: tn, Usage: usage}
	}
	return []*Case{
		mk("k1", "Color", []string{"RED", "GREEN", "BLUE"}, "", "", nil, "", "result"),
		mk("k2", "Color", []string{"FOO_BAR", "FooBar"}, "", "", nil, "", "result"),
		mk("k3", "Color", []string{"FOO_BAR", "FooBar"}, "", "raw", nil, "", "result"),
		mk("k4", "Color", []string{"FOO_BAR", "FooBar"}, "", "", map[string]string{"Color": "raw"}, "", "variable"),
		mk("k5", "Color", []string{"foo_bar", "fooBar", "FooBar"}, "auto_camel_case", "", nil, "", "result"),
		mk("k6", "color_kind", []string{"_a", "a_", "a__b", "A"}, "", "", nil, "", "inputfield"),
		mk("k7", "Color", []string{"_", "__x"[1:], "X"}, "", "", nil, "", "result"),
		mk("k8", "Color", []string{"a1", "A1", "a_1"}, "", "", nil, "MyEnum", "result"),
		mk("k9", "E", []string{"x", "X"}, "raw", "auto_camel_case", map[string]string{"E": "default"}, "", "result"),
		mk("k10", "E", []string{"ab", "a_b", "a_B", "A_b", "AB"}, "", "auto_camel_case", nil, "", "variable"),
		// values made of underscores only
		mk("k11", "Marker", []string{"__", "A"}, "", "", nil, "", "result"),
		mk("k12", "Marker", []string{"___", "__", "x"}, "", "", nil, "", "variable"),
		mk("k13", "Marker", []string{"__", "_"}, "auto_camel_case", "", nil, "", "result"),
		mk("k14", "Marker", []string{"__"}, "", "raw", nil, "", "inputfield"),
	}
}

// Run is the driver entry.
func Run(tier string, seed int64, outDir string, replay string) (*core.Result, error) {
	res := core.NewResult("C16", tier, seed)
	res.Rule = "random enums (1-6 values over adversarial alphabets with case/underscore variants of earlier values) x casing default/all_enums/per-enum x typename option x usage (result|variable|inputfield), after a fixed corpus; every 8th again together with a second enum whose name differs in the case of the first letter only (one Go type name for two enums: only a refusal is right); each case is one real generate.Generate call; non-trivial = accepted by the schema validator; distinct = distinct (enum, casing, typename, usage)"
	if replay != "" {
		data, err := os.ReadFile(replay)
		if err != nil {
			return nil, err
		}
		var wrap struct {
			Replay Case `json:"replay"`
		}
		if err := json.Unmarshal(data, &wrap); err != nil {
			return nil, err
		}
		c := &wrap.Replay
		o := Observe(c)
		cls, what := Oracle(c, o)
		fmt.Printf("replay %s: outcome=%s %s\n", c.ID, o.Class, o.Msg)
		if cls != "" {
			res.Fail(core.Failure{Case: c.ID, Class: cls, What: what, Replay: c})
		}
		res.Count(c.ID, true)
		return res, nil
	}
	n := 400
	if tier == "thorough" {
		n = 6000
	}
	rng := core.NewRng(seed)
	cases := corpus()
	for i := 0; i < n; i++ {
		cases = append(cases, GenCase(rng, i))
	}
	// every 8th random case again with a twin enum (Color / color): judged by the oracle only
	var twins []*Case
	for i, c := range cases {
		if i%8 == 3 && c.TypeName == "" && len(c.Gql) > 0 {
			f := c.Gql[:1]
			var tw string
			switch {
			case f >= "A" && f <= "Z":
				tw = strings.ToLower(f) + c.Gql[1:]
			case f >= "a" && f <= "z":
				tw = strings.ToUpper(f) + c.Gql[1:]
			}
			if tw != "" && tw != "Query" && tw != "I" {
				c2 := *c
				c2.ID, c2.Twin, c2.Usage = c.ID+"-twin", tw, "result"
				twins = append(twins, &c2)
			}
		}
	}
	for _, c := range twins {
		o := Observe(c)
		key, _ := json.Marshal(c)
		res.Count(string(key[strings.Index(string(key), ",")+1:]), o.Class != "InvalidSchema")
		res.Dist("twin-outcome:" + o.Class)
		if cls, what := Oracle(c, o); cls != "" {
			res.Fail(core.Failure{Case: c.ID, Class: cls, What: what, Replay: c})
		}
	}
	var coqCases []string
	caseIndex := map[string]interface{}{}
	res.Extra["case_index"] = caseIndex
	for i, c := range cases {
		caseIndex[fmt.Sprint(i)] = c
		o := Observe(c)
		key, _ := json.Marshal(c)
		res.Count(string(key[strings.Index(string(key), ",")+1:]), o.Class != "InvalidSchema")
		res.Dist("outcome:" + o.Class)
		res.Dist("usage:" + c.Usage)
		res.Dist(fmt.Sprintf("values:%d", len(c.Values)))
		eff := c.Default
		if c.AllEnums != "" {
			eff = c.AllEnums
		}
		if v, ok := c.Enums[c.Gql]; ok {
			eff = v
		}
		if eff == "" {
			eff = "default"
		}
		res.Dist("effective_casing:" + eff)
		if i%97 == 0 {
			res.Sample(map[string]interface{}{"case": c, "observed": o})
		}
		if cls, what := Oracle(c, o); cls != "" {
			res.Fail(core.Failure{Case: c.ID, Class: cls, What: what, Replay: c})
		}
		if o.Class == "ok" || o.Class == "EnumConflict" {
			coqCases = append(coqCases, CoqCase(i, c, o))
		}
	}
	// in-kernel correspondence file(s): shards of 500 cases
	const shard = 500
	for s := 0; s*shard < len(coqCases); s++ {
		end := (s + 1) * shard
		if end > len(coqCases) {
			end = len(coqCases)
		}
		var sb strings.Builder
		sb.WriteString("From Verif Require Import Base.Str Gen.Casing Gen.Enum Corr.C16corr.\n")
		sb.WriteString("Definition cases : list c16_case := [\n")
		sb.WriteString(strings.Join(coqCases[s*shard:end], ";\n"))
		sb.WriteString("\n].\n")
		sb.WriteString("Definition MISMATCH := Eval vm_compute in c16_mismatches cases.\nPrint MISMATCH.\n")
		sb.WriteString("Definition SPECFAIL := Eval vm_compute in c16_specfails cases.\nPrint SPECFAIL.\n")
		name := filepath.Join(outDir, fmt.Sprintf("cases_%d.v", s))
		if err := os.WriteFile(name, []byte(sb.String()), 0o644); err != nil {
			return nil, err
		}
		res.CasesV = append(res.CasesV, name)
	}
	res.ModelCases = len(coqCases)
	return res, nil
}
