// Package c20: a failed run leaves previously generated files untouched; a successful run
// writes exactly the generator's bytes.  Runs the real genqlient binary (built from /repo)
// under strace on scratch projects, in multi-step sequences over one directory.
package c20

import (
	"bufio"
	"encoding/json"
	"fmt"
	"os"
	"os/exec"
	"path/filepath"
	"regexp"
	"sort"
	"strings"
	"sync"
	"syscall"
	"time"

	"github.com/Khan/genqlient/generate"

	"verifharness/coqfmt"
	"verifharness/core"
)

// Step is one CLI run preceded by a change of the project's inputs.
type Step struct {
	Variant string `json:"variant"`
	CfgArg  string `json:"cfg_arg"` // "" (default location) | rel | abs
}

type Case struct {
	ID      string `json:"id"`
	Preseed bool   `json:"preseed"` // long sentinel contents in the output files before the first run
	Steps   []Step `json:"steps"`
}

const schemaOK = `type Query { user(id: ID!): User  users: [User!]!  kind: Kind  when: Date }
type User { id: ID!  name: String  age: Int  kind: Kind  friends: [User!] }
enum Kind { A B C_D }
scalar Date
`

const opsA = `query GetUser($id: ID!) { user(id: $id) { id name age kind } }
query ListUsers { users { id name friends { id name } } }
`
const opsB = `# a comment
query Kinds { kind }
query Deep($id: ID!) { user(id: $id) { id friends { id friends { id name age } } } }
fragment UF on User { id name }
query WithFrag { users { ...UF age } }
`
const opsShort = `query Q { kind }
`

type project struct {
	files   map[string]string // relative path -> content ("" + present key means empty file)
	cfgName string            // config file name relative to the project dir
	cfg     []string          // yaml lines
	gen     string            // relative generated path
	export  string            // relative export path ("" none)
}

func baseProject() *project {
	return &project{
		files: map[string]string{
			"go.mod":         "module example.com/scratch\n\ngo 1.22\n",
			"schema.graphql": schemaOK,
			"ops/a.graphql":  opsA,
			"ops/b.graphql":  opsB,
		},
		cfgName: "genqlient.yaml",
		cfg: []string{
			"schema: schema.graphql",
			"operations:",
			"- ops/*.graphql",
			"package: scratch",
			"bindings:",
			"  Date:",
			"    type: string",
		},
		gen:    "generated.go",
		export: "ops.json",
	}
}

// Variants: name -> mutation of the base project.  kind: ok | config | schema | ops | codegen | fs
var variantKinds = map[string]string{}
var variantNames []string

type variantFn func(p *project)

var variants = map[string]variantFn{}

func reg(name, kind string, f variantFn) {
	variants[name] = f
	variantKinds[name] = kind
	variantNames = append(variantNames, name)
}

func replaceCfg(p *project, prefix, line string) {
	for i, l := range p.cfg {
		if strings.HasPrefix(l, prefix) {
			p.cfg[i] = line
			return
		}
	}
	p.cfg = append(p.cfg, line)
}

func init() {
	reg("ok-long", "ok", func(p *project) {})
	reg("ok-short", "ok", func(p *project) { delete(p.files, "ops/b.graphql"); p.files["ops/a.graphql"] = opsShort })
	reg("ok-noexport", "ok", func(p *project) { p.export = "" })
	reg("ok-mid", "ok", func(p *project) { delete(p.files, "ops/b.graphql") })
	// outputs in directories that do not exist yet, different for the two files
	reg("ok-export-newdir", "ok", func(p *project) { p.export = "newexp/sub/ops.json" })
	reg("ok-both-newdirs", "ok", func(p *project) { p.export = "newexp/sub/ops.json"; p.gen = "newgen/generated.go" })
	// the exported-operations file given by an ABSOLUTE path
	reg("ok-export-abs", "ok", func(p *project) { p.export = "@DIR@/absexp/ops.json" })
	reg("ok-go-literal", "ok", func(p *project) {
		delete(p.files, "ops/b.graphql")
		p.files["ops/q.go"] = "package ops\n\nconst q = `# @genqlient\nquery FromGo { kind }`\n"
		p.cfg = append(p.cfg[:3], append([]string{"- ops/*.go"}, p.cfg[3:]...)...)
	})
	// ---- configuration errors
	reg("cfg-yaml-syntax", "config", func(p *project) { p.cfg = append(p.cfg, "  : : [") })
	reg("cfg-unknown-key", "config", func(p *project) { p.cfg = append(p.cfg, "no_such_option: 1") })
	reg("cfg-bad-optional", "config", func(p *project) { p.cfg = append(p.cfg, "optional: sometimes") })
	reg("cfg-generic-no-type", "config", func(p *project) { p.cfg = append(p.cfg, "optional: generic") })
	reg("cfg-bad-package", "config", func(p *project) { replaceCfg(p, "package:", "package: not-an-identifier") })
	reg("cfg-bad-casing", "config", func(p *project) { p.cfg = append(p.cfg, "casing:", "  default: shouty") })
	reg("cfg-missing", "config", func(p *project) { p.cfgName = "" })
	reg("cfg-pkgbinding-file", "config", func(p *project) { p.cfg = append(p.cfg, "package_bindings:", "- package: foo/bar.go") })
	// ---- schema errors
	reg("schema-syntax", "schema", func(p *project) { p.files["schema.graphql"] = schemaOK + "type {" })
	reg("schema-nomatch", "schema", func(p *project) { replaceCfg(p, "schema:", "schema: nothing/*.graphql") })
	reg("schema-invalid", "schema", func(p *project) { p.files["schema.graphql"] = schemaOK + "type Z { f: Missing }\n" })
	// ---- operation errors (detected late: the faulty file sorts last)
	reg("ops-unknown-field", "ops", func(p *project) { p.files["ops/z.graphql"] = "query Bad { users { nope } }\n" })
	reg("ops-anonymous", "ops", func(p *project) { p.files["ops/z.graphql"] = "query { kind }\n" })
	reg("ops-none", "ops", func(p *project) {
		delete(p.files, "ops/b.graphql")
		p.files["ops/a.graphql"] = "fragment OnlyFrag on User { id }\n"
	})
	reg("ops-parse", "ops", func(p *project) { p.files["ops/z.graphql"] = "query X { kind \n" })
	reg("ops-var-type", "ops", func(p *project) { p.files["ops/z.graphql"] = "query V($id: String) { user(id: $id) { id } }\n" })
	reg("ops-bad-ext", "ops", func(p *project) { p.files["ops/z.txt"] = "query T { kind }\n"; p.cfg = append(p.cfg[:3], append([]string{"- ops/*.txt"}, p.cfg[3:]...)...) })
	reg("ops-go-invalid", "ops", func(p *project) {
		p.files["ops/q.go"] = "package ops\nfunc {\n"
		p.cfg = append(p.cfg[:3], append([]string{"- ops/*.go"}, p.cfg[3:]...)...)
	})
	reg("ops-keyword-name", "ops", func(p *project) { p.files["ops/z.graphql"] = "query func { kind }\n" })
	// package_bindings naming the package that holds the generated code (genqlient warns about
	// the circularity and goes on): the last good output is one of the files of that package
	selfBind := func(p *project) {
		p.files["types.go"] = "package scratch\n\ntype Stamp string\n"
		p.cfg = append(p.cfg, "package_bindings:", "- package: example.com/scratch")
	}
	reg("ops-unknown-field-selfbound", "ops", func(p *project) {
		selfBind(p)
		p.files["ops/z.graphql"] = "query Bad2 { users { nope } }\n"
	})
	reg("gen-bad-directive-selfbound", "codegen", func(p *project) {
		selfBind(p)
		p.files["ops/z.graphql"] = "# @genqlient(nonsense: true)\nquery BD2 { kind }\n"
	})
	// ---- code-generation errors
	reg("gen-unbound-scalar", "codegen", func(p *project) { p.cfg = p.cfg[:4]; p.files["ops/z.graphql"] = "query W { when }\n" })
	reg("gen-typename-conflict", "codegen", func(p *project) {
		p.files["ops/z.graphql"] = "query TC {\n  # @genqlient(typename: \"T\")\n  user(id: \"1\") { id }\n  # @genqlient(typename: \"T\")\n  users { name }\n}\n"
	})
	reg("gen-bad-directive", "codegen", func(p *project) { p.files["ops/z.graphql"] = "# @genqlient(nonsense: true)\nquery BD { kind }\n" })
	reg("gen-directive-syntax", "codegen", func(p *project) { p.files["ops/z.graphql"] = "# @genqlient(pointer: )\nquery BS { kind }\n" })
	reg("gen-enum-conflict", "codegen", func(p *project) {
		p.files["schema.graphql"] = schemaOK + "enum Clash { first_value FIRST_VALUE }\nextend type Query { clash: Clash }\n"
		p.files["ops/z.graphql"] = "query EC { clash }\n"
	})
	reg("gen-gofmt-binding", "codegen", func(p *project) {
		replaceCfg(p, "    type:", "    type: \"time.Time)\"")
		p.files["ops/z.graphql"] = "query W3 { when }\n"
	})
	reg("gen-gofmt-context", "codegen", func(p *project) { p.cfg = append(p.cfg, "context_type: \"example.com/x.Ctx)\"") })
	reg("gen-gofmt-marshaler", "codegen", func(p *project) {
		p.cfg = append(p.cfg, "    marshaler: \"example.com/x.Marshal(\"", "    unmarshaler: \"example.com/x.Unmarshal(\"")
		p.files["ops/z.graphql"] = "query W2 { when }\n"
	})
	reg("gen-omitempty-nonnull", "codegen", func(p *project) {
		p.files["ops/z.graphql"] = "query ON(\n  # @genqlient(omitempty: true, pointer: true)\n  $id: ID!,\n) { user(id: $id) { id } }\n# @genqlient(flatten: true)\nquery FL { users { id } }\n"
	})
	// ---- file-system faults (outside the property's error classes; part of the model's tie)
	reg("fs-gen-is-dir", "fs", func(p *project) {})
	reg("fs-parent-is-file", "fs", func(p *project) { p.gen = "blocker/generated.go" })
}

func (p *project) configText() string {
	lines := append([]string{}, p.cfg...)
	lines = append(lines, "generated: "+p.gen)
	if p.export != "" {
		lines = append(lines, "export_operations: "+p.export)
	}
	return strings.Join(lines, "\n") + "\n"
}

type fileInfo struct {
	Content string
	Exists  bool
	IsDir   bool
	Ino     uint64
	Mtime   int64
}

func statFile(path string) fileInfo {
	st, err := os.Lstat(path)
	if err != nil {
		return fileInfo{}
	}
	fi := fileInfo{Exists: true, IsDir: st.IsDir(), Mtime: st.ModTime().UnixNano()}
	if sys, ok := st.Sys().(*syscall.Stat_t); ok {
		fi.Ino = sys.Ino
	}
	if !st.IsDir() {
		b, _ := os.ReadFile(path)
		fi.Content = string(b)
	}
	return fi
}

type traceOp struct {
	Call   string `json:"call"`
	Path   string `json:"path"` // relative to the project dir
	Flags  string `json:"flags,omitempty"`
	Result string `json:"result"`
}

// with `strace -y` a directory fd is printed with its path: AT_FDCWD</cwd/of/the/process>, 5</tmp/go-build1>
var reOpen = regexp.MustCompile(`^\d+\s+(openat|open|creat)\((?:(?:AT_FDCWD|\d+)(?:<([^>]*)>)?,\s*)?"([^"]*)"(?:,\s*([A-Z_|0-9]+))?.*\)\s+=\s+(-?\d+.*)$`)
var reAtPath = regexp.MustCompile(`(?:(?:AT_FDCWD|\d+)(?:<([^>]*)>)?,\s*)?"([^"]*)"`)
var reOther = regexp.MustCompile(`^\d+\s+(rename|renameat|renameat2|unlink|unlinkat|truncate|mkdir|mkdirat|link|linkat|symlink|symlinkat|rmdir|chmod|fchmodat)\((.*)\)\s+=\s+(-?\d+.*)$`)
var reQuoted = regexp.MustCompile(`"([^"]*)"`)
var rePid = regexp.MustCompile(`^(\d+)\s`)
var reResumed = regexp.MustCompile(`^(\d+)\s+<\.\.\. \w+ resumed>(.*)$`)

func parseTrace(traceFile, dir string) []traceOp {
	f, err := os.Open(traceFile)
	if err != nil {
		return nil
	}
	defer f.Close()
	var ops []traceOp
	// base: the directory a relative path is relative to, when strace could tell (the path of
	// the directory fd, or of the calling process's cwd); the project directory otherwise
	rel := func(base, p string) (string, bool) {
		if !filepath.IsAbs(p) {
			if base != "" {
				p = filepath.Join(base, p)
			} else {
				p = filepath.Join(dir, p)
			}
		}
		p = filepath.Clean(p)
		if p == dir {
			return ".", true
		}
		if strings.HasPrefix(p, dir+"/") {
			return strings.TrimPrefix(p, dir+"/"), true
		}
		return "", false
	}
	sc := bufio.NewScanner(f)
	sc.Buffer(make([]byte, 1<<20), 1<<24)
	// with -f, a call of one thread can be printed in two pieces around calls of other threads:
	//   123 openat(AT_FDCWD, "x", O_WRONLY <unfinished ...>
	//   123 <... openat resumed>) = 3
	pending := map[string]string{}
	for sc.Scan() {
		line := sc.Text()
		if i := strings.Index(line, " <unfinished ...>"); i >= 0 {
			if m := rePid.FindStringSubmatch(line); m != nil {
				pending[m[1]] = line[:i]
			}
			continue
		}
		if m := reResumed.FindStringSubmatch(line); m != nil {
			if pre, ok := pending[m[1]]; ok {
				delete(pending, m[1])
				line = pre + m[2]
			}
		}
		if m := reOpen.FindStringSubmatch(line); m != nil {
			flags := m[4]
			if m[1] == "creat" {
				flags = "O_CREAT|O_WRONLY|O_TRUNC"
			}
			if !(strings.Contains(flags, "O_WRONLY") || strings.Contains(flags, "O_RDWR") || strings.Contains(flags, "O_CREAT") ||
				strings.Contains(flags, "O_TRUNC") || strings.Contains(flags, "O_APPEND")) {
				continue
			}
			if r, ok := rel(m[2], m[3]); ok {
				ops = append(ops, traceOp{Call: "open-write", Path: r, Flags: flags, Result: m[5]})
			}
			continue
		}
		if m := reOther.FindStringSubmatch(line); m != nil {
			for _, q := range reAtPath.FindAllStringSubmatch(m[2], -1) {
				if r, ok := rel(q[1], q[2]); ok {
					ops = append(ops, traceOp{Call: m[1], Path: r, Result: m[3]})
					break
				}
			}
		}
	}
	return ops
}

type StepObs struct {
	Variant   string            `json:"variant"`
	CfgOK     bool              `json:"cfg_ok"`
	GenOK     bool              `json:"gen_ok"`
	InprocErr string            `json:"inproc_err,omitempty"`
	ExitOK    bool              `json:"exit_ok"`
	Stdout    string            `json:"stdout,omitempty"`
	Ops       []traceOp         `json:"ops"`
	Before    map[string]string `json:"-"`
	After     map[string]string `json:"-"`
	Expected  map[string]string `json:"-"` // rel path -> generator bytes
	Term      string            `json:"-"`
	Fails     []core.Failure    `json:"-"`
}

type runner struct {
	bin     string
	mu      sync.Mutex
	ids     map[string]int
	traceOK bool
}

func (r *runner) id(content string) int {
	r.mu.Lock()
	defer r.mu.Unlock()
	if v, ok := r.ids[content]; ok {
		return v
	}
	v := len(r.ids) + 1
	r.ids[content] = v
	return v
}

var watched = []string{"generated.go", "ops.json", "blocker/generated.go", "keep.txt", "blocker", "newexp/sub/ops.json", "newgen/generated.go", "absexp/ops.json"}

func sentinel(name string) string {
	return "// LAST GOOD OUTPUT of " + name + "\n" + strings.Repeat("// padding so that this file is longer than anything the generator emits\n", 400)
}

func (r *runner) runCase(c *Case) []*StepObs {
	root := core.Scratch("c20")
	defer os.RemoveAll(root)
	dir := filepath.Join(root, "proj")
	_ = os.MkdirAll(dir, 0o755)
	_ = os.WriteFile(filepath.Join(dir, "keep.txt"), []byte("bystander\n"), 0o644)
	if c.Preseed {
		_ = os.WriteFile(filepath.Join(dir, "generated.go"), []byte(sentinel("generated.go")), 0o644)
		_ = os.WriteFile(filepath.Join(dir, "ops.json"), []byte(sentinel("ops.json")), 0o644)
	}
	var out []*StepObs
	for si, st := range c.Steps {
		p := baseProject()
		variants[st.Variant](p)
		// lay out inputs (remove inputs of the previous step first)
		_ = os.RemoveAll(filepath.Join(dir, "ops"))
		_ = os.Remove(filepath.Join(dir, "schema.graphql"))
		for _, n := range []string{"genqlient.yaml"} {
			_ = os.Remove(filepath.Join(dir, n))
		}
		for name, content := range p.files {
			full := filepath.Join(dir, name)
			_ = os.MkdirAll(filepath.Dir(full), 0o755)
			_ = os.WriteFile(full, []byte(content), 0o644)
		}
		cfgPath := filepath.Join(dir, "genqlient.yaml")
		p.export = strings.ReplaceAll(p.export, "@DIR@", dir)
		if p.cfgName != "" {
			_ = os.WriteFile(cfgPath, []byte(p.configText()), 0o644)
		}
		switch st.Variant {
		case "fs-gen-is-dir":
			if fi := statFile(filepath.Join(dir, "generated.go")); fi.Exists && !fi.IsDir {
				_ = os.Remove(filepath.Join(dir, "generated.go"))
			}
			_ = os.MkdirAll(filepath.Join(dir, "generated.go"), 0o755)
		case "fs-parent-is-file":
			_ = os.WriteFile(filepath.Join(dir, "blocker"), []byte("i am a file\n"), 0o644)
		default:
			// undo fault set-ups of earlier steps
			if fi := statFile(filepath.Join(dir, "generated.go")); fi.IsDir {
				_ = os.RemoveAll(filepath.Join(dir, "generated.go"))
			}
		}
		obs := &StepObs{Variant: st.Variant}
		// ---- what the generator itself returns, in-process (same /repo code)
		obs.Expected = map[string]string{}
		if p.cfgName == "" {
			obs.CfgOK = false
			obs.InprocErr = "no config file"
		} else {
			cfg, err := generate.ReadAndValidateConfig(cfgPath)
			if err != nil {
				obs.InprocErr = err.Error()
			} else {
				obs.CfgOK = true
				oc := core.RunConfig(cfg)
				if oc.Err != nil || oc.Panicked || oc.TimedOut {
					obs.InprocErr = fmt.Sprint(oc.Err, oc.PanicVal)
				} else {
					obs.GenOK = true
					for k, v := range oc.Files {
						rel, _ := filepath.Rel(dir, k)
						obs.Expected[rel] = string(v)
					}
					// WHERE the outputs go is the configuration's word, not the generator's: the two
					// configured paths, resolved against the config's directory unless absolute
					resolve := func(x string) string {
						if filepath.IsAbs(x) {
							return filepath.Clean(x)
						}
						return filepath.Join(dir, x)
					}
					want := map[string]bool{resolve(p.gen): true}
					if p.export != "" {
						want[resolve(p.export)] = true
					}
					for k := range oc.Files {
						if !want[filepath.Clean(k)] {
							obs.Fails = append(obs.Fails, core.Failure{Case: fmt.Sprintf("%s_%d", c.ID, si), Class: "C20/success-writes-elsewhere",
								What: fmt.Sprintf("variant %s: the generator's output is destined for %s, which is not a configured output path %v", st.Variant, k, core.SortedKeysB(want)), Replay: c})
						}
					}
					for w := range want {
						if _, ok := oc.Files[w]; !ok {
							obs.Fails = append(obs.Fails, core.Failure{Case: fmt.Sprintf("%s_%d", c.ID, si), Class: "C20/success-writes-elsewhere",
								What: fmt.Sprintf("variant %s: nothing is written to the configured output path %s", st.Variant, w), Replay: c})
						}
					}
				}
			}
		}
		// ---- before
		before := map[string]fileInfo{}
		for _, w := range watched {
			before[w] = statFile(filepath.Join(dir, w))
		}
		time.Sleep(2 * time.Millisecond)
		// ---- the real binary under strace
		traceFile := filepath.Join(root, fmt.Sprintf("trace%d.txt", si))
		var args []string
		switch st.CfgArg {
		case "rel":
			args = []string{"genqlient.yaml"}
		case "abs":
			args = []string{cfgPath}
		}
		if p.cfgName == "" && st.CfgArg != "" {
			args = []string{"no-such-config.yaml"}
		}
		full := append([]string{"-f", "-y", "-o", traceFile, "-e", "trace=openat,open,creat,rename,renameat,renameat2,unlink,unlinkat,truncate,mkdir,mkdirat,link,linkat,symlink,symlinkat,rmdir", "--", r.bin}, args...)
		cmd := exec.Command("strace", full...)
		cmd.Dir = dir
		cmd.Env = append(os.Environ(), "GOFLAGS=-mod=mod", "GOPROXY=off", "GOSUMDB=off", "GOTOOLCHAIN=local")
		outb, err := cmd.CombinedOutput()
		obs.ExitOK = err == nil
		obs.Stdout = string(outb)
		if len(obs.Stdout) > 300 {
			obs.Stdout = obs.Stdout[:300]
		}
		obs.Ops = parseTrace(traceFile, dir)
		if _, e := os.Stat(traceFile); e == nil {
			r.traceOK = true
		}
		// ---- after
		after := map[string]fileInfo{}
		for _, w := range watched {
			after[w] = statFile(filepath.Join(dir, w))
		}
		r.judge(c, si, st, p, obs, before, after)
		out = append(out, obs)
	}
	return out
}

func (r *runner) judge(c *Case, si int, st Step, p *project, obs *StepObs, before, after map[string]fileInfo) {
	id := fmt.Sprintf("%s/%d", c.ID, si)
	fail := func(class, what string) {
		obs.Fails = append(obs.Fails, core.Failure{Case: id, Class: class, What: what, Replay: c})
	}
	kind := variantKinds[st.Variant]
	var writeOpens []traceOp
	var otherMut []traceOp
	for _, o := range obs.Ops {
		if o.Path == "go.sum" || strings.HasPrefix(o.Path, "ops/") || o.Path == "go.mod" {
			continue // the go command (packages.Load) may touch module files; not outputs
		}
		if o.Call == "open-write" {
			writeOpens = append(writeOpens, o)
		} else if !strings.HasPrefix(o.Result, "-1") {
			otherMut = append(otherMut, o)
		}
	}
	genErr := !obs.CfgOK || !obs.GenOK
	if genErr {
		if obs.ExitOK {
			fail("C20/error-not-reported", "generation failed in-process ("+obs.InprocErr+") but the binary exited 0")
		}
		for _, w := range watched {
			b, a := before[w], after[w]
			if b.Exists != a.Exists || b.Content != a.Content || b.IsDir != a.IsDir {
				fail("C20/failed-run-modified-file", fmt.Sprintf("variant %s (%s error): %s changed (existed %v->%v, %d->%d bytes)", st.Variant, kind, w, b.Exists, a.Exists, len(b.Content), len(a.Content)))
			} else if b.Exists && (b.Ino != a.Ino || b.Mtime != a.Mtime) {
				fail("C20/failed-run-touched-file", fmt.Sprintf("variant %s: %s was rewritten (inode/mtime changed) although the run failed", st.Variant, w))
			}
		}
		if len(writeOpens) > 0 {
			fail("C20/failed-run-opened-for-write", fmt.Sprintf("variant %s: failed run opened %s for writing (%s)", st.Variant, writeOpens[0].Path, writeOpens[0].Flags))
		}
		if len(otherMut) > 0 {
			fail("C20/failed-run-mutated-fs", fmt.Sprintf("variant %s: failed run performed %s on %s", st.Variant, otherMut[0].Call, otherMut[0].Path))
		}
	} else if kind != "fs" {
		if !obs.ExitOK {
			fail("C20/success-not-reported", "generation succeeded in-process but the binary failed: "+obs.Stdout)
		}
		for rel, want := range obs.Expected {
			got := after[rel]
			if !got.Exists || got.Content != want {
				n := 0
				for n < len(want) && n < len(got.Content) && want[n] == got.Content[n] {
					n++
				}
				fail("C20/success-bytes-differ", fmt.Sprintf("variant %s: %s holds %d bytes, the generator produced %d (first difference at byte %d)", st.Variant, rel, len(got.Content), len(want), n))
			}
		}
		for _, w := range watched {
			if _, isOut := obs.Expected[w]; isOut {
				continue
			}
			b, a := before[w], after[w]
			if b.Exists != a.Exists || b.Content != a.Content {
				fail("C20/success-modified-other-file", fmt.Sprintf("variant %s: %s is not an output but changed", st.Variant, w))
			}
		}
	}
	// ---- the model's case
	fsTerm := func(m map[string]fileInfo) string {
		var items []string
		for _, w := range watched {
			if fi := m[w]; fi.Exists {
				cid := r.id("dir:")
				if !fi.IsDir {
					cid = r.id(fi.Content)
				}
				items = append(items, coqfmt.Pair(coqfmt.Str(w), coqfmt.N(cid)))
			}
		}
		return coqfmt.List(items)
	}
	var order []string
	seen := map[string]bool{}
	for _, o := range writeOpens {
		if _, ok := obs.Expected[o.Path]; ok && !seen[o.Path] {
			seen[o.Path] = true
			order = append(order, o.Path)
		}
	}
	var rest []string
	for k := range obs.Expected {
		if !seen[k] {
			rest = append(rest, k)
		}
	}
	sort.Strings(rest)
	order = append(order, rest...)
	genTerm := "None"
	if obs.GenOK {
		var items []string
		for _, k := range order {
			items = append(items, coqfmt.Pair(coqfmt.Str(k), coqfmt.N(r.id(obs.Expected[k]))))
		}
		genTerm = coqfmt.Some(coqfmt.List(items))
	}
	failTerm := "None"
	if obs.CfgOK && obs.GenOK && kind == "fs" {
		pos := 0
		for i, k := range order {
			if k == p.gen {
				pos = i
			}
		}
		if st.Variant == "fs-gen-is-dir" {
			failTerm = coqfmt.Some(coqfmt.Nat(2*pos + 1))
		} else {
			failTerm = coqfmt.Some(coqfmt.Nat(2 * pos))
		}
	}
	var wr []string
	for _, o := range writeOpens {
		wr = append(wr, coqfmt.Pair(coqfmt.Str(o.Path), coqfmt.N(0)))
	}
	var paths []string
	for _, w := range watched {
		paths = append(paths, coqfmt.Str(w))
	}
	obs.Term = fmt.Sprintf("k_cfg_ok := %s; k_gen := %s; k_fail := %s; k_before := %s; k_paths := %s; k_exit_ok := %s; k_writes := %s; k_after := %s |}",
		coqfmt.Bool(obs.CfgOK), genTerm, failTerm, fsTerm(before), coqfmt.List(paths), coqfmt.Bool(obs.ExitOK), coqfmt.List(wr), fsTerm(after))
}

func genCases(rng *core.Rng, tier string) []*Case {
	var cases []*Case
	args := []string{"", "rel", "abs"}
	n := 0
	add := func(pre bool, steps ...string) {
		c := &Case{ID: fmt.Sprintf("s%d", n), Preseed: pre}
		n++
		for _, s := range steps {
			c.Steps = append(c.Steps, Step{Variant: s, CfgArg: args[rng.Intn(3)]})
		}
		cases = append(cases, c)
	}
	var errs, oks []string
	for _, v := range variantNames {
		switch variantKinds[v] {
		case "ok":
			oks = append(oks, v)
		case "fs":
		default:
			errs = append(errs, v)
		}
	}
	// every error class after a good run and over pre-seeded last-good output
	for i, e := range errs {
		if i%2 == 0 {
			add(false, "ok-long", e)
		} else {
			add(true, e)
		}
	}
	// success after longer output (truncation), after failure, growth
	add(false, "ok-long", "ok-short")
	add(true, "ok-short")
	add(true, "ok-noexport", "ok-long")
	add(false, "ok-short", "ok-long", "ok-mid", "ok-go-literal")
	add(false, "ok-export-newdir", "ok-long")
	add(true, "ok-both-newdirs")
	add(false, "ok-export-abs", "ok-short")
	add(false, "ok-long", "fs-gen-is-dir", "ok-short")
	add(true, "fs-parent-is-file")
	add(false, "fs-gen-is-dir")
	extra := 6
	if tier == "thorough" {
		extra = 80
		for i, e := range errs {
			if i%2 == 1 {
				add(false, "ok-long", e, "ok-short")
			} else {
				add(true, e, "ok-mid")
			}
		}
	}
	all := append(append([]string{}, errs...), oks...)
	all = append(all, oks...)
	all = append(all, "fs-gen-is-dir", "fs-parent-is-file")
	for i := 0; i < extra; i++ {
		k := 2 + rng.Intn(4)
		var steps []string
		for j := 0; j < k; j++ {
			steps = append(steps, all[rng.Intn(len(all))])
		}
		add(rng.Chance(0.5), steps...)
	}
	return cases
}

func buildBinary(outDir string) (string, error) {
	// built by ./check (go build ./cmd/... in the harness module, against /repo's current tree)
	root := os.Getenv("VERIF_ROOT")
	if root == "" {
		root = "/verif"
	}
	bin := filepath.Join(root, "_build", "bin", "genqlientbin")
	if _, err := os.Stat(bin); err != nil {
		return "", fmt.Errorf("genqlient binary not built: %v", err)
	}
	return bin, nil
}

func Run(tier string, seed int64, outDir string, replay string) (*core.Result, error) {
	res := core.NewResult("C20", tier, seed)
	res.Rule = "CLI runs of the genqlient binary built from /repo, under strace, in multi-step sequences over one project directory (pre-seeded long 'last good' outputs, good runs of different lengths, every configuration / schema / operation / code-generation error class incl. failures detected only at the final gofmt stage, two file-system faults); non-trivial = every step; distinct by (variant sequence prefix, config argument spelling)"
	bin, err := buildBinary(outDir)
	if err != nil {
		return nil, err
	}
	r := &runner{bin: bin, ids: map[string]int{}}
	var cases []*Case
	if replay != "" {
		data, err := os.ReadFile(replay)
		if err != nil {
			return nil, err
		}
		var wrap struct {
			Replay Case `json:"replay"`
		}
		if err := json.Unmarshal(data, &wrap); err != nil {
			return nil, err
		}
		cases = []*Case{&wrap.Replay}
	} else {
		cases = genCases(core.NewRng(seed), tier)
	}
	type done struct {
		c   *Case
		obs []*StepObs
	}
	results := make([]done, len(cases))
	var wg sync.WaitGroup
	sem := make(chan struct{}, 8)
	for i, c := range cases {
		wg.Add(1)
		go func(i int, c *Case) {
			defer wg.Done()
			sem <- struct{}{}
			defer func() { <-sem }()
			results[i] = done{c, r.runCase(c)}
		}(i, c)
	}
	wg.Wait()
	caseIndex := map[string]interface{}{}
	res.Extra["case_index"] = caseIndex
	var terms []string
	k := 0
	for _, d := range results {
		var prefix []string
		for si, o := range d.obs {
			prefix = append(prefix, o.Variant)
			res.Count(strings.Join(prefix, ">")+"|"+d.c.Steps[si].CfgArg+fmt.Sprint(d.c.Preseed), true)
			res.Dist("variant-kind:" + variantKinds[o.Variant])
			if o.InprocErr != "" {
				e := o.InprocErr
				if i := strings.Index(e, ": "); i >= 0 && i < 60 {
					e = e[i+2:]
				}
				if len(e) > 48 {
					e = e[:48]
				}
				if j := strings.Index(e, "/var/tmp/"); j >= 0 {
					e = e[:j] + "<scratch>"
				}
				res.Dist("err[" + o.Variant + "]: " + e)
			} else {
				res.Dist("accepted[" + o.Variant + "]")
			}
			if o.ExitOK {
				res.Dist("exit:0")
			} else {
				res.Dist("exit:nonzero")
			}
			if replay != "" {
				b, _ := json.MarshalIndent(o, "", " ")
				fmt.Printf("step %d: %s\n", si, b)
			}
			for _, f := range o.Fails {
				res.Fail(f)
			}
			terms = append(terms, fmt.Sprintf("{| k_id := %d; %s", k, o.Term))
			caseIndex[fmt.Sprint(k)] = d.c
			k++
			if k%17 == 1 {
				res.Sample(map[string]interface{}{"case": d.c, "step": si, "exit_ok": o.ExitOK, "inproc_err": o.InprocErr, "ops": o.Ops})
			}
		}
	}
	if !r.traceOK {
		res.Notes = append(res.Notes, "strace produced no trace file: the open-for-write observations are missing")
		return nil, fmt.Errorf("strace did not produce traces")
	}
	var sb strings.Builder
	sb.WriteString("From Verif Require Import Base.Str Gen.MainRun Corr.C20corr.\n")
	sb.WriteString("Definition cases : list c20_case := [\n" + strings.Join(terms, ";\n") + "\n].\n")
	sb.WriteString("Definition MISMATCH := Eval vm_compute in c20_mismatches cases.\nPrint MISMATCH.\n")
	sb.WriteString("Definition SPECFAIL := Eval vm_compute in c20_specfails cases.\nPrint SPECFAIL.\n")
	name := filepath.Join(outDir, "cases_0.v")
	if err := os.WriteFile(name, []byte(sb.String()), 0o644); err != nil {
		return nil, err
	}
	res.CasesV = []string{name}
	res.ModelCases = len(terms)
	return res, nil
}
