package conv

import (
	"fmt"
	"go/ast"
	"go/parser"
	"go/token"
	"os"
	"os/exec"
	"path/filepath"
	"regexp"
	"sort"
	"strconv"
	"strings"
)

// BuildBatch compiles emitted files, each as its own package, in one scratch module that
// replaces github.com/Khan/genqlient with /repo and contains stub packages for every bound
// type / marshaler / generic the configurations refer to.  Returns per-package compiler output.
type BuildItem struct {
	ID   string
	Src  []byte
	Case *Case
}

var nonIdent = regexp.MustCompile(`[^A-Za-z0-9_]`)

type stubPkg struct {
	types map[string]bool
	funcs map[string]string // name -> full declaration
}

func stripTypePrefix(t string) string {
	for {
		switch {
		case strings.HasPrefix(t, "*"):
			t = t[1:]
		case strings.HasPrefix(t, "[]"):
			t = t[2:]
		case strings.HasPrefix(t, "map[string]"):
			t = t[len("map[string]"):]
		default:
			return t
		}
	}
}

func splitRef(ref string) (pkg, name string, ok bool) {
	ref = stripTypePrefix(ref)
	i := strings.LastIndex(ref, ".")
	if i < 0 || !strings.HasPrefix(ref, "example.com/") {
		return "", "", false
	}
	return ref[:i], ref[i+1:], true
}

func BuildBatch(items []*BuildItem) (map[string]string, error) {
	repo := os.Getenv("VERIF_REPO")
	if repo == "" {
		repo = "/repo"
	}
	root, err := os.MkdirTemp("/var/tmp", "verif.build.")
	if err != nil {
		return nil, err
	}
	defer os.RemoveAll(root)
	gomod := "module example.com\n\ngo 1.22\n\nrequire github.com/Khan/genqlient v0.0.0\n\nreplace github.com/Khan/genqlient => " + repo + "\n"
	if err := os.WriteFile(filepath.Join(root, "go.mod"), []byte(gomod), 0o644); err != nil {
		return nil, err
	}
	if sum, err := os.ReadFile(filepath.Join(repo, "go.sum")); err == nil {
		_ = os.WriteFile(filepath.Join(root, "go.sum"), sum, 0o644)
	}
	stubs := map[string]*stubPkg{}
	get := func(p string) *stubPkg {
		if stubs[p] == nil {
			stubs[p] = &stubPkg{types: map[string]bool{}, funcs: map[string]string{}}
		}
		return stubs[p]
	}
	// typed marshalers from the configurations
	for _, it := range items {
		for gql, m := range it.Case.Cfg.Marshalers {
			bt := it.Case.Cfg.Bindings[gql]
			tp, tn, ok := splitRef(bt)
			if !ok {
				continue
			}
			for k, f := range m {
				fp, fn, ok := splitRef(f)
				if !ok {
					continue
				}
				ref := tn
				if fp != tp {
					ref = nonIdent.ReplaceAllString(filepath.Base(tp), "") + "." + tn // not used by the generator; kept simple
				}
				if k == 0 {
					get(fp).funcs[fn] = fmt.Sprintf("func %s(v *%s) ([]byte, error) { return json.Marshal((*string)(v)) }", fn, ref)
				} else {
					get(fp).funcs[fn] = fmt.Sprintf("func %s(b []byte, v *%s) error { return json.Unmarshal(b, (*string)(v)) }", fn, ref)
				}
			}
			get(tp).types[tn] = true
		}
		if cg := it.Case.Cfg.ClientGetter; cg != "" {
			if p, n, ok := splitRef(cg); ok {
				if it.Case.Cfg.ContextType == "-" {
					get(p).funcs[n] = "func " + n + "() (graphql.Client, error) { return nil, nil }"
				} else {
					get(p).funcs[n] = "func " + n + "(ctx context.Context) (graphql.Client, error) { return nil, nil }"
				}
			}
		}
		if ct := it.Case.Cfg.ContextType; strings.HasPrefix(ct, "example.com/") {
			if p, n, ok := splitRef(ct); ok {
				get(p).funcs[n] = "type " + n + " interface{ context.Context }"
			}
		}
	}
	// types referenced by the emitted files
	for i, it := range items {
		dir := filepath.Join(root, "gen", fmt.Sprintf("p%d", i))
		_ = os.MkdirAll(dir, 0o755)
		if err := os.WriteFile(filepath.Join(dir, "generated.go"), it.Src, 0o644); err != nil {
			return nil, err
		}
		fset := token.NewFileSet()
		f, err := parser.ParseFile(fset, "generated.go", it.Src, 0)
		if err != nil {
			continue
		}
		imports := map[string]string{}
		for _, im := range f.Imports {
			path, _ := strconv.Unquote(im.Path.Value)
			alias := path[strings.LastIndex(path, "/")+1:]
			if im.Name != nil {
				alias = im.Name.Name
			}
			imports[alias] = path
		}
		ast.Inspect(f, func(n ast.Node) bool {
			se, ok := n.(*ast.SelectorExpr)
			if !ok {
				return true
			}
			id, ok := se.X.(*ast.Ident)
			if !ok {
				return true
			}
			path, ok := imports[id.Name]
			if !ok || !strings.HasPrefix(path, "example.com/") {
				return true
			}
			sp := get(path)
			if _, isFunc := sp.funcs[se.Sel.Name]; !isFunc {
				sp.types[se.Sel.Name] = true
			}
			return true
		})
	}
	var paths []string
	for p := range stubs {
		paths = append(paths, p)
	}
	sort.Strings(paths)
	for _, p := range paths {
		sp := stubs[p]
		dir := filepath.Join(root, strings.TrimPrefix(p, "example.com/"))
		_ = os.MkdirAll(dir, 0o755)
		var sb strings.Builder
		pkgName := nonIdent.ReplaceAllString(filepath.Base(p), "")
		sb.WriteString("package " + pkgName + "\n\nimport (\n\t\"context\"\n\t\"encoding/json\"\n\n\t\"github.com/Khan/genqlient/graphql\"\n)\n\nvar _ context.Context\nvar _ = json.Marshal\nvar _ graphql.Client\n\n")
		var tns []string
		for t := range sp.types {
			tns = append(tns, t)
		}
		sort.Strings(tns)
		for _, t := range tns {
			if _, isFunc := sp.funcs[t]; isFunc {
				continue
			}
			if p == "example.com/opt" && t == "Option" {
				sb.WriteString("type Option[T any] struct{ V *T }\n\nfunc (o Option[T]) MarshalJSON() ([]byte, error) { return json.Marshal(o.V) }\nfunc (o *Option[T]) UnmarshalJSON(b []byte) error { return json.Unmarshal(b, &o.V) }\n\n")
				continue
			}
			sb.WriteString("type " + t + " string\n\n")
		}
		var fns []string
		for f := range sp.funcs {
			fns = append(fns, f)
		}
		sort.Strings(fns)
		for _, f := range fns {
			sb.WriteString(sp.funcs[f] + "\n\n")
		}
		if err := os.WriteFile(filepath.Join(dir, "stub.go"), []byte(sb.String()), 0o644); err != nil {
			return nil, err
		}
	}
	cmd := exec.Command("go", "build", "./...")
	cmd.Dir = root
	cmd.Env = append(os.Environ(), "GOFLAGS=-mod=mod", "GOPROXY=off", "GOSUMDB=off", "GOTOOLCHAIN=local")
	out, _ := cmd.CombinedOutput()
	res := map[string]string{}
	cur := ""
	pkgRe := regexp.MustCompile(`^# example\.com/gen/p(\d+)`)
	lineRe := regexp.MustCompile(`^gen/p(\d+)/`)
	for _, line := range strings.Split(string(out), "\n") {
		if m := pkgRe.FindStringSubmatch(line); m != nil {
			i, _ := strconv.Atoi(m[1])
			cur = items[i].ID
			continue
		}
		if strings.HasPrefix(line, "# ") {
			cur = "stub:" + line
			continue
		}
		if m := lineRe.FindStringSubmatch(line); m != nil {
			i, _ := strconv.Atoi(m[1])
			cur = items[i].ID
		}
		if cur != "" && strings.TrimSpace(line) != "" {
			res[cur] += line + "\n"
		}
	}
	for k, v := range res {
		if strings.HasPrefix(k, "stub:") {
			return res, fmt.Errorf("stub package does not build: %s\n%s", k, v)
		}
	}
	if len(res) == 0 && len(out) > 0 && !strings.Contains(string(out), "gen/p") {
		return res, fmt.Errorf("go build failed: %s", out)
	}
	return res, nil
}


// Module is a scratch Go module (module path example.com) that requires genqlient (replaced by
// /repo) and contains every package the generated configurations can refer to, so that programs
// are generated in the same situation as in a user's project (goimports can resolve imports) and
// can then be compiled in place.
type Module struct{ Root string }

func NewModule() (*Module, error) {
	repo := os.Getenv("VERIF_REPO")
	if repo == "" {
		repo = "/repo"
	}
	root, err := os.MkdirTemp("/var/tmp", "verif.mod.")
	if err != nil {
		return nil, err
	}
	m := &Module{Root: root}
	w := func(rel, content string) {
		full := filepath.Join(root, rel)
		_ = os.MkdirAll(filepath.Dir(full), 0o755)
		_ = os.WriteFile(full, []byte(content), 0o644)
	}
	w("go.mod", "module example.com\n\ngo 1.22\n\nrequire github.com/Khan/genqlient v0.0.0\n\nreplace github.com/Khan/genqlient => "+repo+"\n")
	if sum, err := os.ReadFile(filepath.Join(repo, "go.sum")); err == nil {
		w("go.sum", string(sum))
	}
	for i, l := range []string{"a", "b", "c", "d"} {
		var sb strings.Builder
		sb.WriteString("package types\n\n")
		for k := 0; k < 6; k++ {
			fmt.Fprintf(&sb, "type T%d string\n", k)
		}
		_ = i
		w(l+"/types/stub.go", sb.String())
	}
	var sb strings.Builder
	// the user-supplied (un)marshalers count their calls, so that a run can tell whether and how
	// often the generated code went through them
	sb.WriteString("package m\n\nimport \"encoding/json\"\n\nvar Calls = map[string]int{}\n\n")
	for k := 0; k < 6; k++ {
		fmt.Fprintf(&sb, "type M%d string\n\nfunc Marshal%d(v *M%d) ([]byte, error) { Calls[\"Marshal%d\"]++; return json.Marshal((*string)(v)) }\nfunc Unmarshal%d(b []byte, v *M%d) error { Calls[\"Unmarshal%d\"]++; return json.Unmarshal(b, (*string)(v)) }\n\n", k, k, k, k, k, k, k)
	}
	w("m/stub.go", sb.String())
	w("opt/stub.go", "package opt\n\nimport \"encoding/json\"\n\ntype Option[T any] struct{ V *T }\n\nfunc (o Option[T]) MarshalJSON() ([]byte, error) { return json.Marshal(o.V) }\nfunc (o *Option[T]) UnmarshalJSON(b []byte) error { return json.Unmarshal(b, &o.V) }\n")
	w("b/stub.go", "package b\n\ntype T string\ntype FT string\n")
	w("c/stub.go", "package c\n\ntype U string\ntype V string\n")
	w("cx/stub.go", "package cx\n\nimport \"context\"\n\ntype MyCtx interface{ context.Context }\n")
	w("cg/stub.go", "package cg\n\nimport (\n\t\"context\"\n\n\t\"github.com/Khan/genqlient/graphql\"\n)\n\n// Client is what the getters hand out; Fail makes them fail (set by the verification runner).\nvar Client graphql.Client\nvar Fail error\n\nfunc GetClient(ctx context.Context) (graphql.Client, error) {\n\tif Fail != nil {\n\t\treturn nil, Fail\n\t}\n\treturn Client, nil\n}\nfunc GetClientNoCtx() (graphql.Client, error) {\n\tif Fail != nil {\n\t\treturn nil, Fail\n\t}\n\treturn Client, nil\n}\n")
	return m, nil
}

func (m *Module) Dir(i int) string { return filepath.Join(m.Root, "gen", fmt.Sprintf("p%d", i)) }
func (m *Module) Close()          { os.RemoveAll(m.Root) }

// Build compiles everything; returns compiler output per package index.
func (m *Module) Build() (map[int]string, error) {
	cmd := exec.Command("go", "build", "./...")
	cmd.Dir = m.Root
	cmd.Env = append(os.Environ(), "GOFLAGS=-mod=mod", "GOPROXY=off", "GOSUMDB=off", "GOTOOLCHAIN=local")
	out, _ := cmd.CombinedOutput()
	res := map[int]string{}
	lineRe := regexp.MustCompile(`^gen/p(\d+)/`)
	cur := -1
	for _, line := range strings.Split(string(out), "\n") {
		if strings.HasPrefix(line, "#") {
			cur = -1
			if mm := regexp.MustCompile(`^# example\.com/gen/p(\d+)`).FindStringSubmatch(line); mm != nil {
				cur, _ = strconv.Atoi(mm[1])
			} else {
				return res, fmt.Errorf("a stub package does not build:\n%s", out)
			}
			continue
		}
		if mm := lineRe.FindStringSubmatch(line); mm != nil {
			cur, _ = strconv.Atoi(mm[1])
		}
		if cur >= 0 && strings.TrimSpace(line) != "" {
			res[cur] += line + "\n"
		}
	}
	if len(res) == 0 && strings.TrimSpace(string(out)) != "" {
		return res, fmt.Errorf("go build failed:\n%s", out)
	}
	return res, nil
}
