package conv

import (
	"fmt"
	"os"
	"regexp"
	"strings"

	"verifharness/core"
	"verifharness/export"
	"verifharness/gen"
)

func genC01(r *core.Rng, id int) *Case {
	so := gen.DefaultSchemaOpts()
	so.AllCustom = id%6 == 4
	s := gen.RandomSchema(r, so)
	var hzImports *gen.Def
	if so.AllCustom {
		// one root field per custom scalar and an operation selecting them all: every bound
		// package (same last path element, below) is then imported by the generated file
		var sb strings.Builder
		sb.WriteString("query HzImports {\n")
		if q := s.Get("Query"); q != nil {
			for _, t := range s.Types {
				if t.Kind == "SCALAR" && s.Field("Query", "hz"+t.Name) == nil {
					q.Fields = append(q.Fields, &gen.FieldDef{Name: "hz" + t.Name, Type: gen.Named(t.Name, r.Chance(0.5))})
					sb.WriteString("  hz" + t.Name + "\n")
				}
			}
		}
		sb.WriteString("}\n")
		hzImports = &gen.Def{Kind: "query", Name: "HzImports", Text: sb.String()}
	}
	oo := gen.DefaultOpOpts()
	d := gen.RandomDoc(r, s, oo)
	if id%5 == 2 {
		if dd := gen.FragDagDoc(r, s); dd != nil {
			d = dd
		}
	}
	gen.DecorateSafe(r, s, d, []float64{0, 0.2, 0.35}[id%3])
	defs := d.Defs()
	if hzImports != nil {
		defs = append(defs, hzImports)
	}
	l := gen.SingleFile(len(defs))
	if r.Chance(0.25) {
		l = gen.RandomLayout(r, len(defs), true)
	}
	cfg := gen.RandomCfgSafe(r, s)
	if so.AllCustom {
		// several bound packages with the same last path element
		k := 0
		for _, t := range s.Types {
			if t.Kind == "SCALAR" {
				cfg.Bindings[t.Name] = fmt.Sprintf("example.com/%c/types.T%d", 'a'+byte(k), k)
				delete(cfg.Marshalers, t.Name)
				k++
			}
		}
	}
	if id%12 == 7 {
		// an object type bound globally, and generated as a struct after all at one place by the
		// documented `typename: ..., bind: "-"`.  The program is this one operation: a global
		// binding constrains every other use of the type (no typename there, no selection-derived
		// type), which the random decoration knows nothing about.
		if op, tn := gen.BoundObjectUnboundHereOp(s, "BO"); op != nil {
			defs = []*gen.Def{op}
			l = gen.SingleFile(len(defs))
			cfg.Bindings[tn] = "example.com/b.T" // a type of the scratch module's stub package b
		}
	}
	// marshaler and unmarshaler are independently optional: make every custom-marshaled
	// binding one-sided in half of the programs
	for k, mu := range cfg.Marshalers {
		switch id % 4 {
		case 2:
			if mu[1] != "" {
				mu[0] = ""
			}
		case 3:
			if mu[0] != "" {
				mu[1] = ""
			}
		}
		cfg.Marshalers[k] = mu
	}
	return &Case{ID: fmt.Sprintf("b%d", id), Schema: s, SchemaFiles: map[string]string{"schema.graphql": s.SDL()}, Defs: defs, Layout: l, Cfg: cfg}
}

func firstErrLine(out string) string {
	for _, l := range strings.Split(out, "\n") {
		if strings.Contains(l, ": ") {
			i := strings.Index(l, ": ")
			msg := l[i+2:]
			// strip identifiers and literals that vary from program to program
			for _, cut := range []string{" (", " in ", ":"} {
				if j := strings.Index(msg, cut); j > 8 {
					msg = msg[:j]
				}
			}
			f := strings.Fields(msg)
			if len(f) > 5 {
				f = f[:5]
			}
			return strings.Join(f, " ")
		}
	}
	return "?"
}

func compileClass(c *Case, out string) string {
	switch {
	case c.Cfg.Optional == "generic" && (strings.Contains(out, "Option[") || strings.Contains(out, "opt.Option")):
		return "C01/does-not-compile/optional-generic-with-custom-or-abstract-type"
	case c.Cfg.ClientGetter != "" && (strings.Contains(out, "client_.Subscribe") || strings.Contains(out, "not enough return values") || strings.Contains(out, "too many return values")):
		return "C01/does-not-compile/client-getter-with-subscription"
	}
	switch {
	case strings.Contains(out, "duplicate method Get"):
		return "C01/does-not-compile/duplicate-getter-own-vs-embedded-fragment"
	case strings.Contains(out, "invalid recursive type"):
		return "C01/does-not-compile/recursive-input-type"
	case strings.Contains(out, "ambiguous selector") && strings.Contains(out, "implementsGraphQLInterface"):
		return "C01/does-not-compile/diamond-fragment-spread-on-abstract-type"
	}
	// `type X struct { X <custom-(un)marshaled or abstract> }`: the first-pass wrapper of the
	// generated UnmarshalJSON embeds *X and declares a raw field X
	if m := redeclRe.FindStringSubmatch(out); m != nil {
		for _, t := range c.Schema.Types {
			if t.Kind != "INPUT" || t.Name != m[1] {
				continue
			}
			for _, a := range t.Inputs {
				up := strings.ToUpper(strings.TrimLeft(a.Name, "_")[:1]) + strings.TrimLeft(a.Name, "_")[1:]
				if mu, ok := c.Cfg.Marshalers[a.Type.Base()]; ok && up == t.Name && (mu[0] != "" || mu[1] != "") {
					return "C01/does-not-compile/input-type-named-like-its-custom-marshaled-field"
				}
			}
		}
	}
	return "C01/does-not-compile/" + firstErrLine(out)
}

var redeclRe = regexp.MustCompile(`: (\w+) redeclared`)

func RunC01(tier string, seed int64, outDir string, replay string) (*core.Result, error) {
	res := core.NewResult("C01", tier, seed)
	res.Rule = "random programs of the supported fragment (every custom scalar bound, options only where the documentation allows them: pointer / alias / typename / bind / struct / flatten / omitempty / for) under random genqlient.yaml settings (optional value|pointer|generic, use_struct_references, use_extensions, context_type, client_getter, casing, bindings with and without marshalers to same-named packages); each must be ACCEPTED, and the emitted file is compiled (go build, one package per program, in a scratch module that replaces genqlient with /repo and stubs every bound type); every declaration is also compared with the converter model in-kernel, and the (package path, alias) pairs that addImportFor chose during the run (verif hook) are replayed in the import model in-kernel; non-trivial = every program; distinct by program text + config"
	n := 60
	if tier == "thorough" {
		n = 1500
	}
	rng := core.NewRng(seed)
	var cases []*Case
	if replay != "" {
		c, err := LoadReplay(replay)
		if err != nil {
			return nil, err
		}
		cases = []*Case{c}
	} else {
		for i := 0; i < n; i++ {
			cases = append(cases, genC01(rng, i))
		}
	}
	mod, err := NewModule()
	if err != nil {
		return nil, err
	}
	defer mod.Close()
	// goimports resolves missing imports relative to the PROCESS working directory: genqlient is run
	// from inside the user's module, so this driver works from inside the scratch module too
	if wd, err := os.Getwd(); err == nil {
		defer os.Chdir(wd)
	}
	_ = os.Chdir(mod.Root)
	var terms, impTerms []string
	var items []*BuildItem
	itemIdx := map[int]*Case{}
	caseIndex := map[string]interface{}{}
	res.Extra["case_index"] = caseIndex
	byID := map[string]*Case{}
	for i, c := range cases {
		o := Observe(mod.Dir(i), c)
		if o.Class != "ok" {
			os.RemoveAll(mod.Dir(i))
		}
		res.Count(fmt.Sprint(c.Defs, c.Cfg, c.SchemaFiles), true)
		res.Dist("outcome:" + o.Class)
		res.Dist("optional:" + c.Cfg.Optional)
		byID[c.ID] = c
		if replay != "" {
			fmt.Printf("outcome: %s %s\n", o.Class, o.Err)
		}
		switch o.Class {
		case "err", "pipeline":
			ec := ErrClassOf(o.Err)
			if o.Class == "pipeline" {
				ec = "pipeline"
				if strings.Contains(o.Err, "failed to gofmt") {
					ec = "gofmt"
				}
			}
			res.Fail(core.Failure{Case: c.ID, Class: "C01/rejected/" + strings.SplitN(ec, ":", 2)[0],
				What: "a program of the supported fragment was rejected: " + firstN(o.Err, 300), Replay: c})
		case "ok":
			items = append(items, &BuildItem{ID: c.ID, Src: o.GoBytes, Case: c})
			itemIdx[i] = c
			_ = os.WriteFile(mod.Dir(i)+"/generated.go", o.GoBytes, 0o644)
			os.RemoveAll(mod.Dir(i) + "/ops") // the inputs (some are .go files) are not part of the output package
		}
		if len(o.ImportLog) > 0 {
			impTerms = append(impTerms, ImpCaseTerm(i, o.ImportLog))
			res.Dist(fmt.Sprintf("imports:%d", len(o.ImportLog)))
		}
		if o.Class == "pipeline" || o.Class == "TIMEOUT" {
			continue
		}
		if ex, err := export.Project(c.SchemaFiles, c.Sources()); err != nil || len(ex.Errs) > 0 {
			res.Dist("harness-export-failed")
			continue
		}
		if t, ok := CaseTerm(i, c, o); ok {
			terms = append(terms, t)
			caseIndex[fmt.Sprint(i)] = c
		}
	}
	if len(items) > 0 {
		outs, err := mod.Build()
		if err != nil {
			return nil, err
		}
		res.Extra["compiled_packages"] = len(items)
		for idx, out := range outs {
			c := itemIdx[idx]
			if c == nil {
				continue
			}
			res.Fail(core.Failure{Case: c.ID, Class: compileClass(c, out), What: "the generated file does not compile:\n" + firstN(out, 600), Replay: c})
		}
		res.Dist(fmt.Sprintf("compiled-ok:%d", len(items)-len(outs)))
	}
	files, err := WriteCases(outDir, "conv", terms, 20)
	if err != nil {
		return nil, err
	}
	impFiles, err := WriteImpCases(outDir, impTerms, 200)
	if err != nil {
		return nil, err
	}
	res.CasesV = append(files, impFiles...)
	res.ModelCases = len(terms) + len(impTerms)
	res.Extra["import_logs"] = len(impTerms)
	return res, nil
}

func firstN(s string, n int) string {
	if len(s) > n {
		return s[:n]
	}
	return s
}
