package conv

import (
	"bytes"
	"strconv"
	"encoding/json"
	"fmt"
	"os"
	"path/filepath"
	"sort"
	"strings"
	"sync"
	"time"

	"github.com/Khan/genqlient/generate"

	"verifharness/core"
	"verifharness/export"
	"verifharness/gen"
)

// genC07: valid but unusual programs: inline fragments without type condition, heavy and partly
// invalid decoration, empty selections of abstract types, deep nesting.
func genC07(r *core.Rng, id int) *Case {
	so := gen.DefaultSchemaOpts()
	s := gen.RandomSchema(r, so)
	oo := gen.DefaultOpOpts()
	oo.BareInline = true
	oo.MaxDepth = 5
	d := gen.RandomDoc(r, s, oo)
	gen.Decorate(r, s, d, 0.2, 0.02)
	// flatten / struct on selections that consist of __typename only
	for _, op := range d.Ops {
		for _, sel := range op.Sel {
			if sel.Kind == "field" && len(sel.Sub) > 0 && r.Chance(0.06) {
				sel.Sub = []*gen.Sel{{Kind: "field", Name: "__typename", Parent: sel.Type.Base(), Type: gen.Named("String", true)}}
				sel.Comment = []string{[]string{"@genqlient(flatten: true)", "@genqlient(struct: true)", "@genqlient(flatten: true, struct: true)"}[r.Intn(3)]}
			}
		}
	}
	defs := d.Defs()
	l := gen.RandomLayout(r, len(defs), true)
	if id%5 == 4 && len(defs) > 1 {
		// every definition in its own literal, all literals on one Go source line: sources that
		// share their pseudo file name and differ in their number of lines
		l = gen.OneLineGoLayout(len(defs))
	}
	return &Case{ID: fmt.Sprintf("p%d", id), Schema: s, SchemaFiles: map[string]string{"schema.graphql": s.SDL()}, Defs: defs,
		Layout: l, Cfg: gen.RandomCfg(r, s)}
}

type yamlCase struct {
	ID    string            `json:"id"`
	Files map[string]string `json:"files"`
	What  string            `json:"what"`
}

// yamlVariants: configurations written as genqlient.yaml text and read by ReadAndValidateConfig.
func yamlVariants(r *core.Rng, id int) *yamlCase {
	s := gen.RandomSchema(r, gen.DefaultSchemaOpts())
	d := gen.RandomDoc(r, s, gen.DefaultOpOpts())
	var ops strings.Builder
	for _, df := range d.Defs() {
		ops.WriteString(df.Text + "\n")
	}
	var y strings.Builder
	y.WriteString("schema: schema.graphql\noperations:\n- ops.graphql\ngenerated: generated.go\npackage: scratch\n")
	y.WriteString("bindings:\n")
	for _, t := range s.Types {
		if t.Kind == "SCALAR" {
			fmt.Fprintf(&y, "  %s:\n    type: %s\n", t.Name, []string{"string", "interface{}", "\"map[string]interface{}\"", "time.Time", "\"[]byte\""}[r.Intn(5)])
		}
	}
	what := "plain"
	var enums []string
	for _, t := range s.Types {
		if t.Kind == "ENUM" {
			enums = append(enums, t.Name)
		}
	}
	switch r.Intn(9) {
	case 0:
		if len(enums) > 0 {
			what = "casing.enums entry with an empty value"
			fmt.Fprintf(&y, "casing:\n  enums:\n    %s:\n", enums[r.Intn(len(enums))])
		}
	case 1:
		if len(enums) > 0 {
			what = "casing.enums entry null"
			fmt.Fprintf(&y, "casing:\n  enums:\n    %s: ~\n", enums[r.Intn(len(enums))])
		}
	case 2:
		if len(enums) > 0 {
			what = "casing.enums entry empty string"
			fmt.Fprintf(&y, "casing:\n  all_enums: \"\"\n  enums:\n    %s: \"\"\n", enums[r.Intn(len(enums))])
		}
	case 3:
		what = "casing raw + auto"
		y.WriteString("casing:\n  default: auto_camel_case\n  all_enums: raw\n")
	case 4:
		what = "optional generic"
		y.WriteString("optional: generic\noptional_generic_type: example.com/opt.Option\n")
	case 5:
		what = "context and client getter"
		y.WriteString("context_type: \"-\"\nclient_getter: example.com/c.GetClient\nuse_extensions: true\n")
	case 6:
		what = "struct references + export"
		y.WriteString("use_struct_references: true\nexport_operations: ops.json\n")
	case 7:
		what = "empty bindings entry"
		y.WriteString("  Unused:\n")
	case 8:
		what = "optional pointer, null lists in yaml"
		y.WriteString("optional: pointer\npackage_bindings: []\n")
	}
	return &yamlCase{ID: fmt.Sprintf("y%d", id), What: what,
		Files: map[string]string{"genqlient.yaml": y.String(), "schema.graphql": s.SDL(), "ops.graphql": ops.String(), "go.mod": "module example.com/scratch\n\ngo 1.22\n"}}
}

func runYAML(dir string, yc *yamlCase) *core.Outcome {
	os.RemoveAll(dir)
	for name, content := range yc.Files {
		full := filepath.Join(dir, name)
		_ = os.MkdirAll(filepath.Dir(full), 0o755)
		_ = os.WriteFile(full, []byte(content), 0o644)
	}
	ch := make(chan *core.Outcome, 1)
	go func() {
		o := &core.Outcome{}
		defer func() {
			if v := recover(); v != nil {
				o.Panicked = true
				o.PanicVal = fmt.Sprint(v)
				o.PanicSite = "config"
			}
			ch <- o
		}()
		cfg, err := generate.ReadAndValidateConfig(filepath.Join(dir, "genqlient.yaml"))
		if err != nil {
			o.Err = err
			return
		}
		*o = *core.RunConfig(cfg)
	}()
	select {
	case o := <-ch:
		return o
	case <-time.After(40 * time.Second):
		return &core.Outcome{TimedOut: true}
	}
}

// mutateBytes applies one byte-level mutation.
func mutateBytes(r *core.Rng, b []byte, donors []string) []byte {
	if len(b) == 0 {
		return []byte("{")
	}
	out := append([]byte{}, b...)
	switch r.Intn(12) {
	case 7: // every line terminator becomes a bare CR / CRLF (both are GraphQL line terminators)
		return bytes.ReplaceAll(out, []byte("\n"), []byte([]string{"\r", "\r\n", "\n\r", "\r\r"}[r.Intn(4)]))
	case 8: // some line terminators become CR
		for i := range out {
			if out[i] == '\n' && r.Chance(0.4) {
				out[i] = '\r'
			}
		}
		return out
	case 9: // byte-order mark first, or UTF-16-ish widening of a prefix
		if r.Chance(0.7) {
			return append([]byte("\xef\xbb\xbf"), out...)
		}
		n := r.Intn(min(40, len(out)) + 1)
		var w []byte
		for _, c := range out[:n] {
			w = append(w, c, 0)
		}
		return append(w, out[n:]...)
	case 10: // all blanks become tabs or commas (insignificant in GraphQL), or lines are joined
		return bytes.ReplaceAll(out, []byte([]string{" ", " ", "\n"}[r.Intn(3)]), []byte([]string{"\t", ",", " ", ""}[r.Intn(4)]))
	case 11: // the file repeated, or a very long comment / name / nesting
		switch r.Intn(4) {
		case 0:
			return append(out, out...)
		case 1:
			return append([]byte("#"+strings.Repeat("x", 70000)+"\n"), out...)
		case 2:
			i := r.Intn(len(out))
			return append(out[:i], append([]byte(strings.Repeat("{ a ", 3000)), out[i:]...)...)
		default:
			i := r.Intn(len(out))
			return append(out[:i], append([]byte(strings.Repeat("A", 70000)), out[i:]...)...)
		}
	case 0: // bit flip
		i := r.Intn(len(out))
		out[i] ^= 1 << uint(r.Intn(8))
	case 1: // truncate
		out = out[:r.Intn(len(out))]
	case 2: // delete a span
		i := r.Intn(len(out))
		j := i + r.Intn(min(20, len(out)-i)+1)
		out = append(out[:i], out[j:]...)
	case 3: // duplicate a span
		i := r.Intn(len(out))
		j := i + r.Intn(min(30, len(out)-i)+1)
		out = append(out[:j], append(append([]byte{}, out[i:j]...), out[j:]...)...)
	case 4: // splice a token of interest
		toks := []string{"{", "}", "(", ")", "...", "... {", "@", "$", "\"", "\"\"\"", "#", "# @genqlient(", "fragment", "on", "query", "extend", "[", "]!", ":", "\x00", "\xff\xfe", "implements", "= null", "@genqlient"}
		i := r.Intn(len(out))
		t := toks[r.Intn(len(toks))]
		out = append(out[:i], append([]byte(t), out[i:]...)...)
	case 5: // splice from another file
		d := donors[r.Intn(len(donors))]
		if len(d) > 0 {
			a := r.Intn(len(d))
			z := a + r.Intn(min(40, len(d)-a)+1)
			i := r.Intn(len(out))
			out = append(out[:i], append([]byte(d[a:z]), out[i:]...)...)
		}
	case 6: // random bytes
		i := r.Intn(len(out))
		for k := 0; k < 4 && i+k < len(out); k++ {
			out[i+k] = byte(r.Intn(256))
		}
	}
	return out
}

func min(a, b int) int {
	if a < b {
		return a
	}
	return b
}

func RunC07(tier string, seed int64, outDir string, replay string) (*core.Result, error) {
	res := core.NewResult("C07", tier, seed)
	res.Rule = "three streams: (a) valid but unusual programs (inline fragments without type condition, __typename-only selections under flatten/struct, heavy partly invalid decoration, random layouts) run in-process and compared with the converter model's Ok/Err/Panic verdict in-kernel; (b) configurations written as genqlient.yaml (empty / null casing entries, odd bindings, every option) through ReadAndValidateConfig + Generate; (c) byte-level mutations (bit flips, truncations, span deletion/duplication, token and cross-file splices, random bytes) of schema, operation (.graphql and .go) and yaml files; (d) a program whose emitted Go does not format, with 0..139 (thorough: 0..1099) comment lines so that the quoted source passes every power-of-ten length; (e) a bound object type whose expect_exact_fields is a selection set, a comment, a fragment, an operation, unbalanced, empty; every run under recover and a watchdog; non-trivial = every run; distinct by input bytes"
	nA, nB, nC := 60, 27, 150
	if tier == "thorough" {
		nA, nB, nC = 600, 180, 2500
	}
	rng := core.NewRng(seed)
	dir := core.Scratch("c07")
	defer os.RemoveAll(dir)
	caseIndex := map[string]interface{}{}
	res.Extra["case_index"] = caseIndex
	var terms []string
	reportOutcome := func(id, stream string, oc *core.Outcome, rp interface{}) {
		switch {
		case oc.Panicked:
			res.Dist(stream + ":PANIC")
			res.Fail(core.Failure{Case: id, Class: "C07/panic/" + oc.PanicSite, What: "the generator panicked: " + oc.PanicVal, Replay: rp})
		case oc.TimedOut:
			res.Dist(stream + ":TIMEOUT")
			res.Fail(core.Failure{Case: id, Class: "C07/hang", What: "the generator did not return within the watchdog time", Replay: rp})
		case oc.Err != nil:
			res.Dist(stream + ":error")
		default:
			res.Dist(stream + ":ok")
		}
	}
	if replay != "" {
		if c, err := LoadReplay(replay); err == nil && c.Defs != nil {
			o := Observe(dir+"/p", c)
			fmt.Printf("outcome: %s %s\n", o.Class, o.Err)
			if o.Class == "PANIC" {
				res.Fail(core.Failure{Case: c.ID, Class: "C07/panic/replay", What: o.Err, Replay: c})
			}
			res.Count(c.ID, true)
			return res, nil
		}
		data, err := os.ReadFile(replay)
		if err == nil {
			var wrap struct {
				Replay yamlCase `json:"replay"`
			}
			if json.Unmarshal(data, &wrap) == nil && wrap.Replay.Files != nil {
				oc := runYAML(dir+"/scratch", &wrap.Replay)
				fmt.Printf("outcome: panicked=%v %s timeout=%v err=%v\n", oc.Panicked, oc.PanicVal, oc.TimedOut, oc.Err)
				res.Count(wrap.Replay.ID, true)
				reportOutcome(wrap.Replay.ID, "replay", oc, &wrap.Replay)
			}
		}
		return res, nil
	}
	// ---- (a)
	for i := 0; i < nA; i++ {
		c := genC07(rng, i)
		os.RemoveAll(dir + "/p")
		os.MkdirAll(dir+"/p", 0o755)
		oc := core.RunGenerate(dir+"/p", c.Program())
		res.Count(fmt.Sprint(c.Defs, c.Cfg), true)
		reportOutcome(c.ID, "a", oc, c)
		o := Observe(dir+"/p", c)
		if o.Class == "pipeline" || o.Class == "TIMEOUT" {
			continue
		}
		if ex, err := export.Project(c.SchemaFiles, c.Sources()); err == nil && len(ex.Errs) == 0 {
			if t, ok := CaseTerm(i, c, o); ok {
				terms = append(terms, t)
				caseIndex[fmt.Sprint(i)] = c
			}
		}
	}
	// ---- (b) and (c) in parallel workers (ReadAndValidateConfig runs `go list`)
	type job struct {
		id     string
		stream string
		yc     *yamlCase
	}
	var jobs []job
	for i := 0; i < nB; i++ {
		jobs = append(jobs, job{fmt.Sprintf("y%d", i), "b", yamlVariants(rng, i)})
	}
	base := yamlVariants(core.NewRng(seed+7), 9999)
	base.Files["q.go"] = "package scratch\n\nconst q = `# @genqlient\nquery FromGo { __typename }`\n"
	base.Files["genqlient.yaml"] = strings.Replace(base.Files["genqlient.yaml"], "- ops.graphql\n", "- ops.graphql\n- q.go\n", 1)
	var names []string
	for n := range base.Files {
		if n != "go.mod" {
			names = append(names, n)
		}
	}
	sort.Strings(names)
	var donors []string
	for _, n := range names {
		donors = append(donors, base.Files[n])
	}
	for i := 0; i < nC; i++ {
		m := &yamlCase{ID: fmt.Sprintf("m%d", i), Files: map[string]string{}}
		for k, v := range base.Files {
			m.Files[k] = v
		}
		target := names[rng.Intn(len(names))]
		mutated := []byte(base.Files[target])
		for k := 0; k < 1+rng.Intn(3); k++ {
			mutated = mutateBytes(rng, mutated, donors)
		}
		m.Files[target] = string(mutated)
		m.What = "mutated " + target
		jobs = append(jobs, job{m.ID, "c:" + target, m})
	}
	// ---- (d) programs whose emitted Go cannot be formatted (a field named `_1` becomes the Go
	// field `1`): the error report quotes the numbered source, for every source length
	nD := 140
	if tier == "thorough" {
		nD = 1100
	}
	for k := 0; k < nD; k++ {
		d := &yamlCase{ID: fmt.Sprintf("f%d", k), What: fmt.Sprintf("unformattable output, %d comment lines", k), Files: map[string]string{
			"genqlient.yaml": "schema: schema.graphql\noperations:\n- ops.graphql\ngenerated: generated.go\npackage: scratch\n",
			"schema.graphql": "type Query {\n  _1: String\n  ok: String\n}\n",
			"ops.graphql":    strings.Repeat("# a comment line\n", k) + "query Q {\n  _1\n}\n",
			"go.mod":         "module example.com/scratch\n\ngo 1.22\n"}}
		jobs = append(jobs, job{d.ID, "d", d})
	}
	// ---- (e) type bindings of an object type with `expect_exact_fields` of every shape
	for k, eef := range []string{"{ id }", "{ id name }", "# only a comment", "fragment F on User { id }", "query { id }", "{", "", "{ id } { id }", "subscription X { id }"} {
		e := &yamlCase{ID: fmt.Sprintf("x%d", k), What: "expect_exact_fields: " + eef, Files: map[string]string{
			"genqlient.yaml": "schema: schema.graphql\noperations:\n- ops.graphql\ngenerated: generated.go\npackage: scratch\nbindings:\n  User:\n    type: string\n    expect_exact_fields: " + strconv.Quote(eef) + "\n",
			"schema.graphql": "type Query {\n  user: User\n}\ntype User {\n  id: ID\n  name: String\n}\n",
			"ops.graphql":    "query Q {\n  user {\n    id\n  }\n}\n",
			"go.mod":         "module example.com/scratch\n\ngo 1.22\n"}}
		jobs = append(jobs, job{e.ID, "e", e})
	}
	outs := make([]*core.Outcome, len(jobs))
	var wg sync.WaitGroup
	sem := make(chan struct{}, 8)
	for i, j := range jobs {
		wg.Add(1)
		go func(i int, j job) {
			defer wg.Done()
			sem <- struct{}{}
			defer func() { <-sem }()
			outs[i] = runYAML(fmt.Sprintf("%s/w%d/scratch", dir, i), j.yc)
			os.RemoveAll(fmt.Sprintf("%s/w%d", dir, i))
		}(i, j)
	}
	wg.Wait()
	for i, j := range jobs {
		key := ""
		for _, n := range []string{"genqlient.yaml", "schema.graphql", "ops.graphql", "q.go"} {
			key += j.yc.Files[n]
		}
		res.Count(key, true)
		reportOutcome(j.id, j.stream, outs[i], j.yc)
		if j.stream == "b" {
			res.Dist("yaml:" + j.yc.What)
		}
	}
	files, err := WriteCases(outDir, "conv", terms, 20)
	if err != nil {
		return nil, err
	}
	res.CasesV = files
	res.ModelCases = len(terms)
	return res, nil
}
