package conv

import (
	"fmt"
	"os"
	"sort"
	"strings"

	"verifharness/core"
	"verifharness/export"
	"verifharness/gen"
	"verifharness/obs"
)

// genC09: programs whose user-chosen names are adversarial: typename options equal to fragment
// names, to response-type names, to names the naming algorithm generates elsewhere; aliases that
// concatenate ambiguously.
func genC09(r *core.Rng, id int) *Case {
	s := gen.RandomSchema(r, gen.DefaultSchemaOpts())
	oo := gen.DefaultOpOpts()
	oo.MaxOps = 3
	d := gen.RandomDoc(r, s, oo)
	var pool []string
	for _, f := range d.Frags {
		pool = append(pool, f.Name)
		for _, pt := range s.PossibleTypes(f.On) {
			pool = append(pool, f.Name+strings.ToUpper(pt[:1])+pt[1:])
		}
	}
	for _, o := range d.Ops {
		pool = append(pool, o.Name+"Response", o.Name)
		for _, sel := range o.Sel {
			if sel.Kind == "field" && sel.Type != nil {
				a := sel.Key()
				pool = append(pool, o.Name+strings.ToUpper(a[:1])+a[1:]+sel.Type.Base())
			}
		}
	}
	pool = append(pool, "Shared", "Shared")
	// a case that carries exactly one of the constructed clashes is otherwise decorated with
	// valid, non-clashing options only: the whole program must be rejected (or wrongly
	// accepted) because of THAT clash, not because of some other one converted earlier
	fam := id % 10
	targeted := fam == 1 || fam == 2 || fam == 4 || fam == 5 || fam == 6 || fam == 7 || fam == 8 || fam == 9
	if targeted {
		gen.DecorateSafe(r, s, d, 0.2)
	} else {
		gen.AdversarialNames = pool
		defer func() { gen.AdversarialNames = nil }()
		if id%4 == 3 {
			// a fragment named like another fragment's implementation struct
			gen.FragmentNameClash(r, s, d)
		}
		gen.Decorate(r, s, d, 0.35, 0)
	}
	defs := d.Defs()
	if (targeted && fam == 1) || (!targeted && id%3 == 1) {
		if tw := gen.NestedTwinOp(r, s, "TwinType"); tw != nil {
			defs = append(defs, tw)
		}
	}
	if (targeted && fam == 2) || (!targeted && id%3 == 2) {
		if tw := gen.InlineTwinOp(r, s, "TwinIface"); tw != nil {
			defs = append(defs, tw)
		}
	}
	if fam == 4 || fam == 9 {
		cl := gen.FragImplClashDefs(r, s, "K")
		if fam == 9 && len(cl) == 4 {
			// the other conversion order: the interface fragment (and its implementation
			// structs) first, the fragment named like one of them second
			cl[2].Text, cl[3].Text = strings.Replace(cl[3].Text, cl[3].Name, cl[2].Name, 1), strings.Replace(cl[2].Text, cl[2].Name, cl[3].Name, 1)
		}
		defs = append(defs, cl...)
	}
	if fam == 5 {
		if e := gen.EnclosingTypenameOp(s, "E"); e != nil {
			defs = append(defs, e)
		}
	}
	if fam == 8 {
		if e := gen.TripleTypenameOp(s, "T3"); e != nil {
			defs = append(defs, e)
		}
	}
	if fam == 7 {
		// a field of abstract type named, by `typename`, like a fragment on that type with the
		// same written selection (in both conversion orders)
		defs = append(defs, gen.TypenameEqualsAbstractFragmentDefs(s, "TF", (id/10)%2 == 1)...)
	}
	if fam == 6 {
		if e := gen.LeafTypenameClashOp(s, "LC"); e != nil {
			defs = append(defs, e)
		}
	}
	return &Case{ID: fmt.Sprintf("n%d", id), Schema: s, SchemaFiles: map[string]string{"schema.graphql": s.SDL()}, Defs: defs,
		Layout: gen.SingleFile(len(defs)), Cfg: gen.RandomCfg(r, s)}
}

// usedFragmentDefs: the definitions an operation needs (transitively), by scanning the texts.
func closureDefs(defs []*gen.Def, op *gen.Def) []*gen.Def {
	byName := map[string]*gen.Def{}
	for _, d := range defs {
		if d.Kind == "fragment" {
			byName[d.Name] = d
		}
	}
	need := map[string]bool{}
	var visit func(text string)
	visit = func(text string) {
		for _, line := range strings.Split(text, "\n") {
			t := strings.TrimSpace(line)
			if strings.HasPrefix(t, "...") && !strings.HasPrefix(t, "... ") {
				n := strings.Fields(strings.TrimPrefix(t, "..."))[0]
				if f, ok := byName[n]; ok && !need[n] {
					need[n] = true
					visit(f.Text)
				}
			}
		}
	}
	visit(op.Text)
	out := []*gen.Def{op}
	var names []string
	for n := range need {
		names = append(names, n)
	}
	sort.Strings(names)
	for _, n := range names {
		out = append(out, byName[n])
	}
	return out
}

func declMap(em *obs.Emitted) map[string]*obs.ODecl {
	m := map[string]*obs.ODecl{}
	for _, d := range em.Decls {
		m[d.Name] = d
	}
	return m
}

func RunC09(tier string, seed int64, outDir string, replay string) (*core.Result, error) {
	res := core.NewResult("C09", tier, seed)
	res.Rule = "random programs whose user-chosen names are adversarial (typename options equal to fragment names, fragment+implementation names, response-type names and auto-generated names of other positions), each generated together and every operation again alone with the fragments it spreads; oracles: every response key of every position is carried by the Go type generated for it (type-level readability, computed from schema+document only), and the declarations of an operation generated alone are identical to those generated together; every declaration is also compared with the converter model in-kernel; non-trivial = accepted program; distinct by program text + config"
	n := 80
	if tier == "thorough" {
		n = 2400
	}
	rng := core.NewRng(seed)
	var cases []*Case
	if replay != "" {
		c, err := LoadReplay(replay)
		if err != nil {
			return nil, err
		}
		cases = []*Case{c}
	} else {
		for i := 0; i < n; i++ {
			if i%4 == 3 {
				cases = append(cases, GenCase(rng, i, 0.25, 0))
			} else {
				cases = append(cases, genC09(rng, i))
			}
		}
	}
	dir := core.Scratch("c09")
	defer os.RemoveAll(dir)
	var terms []string
	caseIndex := map[string]interface{}{}
	res.Extra["case_index"] = caseIndex
	for i, c := range cases {
		o := Observe(dir+"/p", c)
		res.Count(fmt.Sprint(c.Defs, c.Cfg, c.SchemaFiles), o.Class == "ok")
		res.Dist("outcome:" + o.Class)
		if o.Class == "err" {
			res.Dist("rejected:" + strings.SplitN(ErrClassOf(o.Err), ":", 2)[0])
		}
		if replay != "" {
			fmt.Printf("outcome: %s %s\n", o.Class, o.Err)
		}
		if o.Class == "pipeline" || o.Class == "TIMEOUT" {
			continue
		}
		ex, err := export.Project(c.SchemaFiles, c.Sources())
		if err != nil || len(ex.Errs) > 0 {
			res.Dist("harness-export-failed")
			continue
		}
		if o.Class == "ok" {
			for _, f := range CheckReadable(ex, o.Em) {
				class := "C09/type-does-not-carry-selection"
				if strings.Contains(f, "belongs to another selection") {
					class = "C09/type-shared-with-a-larger-selection"
				}
				if strings.Contains(f, "two leaf types share one Go type") {
					class = "C09/leaf-types-share-a-go-type"
				}
				res.Fail(core.Failure{Case: c.ID, Class: class, What: f, Replay: c})
			}
			// alone vs together
			together := declMap(o.Em)
			nops := 0
			for _, d := range c.Defs {
				if d.Kind != "fragment" {
					nops++
				}
			}
			if nops > 1 {
				for _, d := range c.Defs {
					if d.Kind == "fragment" {
						continue
					}
					alone := *c
					alone.Defs = closureDefs(c.Defs, d)
					alone.Layout = gen.SingleFile(len(alone.Defs))
					oa := Observe(dir+"/a", &alone)
					res.Dist("alone:" + oa.Class)
					if oa.Class != "ok" {
						if oa.Class == "err" {
							class := "C09/alone-rejected-together-accepted"
							if ec := ErrClassOf(oa.Err); ec == "input-pointer" || ec == "input-omitempty" {
								class = "C09/shared-input-type-options-differ"
							}
							res.Fail(core.Failure{Case: c.ID, Class: class,
								What: fmt.Sprintf("operation %s is rejected alone (%s) but accepted together with the others", d.Name, oa.Err), Replay: c})
						}
						continue
					}
					inputSide := inputClosure(oa.Em, d.Name)
					for _, da := range oa.Em.Decls {
						dt := together[da.Name]
						if dt == nil {
							class := "C09/declaration-only-when-alone"
							if inputSide[da.Name] {
								// a type reachable only from the operation's variables: the shared input type
								// was converted with another operation's options (typename via `for:`)
								class = "C09/shared-input-type-options-differ"
							}
							res.Fail(core.Failure{Case: c.ID, Class: class, What: fmt.Sprintf("operation %s alone declares %s, which is missing when generated together", d.Name, da.Name), Replay: c})
						} else if dt.Term() != da.Term() {
							class := "C09/declaration-differs-alone-vs-together"
							if dt.Kind == "struct" && !strings.Contains(dt.Term(), "__typename") && isInputLike(ex, da.Name) {
								class = "C09/shared-input-type-options-differ"
							}
							res.Fail(core.Failure{Case: c.ID, Class: class, What: fmt.Sprintf("operation %s: declaration %s differs: alone %s / together %s", d.Name, da.Name, da.Term(), dt.Term()), Replay: c})
						}
					}
					if oa.Em.Response[d.Name] != o.Em.Response[d.Name] {
						res.Fail(core.Failure{Case: c.ID, Class: "C09/response-type-differs-alone-vs-together", What: fmt.Sprintf("operation %s returns %s alone and %s together", d.Name, oa.Em.Response[d.Name], o.Em.Response[d.Name]), Replay: c})
					}
				}
			}
		}
		t, ok := CaseTerm(i, c, o)
		if !ok {
			continue
		}
		terms = append(terms, t)
		caseIndex[fmt.Sprint(i)] = c
		if i%31 == 0 {
			res.Sample(map[string]interface{}{"id": c.ID, "outcome": o.Class, "err": o.Err, "defs": len(c.Defs)})
		}
	}
	files, err := WriteCases(outDir, "conv", terms, 20)
	if err != nil {
		return nil, err
	}
	res.CasesV = files
	res.ModelCases = len(terms)
	return res, nil
}

// isInputLike: the Go name is the (cased) name of an input object of the schema.
// inputClosure: the declarations reachable from the hidden __<Op>Input struct of an operation
func inputClosure(em *obs.Emitted, op string) map[string]bool {
	decl := declMap(em)
	out := map[string]bool{}
	var walk func(name string, depth int)
	walk = func(name string, depth int) {
		d := decl[name]
		if d == nil || out[name] || depth > 12 {
			return
		}
		out[name] = true
		for _, f := range d.Fields {
			walk(stripWrappers(f[1]), depth+1)
		}
	}
	walk("__"+op+"Input", 0)
	return out
}

func isInputLike(ex *export.Exported, goName string) bool {
	for n, t := range ex.Schema.Types {
		if t.Kind == "INPUT_OBJECT" && strings.EqualFold(strings.ReplaceAll(n, "_", ""), strings.ReplaceAll(goName, "_", "")) {
			return true
		}
	}
	return false
}
