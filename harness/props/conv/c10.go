package conv

import (
	"fmt"
	"os"
	"strings"

	"github.com/vektah/gqlparser/v2/ast"
	"github.com/vektah/gqlparser/v2/parser"

	"verifharness/core"
	"verifharness/export"
	"verifharness/obs"
)

// ---- the documentation as an executable function (independent of the Coq model) -------------

type opts struct {
	omitempty, pointer, strct, flatten *bool
	bind, typename, alias             string
}

type fullOpts struct {
	main opts
	fors map[string]*opts // "Type.field"
	bad  bool             // the directive block is one genqlient must reject
}

func parseDirLine(trimmed string, fo *fullOpts) {
	doc, err := parser.ParseQuery(&ast.Source{Input: "query " + trimmed + " { field }"})
	if err != nil || len(doc.Operations) == 0 || len(doc.Operations[0].Directives) == 0 || doc.Operations[0].Directives[0].Name != "genqlient" {
		fo.bad = true
		return
	}
	d := doc.Operations[0].Directives[0]
	target := &fo.main
	for _, a := range d.Arguments {
		if a.Name == "for" {
			if a.Value.Kind != ast.StringValue || strings.Count(a.Value.Raw, ".") != 1 {
				fo.bad = true
				return
			}
			target = &opts{}
			fo.fors[a.Value.Raw] = target
		}
	}
	setB := func(dst **bool, v *ast.Value) {
		if *dst != nil || v.Kind != ast.BooleanValue {
			fo.bad = true
			return
		}
		x := v.Raw == "true"
		*dst = &x
	}
	setS := func(dst *string, v *ast.Value) {
		if *dst != "" || (v.Kind != ast.StringValue && v.Kind != ast.BlockValue) {
			fo.bad = true
			return
		}
		*dst = v.Raw
	}
	for _, a := range d.Arguments {
		switch a.Name {
		case "omitempty":
			setB(&target.omitempty, a.Value)
		case "pointer":
			setB(&target.pointer, a.Value)
		case "struct":
			setB(&target.strct, a.Value)
		case "flatten":
			setB(&target.flatten, a.Value)
		case "bind":
			setS(&target.bind, a.Value)
		case "typename":
			setS(&target.typename, a.Value)
		case "alias":
			setS(&target.alias, a.Value)
		case "for":
		default:
			fo.bad = true
		}
	}
}

// optsAbove: the @genqlient directives on the comment lines directly above `line` (1-based).
func optsAbove(text string, line int) *fullOpts {
	fo := &fullOpts{fors: map[string]*opts{}}
	// lines in the GraphQL sense: "\n", "\r\n" and a bare "\r" end a line
	lines := strings.Split(strings.NewReplacer("\r\n", "\n", "\r", "\n").Replace(text), "\n")
	for i := line - 1; i > 0; i-- {
		if i-1 >= len(lines) {
			break
		}
		t := strings.TrimSpace(lines[i-1])
		if strings.HasPrefix(t, "# @genqlient") {
			parseDirLine(strings.TrimSpace(strings.TrimPrefix(t, "#")), fo)
		} else if strings.HasPrefix(t, "#") {
			continue
		} else {
			break
		}
	}
	return fo
}

func firstB(xs ...*bool) *bool {
	for _, x := range xs {
		if x != nil {
			return x
		}
	}
	return nil
}
func firstS(xs ...string) string {
	for _, x := range xs {
		if x != "" {
			return x
		}
	}
	return ""
}

// effective options of a node: node > for > operation (typename: not from the operation;
// struct/flatten: not from for)
func effective(node *fullOpts, forKey string, op *fullOpts) opts {
	f := &opts{}
	if op != nil && forKey != "" {
		if x, ok := op.fors[forKey]; ok {
			f = x
		}
	}
	q := &opts{}
	if op != nil {
		q = &op.main
	}
	n := &node.main
	return opts{
		omitempty: firstB(n.omitempty, f.omitempty, q.omitempty),
		pointer:   firstB(n.pointer, f.pointer, q.pointer),
		strct:     firstB(n.strct, q.strct),
		flatten:   firstB(n.flatten, q.flatten),
		bind:      firstS(n.bind, f.bind, q.bind),
		typename:  firstS(n.typename, f.typename),
		alias:     firstS(n.alias, f.alias, q.alias),
	}
}

var builtinGo = map[string]string{"Int": "int", "Float": "float64", "String": "string", "Boolean": "bool", "ID": "string"}

func isTrue(b *bool) bool  { return b != nil && *b }
func isFalse(b *bool) bool { return b != nil && !*b }

// docType: the documented Go type of a position of GraphQL type t under options e.  baseKnown
// is false when the named type's Go name is decided by the naming algorithm (C09's subject):
// then only the wrappers are predicted and base is "".
func docType(c *Case, schema *ast.Schema, t *ast.Type, e opts) (prefix, base string, baseKnown bool) {
	if e.bind != "" && e.bind != "-" {
		return "", e.bind, true
	}
	if t.Elem != nil {
		p, b, k := docType(c, schema, t.Elem, e)
		return "[]" + p, b, k
	}
	def := schema.Types[t.NamedType]
	ec := c.ExportConfig()
	// base
	if bd, ok := ec.Bindings[def.Name]; ok && e.bind != "-" {
		base, baseKnown = bd.Type, true
	} else if g, ok := builtinGo[def.Name]; ok && e.typename == "" {
		base, baseKnown = g, true
	} else if e.typename != "" {
		base, baseKnown = e.typename, def.Kind != ast.Interface && def.Kind != ast.Union && def.Kind != ast.Object
	} else if def.Kind == ast.Enum || def.Kind == ast.InputObject {
		base, baseKnown = casedName(c, def.Name), true
	}
	// wrapper
	structKind := def.Kind == ast.Object || def.Kind == ast.InputObject
	switch {
	case c.Cfg.StructReferences && structKind:
		if !isFalse(e.pointer) {
			prefix = "*"
		}
	case !isFalse(e.pointer) && (isTrue(e.pointer) || (!t.NonNull && c.Cfg.Optional == "pointer")):
		prefix = "*"
	case !t.NonNull && c.Cfg.Optional == "generic":
		prefix = "example.com/opt.Option["
	}
	return prefix, base, baseKnown
}

func casedName(c *Case, s string) string {
	if c.Cfg.Casing == "auto_camel_case" {
		var sb strings.Builder
		up := false
		for _, r := range s {
			if r == '_' {
				up = true
				continue
			}
			if up {
				sb.WriteString(strings.ToUpper(string(r)))
				up = false
			} else {
				sb.WriteRune(r)
			}
		}
		s = sb.String()
	}
	s = strings.TrimLeft(s, "_")
	if s == "" {
		return s
	}
	return strings.ToUpper(s[:1]) + s[1:]
}

func customMarshaled(c *Case, schema *ast.Schema, t *ast.Type, e opts) bool {
	if e.bind != "" {
		return false // a local binding carries no marshaler; "-" disables the global one
	}
	bd, ok := c.ExportConfig().Bindings[t.Name()]
	return ok && (bd.Marshaler != "" || bd.Unmarshaler != "")
}

func checkType(got, prefix, base string, baseKnown bool) bool {
	if !strings.HasPrefix(got, prefix) {
		return false
	}
	rest := strings.TrimPrefix(got, prefix)
	if strings.HasPrefix(prefix, "example.com/opt.Option[") || strings.Contains(prefix, "Option[") {
		rest = strings.TrimSuffix(rest, "]")
	}
	if baseKnown {
		return rest == base
	}
	// unknown base: it must at least carry no further wrapper
	return !strings.HasPrefix(rest, "*") && !strings.HasPrefix(rest, "[]") && !strings.Contains(rest, "Option[")
}

// sourceOf finds the text of the source a node was parsed from.
func lineText(p *ast.Position) string {
	if p == nil || p.Src == nil {
		return ""
	}
	return p.Src.Input
}

// C10 oracle on one accepted case.
func c10Oracle(c *Case, o *Observed, ex *export.Exported, res *core.Result) {
	decl := map[string]*obs.ODecl{}
	for _, d := range o.Em.Decls {
		decl[d.Name] = d
	}
	fail := func(class, what string) {
		res.Fail(core.Failure{Case: c.ID, Class: class, What: what, Replay: c})
	}
	for _, op := range ex.Doc.Operations {
		opO := optsAbove(lineText(op.Position), op.Position.Line)
		if opO.bad {
			continue
		}
		// ---- variables
		if in := decl["__"+op.Name+"Input"]; in != nil && len(in.Fields) == len(op.VariableDefinitions) {
			for i, v := range op.VariableDefinitions {
				nodeO := optsAbove(lineText(v.Position), v.Position.Line)
				if nodeO.bad {
					continue
				}
				e := effective(nodeO, "", opO)
				prefix, base, known := docType(c, ex.Schema, v.Type, e)
				f := in.Fields[i]
				res.Dist("oracle:variable")
				if !checkType(f[1], prefix, base, known) {
					fail("C10/variable-type", fmt.Sprintf("operation %s variable $%s: %s with options %s: documented Go type %s%s, generated %s", op.Name, v.Variable, v.Type.String(), showOpts(e), prefix, orQ(base, known), f[1]))
				}
				// tag
				want := v.Variable
				def := ex.Schema.Types[v.Type.Name()]
				structRef := c.Cfg.StructReferences && def.Kind == ast.InputObject && !(e.bind != "" && e.bind != "-")
				om := isTrue(e.omitempty)
				if nodeO.main.omitempty == nil && v.Type.NonNull && !structRef {
					om = false // documented: omitempty is only applicable to arguments of nullable types
				}
				if structRef && !isFalse(e.omitempty) {
					om = true
				}
				if om {
					want += ",omitempty"
				}
				if customMarshaled(c, ex.Schema, v.Type, e) {
					want = "-"
				}
				if f[2] != want {
					class := "C10/variable-tag"
					if f[2] == v.Variable+",omitempty" && v.Type.NonNull && nodeO.main.omitempty == nil && isTrue(opO.main.omitempty) {
						class = "C10/operation-omitempty-reaches-nonnull-variable"
					}
					fail(class, fmt.Sprintf("operation %s variable $%s: %s with options %s: documented tag %q, generated %q", op.Name, v.Variable, v.Type.String(), showOpts(e), want, f[2]))
				}
			}
		}
		// ---- every field reachable through object-typed positions of the response struct
		respName := o.Em.Response[op.Name]
		if resp := decl[respName]; resp != nil && !isTrue(opO.main.flatten) {
			walkFields(c, ex, res, decl, fail, "operation "+op.Name, resp, op.SelectionSet, opO, 0)
		}
	}
	for _, fr := range ex.Doc.Fragments {
		frO := optsAbove(lineText(fr.Position), fr.Position.Line)
		if frO.bad || isTrue(frO.main.flatten) {
			continue
		}
		if d := decl[fr.Name]; d != nil && d.Kind == "struct" {
			walkFields(c, ex, res, decl, fail, "fragment "+fr.Name, d, fr.SelectionSet, frO, 0)
		}
	}
}

func stripWrappers(t string) string {
	for {
		switch {
		case strings.HasPrefix(t, "[]"):
			t = t[2:]
		case strings.HasPrefix(t, "*"):
			t = t[1:]
		case strings.HasPrefix(t, "example.com/opt.Option["):
			t = strings.TrimSuffix(strings.TrimPrefix(t, "example.com/opt.Option["), "]")
		default:
			return t
		}
	}
}

func walkFields(c *Case, ex *export.Exported, res *core.Result, decl map[string]*obs.ODecl, fail func(string, string),
	where string, st *obs.ODecl, sels ast.SelectionSet, opO *fullOpts, depth int) {
	if depth > 6 {
		return
	}
	byTagOrName := func(tag, goName string) *[3]string {
		for i := range st.Fields {
			if st.Fields[i][2] == tag || (st.Fields[i][2] == "-" && st.Fields[i][0] == goName) {
				return &st.Fields[i]
			}
		}
		return nil
	}
	seen := map[string]bool{}
	for _, s := range sels {
		fld, ok := s.(*ast.Field)
		if !ok || fld.Position == nil || fld.Definition == nil || seen[fld.Alias] {
			continue
		}
		seen[fld.Alias] = true
		nodeO := optsAbove(lineText(fld.Position), fld.Position.Line)
		if nodeO.bad {
			continue
		}
		e := effective(nodeO, fld.ObjectDefinition.Name+"."+fld.Name, opO)
		goName := casedName(c, firstS(e.alias, fld.Alias))
		f := byTagOrName(fld.Alias, goName)
		res.Dist("oracle:field")
		if f == nil {
			fail("C10/field-missing", fmt.Sprintf("%s: no field with JSON tag %q in %s", where, fld.Alias, st.Name))
			continue
		}
		if f[0] != goName {
			fail("C10/field-name", fmt.Sprintf("%s field %s: documented Go field name %s, generated %s", where, fld.Alias, goName, f[0]))
		}
		if isTrue(e.flatten) {
			continue // the type is the spread fragment's
		}
		prefix, base, known := docType(c, ex.Schema, fld.Definition.Type, e)
		if !checkType(f[1], prefix, base, known) {
			fail("C10/field-type", fmt.Sprintf("%s field %s: %s with options %s: documented Go type %s%s, generated %s", where, fld.Alias, fld.Definition.Type.String(), showOpts(e), prefix, orQ(base, known), f[1]))
			continue
		}
		def := ex.Schema.Types[fld.Definition.Type.Name()]
		if def.Kind == ast.Object && !known {
			if sub := decl[stripWrappers(f[1])]; sub != nil && sub.Kind == "struct" {
				walkFields(c, ex, res, decl, fail, where+"."+fld.Alias, sub, fld.SelectionSet, opO, depth+1)
			}
		}
	}
}

func orQ(base string, known bool) string {
	if known {
		return base
	}
	return "<generated name>"
}

func showOpts(e opts) string {
	var ps []string
	b := func(n string, v *bool) {
		if v != nil {
			ps = append(ps, fmt.Sprintf("%s:%v", n, *v))
		}
	}
	b("omitempty", e.omitempty)
	b("pointer", e.pointer)
	b("struct", e.strct)
	b("flatten", e.flatten)
	for n, v := range map[string]string{"bind": e.bind, "typename": e.typename, "alias": e.alias} {
		if v != "" {
			ps = append(ps, n+":"+v)
		}
	}
	return "{" + strings.Join(ps, " ") + "}"
}

// RunC10: converter correspondence on decorated programs + the documentation oracle.
func RunC10(tier string, seed int64, outDir string, replay string) (*core.Result, error) {
	res := core.NewResult("C10", tier, seed)
	res.Rule = "random programs decorated with @genqlient options at every location (fields, variables, operations, fragments, `for:` entries for output and input fields; several directive lines per node with comments between; a small share of placements that must be rejected) under random genqlient.yaml settings (optional value/pointer/generic, use_struct_references, casing, bindings with and without marshalers); every emitted declaration is compared with the converter model in-kernel, and variables / response fields with an executable transcription of the documentation; non-trivial = accepted program; distinct by program text + config"
	n := 120
	if tier == "thorough" {
		n = 3600
	}
	return runConv("C10", res, n, seed, outDir, replay, []float64{0.3, 0.15, 0.4}, 0.02, func(c *Case, o *Observed, ex *export.Exported) {
		if o.Class == "ok" {
			c10Oracle(c, o, ex, res)
		}
	})
}

// runConv is the shared loop: generate, observe, export for the model, run a property oracle.
func runConv(prop string, res *core.Result, n int, seed int64, outDir, replay string, decor []float64, pBad float64,
	oracle func(c *Case, o *Observed, ex *export.Exported)) (*core.Result, error) {
	rng := core.NewRng(seed)
	var cases []*Case
	if replay != "" {
		c, err := LoadReplay(replay)
		if err != nil {
			return nil, err
		}
		cases = []*Case{c}
	} else {
		for i := 0; i < n; i++ {
			cases = append(cases, GenCase(rng, i, decor[i%len(decor)], pBad))
		}
	}
	dir := core.Scratch(strings.ToLower(prop))
	defer os.RemoveAll(dir)
	var terms []string
	caseIndex := map[string]interface{}{}
	res.Extra["case_index"] = caseIndex
	for i, c := range cases {
		o := Observe(dir+"/p", c)
		key := fmt.Sprint(c.Defs, c.Cfg, c.SchemaFiles)
		res.Count(key, o.Class == "ok")
		res.Dist("outcome:" + o.Class)
		if o.Class == "err" {
			res.Dist("rejected:" + strings.SplitN(ErrClassOf(o.Err), ":", 2)[0])
		}
		if replay != "" {
			fmt.Printf("outcome: %s %s\n", o.Class, o.Err)
		}
		if o.Class == "pipeline" || o.Class == "TIMEOUT" {
			continue
		}
		ex, err := export.Project(c.SchemaFiles, c.Sources())
		if err != nil || len(ex.Errs) > 0 {
			res.Dist("harness-export-failed")
			continue
		}
		if oracle != nil {
			oracle(c, o, ex)
		}
		t, ok := CaseTerm(i, c, o)
		if !ok {
			continue
		}
		terms = append(terms, t)
		caseIndex[fmt.Sprint(i)] = c
		if i%41 == 0 {
			res.Sample(map[string]interface{}{"id": c.ID, "outcome": o.Class, "err": o.Err, "cfg": c.Cfg, "defs": len(c.Defs)})
		}
	}
	files, err := WriteCases(outDir, "conv", terms, 20)
	if err != nil {
		return nil, err
	}
	res.CasesV = files
	res.ModelCases = len(terms)
	return res, nil
}
