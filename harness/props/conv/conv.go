// Package conv: correspondence of the converter model (coq/Gen/Convert.v) with the real
// generator on random programs, and the drivers of the properties that rest on it.
package conv

import (
	"encoding/json"
	"fmt"
	"os"
	"sort"
	"strings"

	"verifharness/core"
	"verifharness/export"
	"verifharness/gen"
	"verifharness/obs"
)

type Case struct {
	ID          string            `json:"id"`
	SchemaFiles map[string]string `json:"schema_files"`
	Schema      *gen.Schema       `json:"schema"`
	Defs        []*gen.Def        `json:"defs"`
	Layout      *gen.Layout       `json:"layout"`
	Cfg         *gen.CfgOpts      `json:"cfg"`
	Note        string            `json:"note,omitempty"`
}

func (c *Case) Program() *core.Program {
	files, _ := c.Layout.Render(c.Defs)
	var globs []string
	for k, v := range c.SchemaFiles {
		files[k] = v
		globs = append(globs, k)
	}
	sort.Strings(globs)
	return &core.Program{Files: files, Schema: globs, Ops: c.Layout.Globs(), Cfg: c.Cfg.Apply(c.Schema)}
}

// Sources: the units genqlient parses, in the order it reads them (sorted file names, literals
// in file order).
func (c *Case) Sources() []export.Source {
	files := append([]*gen.File{}, c.Layout.Files...)
	sort.Slice(files, func(i, j int) bool { return files[i].Name < files[j].Name })
	rendered, _ := c.Layout.Render(c.Defs)
	var out []export.Source
	for _, f := range files {
		if strings.HasSuffix(f.Name, ".go") {
			for i, lit := range f.Lits {
				out = append(out, export.Source{Name: fmt.Sprintf("%s#%d", f.Name, i), Text: gen.LitText(lit, c.Defs)})
			}
		} else {
			out = append(out, export.Source{Name: f.Name, Text: rendered[f.Name]})
		}
	}
	return out
}

func (c *Case) ExportConfig() *export.Config {
	ec := &export.Config{CasingDefault: c.Cfg.Casing, Optional: c.Cfg.Optional, StructRefs: c.Cfg.StructReferences, Bindings: map[string]export.Binding{}}
	if c.Cfg.Optional == "generic" {
		ec.GenericType = "example.com/opt.Option"
	}
	for _, t := range c.Schema.Types {
		if t.Kind == "SCALAR" {
			ec.Bindings[t.Name] = export.Binding{Type: "string"}
		}
	}
	for k, v := range c.Cfg.Bindings {
		bd := export.Binding{Type: v}
		if m, ok := c.Cfg.Marshalers[k]; ok {
			bd.Marshaler, bd.Unmarshaler = m[0], m[1]
		}
		ec.Bindings[k] = bd
	}
	return ec
}

func GenCase(r *core.Rng, id int, pDecor, pBad float64) *Case {
	s := gen.RandomSchema(r, gen.DefaultSchemaOpts())
	oo := gen.DefaultOpOpts()
	d := gen.RandomDoc(r, s, oo)
	if id%5 == 3 {
		if dd := gen.FragDagDoc(r, s); dd != nil {
			d = dd
		}
	}
	gen.Decorate(r, s, d, pDecor, pBad)
	defs := d.Defs()
	l := gen.SingleFile(len(defs))
	// the three line terminators of the GraphQL spec
	l.Files[0].EOL = []string{"", "", "", "\r\n", "\r", "", "\r"}[id%7]
	if r.Chance(0.3) {
		l = gen.RandomLayout(r, len(defs), true)
	}
	cfg := gen.RandomCfg(r, s)
	if id%8 == 1 {
		// an explicit `omitempty: false` against the default of use_struct_references
		if oe := gen.OmitemptyFalseOp(s, "OE"); oe != nil {
			defs = append(defs, oe)
			l = gen.SingleFile(len(defs))
			cfg.StructReferences = true
		}
	}
	if id%8 == 5 {
		// variables on one line, an input object first, under use_struct_references: every
		// variable has its own options
		if iv := gen.InputThenScalarsOp(s, "IV"); iv != nil {
			defs = append(defs, iv)
			l = gen.SingleFile(len(defs))
			cfg.StructReferences = true
		}
	}
	if id%8 == 7 {
		// one input type, two operations with different operation-level options, the second
		// regenerating the struct under its own `typename`
		if si := gen.SharedInputTwoOpsDefs(s, "SI", (id/8)%2); si != nil {
			defs = append(defs, si...)
			l = gen.SingleFile(len(defs))
		}
	}
	// settings interact with options: an explicit `omitempty: false` matters most under
	// use_struct_references (whose default is omitempty), an explicit `pointer: false` under
	// optional: pointer
	for _, df := range defs {
		if strings.Contains(df.Text, "omitempty: false") && id%2 == 0 {
			cfg.StructReferences = true
		}
		if strings.Contains(df.Text, "pointer: false") && cfg.Optional == "" && r.Chance(0.3) {
			cfg.Optional = "pointer"
		}
	}
	return &Case{ID: fmt.Sprintf("g%d", id), Schema: s, SchemaFiles: map[string]string{"schema.graphql": s.SDL()}, Defs: defs, Layout: l, Cfg: cfg}
}

type Observed struct {
	Class   string // ok | err | PANIC | TIMEOUT | pipeline
	Err     string
	Em      *obs.Emitted
	GoBytes []byte
	JSON    []byte // exported operations, when requested
	ImportLog [][2]string // (package path, alias) as chosen by addImportFor, in call order
}

func opNames(defs []*gen.Def) map[string]bool {
	m := map[string]bool{}
	for _, d := range defs {
		if d.Kind != "fragment" {
			m[d.Name] = true
		}
	}
	return m
}

func Observe(dir string, c *Case) *Observed {
	os.RemoveAll(dir)
	os.MkdirAll(dir, 0o755)
	oc := core.RunGenerate(dir, c.Program())
	o := &Observed{ImportLog: oc.ImportLog}
	switch {
	case oc.Panicked:
		o.Class, o.Err = "PANIC", oc.PanicVal
	case oc.TimedOut:
		o.Class = "TIMEOUT"
	case oc.Err != nil:
		o.Class, o.Err = "err", strings.ReplaceAll(oc.Err.Error(), dir+"/", "")
		m := o.Err
		if strings.Contains(m, "query-spec does not match schema") || strings.Contains(m, "invalid query-spec file") || strings.Contains(m, "invalid schema") ||
			strings.Contains(m, "no queries found") || strings.Contains(m, "did not match any files") || strings.Contains(m, "failed to gofmt") || strings.Contains(m, "failed to goimports") {
			o.Class = "pipeline"
		}
	default:
		o.Class = "ok"
		for name, data := range oc.Files {
			if strings.HasSuffix(name, ".json") {
				o.JSON = data
			}
			if strings.HasSuffix(name, ".go") {
				o.GoBytes = data
				em, err := obs.ReadEmitted(data, opNames(c.Defs))
				if err != nil {
					o.Class, o.Err = "pipeline", "emitted file does not parse: "+err.Error()
				}
				o.Em = em
			}
		}
	}
	return o
}

// CaseTerm renders the conv_case for Corr/Convcorr.v; ok=false when the harness itself cannot
// export the program (its own parse/validation disagrees).
func CaseTerm(id int, c *Case, o *Observed) (string, bool) {
	ex, err := export.Project(c.SchemaFiles, c.Sources())
	if err != nil || len(ex.Errs) > 0 {
		return "", false
	}
	obsTerm := "ObsErr " + strs(ErrClassOf(o.Err))
	switch o.Class {
	case "ok":
		var ops []string
		var names []string
		for n := range o.Em.Response {
			names = append(names, n)
		}
		sort.Strings(names)
		for _, n := range names {
			ops = append(ops, "("+strs(n)+", "+strs(o.Em.Response[n])+")")
		}
		obsTerm = "ObsOk " + obs.DeclsTerm(o.Em.Decls) + " [" + strings.Join(ops, "; ") + "]"
	case "PANIC":
		obsTerm = "ObsPanic"
	}
	return fmt.Sprintf("{| v_id := %d; v_schema := %s; v_cfg := %s; v_frags := %s; v_ops := %s; v_srcs := %s; v_obs := %s |}",
		id, export.SchemaTerm(ex.Schema, true), c.ExportConfig().Term(), ex.FragsTerm(), ex.OpsTerm(), ex.SrcsTerm(), obsTerm), true
}

// ErrClassOf maps a conversion error message to the model's error class.
func ErrClassOf(m string) string {
	has := func(x string) bool { return strings.Contains(m, x) }
	switch {
	case has("conflicting definition for"):
		return "conflict"
	case has("genqlient doesn't allow duplicate fields"):
		return "duplicate-field"
	case has("unexpected field-type"):
		return "unexpected-field-type"
	case has("unknown scalar"):
		return "unknown-scalar"
	case has("typename option conflicts with global binding"):
		return "binding-typename"
	case has("must not be a go keyword"):
		return "keyword"
	case has("pointer on non-null input field"):
		return "input-pointer"
	case has("omitempty may only be used on optional arguments: "):
		return "input-omitempty"
	case has("had non-object implementation"):
		return "non-object-implementation"
	case has("have conflicting Go name"):
		return "EnumConflict"
	case has("operations must have operation-names"):
		return "anonymous"
	case has("invalid type for fragment"):
		return "invalid-fragment-type"
	case has("conflicting values for"), has("invalid boolean value"), has("invalid string value"), has("expected boolean"), has("expected string"),
		has("the only valid comment-directive"), has("had \"for:\" twice"), has("for must be of the form"), has("unknown argument"),
		has("for got invalid"), has("can't be used via for"), has("typename and bind may not be used together"),
		has("bind may not be applied"), has("bind is not implemented"), has("struct is only applicable"), has("flatten is only applicable"),
		has("omitempty may only be used on optional arguments"), has("for is only applicable"), has("omitempty is not applicable"),
		has("struct is not allowed"), has("flatten is not"), has("invalid @genqlient directive location"), has("invalid genqlient directive"):
		return "directive"
	}
	return "other:" + m
}

func strs(s string) string {
	return fmt.Sprintf("(b %q)", s)
}

func WriteCases(outDir, name string, terms []string, shard int) ([]string, error) {
	var files []string
	for k := 0; k*shard < len(terms); k++ {
		end := (k + 1) * shard
		if end > len(terms) {
			end = len(terms)
		}
		var sb strings.Builder
		sb.WriteString("From Verif Require Import Base.Str Gen.Casing Gen.Gql Gen.Directive Gen.Convert Corr.Convcorr.\n")
		sb.WriteString("Definition cases : list conv_case := [\n" + strings.Join(terms[k*shard:end], ";\n") + "\n].\n")
		sb.WriteString("Definition MISMATCH := Eval vm_compute in conv_mismatches cases.\nPrint MISMATCH.\n")
		fn := fmt.Sprintf("%s/cases_%s_%d.v", outDir, name, k)
		if err := os.WriteFile(fn, []byte(sb.String()), 0o644); err != nil {
			return nil, err
		}
		files = append(files, fn)
	}
	return files, nil
}

// ImpCaseTerm renders the imp_case for Corr/Impcorr.v.
func ImpCaseTerm(id int, log [][2]string) string {
	var items []string
	for _, e := range log {
		items = append(items, "("+strs(e[0])+", "+strs(e[1])+")")
	}
	return fmt.Sprintf("{| ic_id := %d; ic_log := [%s] |}", id, strings.Join(items, "; "))
}

// WriteImpCases: the import logs of one run, for the in-kernel replay of the alias allocation.
func WriteImpCases(outDir string, terms []string, shard int) ([]string, error) {
	var files []string
	for k := 0; k*shard < len(terms); k++ {
		end := (k + 1) * shard
		if end > len(terms) {
			end = len(terms)
		}
		var sb strings.Builder
		sb.WriteString("From Verif Require Import Base.Str Gen.Imports Corr.Impcorr.\n")
		sb.WriteString("Definition cases : list imp_case := [\n" + strings.Join(terms[k*shard:end], ";\n") + "\n].\n")
		sb.WriteString("Definition MISMATCH := Eval vm_compute in imp_mismatches cases.\nPrint MISMATCH.\n")
		sb.WriteString("Definition SPECFAIL := Eval vm_compute in imp_specfails cases.\nPrint SPECFAIL.\n")
		fn := fmt.Sprintf("%s/cases_imp_%d.v", outDir, k)
		if err := os.WriteFile(fn, []byte(sb.String()), 0o644); err != nil {
			return nil, err
		}
		files = append(files, fn)
	}
	return files, nil
}

func LoadReplay(replay string) (*Case, error) {
	data, err := os.ReadFile(replay)
	if err != nil {
		return nil, err
	}
	var wrap struct {
		Replay Case `json:"replay"`
	}
	if err := json.Unmarshal(data, &wrap); err != nil {
		return nil, err
	}
	return &wrap.Replay, nil
}
