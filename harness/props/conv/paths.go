package conv

import (
	"fmt"
	"strings"

	"github.com/vektah/gqlparser/v2/ast"

	"verifharness/export"
	"verifharness/obs"
)

// Readability oracle (type level): every response key the document selects at a position must
// be carried by the Go type generated for that position -- directly, or through an embedded
// fragment struct -- for every concrete GraphQL type the position can have.  It is computed
// from the user's document and the schema only (CollectFields of the GraphQL spec), never from
// genqlient's own conversion.

type pathChecker struct {
	ex    *export.Exported
	em    *obs.Emitted
	decl  map[string]*obs.ODecl
	fails []string
	seen  map[string]bool
	leaf  map[string]string // generated scalar-like Go type -> the GraphQL leaf type it stands for
}

func (pc *pathChecker) failf(format string, a ...interface{}) {
	if len(pc.fails) < 5 {
		pc.fails = append(pc.fails, fmt.Sprintf(format, a...))
	}
}

// possible concrete types of a named type
func (pc *pathChecker) possible(name string) []string {
	def := pc.ex.Schema.Types[name]
	if def == nil {
		return nil
	}
	if def.Kind == ast.Object {
		return []string{name}
	}
	var out []string
	for _, t := range pc.ex.Schema.GetPossibleTypes(def) {
		out = append(out, t.Name)
	}
	return out
}

func (pc *pathChecker) applies(typeCond, concrete string) bool {
	if typeCond == "" || typeCond == concrete {
		return true
	}
	for _, p := range pc.possible(typeCond) {
		if p == concrete {
			return true
		}
	}
	return false
}

// collect: response key -> the field nodes selected for a value of concrete type
func (pc *pathChecker) collect(sels ast.SelectionSet, concrete string, into map[string][]*ast.Field, order *[]string, visited map[string]bool) {
	for _, s := range sels {
		switch s := s.(type) {
		case *ast.Field:
			if _, ok := into[s.Alias]; !ok {
				*order = append(*order, s.Alias)
			}
			into[s.Alias] = append(into[s.Alias], s)
		case *ast.InlineFragment:
			if pc.applies(s.TypeCondition, concrete) {
				pc.collect(s.SelectionSet, concrete, into, order, visited)
			}
		case *ast.FragmentSpread:
			if visited[s.Name] {
				continue
			}
			fr := pc.ex.Doc.Fragments.ForName(s.Name)
			if fr != nil && pc.applies(fr.TypeCondition, concrete) {
				visited[s.Name] = true
				pc.collect(fr.SelectionSet, concrete, into, order, visited)
			}
		}
	}
}

// fieldsOf: all (json tag or go name) -> (type) reachable in struct st directly or through embeds
func (pc *pathChecker) lookup(st *obs.ODecl, key string, depth int) (string, bool) {
	if st == nil || depth > 8 {
		return "", false
	}
	for _, f := range st.Fields {
		if f[0] == "" {
			continue
		}
		tag := strings.Split(f[2], ",")[0]
		if tag == "-" {
			tag = pc.em.Premarshal[st.Name][f[0]]
		}
		if tag == key {
			return f[1], true
		}
	}
	for _, f := range st.Fields {
		if f[0] == "" {
			if t, ok := pc.lookup(pc.decl[stripWrappers(f[1])], key, depth+1); ok {
				return t, true
			}
		}
	}
	return "", false
}

// allKeys: every response key carried by the struct, directly or through embedded structs
func (pc *pathChecker) allKeys(st *obs.ODecl, depth int) []string {
	if st == nil || depth > 8 {
		return nil
	}
	var out []string
	for _, f := range st.Fields {
		if f[0] == "" {
			out = append(out, pc.allKeys(pc.decl[stripWrappers(f[1])], depth+1)...)
			continue
		}
		tag := strings.Split(f[2], ",")[0]
		if tag == "-" {
			tag = pc.em.Premarshal[st.Name][f[0]]
		}
		out = append(out, tag)
	}
	return out
}

// check that Go type `goType` (a struct or interface name after stripping wrappers) carries the
// selection `sels` made on GraphQL type `gqlType`
func (pc *pathChecker) check(where string, goType string, gqlType string, sels ast.SelectionSet, depth int) {
	if depth > 7 || len(sels) == 0 {
		return
	}
	base := stripWrappers(goType)
	d := pc.decl[base]
	if d == nil {
		return // bound to a user type, a builtin, ...
	}
	key := where + "|" + base + "|" + gqlType
	if pc.seen[key] {
		return
	}
	pc.seen[key] = true
	switch d.Kind {
	case "iface":
		disp := pc.em.Dispatch[base]
		for _, concrete := range pc.possible(gqlType) {
			impl, ok := disp[concrete]
			if !ok {
				pc.failf("%s: interface %s has no implementation for GraphQL type %s", where, base, concrete)
				continue
			}
			pc.checkStruct(where+"<"+concrete+">", pc.decl[impl], concrete, sels, depth, true)
		}
	case "struct":
		def := pc.ex.Schema.Types[gqlType]
		if def != nil && def.Kind != ast.Object {
			// `struct: true` (or a flattened fragment on the interface): the shared fields only
			for _, concrete := range pc.possible(gqlType) {
				pc.checkStruct(where, d, concrete, sels, depth, true)
				break
			}
			return
		}
		pc.checkStruct(where, d, gqlType, sels, depth, false)
	}
}

func (pc *pathChecker) checkStruct(where string, st *obs.ODecl, concrete string, sels ast.SelectionSet, depth int, abstractPos bool) {
	if st == nil {
		pc.failf("%s: no struct generated", where)
		return
	}
	into := map[string][]*ast.Field{}
	var order []string
	pc.collect(sels, concrete, into, &order, map[string]bool{})
	// the converse: the struct carries no response key that the selection does not have (a type
	// shared with a LARGER selection would) -- `__typename` is added by genqlient itself
	for _, k := range pc.allKeys(st, 0) {
		if _, selected := into[k]; !selected && !(k == "__typename" && abstractPos) {
			pc.failf("%s: Go type %s carries a Go field for response key %q, which the selection made here (on %s) does not have: the type belongs to another selection", where, st.Name, k, concrete)
		}
	}
	for _, k := range order {
		t, ok := pc.lookup(st, k, 0)
		if !ok {
			pc.failf("%s: response key %q (selected on %s) has no Go field in %s (nor in its embedded fragment structs)", where, k, concrete, st.Name)
			continue
		}
		f0 := into[k][0]
		if f0.Definition != nil && len(f0.SelectionSet) == 0 {
			// a generated name for a LEAF type (typename option on a scalar or enum field) stands
			// for one GraphQL type only
			if d := pc.decl[stripWrappers(t)]; d != nil && (d.Kind == "alias" || d.Kind == "enum") {
				g := f0.Definition.Type.Name()
				if pc.leaf == nil {
					pc.leaf = map[string]string{}
				}
				if prev, ok := pc.leaf[d.Name]; ok && prev != g {
					pc.failf("%s.%s: Go type %s holds values of GraphQL type %s here and of %s elsewhere: two leaf types share one Go type", where, k, d.Name, g, prev)
				}
				pc.leaf[d.Name] = g
			}
		}
		if f0.Definition == nil || len(f0.SelectionSet) == 0 {
			continue
		}
		// merge the sub-selections of all nodes with this key
		var sub ast.SelectionSet
		for _, f := range into[k] {
			sub = append(sub, f.SelectionSet...)
		}
		pc.check(where+"."+k, t, f0.Definition.Type.Name(), sub, depth+1)
	}
}

// CheckReadable runs the oracle over every operation; returns human-readable failures.
func CheckReadable(ex *export.Exported, em *obs.Emitted) []string {
	pc := &pathChecker{ex: ex, em: em, decl: map[string]*obs.ODecl{}, seen: map[string]bool{}}
	for _, d := range em.Decls {
		pc.decl[d.Name] = d
	}
	for _, op := range ex.Doc.Operations {
		root := "Query"
		switch op.Operation {
		case ast.Mutation:
			root = "Mutation"
		case ast.Subscription:
			root = "Subscription"
		}
		if pc.ex.Schema.Types[root] == nil {
			continue
		}
		resp := em.Response[op.Name]
		if resp == "" {
			pc.failf("operation %s: no generated function", op.Name)
			continue
		}
		pc.check("operation "+op.Name, resp, root, op.SelectionSet, 0)
	}
	return pc.fails
}
