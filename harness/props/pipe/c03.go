package pipe

import (
	"encoding/json"
	"fmt"
	"go/ast"
	"go/parser"
	"go/token"
	"os"
	"strconv"
	"strings"

	gqlast "github.com/vektah/gqlparser/v2/ast"

	"verifharness/core"
	"verifharness/export"
	"verifharness/gen"
)

type c03Case struct {
	Proj   *Proj       `json:"proj"`
	Schema *gen.Schema `json:"schema"`
}

func genC03(r *core.Rng, id int) *c03Case {
	gen.Exotic = r.Chance(0.3)
	defer func() { gen.Exotic = false }()
	s := gen.RandomSchema(r, gen.DefaultSchemaOpts())
	oo := gen.DefaultOpOpts()
	oo.MaxOps = 4
	oo.MaxFrags = 5
	oo.BareInline = true // `... { f }` and `... @include(if: $v) { f }`: no type condition to add or to drop
	d := gen.RandomDoc(r, s, oo)
	if id%3 == 1 {
		if dd := gen.FragDagDoc(r, s); dd != nil {
			d = dd
		}
	}
	defs := d.Defs()
	if id%4 == 2 {
		// `__typename` selected explicitly but late (after an inline fragment / a spread)
		defs = append(defs, gen.LateTypenameDefs(s, "LT")...)
	}
	// @genqlient directives in comments must never reach the wire
	for _, df := range defs {
		if r.Chance(0.3) {
			df.Text = "# @genqlient(pointer: true)\n" + df.Text
		}
	}
	l := gen.SingleFile(len(defs))
	if r.Chance(0.5) {
		l = gen.RandomLayout(r, len(defs), true)
	}
	return &c03Case{Schema: s, Proj: &Proj{ID: fmt.Sprintf("t%d", id), SchemaFiles: map[string]string{"schema.graphql": s.SDL()},
		Defs: defs, Layout: l, Cfg: &gen.CfgOpts{Export: true}}}
}

func operationConsts(src []byte) map[string]string {
	out := map[string]string{}
	fset := token.NewFileSet()
	f, err := parser.ParseFile(fset, "g.go", src, 0)
	if err != nil {
		return out
	}
	for _, d := range f.Decls {
		gd, ok := d.(*ast.GenDecl)
		if !ok || gd.Tok != token.CONST {
			continue
		}
		for _, s := range gd.Specs {
			vs := s.(*ast.ValueSpec)
			for i, n := range vs.Names {
				if strings.HasSuffix(n.Name, "_Operation") && i < len(vs.Values) {
					if bl, ok := vs.Values[i].(*ast.BasicLit); ok {
						v, _ := strconv.Unquote(bl.Value)
						out[strings.TrimSuffix(n.Name, "_Operation")] = v
					}
				}
			}
		}
	}
	return out
}

func RunC03(tier string, seed int64, outDir string, replay string) (*core.Result, error) {
	res := core.NewResult("C03", tier, seed)
	res.Rule = "random programs (shared / nested / diamond-shaped named fragments over several operations, abstract-typed fields with and without explicit __typename at any depth incl. inside inline fragments, aliases, arguments with literals of every kind incl. escapes and block strings, variables with defaults, @skip/@include, @genqlient comment directives); for every operation the emitted document (exported-operations JSON, cross-checked with the <Op>_Operation constant) is re-parsed and re-validated by gqlparser and compared with the model's prediction in-kernel; non-trivial = one operation of an accepted program; distinct by (program, operation)"
	n := 60
	if tier == "thorough" {
		n = 2000
	}
	rng := core.NewRng(seed)
	var cases []*c03Case
	if replay != "" {
		data, err := os.ReadFile(replay)
		if err != nil {
			return nil, err
		}
		var wrap struct {
			Replay c03Case `json:"replay"`
		}
		if err := json.Unmarshal(data, &wrap); err != nil {
			return nil, err
		}
		cases = []*c03Case{&wrap.Replay}
	} else {
		for i := 0; i < n; i++ {
			cases = append(cases, genC03(rng, i))
		}
	}
	dir := core.Scratch("c03")
	defer os.RemoveAll(dir)
	var terms []string
	caseIndex := map[string]interface{}{}
	res.Extra["case_index"] = caseIndex
	id := 0
	for _, c := range cases {
		os.RemoveAll(dir)
		os.MkdirAll(dir, 0o755)
		schema, err := export.LoadSchema(c.Proj.SchemaFiles)
		if err != nil {
			res.Dist("harness-schema-error")
			continue
		}
		var union strings.Builder
		for _, d := range c.Proj.Defs {
			union.WriteString(d.Text + "\n")
		}
		pre, errs := export.ParseAndValidate(schema, "union", union.String())
		if len(errs) > 0 {
			res.Dist("generator-produced-invalid-document")
			continue
		}
		o := observe(dir, c.Proj.program(c.Schema), opNameSet(c.Proj.Defs))
		res.Dist("outcome:" + o.Class)
		if o.Class != "ok" {
			res.Count(c.Proj.ID, false)
			continue
		}
		var ex struct {
			Operations []struct {
				OperationName string `json:"operationName"`
				Query         string `json:"query"`
			} `json:"operations"`
		}
		_ = json.Unmarshal(o.JSON, &ex)
		consts := operationConsts(o.GoBytes)
		emitted := map[string]string{}
		for _, e := range ex.Operations {
			emitted[e.OperationName] = e.Query
		}
		in := export.NewInterner()
		schemaTerm := export.SchemaTerm(schema, false)
		var fragTerms []string
		for _, f := range pre.Fragments {
			fragTerms = append(fragTerms, in.FragTerm(f))
		}
		for _, op := range pre.Operations {
			cid := c.Proj.ID + "/" + op.Name
			key, _ := json.Marshal([]interface{}{c.Proj, op.Name})
			res.Count(string(key), true)
			q, ok := emitted[op.Name]
			if !ok {
				res.Fail(core.Failure{Case: cid, Class: "C03/operation-missing-from-export", What: "no exported operation " + op.Name, Replay: c})
				continue
			}
			if consts[op.Name] != q {
				res.Fail(core.Failure{Case: cid, Class: "C03/constant-differs-from-export", What: "the <Op>_Operation constant and the exported query differ for " + op.Name, Replay: c})
			}
			if strings.Contains(q, "@genqlient") || strings.Contains(q, "#") && !strings.Contains(q, "\"") {
				res.Fail(core.Failure{Case: cid, Class: "C03/comment-directive-on-the-wire", What: "the emitted document contains a comment / @genqlient directive", Replay: c})
			}
			post, perrs := export.ParseAndValidate(schema, "emitted", q)
			if len(perrs) > 0 {
				res.Fail(core.Failure{Case: cid, Class: "C03/emitted-document-invalid/" + ruleOf(perrs[0].Rule), What: fmt.Sprintf("the document emitted for %s does not parse/validate: %v\n%s", op.Name, perrs[0], q), Replay: c})
				continue
			}
			if len(post.Operations) != 1 {
				res.Fail(core.Failure{Case: cid, Class: "C03/emitted-operation-count", What: fmt.Sprintf("%d operations in the emitted document", len(post.Operations)), Replay: c})
				continue
			}
			res.Dist(fmt.Sprintf("fragments-in-emitted:%d", min(len(post.Fragments), 4)))
			if hasAbstract(schema, op.SelectionSet) {
				res.Dist("op-with-abstract-field")
			}
			var obsFrags []string
			for _, f := range post.Fragments {
				obsFrags = append(obsFrags, in.FragTerm(f))
			}
			terms = append(terms, fmt.Sprintf("{| t_id := %d; t_schema := %s; t_frags := [%s]; t_op := %s; t_obs_op := %s; t_obs_frags := [%s] |}",
				id, schemaTerm, strings.Join(fragTerms, "; "), in.OpTerm(op), in.OpTerm(post.Operations[0]), strings.Join(obsFrags, "; ")))
			caseIndex[fmt.Sprint(id)] = c
			id++
		}
		if id%23 == 0 {
			res.Sample(map[string]interface{}{"id": c.Proj.ID, "ops": len(pre.Operations), "frags": len(pre.Fragments)})
		}
	}
	var files []string
	shard := 40
	for k := 0; k*shard < len(terms); k++ {
		end := (k + 1) * shard
		if end > len(terms) {
			end = len(terms)
		}
		var sb strings.Builder
		sb.WriteString("From Verif Require Import Base.Str Gen.Gql Gen.Doc Corr.C03corr.\n")
		sb.WriteString("Definition cases : list c03_case := [\n" + strings.Join(terms[k*shard:end], ";\n") + "\n].\n")
		sb.WriteString("Definition MISMATCH := Eval vm_compute in c03_mismatches cases.\nPrint MISMATCH.\n")
		sb.WriteString("Definition SPECFAIL := Eval vm_compute in c03_specfails cases.\nPrint SPECFAIL.\n")
		fn := fmt.Sprintf("%s/cases_%d.v", outDir, k)
		if err := os.WriteFile(fn, []byte(sb.String()), 0o644); err != nil {
			return nil, err
		}
		files = append(files, fn)
	}
	res.CasesV = files
	res.ModelCases = len(terms)
	return res, nil
}

func ruleOf(r string) string {
	if r == "" {
		return "parse"
	}
	return r
}

func hasAbstract(schema *gqlast.Schema, ss gqlast.SelectionSet) bool {
	for _, s := range ss {
		switch s := s.(type) {
		case *gqlast.Field:
			if s.Definition != nil {
				if t := schema.Types[s.Definition.Type.Name()]; t != nil && (t.Kind == gqlast.Interface || t.Kind == gqlast.Union) {
					return true
				}
			}
			if hasAbstract(schema, s.SelectionSet) {
				return true
			}
		case *gqlast.InlineFragment:
			if hasAbstract(schema, s.SelectionSet) {
				return true
			}
		}
	}
	return false
}
