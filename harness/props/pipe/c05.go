package pipe

import (
	"encoding/json"
	"fmt"
	"os"
	"strings"

	"verifharness/core"
	"verifharness/gen"
)

// A C05 case is a short history over ONE project directory: each step rewrites schema and
// operation files at the same paths and runs Generate in this process.
type c05Step struct {
	Proj   *Proj       `json:"proj"`
	Schema *gen.Schema `json:"schema"`
	Fault  string      `json:"fault"`
}
type c05Case struct {
	ID    string     `json:"id"`
	Steps []*c05Step `json:"steps"`
}

var faultKinds = []string{"none", "unknown-field", "unknown-type-cond", "unknown-argument", "undefined-variable", "unused-variable",
	"undefined-fragment", "unused-fragment", "var-type-mismatch", "var-nullability", "duplicate-operation", "duplicate-fragment",
	"anonymous-alone", "anonymous-among", "leaf-with-selection", "composite-without-selection", "keyword-name", "fragment-cycle",
	"impossible-spread", "missing-required-arg", "bad-extension", "go-file-invalid", "graphql-parse-error", "only-fragments"}

func firstFieldLine(text string) (before, line, after string, ok bool) {
	lines := strings.Split(text, "\n")
	for i, l := range lines {
		t := strings.TrimSpace(l)
		if i > 0 && t != "" && !strings.HasPrefix(t, "#") && !strings.HasPrefix(t, "$") && !strings.HasPrefix(t, ")") && !strings.HasPrefix(t, "}") && !strings.HasPrefix(t, "...") {
			return strings.Join(lines[:i], "\n"), l, strings.Join(lines[i+1:], "\n"), true
		}
	}
	return "", "", "", false
}

// inject applies one fault to the definition list (textually; the direct validator decides
// afterwards whether the result really is invalid).
func inject(r *core.Rng, s *gen.Schema, defs []*gen.Def, fault string, p *Proj) []*gen.Def {
	out := make([]*gen.Def, len(defs))
	for i, d := range defs {
		c := *d
		out[i] = &c
	}
	var ops, frags []int
	for i, d := range out {
		if d.Kind == "fragment" {
			frags = append(frags, i)
		} else {
			ops = append(ops, i)
		}
	}
	target := ops[r.Intn(len(ops))]
	if len(frags) > 0 && r.Chance(0.4) {
		target = frags[r.Intn(len(frags))]
	}
	d := out[target]
	insertSel := func(sel string) {
		i := strings.Index(d.Text, "{\n")
		d.Text = d.Text[:i+2] + "  " + sel + "\n" + d.Text[i+2:]
	}
	addVar := func(v string) { addVarTo(out[ops[r.Intn(len(ops))]], v) }
	switch fault {
	case "unknown-field":
		insertSel("noSuchFieldAnywhere")
	case "unknown-type-cond":
		insertSel("... on NoSuchType { __typename }")
	case "unknown-argument":
		insertSel("__typename @include(if: true, bogus: 1)")
	case "undefined-variable":
		insertSel("__typename @include(if: $notDefined)")
	case "unused-variable":
		addVar("$neverUsed: Int")
	case "undefined-fragment":
		insertSel("...NoSuchFragment")
	case "unused-fragment":
		out = append(out, &gen.Def{Kind: "fragment", Name: "NobodySpreadsMe", Text: "fragment NobodySpreadsMe on Query {\n  __typename\n}\n"})
	case "var-type-mismatch":
		d = out[ops[r.Intn(len(ops))]]
		addVarTo(d, "$flagAsString: String")
		insertSelInto(d, "__typename @include(if: $flagAsString)")
	case "var-nullability":
		d = out[ops[r.Intn(len(ops))]]
		addVarTo(d, "$maybeFlag: Boolean")
		insertSelInto(d, "__typename @skip(if: $maybeFlag)")
	case "duplicate-operation":
		c := *out[ops[0]]
		out = append(out, &c)
	case "duplicate-fragment":
		if len(frags) > 0 {
			c := *out[frags[0]]
			out = append(out, &c)
		} else {
			out = append(out, &gen.Def{Kind: "fragment", Name: "Dup", Text: "fragment Dup on Query {\n  __typename\n}\n"},
				&gen.Def{Kind: "fragment", Name: "Dup", Text: "fragment Dup on Query {\n  __typename\n}\n"})
		}
	case "anonymous-alone":
		out = []*gen.Def{{Kind: "query", Name: "", Text: "query {\n  __typename\n}\n"}}
	case "anonymous-among":
		out = append(out, &gen.Def{Kind: "query", Name: "", Text: "{\n  __typename\n}\n"})
	case "leaf-with-selection":
		insertSel("__typename { x }")
	case "composite-without-selection":
		// find a composite root field
		for _, f := range s.FieldsOf("Query") {
			if !s.IsLeaf(f.Type.Base()) && len(f.Args) == 0 {
				out = append(out, &gen.Def{Kind: "query", Name: "NoSubSelection", Text: "query NoSubSelection {\n  " + f.Name + "\n}\n"})
				break
			}
		}
	case "keyword-name":
		kw := []string{"func", "type", "range", "select", "go"}[r.Intn(5)]
		out = append(out, &gen.Def{Kind: "query", Name: kw, Text: "query " + kw + " {\n  __typename\n}\n"})
	case "fragment-cycle":
		out = append(out, &gen.Def{Kind: "fragment", Name: "CycA", Text: "fragment CycA on Query {\n  ...CycB\n}\n"},
			&gen.Def{Kind: "fragment", Name: "CycB", Text: "fragment CycB on Query {\n  ...CycA\n}\n"},
			&gen.Def{Kind: "query", Name: "UsesCycle", Text: "query UsesCycle {\n  ...CycA\n}\n"})
	case "impossible-spread":
		// an object type spread where it cannot occur
		var objs []string
		for _, t := range s.Types {
			if t.Kind == "OBJECT" && t.Name != "Query" && t.Name != "Mutation" && t.Name != "Subscription" {
				objs = append(objs, t.Name)
			}
		}
		out = append(out, &gen.Def{Kind: "query", Name: "Impossible", Text: "query Impossible {\n  ... on " + objs[r.Intn(len(objs))] + " {\n    __typename\n  }\n}\n"})
	case "missing-required-arg":
		for _, f := range s.FieldsOf("Query") {
			req := false
			for _, a := range f.Args {
				if a.Type.NonNull && a.Default == "" {
					req = true
				}
			}
			if req {
				sub := ""
				if !s.IsLeaf(f.Type.Base()) {
					sub = " {\n    __typename\n  }"
				}
				out = append(out, &gen.Def{Kind: "query", Name: "MissingArg", Text: "query MissingArg {\n  " + f.Name + sub + "\n}\n"})
				break
			}
		}
	case "bad-extension":
		p.ExtraFiles = map[string]string{"ops/zz.txt": "query FromTxt { __typename }\n"}
		p.ExtraGlobs = []string{"ops/zz.txt"}
	case "go-file-invalid":
		p.ExtraFiles = map[string]string{"ops/zz.go": "package ops\nfunc {\n"}
		p.ExtraGlobs = []string{"ops/zz.go"}
	case "graphql-parse-error":
		p.ExtraFiles = map[string]string{"ops/zz.graphql": "query Unclosed {\n  __typename\n"}
		p.ExtraGlobs = []string{"ops/zz.graphql"}
	case "only-fragments":
		out = []*gen.Def{{Kind: "fragment", Name: "Lonely", Text: "fragment Lonely on Query {\n  __typename\n}\n"}}
	}
	return out
}

func addVarTo(o *gen.Def, v string) {
	head := strings.SplitN(o.Text, "\n", 2)
	// skip leading comment lines
	pre := ""
	for strings.HasPrefix(strings.TrimSpace(head[0]), "#") {
		pre += head[0] + "\n"
		head = strings.SplitN(head[1], "\n", 2)
	}
	if strings.Contains(head[0], "(") {
		o.Text = pre + head[0] + "\n  " + v + ",\n" + head[1]
	} else {
		i := strings.Index(head[0], " {")
		o.Text = pre + head[0][:i] + "(" + v + ")" + head[0][i:] + "\n" + head[1]
	}
}

func insertSelInto(d *gen.Def, sel string) {
	i := strings.Index(d.Text, "{\n")
	d.Text = d.Text[:i+2] + "  " + sel + "\n" + d.Text[i+2:]
}

// schemaChange makes a formerly valid operation set invalid by editing the schema only.
func schemaChange(r *core.Rng, s *gen.Schema) (string, string) {
	sdl := s.SDL()
	// rename one field of Query that operations may use; or drop an enum value; textual edits
	q := s.Get("Query")
	f := q.Fields[r.Intn(len(q.Fields))]
	old := "  " + f.Name
	i := strings.Index(sdl, "type Query {\n")
	j := strings.Index(sdl[i:], old)
	if j < 0 {
		return sdl, "none"
	}
	return sdl[:i+j] + "  renamed_" + f.Name + sdl[i+j+len(old):], "rename Query." + f.Name
}

func genC05(r *core.Rng, id int, fault string) *c05Case {
	s := gen.RandomSchema(r, gen.DefaultSchemaOpts())
	oo := gen.DefaultOpOpts()
	d := gen.RandomDoc(r, s, oo)
	defs := d.Defs()
	c := &c05Case{ID: fmt.Sprintf("v%d", id)}
	mk := func(defs []*gen.Def, sdl string, fault string) *c05Step {
		p := &Proj{ID: c.ID, SchemaFiles: map[string]string{"schema.graphql": sdl}, Cfg: &gen.CfgOpts{}}
		defs = inject(r, s, defs, fault, p)
		p.Defs = defs
		p.Layout = gen.RandomLayout(r, len(defs), true)
		if id%3 == 1 {
			// files with the same name in different directories, each its own `operations:` entry
			gen.SpreadDirs(p.Layout)
		}
		return &c05Step{Proj: p, Schema: s, Fault: fault}
	}
	if fault == "schema-change-history" {
		// step 1: valid; step 2: same operations, same paths, the schema lost a field
		st1 := mk(defs, s.SDL(), "none")
		sdl2, what := schemaChange(r, s)
		p2 := *st1.Proj
		p2.SchemaFiles = map[string]string{"schema.graphql": sdl2}
		p2.Note = what
		c.Steps = []*c05Step{st1, {Proj: &p2, Schema: s, Fault: "schema-changed:" + what}}
		if r.Chance(0.5) {
			p3 := *st1.Proj
			c.Steps = append(c.Steps, &c05Step{Proj: &p3, Schema: s, Fault: "schema-restored"})
		}
		return c
	}
	if fault == "fragment-edit-history" {
		// step 1: valid -- an operation whose variable is used ONLY inside a named fragment that
		// lives in another file; step 2: same paths, the operation's file byte-identical, the
		// fragment's file edited so that nothing uses the variable any more (invalid: unused
		// variable); step 3 (sometimes): the fragment restored.  Every step is a Generate call of
		// this one process: what an earlier call saw must not leak into a later verdict.
		n := len(defs)
		op := &gen.Def{Kind: "query", Name: "HzFE", Text: "query HzFE($hzA: Boolean!) {\n  ...HzFEFrag\n}\n"}
		fr1 := &gen.Def{Kind: "fragment", Name: "HzFEFrag", Text: "fragment HzFEFrag on Query {\n  __typename @include(if: $hzA)\n}\n"}
		fr2 := &gen.Def{Kind: "fragment", Name: "HzFEFrag", Text: "fragment HzFEFrag on Query {\n  __typename\n}\n"}
		lay := gen.SingleFile(n)
		fragFile := "ops/hzfrag.graphql"
		opFile := &gen.File{Name: "ops/hzop.graphql", Defs: []int{n}}
		ff := &gen.File{Name: fragFile, Defs: []int{n + 1}}
		if id%2 == 1 {
			ff = &gen.File{Name: "ops/hzfrag.go", Lits: []*gen.Literal{{Defs: []int{n + 1}, Raw: true}}}
		}
		lay.Files = append(lay.Files, opFile, ff)
		step := func(fr *gen.Def, fault string) *c05Step {
			all := append(append([]*gen.Def{}, defs...), op, fr)
			p := &Proj{ID: c.ID, SchemaFiles: map[string]string{"schema.graphql": s.SDL()}, Cfg: &gen.CfgOpts{}, Defs: all, Layout: lay}
			return &c05Step{Proj: p, Schema: s, Fault: fault}
		}
		c.Steps = []*c05Step{step(fr1, "none"), step(fr2, "fragment-edited:variable-no-longer-used")}
		if r.Chance(0.5) {
			c.Steps = append(c.Steps, step(fr1, "fragment-restored"))
		}
		return c
	}
	c.Steps = []*c05Step{mk(defs, s.SDL(), fault)}
	return c
}

func RunC05(tier string, seed int64, outDir string, replay string) (*core.Result, error) {
	res := core.NewResult("C05", tier, seed)
	res.Rule = "random valid operation sets with ONE injected fault from 23 classes (every validation-rule family, anonymous/keyword names, unusable files) placed in any .graphql file or `# @genqlient` Go literal of a random layout, plus 2-3 step histories over one directory (all Generate calls of one process) in which only the schema changes at the same paths, or only the file of a fragment that alone uses an operation's variable; reference verdict = gqlparser's validator run by the harness on the union document; non-trivial = the faulty/edited variant; distinct by project text"
	per := 8
	if tier == "thorough" {
		per = 150
	}
	rng := core.NewRng(seed)
	var cases []*c05Case
	if replay != "" {
		data, err := os.ReadFile(replay)
		if err != nil {
			return nil, err
		}
		var wrap struct {
			Replay c05Case `json:"replay"`
		}
		if err := json.Unmarshal(data, &wrap); err != nil {
			return nil, err
		}
		cases = []*c05Case{&wrap.Replay}
	} else {
		id := 0
		for k := 0; k < per; k++ {
			for _, f := range faultKinds {
				cases = append(cases, genC05(rng, id, f))
				id++
			}
			for j := 0; j < 3; j++ {
				cases = append(cases, genC05(rng, id, "schema-change-history"))
				id++
			}
		}
		// appended after the streams above, so that their cases stay what they were
		for k := 0; k < per; k++ {
			cases = append(cases, genC05(rng, id, "fragment-edit-history"))
			id++
		}
	}
	var pterms []string
	caseIndex := map[string]interface{}{}
	res.Extra["case_index"] = caseIndex
	id := 0
	for _, c := range cases {
		dir := core.Scratch("c05") // one directory per history: the paths stay the same across its steps
		for si, st := range c.Steps {
			// remove the previous step's operation files, keep the directory
			os.RemoveAll(dir + "/ops")
			names := opNameSet(st.Proj.Defs)
			o := observe(dir, st.Proj.program(st.Schema), names)
			valid, rules, perr := directVerdict(st.Proj.SchemaFiles, st.Proj.Defs)
			key, _ := json.Marshal(st.Proj)
			res.Count(string(key), st.Fault != "none")
			res.Dist("fault:" + strings.SplitN(st.Fault, ":", 2)[0])
			res.Dist("outcome:" + o.Class)
			for _, rl := range rules {
				if !strings.HasPrefix(rl, "schema:") {
					res.Dist("rule:" + rl)
				}
			}
			cid := fmt.Sprintf("%s/%d", c.ID, si)
			bad := map[string]bool{}
			var extraBad []string
			for n := range st.Proj.ExtraFiles {
				extraBad = append(extraBad, n)
			}
			if perr && len(extraBad) == 0 {
				// the union itself does not parse (should not happen with our injections)
				res.Dist("union-parse-error")
				continue
			}
			if o.Class == "ok" && !valid {
				res.Fail(core.Failure{Case: cid, Class: "C05/accepted-invalid/" + firstRule(rules),
					What: fmt.Sprintf("fault %q: gqlparser rejects the union document (%v) but Generate accepted it and emitted %v", st.Fault, rules, o.Ops), Replay: c})
			}
			if o.Class == "ok" {
				for _, d := range st.Proj.Defs {
					if d.Kind != "fragment" && d.Name == "" {
						res.Fail(core.Failure{Case: cid, Class: "C05/accepted-anonymous", What: "an anonymous operation was accepted", Replay: c})
					}
				}
				if len(extraBad) > 0 {
					res.Fail(core.Failure{Case: cid, Class: "C05/unusable-file-skipped", What: fmt.Sprintf("matched file %v is unusable but Generate succeeded", extraBad), Replay: c})
				}
				// every named operation of every file must have been emitted
				emitted := map[string]bool{}
				for _, n := range o.Ops {
					emitted[n] = true
				}
				for n := range names {
					if !emitted[n] {
						res.Fail(core.Failure{Case: cid, Class: "C05/operation-dropped", What: "operation " + n + " is in a matched file but no code was generated for it", Replay: c})
					}
				}
			}
			if o.Class == "PANIC" || o.Class == "TIMEOUT" {
				continue
			}
			pterms = append(pterms, pipeCaseTerm(id, srcsTerm(st.Proj.Layout, st.Proj.Defs, bad, extraBad), valid, o))
			caseIndex[fmt.Sprint(id)] = c
			id++
			if id%37 == 0 {
				res.Sample(map[string]interface{}{"id": cid, "fault": st.Fault, "valid": valid, "rules": rules, "outcome": o.Class, "err": o.Err})
			}
		}
		os.RemoveAll(dir)
	}
	f1, err := writeCases(outDir, "pipe", "pipe_case", "pipe_mismatches", "pipe_specfails", pterms, 150)
	if err != nil {
		return nil, err
	}
	res.CasesV = f1
	res.ModelCases = len(pterms)
	return res, nil
}

func firstRule(rules []string) string {
	if len(rules) == 0 {
		return "?"
	}
	return rules[0]
}
