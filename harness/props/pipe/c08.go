package pipe

import (
	"bytes"
	"encoding/json"
	"fmt"
	"os"
	"regexp"
	"sort"
	"strings"

	"verifharness/coqfmt"
	"verifharness/core"
	"verifharness/gen"
)

// C08 case: a project with schema and operations spread over several files (with `extend`),
// same-named bound packages, exported operations; generated repeatedly.
type c08Case struct {
	Proj   *Proj            `json:"proj"`
	Schema *gen.Schema      `json:"schema"`
	Splits []*gen.SplitInfo `json:"splits"`
	Runs   int              `json:"runs"`
}

func genC08(r *core.Rng, id int) *c08Case {
	so := gen.DefaultSchemaOpts()
	s := gen.RandomSchema(r, so)
	// make sure there is an enum with several values that the operations use
	oo := gen.DefaultOpOpts()
	oo.MaxOps = 4
	d := gen.RandomDoc(r, s, oo)
	defs := d.Defs()
	if id%3 == 0 {
		// FOUR custom scalars (bound below to types of four same-named packages), each returned by
		// a root field, all selected by one operation: three or more imports compete for the
		// aliases types, types2, types3, ... in whatever order the generator meets them
		if q := s.Get("Query"); q != nil && s.Get("HzSc1") == nil {
			sel := ""
			for i := 1; i <= 4; i++ {
				n := fmt.Sprintf("HzSc%d", i)
				s.Types = append(s.Types, &gen.TypeDef{Kind: "SCALAR", Name: n})
				q.Fields = append(q.Fields, &gen.FieldDef{Name: fmt.Sprintf("hzSc%d", i), Type: gen.Named(n, i%2 == 0)})
				sel += fmt.Sprintf("  hzSc%d\n", i)
			}
			s.Reindex()
			defs = append(defs, &gen.Def{Kind: "query", Name: "HzImports", Text: "query HzImports {\n" + sel + "}\n"})
		}
	}
	nf := 2 + r.Intn(3)
	files, splits := gen.SplitSDL(r, s, nf)
	cfg := &gen.CfgOpts{Export: true, Bindings: map[string]string{}}
	// custom scalars bound to types of same-named packages
	k := 0
	for _, t := range s.Types {
		if t.Kind == "SCALAR" {
			cfg.Bindings[t.Name] = fmt.Sprintf("example.com/%c/types.T%d", 'a'+byte(k), k)
			if id%2 == 1 {
				// ... and (un)marshaled by functions of further same-named packages, which are
				// referenced for the first time while the types are rendered
				if cfg.Marshalers == nil {
					cfg.Marshalers = map[string][2]string{}
				}
				cfg.Marshalers[t.Name] = [2]string{fmt.Sprintf("example.com/%c/codec.Marshal%d", 'p'+byte(k), k), fmt.Sprintf("example.com/%c/codec.Unmarshal%d", 'p'+byte(k), k)}
			}
			k++
		}
	}
	if r.Chance(0.3) {
		cfg.Optional = "generic"
	}
	p := &Proj{ID: fmt.Sprintf("d%d", id), SchemaFiles: files, Defs: defs, Layout: gen.RandomLayout(r, len(defs), true), Cfg: cfg}
	// the same files named one by one, or matched by one glob (the result must not depend on
	// the order in which the file system / a Go map hands them out)
	if r.Chance(0.5) {
		p.SchemaGlob = "schema/*.graphql"
	}
	if r.Chance(0.4) {
		p.OpsGlob = "ops/*"
	}
	return &c08Case{Proj: p, Schema: s, Splits: splits, Runs: 6}
}

var allSliceRe = regexp.MustCompile(`(?s)var All(\w+) = \[\]\w+\{(.*?)\n\}`)
var constRe = regexp.MustCompile(`(?m)^\s*(\w+)\s+(\w+)\s*=\s*"([^"]*)"`)

// enumValuesEmitted: for the Go enum type generated for GraphQL enum `name`, the GraphQL values in
// the order of its All<Enum> slice.
func enumValuesEmitted(src []byte, goName string) []string {
	consts := map[string]string{}
	for _, m := range constRe.FindAllSubmatch(src, -1) {
		consts[string(m[1])] = string(m[3])
	}
	for _, m := range allSliceRe.FindAllSubmatch(src, -1) {
		if string(m[1]) != goName {
			continue
		}
		var out []string
		for _, line := range strings.Split(string(m[2]), "\n") {
			c := strings.TrimSuffix(strings.TrimSpace(line), ",")
			if c == "" {
				continue
			}
			out = append(out, consts[c])
		}
		return out
	}
	return nil
}

func upperFirst(s string) string {
	s = strings.TrimLeft(s, "_")
	if s == "" {
		return s
	}
	return strings.ToUpper(s[:1]) + s[1:]
}

func RunC08(tier string, seed int64, outDir string, replay string) (*core.Result, error) {
	res := core.NewResult("C08", tier, seed)
	if replay != "" {
		if sc := spellReplay(replay); sc != nil {
			spellingLeg(res, "C08", seed, 1, sc)
			return res, nil
		}
	}
	defer func() {
		if replay == "" {
			k := 12
			if tier == "thorough" {
				k = 120
			}
			spellingLeg(res, "C08", seed, k, nil)
			res.Rule += "; config leg: random projects with a genqlient.yaml using relative paths (schema by one glob, one operations entry per definition, the last one outside the project directory) read through ReadAndValidateConfig from 5 (working directory, config path) spellings: same acceptance, byte-identical Go and export files"
		}
	}()
	res.Rule = "random projects with the schema spread over 2-4 files (enum/input `extend` blocks in other files), operations spread over several .graphql/.go files, same-named bound packages, export_operations on; each generated 6x in-process (Go randomises every map iteration) and compared byte-wise, plus the order-sensitive structure (declaration order, operation order, export order, enum value order) against the model; non-trivial = Generate succeeded; distinct by project text"
	n := 60
	if tier == "thorough" {
		n = 600
	}
	rng := core.NewRng(seed)
	var cases []*c08Case
	if replay != "" {
		data, err := os.ReadFile(replay)
		if err != nil {
			return nil, err
		}
		var wrap struct {
			Replay c08Case `json:"replay"`
		}
		if err := json.Unmarshal(data, &wrap); err != nil {
			return nil, err
		}
		cases = []*c08Case{&wrap.Replay}
	} else {
		for i := 0; i < n; i++ {
			cases = append(cases, genC08(rng, i))
		}
	}
	dir := core.Scratch("c08")
	defer os.RemoveAll(dir)
	var pterms, xterms []string
	caseIndex := map[string]interface{}{}
	res.Extra["case_index"] = caseIndex
	for i, c := range cases {
		os.RemoveAll(dir)
		os.MkdirAll(dir, 0o755)
		prog := c.Proj.program(c.Schema)
		names := opNameSet(c.Proj.Defs)
		first := observe(dir, prog, names)
		key, _ := json.Marshal(c.Proj)
		res.Count(string(key), first.Class == "ok")
		res.Dist("outcome:" + first.Class)
		res.Dist(fmt.Sprintf("schema_files:%d", len(c.Proj.SchemaFiles)))
		res.Dist(fmt.Sprintf("op_files:%d", len(c.Proj.Layout.Files)))
		if first.Class == "PANIC" || first.Class == "TIMEOUT" {
			continue // C07's subject
		}
		runs := c.Runs
		if runs == 0 {
			runs = 6
		}
		for k := 1; k < runs; k++ {
			o := observe(dir, prog, names)
			if o.Class != first.Class || (o.Class != "ok" && o.Err != first.Err) {
				res.Fail(core.Failure{Case: c.Proj.ID, Class: "C08/nondeterministic-outcome",
					What: fmt.Sprintf("run 1: %s %q; run %d: %s %q", first.Class, first.Err, k+1, o.Class, o.Err), Replay: c})
				break
			}
			if !bytes.Equal(o.GoBytes, first.GoBytes) {
				at := firstDiff(o.GoBytes, first.GoBytes)
				res.Fail(core.Failure{Case: c.Proj.ID, Class: "C08/nondeterministic-go-output",
					What: fmt.Sprintf("generated Go differs between run 1 and run %d at byte %d: %q vs %q", k+1, at, excerpt(first.GoBytes, at), excerpt(o.GoBytes, at)), Replay: c})
				break
			}
			if !bytes.Equal(o.JSON, first.JSON) {
				at := firstDiff(o.JSON, first.JSON)
				res.Fail(core.Failure{Case: c.Proj.ID, Class: "C08/nondeterministic-export",
					What: fmt.Sprintf("exported operations differ between run 1 and run %d at byte %d: %q vs %q", k+1, at, excerpt(first.JSON, at), excerpt(o.JSON, at)), Replay: c})
				break
			}
		}
		valid, _, _ := directVerdict(c.Proj.SchemaFiles, c.Proj.Defs)
		pterms = append(pterms, pipeCaseTerm(i, srcsTerm(c.Proj.Layout, c.Proj.Defs, nil, nil), valid, first))
		caseIndex[fmt.Sprint(i)] = c
		if first.Class == "ok" {
			for _, sp := range c.Splits {
				got := enumValuesEmitted(first.GoBytes, upperFirst(sp.Enum))
				if got == nil {
					continue // the operations do not use this enum
				}
				var fs []string
				var fnames []string
				for fn := range sp.Files {
					fnames = append(fnames, fn)
				}
				sort.Sort(sort.Reverse(sort.StringSlice(fnames))) // hand them over in a non-sorted order
				for _, fn := range fnames {
					v := sp.Files[fn]
					fs = append(fs, coqfmt.Pair(coqfmt.Str(fn), coqfmt.Pair(coqfmt.StrList(v[0]), coqfmt.StrList(v[1]))))
				}
				xterms = append(xterms, fmt.Sprintf("{| x_id := %d; x_files := %s; x_obs := %s |}", i, coqfmt.List(fs), coqfmt.StrList(got)))
				res.Dist("enum-extended-over-files")
			}
		}
		if i%13 == 0 {
			res.Sample(map[string]interface{}{"id": c.Proj.ID, "schema_files": len(c.Proj.SchemaFiles), "layout": c.Proj.Layout, "outcome": first.Class, "ops": first.Ops, "types": len(first.Types)})
		}
	}
	f1, err := writeCases(outDir, "pipe", "pipe_case", "pipe_mismatches", "", pterms, 150)
	if err != nil {
		return nil, err
	}
	f2, err := writeCases(outDir, "ext", "ext_case", "ext_mismatches", "", xterms, 300)
	if err != nil {
		return nil, err
	}
	res.CasesV = append(f1, f2...)
	res.ModelCases = len(pterms) + len(xterms)
	return res, nil
}
