package pipe

import (
	"bytes"
	"encoding/json"
	"fmt"
	"os"
	"regexp"

	"verifharness/core"
	"verifharness/gen"
)

type c17Case struct {
	Proj    *Proj         `json:"proj"` // canonical layout
	Schema  *gen.Schema   `json:"schema"`
	Layouts []*gen.Layout `json:"layouts"`
}

func genC17(r *core.Rng, id int) *c17Case {
	s := gen.RandomSchema(r, gen.DefaultSchemaOpts())
	oo := gen.DefaultOpOpts()
	oo.MaxOps = 4
	oo.MaxFrags = 4
	if r.Chance(0.25) {
		// operation names equal up to case are legal GraphQL and distinct Go identifiers
		oo.OpNames = [][]string{{"GetUser", "getUser"}, {"Q", "q", "R"}, {"ListAll", "listAll", "LISTALL"}}[r.Intn(3)]
	}
	d := gen.RandomDoc(r, s, oo)
	defs := d.Defs()
	cfg := &gen.CfgOpts{Export: r.Chance(0.7), Bindings: map[string]string{}}
	k := 0
	for _, t := range s.Types {
		if t.Kind == "SCALAR" {
			cfg.Bindings[t.Name] = fmt.Sprintf("example.com/%c/types.T%d", 'a'+byte(k), k)
			k++
		}
	}
	c := &c17Case{Schema: s, Proj: &Proj{ID: fmt.Sprintf("l%d", id), SchemaFiles: map[string]string{"schema.graphql": s.SDL()},
		Defs: defs, Layout: gen.SingleFile(len(defs)), Cfg: cfg}}
	for i := 0; i < 3; i++ {
		c.Layouts = append(c.Layouts, gen.RandomLayout(r, len(defs), true))
	}
	return c
}

var sourceLocRe = regexp.MustCompile(`"sourceLocation": "[^"]*"`)

func normExport(b []byte) []byte { return sourceLocRe.ReplaceAll(b, []byte(`"sourceLocation": ""`)) }

func RunC17(tier string, seed int64, outDir string, replay string) (*core.Result, error) {
	res := core.NewResult("C17", tier, seed)
	if replay != "" {
		if sc := spellReplay(replay); sc != nil {
			spellingLeg(res, "C17", seed, 1, sc)
			return res, nil
		}
	}
	defer func() {
		if replay == "" {
			k := 12
			if tier == "thorough" {
				k = 120
			}
			spellingLeg(res, "C17", seed, k, nil)
			res.Rule += "; config leg: random projects with a genqlient.yaml using relative paths (schema by one glob, one operations entry per definition, the last one outside the project directory) read through ReadAndValidateConfig from 5 (working directory, config path) spellings: same acceptance, byte-identical Go and export files"
		}
	}()
	res.Rule = "random operation sets (incl. names equal up to case, shared and nested fragments, same-named bound packages) generated from the canonical one-file layout and from 3 random layouts each (split over 1-3 files with .graphql/.gql/.graphqls extensions in any grouping and order, `# @genqlient` literals raw or interpreted in 5 expression contexts, leading blank lines); outputs compared byte-wise (export JSON modulo sourceLocation); non-trivial = canonical layout accepted; distinct by (definitions, layout)"
	n := 50
	if tier == "thorough" {
		n = 500
	}
	rng := core.NewRng(seed)
	var cases []*c17Case
	if replay != "" {
		data, err := os.ReadFile(replay)
		if err != nil {
			return nil, err
		}
		var wrap struct {
			Replay c17Case `json:"replay"`
		}
		if err := json.Unmarshal(data, &wrap); err != nil {
			return nil, err
		}
		cases = []*c17Case{&wrap.Replay}
	} else {
		for i := 0; i < n; i++ {
			cases = append(cases, genC17(rng, i))
		}
	}
	dir := core.Scratch("c17")
	defer os.RemoveAll(dir)
	var pterms []string
	caseIndex := map[string]interface{}{}
	res.Extra["case_index"] = caseIndex
	id := 0
	for _, c := range cases {
		names := opNameSet(c.Proj.Defs)
		valid, _, _ := directVerdict(c.Proj.SchemaFiles, c.Proj.Defs)
		os.RemoveAll(dir)
		os.MkdirAll(dir, 0o755)
		base := observe(dir, c.Proj.program(c.Schema), names)
		res.Dist("canonical:" + base.Class)
		pterms = append(pterms, pipeCaseTerm(id, srcsTerm(c.Proj.Layout, c.Proj.Defs, nil, nil), valid, base))
		caseIndex[fmt.Sprint(id)] = c
		id++
		for li, l := range c.Layouts {
			p2 := *c.Proj
			p2.Layout = l
			os.RemoveAll(dir)
			os.MkdirAll(dir, 0o755)
			o := observe(dir, p2.program(c.Schema), names)
			key, _ := json.Marshal([]interface{}{c.Proj.Defs, l})
			res.Count(string(key), base.Class == "ok")
			goFiles := 0
			for _, f := range l.Files {
				if len(f.Lits) > 0 {
					goFiles++
				}
			}
			res.Dist(fmt.Sprintf("layout:files=%d,go=%d", len(l.Files), goFiles))
			pterms = append(pterms, pipeCaseTerm(id, srcsTerm(l, c.Proj.Defs, nil, nil), valid, o))
			caseIndex[fmt.Sprint(id)] = c
			id++
			cid := fmt.Sprintf("%s/layout%d", c.Proj.ID, li)
			if base.Class == "PANIC" || o.Class == "PANIC" || base.Class == "TIMEOUT" || o.Class == "TIMEOUT" {
				continue
			}
			if (base.Class == "ok") != (o.Class == "ok") {
				res.Fail(core.Failure{Case: cid, Class: "C17/layout-changes-acceptance",
					What: fmt.Sprintf("one-file layout: %s %q; layout %d: %s %q", base.Class, base.Err, li, o.Class, o.Err), Replay: c})
				continue
			}
			if base.Class != "ok" {
				continue
			}
			if !bytes.Equal(base.GoBytes, o.GoBytes) {
				at := firstDiff(base.GoBytes, o.GoBytes)
				res.Fail(core.Failure{Case: cid, Class: "C17/layout-changes-go-output",
					What: fmt.Sprintf("generated Go differs between the one-file layout and layout %d at byte %d: %q vs %q", li, at, excerpt(base.GoBytes, at), excerpt(o.GoBytes, at)), Replay: c})
			} else if !bytes.Equal(normExport(base.JSON), normExport(o.JSON)) {
				res.Fail(core.Failure{Case: cid, Class: "C17/layout-changes-export",
					What: fmt.Sprintf("exported operations (modulo sourceLocation) differ between the one-file layout and layout %d", li), Replay: c})
			}
		}
		if id%29 == 0 {
			res.Sample(map[string]interface{}{"id": c.Proj.ID, "defs": len(c.Proj.Defs), "layouts": c.Layouts, "canonical": base.Class})
		}
	}
	f1, err := writeCases(outDir, "pipe", "pipe_case", "pipe_mismatches", "", pterms, 150)
	if err != nil {
		return nil, err
	}
	res.CasesV = f1
	res.ModelCases = len(pterms)
	return res, nil
}
