package pipe

import (
	"sort"
	"path/filepath"
	"encoding/json"
	"fmt"
	"os"
	"regexp"
	"strings"

	"verifharness/coqfmt"
	"verifharness/core"
	"verifharness/gen"
)

// C18 case: a valid random program with ONE positioned fault; the true file and line of the
// offending node are known from how the project was rendered.
type c18Case struct {
	Proj     *Proj       `json:"proj"`
	Schema   *gen.Schema `json:"schema"`
	Fault    string      `json:"fault"`
	Def      int         `json:"def"`      // index of the faulty definition
	NodeLine int         `json:"nodeline"` // 0-based line of the offending node inside the definition's text
}

var c18Faults = []string{"unknown-field", "directive-unknown-arg", "directive-malformed", "directive-conflict", "omitempty-on-field",
	"operation-bind", "anonymous", "keyword-operation", "keyword-variable", "lex-error", "struct-on-object", "unbound-scalar",
	"undefined-variable", "directive-malformed-on-operation", "directive-bad-for", "typename-conflict"}

// bodyStart: index of the line that opens the definition's selection set ("... {").
func headerLines(text string) (lines []string, opLine, openLine int) {
	lines = strings.Split(strings.TrimSuffix(text, "\n"), "\n")
	opLine = -1
	for i, l := range lines {
		t := strings.TrimSpace(l)
		if opLine < 0 && !strings.HasPrefix(t, "#") {
			opLine = i
		}
		if opLine >= 0 && strings.HasSuffix(t, "{") {
			return lines, opLine, i
		}
	}
	return lines, opLine, len(lines) - 1
}

func insertAfter(lines []string, at int, ins ...string) []string {
	out := append([]string{}, lines[:at+1]...)
	out = append(out, ins...)
	return append(out, lines[at+1:]...)
}

func genC18(r *core.Rng, id int, fault string) *c18Case {
	s := gen.RandomSchema(r, gen.DefaultSchemaOpts())
	oo := gen.DefaultOpOpts()
	d := gen.RandomDoc(r, s, oo)
	defs := d.Defs()
	c := &c18Case{Schema: s, Fault: fault}
	sdl := s.SDL()
	cfg := &gen.CfgOpts{}
	var ops []int
	for i, df := range defs {
		if df.Kind != "fragment" {
			ops = append(ops, i)
		}
	}
	target := r.Intn(len(defs))
	onOp := ops[r.Intn(len(ops))]
	set := func(i int, lines []string, node int) {
		defs[i].Text = strings.Join(lines, "\n") + "\n"
		c.Def, c.NodeLine = i, node
	}
	switch fault {
	case "unknown-field":
		lines, _, open := headerLines(defs[target].Text)
		set(target, insertAfter(lines, open, "  zzNoSuchField"), open+1)
	case "directive-unknown-arg":
		lines, _, open := headerLines(defs[target].Text)
		set(target, insertAfter(lines, open, "  # @genqlient(nonsense: true)", "  zzt: __typename"), open+2)
	case "directive-malformed":
		lines, _, open := headerLines(defs[target].Text)
		bad := []string{"# @genqlient(pointer: )", "# @genqlient(pointer true)", "# @genqlient(pointer: true", "# @genqlient(: true)"}[r.Intn(4)]
		set(target, insertAfter(lines, open, "  "+bad, "  zzt: __typename"), open+2)
	case "directive-conflict":
		lines, _, open := headerLines(defs[target].Text)
		set(target, insertAfter(lines, open, "  # @genqlient(pointer: true)", "  # some comment", "  # @genqlient(pointer: false)", "  zzt: __typename"), open+4)
	case "omitempty-on-field":
		lines, _, open := headerLines(defs[target].Text)
		set(target, insertAfter(lines, open, "  # @genqlient(omitempty: true)", "  zzt: __typename"), open+2)
	case "operation-bind":
		lines, opl, _ := headerLines(defs[target].Text)
		set(target, insertAfter(lines, opl-1, "# @genqlient(bind: \"example.com/x.Y\")"), opl+1)
	case "directive-malformed-on-operation":
		lines, opl, _ := headerLines(defs[onOp].Text)
		set(onOp, insertAfter(lines, opl-1, "# @genqlient(omitempty: tru e)"), opl+1)
	case "directive-bad-for":
		lines, opl, _ := headerLines(defs[onOp].Text)
		set(onOp, insertAfter(lines, opl-1, "# @genqlient(for: \"NoSuchType.field\", pointer: true)"), opl+1)
	case "anonymous":
		defs = []*gen.Def{{Kind: "query", Name: "", Text: "# leading comment\n\nquery {\n  __typename\n}\n"}}
		c.Def, c.NodeLine = 0, 2
	case "keyword-operation":
		kw := []string{"func", "type", "range", "select", "go", "map"}[r.Intn(6)]
		defs = append(defs, &gen.Def{Kind: "query", Name: kw, Text: "# doc\nquery " + kw + " {\n  __typename\n}\n"})
		c.Def, c.NodeLine = len(defs)-1, 1
	case "keyword-variable":
		kw := []string{"func", "type", "range", "select", "go", "map"}[r.Intn(6)]
		defs = append(defs, &gen.Def{Kind: "query", Name: "HasKeywordVar", Text: "query HasKeywordVar(\n  $fine: Boolean!,\n  $" + kw + ": Boolean!,\n) {\n  a: __typename @include(if: $fine)\n  b: __typename @include(if: $" + kw + ")\n}\n"})
		c.Def, c.NodeLine = len(defs)-1, 2
	case "lex-error":
		lines, _, open := headerLines(defs[target].Text)
		set(target, insertAfter(lines, open, "  ???"), open+1)
	case "undefined-variable":
		lines, _, open := headerLines(defs[onOp].Text)
		set(onOp, insertAfter(lines, open, "  zzt: __typename @include(if: $zzUndefined)"), open+1)
	case "struct-on-object":
		// an object-typed root field, selected with struct: true
		var cand *gen.FieldDef
		for _, f := range s.FieldsOf("Query") {
			if td := s.Get(f.Type.Base()); td != nil && td.Kind == "OBJECT" && len(f.Args) == 0 {
				cand = f
			}
		}
		if cand == nil {
			return nil
		}
		defs = append(defs, &gen.Def{Kind: "query", Name: "StructOnObject", Text: "query StructOnObject {\n  __typename\n  # @genqlient(struct: true)\n  " + cand.Name + " {\n    __typename\n  }\n}\n"})
		c.Def, c.NodeLine = len(defs)-1, 3
	case "typename-conflict":
		var cand *gen.FieldDef
		for _, f := range s.FieldsOf("Query") {
			req := false
			for _, a := range f.Args {
				if a.Type.NonNull && a.Default == "" {
					req = true
				}
			}
			if !s.IsLeaf(f.Type.Base()) && !req {
				cand = f
			}
		}
		if cand == nil {
			return nil
		}
		defs = append(defs, &gen.Def{Kind: "query", Name: "TypenameClash", Text: "query TypenameClash {\n  # @genqlient(typename: \"ZzSame\")\n  one: " + cand.Name + " {\n    __typename\n  }\n  # @genqlient(typename: \"ZzSame\")\n  two: " + cand.Name + " {\n    a: __typename\n    b: __typename\n  }\n}\n"})
		c.Def, c.NodeLine = len(defs)-1, 6
	case "unbound-scalar":
		sdl += "scalar ZzUnbound\nextend type Query {\n  zzUnboundField: ZzUnbound\n}\n"
		defs = append(defs, &gen.Def{Kind: "query", Name: "UsesUnbound", Text: "query UsesUnbound {\n  __typename\n  zzUnboundField\n}\n"})
		c.Def, c.NodeLine = len(defs)-1, 2
	}
	c.Proj = &Proj{ID: fmt.Sprintf("e%d", id), SchemaFiles: map[string]string{"schema.graphql": sdl}, Defs: defs,
		Layout: gen.RandomLayout(r, len(defs), true), Cfg: cfg}
	return c
}

var faultMsg = map[string][]string{
	"unknown-field":                    {"zzNoSuchField"},
	"directive-unknown-arg":            {"unknown argument nonsense"},
	"directive-malformed":              {"invalid genqlient directive"},
	"directive-conflict":               {"conflicting values for pointer"},
	"omitempty-on-field":               {"omitempty is not applicable"},
	"operation-bind":                   {"bind may not be applied to the entire operation", "bind is not implemented for named fragments"},
	"directive-malformed-on-operation": {"invalid genqlient directive"},
	"directive-bad-for":                {"for got invalid type-name"},
	"anonymous":                        {"operations must have operation-names"},
	"keyword-operation":                {"operation name must not be a go keyword"},
	"keyword-variable":                 {"variable name must not be a go keyword"},
	"lex-error":                        {"invalid query-spec file"},
	"undefined-variable":               {"zzUndefined"},
	"struct-on-object":                 {"struct is only applicable to interface-typed fields"},
	"unbound-scalar":                   {"unknown scalar ZzUnbound"},
	"typename-conflict":                {"conflicting definition for ZzSame"},
}

var prefixRe = regexp.MustCompile(`^([^\s:]+\.(?:graphqls?|gql|go)):(\d+): `)
var prefixNoLineRe = regexp.MustCompile(`^([^\s:]+\.(?:graphqls?|gql|go)): `)

func RunC18(tier string, seed int64, outDir string, replay string) (*core.Result, error) {
	res := core.NewResult("C18", tier, seed)
	res.Rule = "random valid programs with ONE positioned fault out of 15 classes (validation, lexing, every kind of @genqlient directive error on fields/operations/fragments, anonymous and keyword names, keyword variables, struct option misuse, unbound scalar) placed in a .graphql file or a raw/interpreted `# @genqlient` literal of a random layout at random line offsets; the true file and line are known from the rendering; every third located fault again through a genqlient.yaml in a sub-directory (all operation files outside the config's directory: the reported path must be relative to the config, ../ops/...); non-trivial = Generate failed; distinct by project text"
	per := 5
	if tier == "thorough" {
		per = 150
	}
	rng := core.NewRng(seed)
	var cases []*c18Case
	if replay != "" {
		data, err := os.ReadFile(replay)
		if err != nil {
			return nil, err
		}
		var wrap struct {
			Replay c18Case `json:"replay"`
		}
		if err := json.Unmarshal(data, &wrap); err != nil {
			return nil, err
		}
		cases = []*c18Case{&wrap.Replay}
	} else {
		id := 0
		for k := 0; k < per; k++ {
			for _, f := range c18Faults {
				if c := genC18(rng, id, f); c != nil {
					cases = append(cases, c)
				}
				id++
			}
		}
	}
	dir := core.Scratch("c18")
	defer os.RemoveAll(dir)
	var terms []string
	caseIndex := map[string]interface{}{}
	res.Extra["case_index"] = caseIndex
	for i, c := range cases {
		os.RemoveAll(dir)
		os.MkdirAll(dir, 0o755)
		_, where := c.Proj.Layout.Render(c.Proj.Defs)
		// the schema binding removal for the unbound scalar
		prog := c.Proj.program(c.Schema)
		o := observe(dir, prog, opNameSet(c.Proj.Defs))
		key, _ := json.Marshal(c.Proj)
		res.Count(string(key), o.Class != "ok")
		res.Dist("fault:" + c.Fault)
		res.Dist("outcome:" + o.Class)
		loc := where[c.Def]
		kind := "graphql"
		if strings.HasSuffix(loc.File, ".go") {
			kind = "go-raw"
			if loc.Interpreted {
				kind = "go-interpreted"
			}
		}
		res.Dist("where:" + kind)
		if o.Class == "ok" || o.Class == "PANIC" || o.Class == "TIMEOUT" {
			if o.Class == "ok" {
				res.Dist("fault-not-triggered:" + c.Fault)
			}
			continue
		}
		msg := strings.ReplaceAll(o.Err, dir+"/", "")
		isInjected := false
		for _, frag := range faultMsg[c.Fault] {
			if strings.Contains(msg, frag) {
				isInjected = true
			}
		}
		if !isInjected {
			res.Dist("another-error-first:" + c.Fault)
			continue
		}
		prefix := ""
		if m := prefixRe.FindStringSubmatch(msg); m != nil {
			prefix = m[1] + ":" + m[2]
		} else if m := prefixNoLineRe.FindStringSubmatch(msg); m != nil {
			prefix = m[1]
		}
		trueLine := loc.Line + c.NodeLine
		inner := c.NodeLine + 1 + (loc.Line - 1) // line inside a .graphql file
		lit := "None"
		if kind != "graphql" {
			inner = loc.InLit + c.NodeLine
			lit = coqfmt.Some(coqfmt.N(loc.LitLine))
			if loc.Interpreted {
				trueLine = loc.LitLine
			}
		}
		want := fmt.Sprintf("%s:%d", loc.File, trueLine)
		cid := fmt.Sprintf("%s/%s", c.Proj.ID, c.Fault)
		if prefix != want {
			class := "C18/wrong-location/" + c.Fault
			switch {
			case prefix == "":
				class = "C18/no-location/" + c.Fault
			case strings.HasPrefix(prefix, "schema.graphql"):
				class = "C18/schema-position/" + c.Fault
			case loc.Interpreted && prefix == fmt.Sprintf("%s:%d", loc.File, loc.LitLine+inner-1):
				class = "C18/interpreted-literal-line"
			}
			res.Fail(core.Failure{Case: cid, Class: class,
				What: fmt.Sprintf("fault %s at %s (%s): message starts with %q: %.160s", c.Fault, want, kind, prefix, msg), Replay: c})
		}
		// "... the path of the file containing it, RELATIVE TO THE CONFIG": the same project read
		// through a genqlient.yaml that lives in a sub-directory, so that every operation file is
		// outside the config's directory (../ops/...)
		if i%3 == 0 && prefix == want && c.Fault != "unbound-scalar" && len(c.Proj.Cfg.Bindings) == 0 {
			root := filepath.Join(dir, "cfgleg")
			os.RemoveAll(root)
			for name, content := range prog.Files {
				full := filepath.Join(root, name)
				_ = os.MkdirAll(filepath.Dir(full), 0o755)
				_ = os.WriteFile(full, []byte(content), 0o644)
			}
			var y strings.Builder
			y.WriteString("schema: ../schema.graphql\noperations:\n")
			for _, g := range prog.Ops {
				y.WriteString("- ../" + g + "\n")
			}
			y.WriteString("generated: generated.go\npackage: client\n")
			var scalars []string
			for _, t := range c.Schema.Types {
				if t.Kind == "SCALAR" {
					scalars = append(scalars, t.Name)
				}
			}
			sort.Strings(scalars)
			if len(scalars) > 0 {
				y.WriteString("bindings:\n")
				for _, sc := range scalars {
					y.WriteString("  " + sc + ":\n    type: string\n")
				}
			}
			_ = os.MkdirAll(filepath.Join(root, "client"), 0o755)
			_ = os.WriteFile(filepath.Join(root, "client", "genqlient.yaml"), []byte(y.String()), 0o644)
			_ = os.WriteFile(filepath.Join(root, "go.mod"), []byte("module example.com/cfgleg\n\ngo 1.22\n"), 0o644)
			// the config named from the project root, or by its absolute path: "relative to the
			// config" must not depend on how the config was named or where genqlient was started
			so := runSpelling(root, "", "client/genqlient.yaml")
			if i%2 == 1 {
				so = runSpelling(root, "client", filepath.Join(root, "client", "genqlient.yaml"))
			}
			res.Dist("config-leg:" + so.Class)
			if so.Class != "ok" && so.Class != "PANIC" && so.Class != "harness" && so.Class != "config-error" {
				p2 := ""
				if m := prefixRe.FindStringSubmatch(so.Err); m != nil {
					p2 = m[1] + ":" + m[2]
				} else if m := prefixNoLineRe.FindStringSubmatch(so.Err); m != nil {
					p2 = m[1]
				}
				injected2 := false
				for _, frag := range faultMsg[c.Fault] {
					if strings.Contains(so.Err, frag) {
						injected2 = true
					}
				}
				if injected2 && p2 != "../"+want {
					res.Fail(core.Failure{Case: cid + "/config-leg", Class: "C18/not-relative-to-the-config/" + c.Fault,
						What: fmt.Sprintf("fault %s, config in client/, operations in ../ops: message starts with %q, want %q: %.200s", c.Fault, p2, "../"+want, so.Err), Replay: c})
				}
			}
		}
		terms = append(terms, fmt.Sprintf("{| e_id := %d; e_file := %s; e_lit := %s; e_line := %d%%N; e_true_line := %d%%N; e_obs := %s |}",
			i, coqfmt.Str(loc.File), lit, inner, trueLine, coqfmt.Str(prefix)))
		caseIndex[fmt.Sprint(i)] = c
		if i%11 == 0 {
			res.Sample(map[string]interface{}{"id": cid, "where": loc, "want": want, "prefix": prefix, "msg": msg[:min(len(msg), 160)]})
		}
	}
	var sb strings.Builder
	sb.WriteString("From Verif Require Import Base.Str Gen.Errors Corr.C18corr.\n")
	sb.WriteString("Definition cases : list c18_case := [\n" + strings.Join(terms, ";\n") + "\n].\n")
	sb.WriteString("Definition MISMATCH := Eval vm_compute in c18_mismatches cases.\nPrint MISMATCH.\n")
	sb.WriteString("Definition SPECFAIL := Eval vm_compute in c18_specfails cases.\nPrint SPECFAIL.\n")
	fn := outDir + "/cases_0.v"
	if err := os.WriteFile(fn, []byte(sb.String()), 0o644); err != nil {
		return nil, err
	}
	res.CasesV = []string{fn}
	res.ModelCases = len(terms)
	return res, nil
}

func min(a, b int) int {
	if a < b {
		return a
	}
	return b
}

