// Package pipe: drivers for the pipeline properties C05 (invalid operations rejected),
// C08 (determinism) and C17 (layout independence).  They share the project generator, the
// observers of the emitted file and the rendering of cases for Corr/Pipecorr.v.
package pipe

import (
	"encoding/json"
	"fmt"
	"go/ast"
	"go/parser"
	"go/token"
	"os"
	"path/filepath"
	"sort"
	"strings"

	"github.com/vektah/gqlparser/v2"
	gqlast "github.com/vektah/gqlparser/v2/ast"
	"github.com/vektah/gqlparser/v2/gqlerror"
	gqlparserp "github.com/vektah/gqlparser/v2/parser"
	"github.com/vektah/gqlparser/v2/validator"
	_ "github.com/vektah/gqlparser/v2/validator/rules"

	"verifharness/coqfmt"
	"verifharness/core"
	"verifharness/gen"
)

// Proj is a generated project: schema files, definitions, layout, config options.
type Proj struct {
	ID          string            `json:"id"`
	SchemaFiles map[string]string `json:"schema_files"`
	Defs        []*gen.Def        `json:"defs"`
	Layout      *gen.Layout       `json:"layout"`
	Cfg         *gen.CfgOpts      `json:"cfg"`
	ExtraFiles  map[string]string `json:"extra_files,omitempty"` // e.g. a file with an unknown extension
	ExtraGlobs  []string          `json:"extra_globs,omitempty"`
	Note        string            `json:"note,omitempty"`
	SchemaGlob  string            `json:"schema_glob,omitempty"` // one glob standing for all schema files
	OpsGlob     string            `json:"ops_glob,omitempty"`    // one glob standing for all operation files
}

func (p *Proj) program(s *gen.Schema) *core.Program {
	files, _ := p.Layout.Render(p.Defs)
	var schemaGlobs []string
	for k, v := range p.SchemaFiles {
		files[k] = v
		schemaGlobs = append(schemaGlobs, k)
	}
	sort.Strings(schemaGlobs)
	if p.SchemaGlob != "" {
		schemaGlobs = []string{p.SchemaGlob}
	}
	for k, v := range p.ExtraFiles {
		files[k] = v
	}
	ops := append(p.Layout.Globs(), p.ExtraGlobs...)
	if p.OpsGlob != "" && len(p.ExtraGlobs) == 0 {
		ops = []string{p.OpsGlob}
	}
	cfg := p.Cfg
	if cfg == nil {
		cfg = &gen.CfgOpts{}
	}
	return &core.Program{Files: files, Schema: schemaGlobs, Ops: ops, Cfg: cfg.Apply(s)}
}

// Obs is what the real generator did.
type Obs struct {
	Err     string   `json:"err,omitempty"`
	Class   string   `json:"class"` // ok | ENoMatch | EBadFile | EInvalid | ENoQueries | EAnonymous | EKeyword | EConvert | EConflict | PANIC | TIMEOUT
	Ops     []string `json:"ops,omitempty"`
	Export  []string `json:"export,omitempty"`
	Types   []string `json:"types,omitempty"`
	GoBytes []byte   `json:"-"`
	JSON    []byte   `json:"-"`
}

func classify(err error) string {
	if err == nil {
		return "ok"
	}
	m := err.Error()
	switch {
	case strings.Contains(m, "did not match any files"):
		return "ENoMatch"
	case strings.Contains(m, "unknown file type"), strings.Contains(m, "invalid Go file"),
		strings.Contains(m, "invalid query-spec file"), strings.Contains(m, "unreadable query-spec file"):
		return "EBadFile"
	case strings.Contains(m, "query-spec does not match schema"):
		return "EInvalid"
	case strings.Contains(m, "no queries found"):
		return "ENoQueries"
	case strings.Contains(m, "operations must have operation-names"):
		return "EAnonymous"
	case strings.Contains(m, "operation name must not be a go keyword"):
		return "EKeyword"
	case strings.Contains(m, "conflicting definition for"):
		return "EConflict"
	}
	return "EConvert"
}

func observe(dir string, prog *core.Program, opNames map[string]bool) *Obs {
	oc := core.RunGenerate(dir, prog)
	o := &Obs{}
	switch {
	case oc.Panicked:
		o.Class, o.Err = "PANIC", oc.PanicVal
		return o
	case oc.TimedOut:
		o.Class = "TIMEOUT"
		return o
	case oc.Err != nil:
		o.Class, o.Err = classify(oc.Err), oc.Err.Error()
		return o
	}
	o.Class = "ok"
	for name, data := range oc.Files {
		if strings.HasSuffix(name, ".go") {
			o.GoBytes = data
			o.Ops, o.Types = readEmitted(data, opNames)
		} else {
			o.JSON = data
			var ex struct {
				Operations []struct {
					OperationName string `json:"operationName"`
				} `json:"operations"`
			}
			_ = json.Unmarshal(data, &ex)
			for _, e := range ex.Operations {
				o.Export = append(o.Export, e.OperationName)
			}
		}
	}
	return o
}

// readEmitted lists, in file order, the operation functions and the type declarations that
// WriteTypes emitted (those before the first <Op>_Operation constant).
func readEmitted(src []byte, opNames map[string]bool) (ops, types []string) {
	fset := token.NewFileSet()
	f, err := parser.ParseFile(fset, "generated.go", src, 0)
	if err != nil {
		return nil, nil
	}
	inTypes := true
	for _, d := range f.Decls {
		switch d := d.(type) {
		case *ast.GenDecl:
			if d.Tok == token.CONST {
				for _, s := range d.Specs {
					for _, n := range s.(*ast.ValueSpec).Names {
						if strings.HasSuffix(n.Name, "_Operation") {
							inTypes = false
						}
					}
				}
			}
			if d.Tok == token.TYPE && inTypes {
				for _, s := range d.Specs {
					n := s.(*ast.TypeSpec).Name.Name
					if !strings.HasPrefix(n, "__premarshal") {
						types = append(types, n)
					}
				}
			}
		case *ast.FuncDecl:
			if d.Recv == nil && opNames[d.Name.Name] {
				ops = append(ops, d.Name.Name)
			}
		}
	}
	return ops, types
}

// directVerdict: gqlparser's own verdict on the union of all definitions (the oracle).
func directVerdict(schemaFiles map[string]string, defs []*gen.Def) (valid bool, rules []string, parseErr bool) {
	var srcs []*gqlast.Source
	var names []string
	for k := range schemaFiles {
		names = append(names, k)
	}
	sort.Strings(names)
	for _, k := range names {
		srcs = append(srcs, &gqlast.Source{Name: k, Input: schemaFiles[k]})
	}
	schema, err := gqlparser.LoadSchema(srcs...)
	if err != nil {
		return false, []string{"schema:" + err.Error()}, true
	}
	var sb strings.Builder
	for _, d := range defs {
		sb.WriteString(d.Text + "\n")
	}
	doc, perr := gqlparserp.ParseQuery(&gqlast.Source{Name: "union", Input: sb.String()})
	if perr != nil {
		return false, []string{"parse"}, true
	}
	var errs gqlerror.List = validator.Validate(schema, doc)
	for _, e := range errs {
		rules = append(rules, e.Rule)
	}
	return len(errs) == 0, rules, false
}

// ---- rendering for Corr/Pipecorr.v -------------------------------------------------------

func defTerm(d *gen.Def, idx int) string {
	return fmt.Sprintf("{| d_op := %s; d_name := %s; d_id := %d%%N |}", coqfmt.Bool(d.Kind != "fragment"), coqfmt.Str(d.Name), idx)
}

func srcsTerm(l *gen.Layout, defs []*gen.Def, bad map[string]bool, extraBad []string) string {
	var items []string
	for _, f := range l.Files {
		if bad[f.Name] {
			items = append(items, "SBad "+coqfmt.Str(f.Name))
			continue
		}
		if strings.HasSuffix(f.Name, ".go") {
			var lits []string
			for _, lit := range f.Lits {
				var ds []string
				for _, d := range lit.Defs {
					ds = append(ds, defTerm(defs[d], d))
				}
				lits = append(lits, coqfmt.List(ds))
			}
			items = append(items, "SGo "+coqfmt.Str(f.Name)+" "+coqfmt.List(lits))
		} else {
			var ds []string
			for _, d := range f.Defs {
				ds = append(ds, defTerm(defs[d], d))
			}
			items = append(items, "SGraphql "+coqfmt.Str(f.Name)+" "+coqfmt.List(ds))
		}
	}
	for _, n := range extraBad {
		items = append(items, "SBad "+coqfmt.Str(n))
	}
	return coqfmt.List(items)
}

func gerrTerm(class string) string {
	switch class {
	case "ok":
		return "None"
	case "PANIC", "TIMEOUT":
		return "(Some EConvert)"
	}
	return "(Some " + class + ")"
}

func pipeCaseTerm(id int, srcs string, valid bool, o *Obs) string {
	return fmt.Sprintf("{| p_id := %d; p_srcs := %s; p_valid := %s; p_obs := %s; p_obs_ops := %s; p_obs_export := %s; p_obs_types := %s |}",
		id, srcs, coqfmt.Bool(valid), gerrTerm(o.Class), coqfmt.StrList(o.Ops), coqfmt.StrList(o.Export), coqfmt.StrList(o.Types))
}

func writeCases(outDir, name, typ, mism, spec string, terms []string, shard int) ([]string, error) {
	var files []string
	for k := 0; k*shard < len(terms); k++ {
		end := (k + 1) * shard
		if end > len(terms) {
			end = len(terms)
		}
		var sb strings.Builder
		sb.WriteString("From Verif Require Import Base.Str Base.Sort Gen.Consts Gen.Pipeline Corr.Pipecorr.\n")
		sb.WriteString("Definition cases : list " + typ + " := [\n" + strings.Join(terms[k*shard:end], ";\n") + "\n].\n")
		sb.WriteString("Definition MISMATCH := Eval vm_compute in " + mism + " cases.\nPrint MISMATCH.\n")
		if spec != "" {
			sb.WriteString("Definition SPECFAIL := Eval vm_compute in " + spec + " cases.\nPrint SPECFAIL.\n")
		}
		fn := filepath.Join(outDir, fmt.Sprintf("cases_%s_%d.v", name, k))
		if err := os.WriteFile(fn, []byte(sb.String()), 0o644); err != nil {
			return nil, err
		}
		files = append(files, fn)
	}
	return files, nil
}

func opNameSet(defs []*gen.Def) map[string]bool {
	m := map[string]bool{}
	for _, d := range defs {
		if d.Kind != "fragment" {
			m[d.Name] = true
		}
	}
	return m
}

func firstDiff(a, b []byte) int {
	n := 0
	for n < len(a) && n < len(b) && a[n] == b[n] {
		n++
	}
	return n
}

func excerpt(b []byte, at int) string {
	lo, hi := at-40, at+40
	if lo < 0 {
		lo = 0
	}
	if hi > len(b) {
		hi = len(b)
	}
	return strings.ReplaceAll(string(b[lo:hi]), "\n", "\\n")
}
