package pipe

import (
	"bytes"
	"encoding/json"
	"fmt"
	"os"
	"path/filepath"
	"sort"
	"strings"

	"github.com/Khan/genqlient/generate"

	"verifharness/core"
	"verifharness/gen"
)

// spellCase: one project on disk with a genqlient.yaml whose paths are RELATIVE to it: the
// schema by one glob, the operations as several entries (more entries than schema entries),
// one of them outside the configuration's directory.  It is generated through
// ReadAndValidateConfig from several working directories / spellings of the config path.
type spellCase struct {
	ID     string            `json:"id"`
	Files  map[string]string `json:"files"` // relative to the scratch root
	Config string            `json:"config"`
	Spell  bool              `json:"spelling_leg"`
}

func genSpell(r *core.Rng, id int) *spellCase {
	s := gen.RandomSchema(r, gen.DefaultSchemaOpts())
	oo := gen.DefaultOpOpts()
	oo.MaxOps = 3
	d := gen.RandomDoc(r, s, oo)
	defs := d.Defs()
	files := map[string]string{}
	sfiles, _ := gen.SplitSDL(r, s, 2+r.Intn(2))
	for k, v := range sfiles {
		files["proj/"+k] = v
	}
	// one definition per file; the last one lives OUTSIDE the project directory
	var entries []string
	// an OPERATION lives outside (its sourceLocation is exported), fragments may too
	outside := -1
	for i, df := range defs {
		if df.Kind != "fragment" {
			outside = i
		}
	}
	if len(defs) < 2 {
		outside = -1
	}
	for i, df := range defs {
		name := fmt.Sprintf("ops/d%d.graphql", i)
		if i == outside {
			name = fmt.Sprintf("../shared/s%d.graphql", i)
			files["shared/"+filepath.Base(name)] = df.Text
		} else {
			files["proj/"+name] = df.Text
		}
		entries = append(entries, name)
	}
	if outside >= 0 && r.Chance(0.5) {
		entries[outside] = "../shared/*.graphql"
	}
	var sb strings.Builder
	sb.WriteString("schema: schema/*.graphql\noperations:\n")
	for _, e := range entries {
		sb.WriteString("- " + e + "\n")
	}
	sb.WriteString("generated: generated.go\npackage: gen\nexport_operations: operations.json\n")
	var scalars []string
	for _, t := range s.Types {
		if t.Kind == "SCALAR" {
			scalars = append(scalars, t.Name)
		}
	}
	sort.Strings(scalars)
	if len(scalars) > 0 {
		sb.WriteString("bindings:\n")
		for _, sc := range scalars {
			sb.WriteString("  " + sc + ":\n    type: string\n")
		}
	}
	files["proj/genqlient.yaml"] = sb.String()
	files["proj/go.mod"] = "module example.com/proj\n\ngo 1.22\n"
	return &spellCase{ID: fmt.Sprintf("w%d", id), Files: files, Config: "proj/genqlient.yaml", Spell: true}
}

type spellObs struct {
	Class string
	Err   string
	Go    []byte
	JSON  []byte
}

func runSpelling(root, cwdRel, cfgPath string) *spellObs {
	old, _ := os.Getwd()
	defer os.Chdir(old)
	if err := os.Chdir(filepath.Join(root, cwdRel)); err != nil {
		return &spellObs{Class: "harness", Err: err.Error()}
	}
	o := &spellObs{}
	func() {
		defer func() {
			if v := recover(); v != nil {
				o.Class, o.Err = "PANIC", fmt.Sprint(v)
			}
		}()
		cfg, err := generate.ReadAndValidateConfig(cfgPath)
		if err != nil {
			o.Class, o.Err = "config-error", err.Error()
			return
		}
		out, err := generate.Generate(cfg)
		if err != nil {
			o.Class, o.Err = classify(err), err.Error()
			return
		}
		o.Class = "ok"
		for name, data := range out {
			if strings.HasSuffix(name, ".go") {
				o.Go = data
			} else {
				o.JSON = data
			}
		}
	}()
	return o
}

// spellingLeg adds to res: the same project generated from four (working directory, config
// path) spellings must be accepted alike and give byte-identical outputs.
func spellingLeg(res *core.Result, prop string, seed int64, n int, replay *spellCase) {
	rng := core.NewRng(seed + 31)
	var cases []*spellCase
	if replay != nil {
		cases = []*spellCase{replay}
	} else {
		for i := 0; i < n; i++ {
			cases = append(cases, genSpell(rng, i))
		}
	}
	root := core.Scratch(strings.ToLower(prop) + "spell")
	defer os.RemoveAll(root)
	for _, c := range cases {
		os.RemoveAll(root)
		for name, content := range c.Files {
			full := filepath.Join(root, name)
			_ = os.MkdirAll(filepath.Dir(full), 0o755)
			_ = os.WriteFile(full, []byte(content), 0o644)
		}
		_ = os.MkdirAll(filepath.Join(root, "elsewhere", "deep"), 0o755)
		_ = os.MkdirAll(filepath.Join(root, "shared"), 0o755)
		abs := filepath.Join(root, c.Config)
		spellings := [][2]string{
			{"proj", "genqlient.yaml"},
			{".", "proj/genqlient.yaml"},
			{"shared", "../proj/genqlient.yaml"},
			{"elsewhere/deep", abs},
			{"proj", "./../proj/genqlient.yaml"},
		}
		var first *spellObs
		for i, sp := range spellings {
			o := runSpelling(root, sp[0], sp[1])
			key, _ := json.Marshal([]interface{}{c.Files, sp})
			res.Count("spelling:"+string(key), first == nil || first.Class == "ok")
			res.Dist("spelling:" + o.Class)
			if replay != nil {
				fmt.Printf("spelling cwd=%s config=%s: %s %s\n", sp[0], sp[1], o.Class, o.Err)
			}
			if o.Class == "PANIC" {
				res.Fail(core.Failure{Case: c.ID, Class: prop + "/config-spelling/panic", What: fmt.Sprintf("cwd=%s config=%s: the generator panicked: %s", sp[0], sp[1], o.Err), Replay: c})
				continue
			}
			if i == 0 {
				first = o
				continue
			}
			what := fmt.Sprintf("run from cwd=<root>/%s with config path %q vs cwd=<root>/proj with \"genqlient.yaml\"", sp[0], strings.Replace(sp[1], root, "<root>", 1))
			switch {
			case o.Class != first.Class:
				res.Fail(core.Failure{Case: c.ID, Class: prop + "/config-spelling-changes-acceptance", What: fmt.Sprintf("%s: %s %q vs %s %q", what, o.Class, o.Err, first.Class, first.Err), Replay: c})
			case o.Class == "ok" && !bytes.Equal(o.Go, first.Go):
				res.Fail(core.Failure{Case: c.ID, Class: prop + "/config-spelling-changes-go-output", What: what + ": generated Go differs", Replay: c})
			case o.Class == "ok" && !bytes.Equal(o.JSON, first.JSON):
				res.Fail(core.Failure{Case: c.ID, Class: prop + "/working-directory-changes-export", What: what + ": the exported-operations file differs (source locations depend on where genqlient was run)", Replay: c})
			}
		}
	}
}

// spellReplay recognises a replay file of this leg.
func spellReplay(path string) *spellCase {
	data, err := os.ReadFile(path)
	if err != nil || !strings.Contains(string(data), "\"spelling_leg\"") {
		return nil
	}
	var wrap struct {
		Replay spellCase `json:"replay"`
	}
	if json.Unmarshal(data, &wrap) != nil || !wrap.Replay.Spell {
		return nil
	}
	return &wrap.Replay
}
