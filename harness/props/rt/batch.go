// Package rt: runtime engine.  Generated packages are compiled together with a generated
// driver into one runner binary; the harness then feeds it tasks (decode a response into the
// generated response type and dump it by reflection; call a generated helper with random
// arguments against a recording client) and judges the results.
package rt

import (
	"bufio"
	"bytes"
	"encoding/json"
	"fmt"
	"os"
	"os/exec"
	"path/filepath"
	"sort"
	"strings"

	"verifharness/core"
	"verifharness/export"
	"verifharness/gen"
	"verifharness/obs"
	"verifharness/props/conv"
)

type Prog struct {
	Idx   int
	Name  string // p<idx>
	Case  *conv.Case
	Em    *obs.Emitted
	Ex    *export.Exported // user's document
	Go    []byte
	Query map[string]string // operation -> emitted document text
}

type Batch struct {
	Mod    *conv.Module
	Progs  []*Progs
	runner string
}

type Progs = Prog

// genCase: programs of the supported fragment that also COMPILE on the unchanged tree (the open
// compile findings of C01 are avoided: no optional: generic, no directly recursive inputs, no
// client_getter); runtime properties are about code that builds.
func GenCase(r *core.Rng, id int) *conv.Case { return GenCaseOpt(r, id, false) }

// GenCaseOpt: with getter, half of the programs use a client_getter (and have no subscription,
// which does not compile with one: open finding of C01).
func GenCaseOpt(r *core.Rng, id int, getter bool) *conv.Case {
	so := gen.DefaultSchemaOpts()
	s := gen.RandomSchema(r, so)
	// break direct input recursion (open finding of C01): make self references lists
	for _, t := range s.Types {
		if t.Kind == "INPUT" {
			for _, a := range t.Inputs {
				if a.Type.Elem == nil && s.Get(a.Type.Name) != nil && s.Get(a.Type.Name).Kind == "INPUT" {
					a.Type = gen.ListOf(gen.Named(a.Type.Name, true), false)
					a.Default = ""
				}
			}
		}
	}
	variant := id % 6
	var sfx *gen.Def
	if variant == 4 {
		// names that collide the way generate/names.go documents
		sfx = gen.SuffixNames(r, s)
	}
	hzScalar, hzScalarOp := "", (*gen.Def)(nil)
	if variant == 0 || variant == 1 {
		// a custom scalar as variable (list depths 0-2) and as result, bound one-sidedly below
		hzScalar, hzScalarOp = gen.ScalarHazard(r, s)
	}
	oo := gen.DefaultOpOpts()
	oo.MaxOps = 2
	d := gen.RandomDoc(r, s, oo)
	var cfg *gen.CfgOpts
	if variant == 3 {
		// every documented option anywhere, type names chosen to collide with generated names
		var pool []string
		for _, f := range d.Frags {
			pool = append(pool, f.Name)
		}
		for _, o := range d.Ops {
			pool = append(pool, o.Name+"Response")
			for _, sel := range o.Sel {
				if sel.Kind == "field" && sel.Type != nil {
					a := sel.Key()
					pool = append(pool, o.Name+strings.ToUpper(a[:1])+a[1:]+sel.Type.Base())
				}
			}
		}
		pool = append(pool, "Shared", "Shared")
		gen.AdversarialNames = pool
		gen.Decorate(r, s, d, 0.3, 0.03)
		gen.AdversarialNames = nil
		// `bind:` to a Go type that cannot hold the field's JSON is the user's error, not a
		// property of the generated code: drop those options here (the safe decoration binds
		// compatible types)
		var strip func(sels []*gen.Sel)
		strip = func(sels []*gen.Sel) {
			for _, x := range sels {
				var kept []string
				for _, c := range x.Comment {
					if !strings.Contains(c, "bind:") {
						kept = append(kept, c)
					}
				}
				x.Comment = kept
				strip(x.Sub)
			}
		}
		for _, o := range d.Ops {
			strip(o.Sel)
		}
		for _, f := range d.Frags {
			strip(f.Sel)
		}
		cfg = gen.RandomCfg(r, s)
	} else {
		gen.DecorateSafe(r, s, d, []float64{0, 0.2, 0.3}[id%3])
		cfg = gen.RandomCfgSafe(r, s)
	}
	if id%3 == 2 {
		// all variables on one source line, input-object typed ones first (a per-line or
		// per-position slip in how the preceding comment is attached shows only then); with
		// use_struct_references the input-object variable gets options of its own
		for _, o := range d.Ops {
			if len(o.Vars) > 1 {
				for _, v := range o.Vars {
					if t := s.Get(v.Type.Base()); t != nil && t.Kind == "INPUT" {
						cfg.StructReferences = true
					}
				}
			}
			o.VarsOneLine = true
			sort.SliceStable(o.Vars, func(i, j int) bool {
				ti, tj := s.Get(o.Vars[i].Type.Base()), s.Get(o.Vars[j].Type.Base())
				return ti != nil && ti.Kind == "INPUT" && (tj == nil || tj.Kind != "INPUT")
			})
		}
	}
	defs := d.Defs()
	if id%4 == 1 {
		defs = append(defs, gen.CaseFoldDefs(r, s)...)
	}
	if sfx != nil {
		defs = append(defs, sfx)
	}
	if hzScalarOp != nil {
		defs = append(defs, hzScalarOp)
		cfg.Bindings[hzScalar] = "example.com/m.M5"
		if cfg.Marshalers == nil {
			cfg.Marshalers = map[string][2]string{}
		}
		if variant == 0 {
			cfg.Marshalers[hzScalar] = [2]string{"example.com/m.Marshal5", ""} // input-only scalar
		} else {
			cfg.Marshalers[hzScalar] = [2]string{"", "example.com/m.Unmarshal5"}
		}
	}
	if variant == 5 {
		defs = append(defs, gen.TwoSpreadsOp(r, s, "X")...)
	}
	if variant == 2 {
		defs = append(defs, gen.AliasTwinDefs(r, s, "Y")...)
	}
	if variant == 3 && id%2 == 1 {
		if tw := gen.NestedTwinOp(r, s, "TwinType"); tw != nil {
			defs = append(defs, tw)
		}
	}
	if variant == 3 && id%2 == 0 {
		if tw := gen.InlineTwinOp(r, s, "TwinIface"); tw != nil {
			defs = append(defs, tw)
		}
	}
	if id%6 == 2 {
		// an input-object variable and scalar variables on one line, under use_struct_references
		if iv := gen.InputThenScalarsOp(s, "IV"); iv != nil {
			defs = append(defs, iv)
			cfg.StructReferences = true
		}
	}
	if id%12 == 8 {
		if of := gen.OpFlattenAbstractPlainOp(s, "OF"); of != nil {
			defs = append(defs, of)
		}
	}
	if id%6 == 4 {
		// an explicit `omitempty: false` against the default of use_struct_references
		if oe := gen.OmitemptyFalseOp(s, "OE"); oe != nil {
			defs = append(defs, oe)
			cfg.StructReferences = true
		}
	}
	if id%12 == 5 {
		// one typename for two different abstract types (after a legitimate reuse): must be rejected
		if tt := gen.TripleTypenameAbstractOp(s, "T3"); tt != nil {
			defs = []*gen.Def{tt}
		}
	}
	if id%12 == 11 {
		// a program that must be REJECTED (flatten next to an explicit __typename): alone, so
		// that a generator that accepts it is judged on it
		if fd := gen.FlattenTypenameDefs(s, "FT", id%24 == 11); fd != nil {
			defs = fd
		}
	}
	cfg.ClientGetter = ""
	if getter && id%2 == 0 {
		cfg.ClientGetter = "example.com/cg.GetClient"
		if cfg.ContextType == "-" {
			cfg.ClientGetter = "example.com/cg.GetClientNoCtx"
		}
		var kept []*gen.Def
		for _, df := range defs {
			if df.Kind != "subscription" {
				kept = append(kept, df)
			}
		}
		defs = kept
	}
	if cfg.Optional == "generic" {
		cfg.Optional = "pointer"
	}
	cfg.Export = true
	return &conv.Case{ID: fmt.Sprintf("r%d", id), Schema: s, SchemaFiles: map[string]string{"schema.graphql": s.SDL()}, Defs: defs,
		Layout: gen.SingleFile(len(defs)), Cfg: cfg}
}

// NewBatch generates, filters and compiles.  notes receives drop statistics.
func NewBatch(cases []*conv.Case, dist func(string)) (*Batch, error) {
	mod, err := conv.NewModule()
	if err != nil {
		return nil, err
	}
	b := &Batch{Mod: mod}
	wd, _ := os.Getwd()
	_ = os.Chdir(mod.Root)
	defer os.Chdir(wd)
	for i, c := range cases {
		o := conv.Observe(mod.Dir(i), c)
		dist("generate:" + o.Class)
		if o.Class != "ok" {
			os.RemoveAll(mod.Dir(i))
			continue
		}
		// keep only the generated file in the package directory
		exportJSON := o.JSON
		os.RemoveAll(mod.Dir(i))
		_ = os.MkdirAll(mod.Dir(i), 0o755)
		_ = os.WriteFile(filepath.Join(mod.Dir(i), "generated.go"), o.GoBytes, 0o644)
		ex, err := export.Project(c.SchemaFiles, c.Sources())
		if err != nil || len(ex.Errs) > 0 {
			os.RemoveAll(mod.Dir(i))
			continue
		}
		p := &Prog{Idx: i, Name: fmt.Sprintf("p%d", i), Case: c, Em: o.Em, Ex: ex, Go: o.GoBytes, Query: map[string]string{}}
		var exd struct {
			Operations []struct {
				OperationName string `json:"operationName"`
				Query         string `json:"query"`
			} `json:"operations"`
		}
		_ = json.Unmarshal(exportJSON, &exd)
		for _, e := range exd.Operations {
			p.Query[e.OperationName] = e.Query
		}
		b.Progs = append(b.Progs, p)
	}
	// first build: drop packages that do not compile (C01's subject)
	// (the go command does not always report every failing package in one run: repeat until clean)
	for round := 0; round < 8; round++ {
		outs, err := mod.Build()
		if err != nil {
			mod.Close()
			return nil, err
		}
		if len(outs) == 0 {
			break
		}
		var kept []*Prog
		for _, p := range b.Progs {
			if _, bad := outs[p.Idx]; bad {
				dist("dropped:does-not-compile")
				os.RemoveAll(mod.Dir(p.Idx))
				continue
			}
			kept = append(kept, p)
		}
		b.Progs = kept
	}
	// drivers
	w := func(rel, content string) {
		full := filepath.Join(mod.Root, rel)
		_ = os.MkdirAll(filepath.Dir(full), 0o755)
		_ = os.WriteFile(full, []byte(content), 0o644)
	}
	w("rt/rt.go", rtPkgSrc)
	var imports strings.Builder
	for _, p := range b.Progs {
		decl := map[string]*obs.ODecl{}
		for _, d := range p.Em.Decls {
			decl[d.Name] = d
		}
		var sb strings.Builder
		sb.WriteString("package gen\n\nimport \"example.com/rt\"\n\nfunc init() {\n\trt.Register(\"" + p.Name + "\", map[string]rt.Op{\n")
		var names []string
		for n := range p.Em.Response {
			names = append(names, n)
		}
		sort.Strings(names)
		for _, n := range names {
			rtp := p.Em.Response[n]
			if d := decl[rtp]; d == nil || d.Kind != "struct" {
				continue
			}
			fn := n
			for _, op := range p.Ex.Doc.Operations {
				if op.Name == n && op.Operation == "subscription" {
					fn = "nil"
				}
			}
			fmt.Fprintf(&sb, "\t\t%q: {New: func() interface{} { return new(%s) }, Fn: %s},\n", n, rtp, fn)
		}
		sb.WriteString("\t})\n\trt.Enums[\"" + p.Name + "\"] = map[string][]string{\n")
		for _, d := range p.Em.Decls {
			if d.Kind == "enum" {
				var vs []string
				for _, v := range d.Values {
					vs = append(vs, fmt.Sprintf("%q", v[1]))
				}
				fmt.Fprintf(&sb, "\t\t%q: {%s},\n", d.Name, strings.Join(vs, ", "))
			}
		}
		sb.WriteString("\t}\n}\n")
		w(fmt.Sprintf("gen/%s/zz_driver.go", p.Name), sb.String())
		fmt.Fprintf(&imports, "\t_ \"example.com/gen/%s\"\n", p.Name)
	}
	w("cmd/runner/main.go", fmt.Sprintf(runnerSrc, imports.String()))
	b.runner = filepath.Join(mod.Root, "runner.bin")
	cmd := exec.Command("go", "build", "-o", b.runner, "./cmd/runner")
	cmd.Dir = mod.Root
	cmd.Env = append(os.Environ(), "GOFLAGS=-mod=mod", "GOPROXY=off", "GOSUMDB=off", "GOTOOLCHAIN=local")
	if out, err := cmd.CombinedOutput(); err != nil {
		mod.Close()
		return nil, fmt.Errorf("building the runner: %v\n%s", err, out)
	}
	return b, nil
}

func (b *Batch) Close() { b.Mod.Close() }

type Task struct {
	ID   string          `json:"id"`
	Prog string          `json:"prog"`
	Op   string          `json:"op"`
	Kind string          `json:"kind"`
	JSON json.RawMessage `json:"json,omitempty"`
	Seed int64           `json:"seed,omitempty"`
	Fail string          `json:"fail,omitempty"`
}

type Result struct {
	ID        string          `json:"id"`
	Err       string          `json:"err"`
	Panic     string          `json:"panic"`
	Timeout   bool            `json:"timeout"`
	Dump      interface{}     `json:"dump"`
	Dump2     interface{}     `json:"dump2"`
	Remarshal string          `json:"remarshal"`
	ReErr     string          `json:"reerr"`
	RoundTrip bool            `json:"roundtrip"`
	Round2Err string          `json:"round2err"`
	UCD       map[string]int  `json:"ucd"`
	UCM       map[string]int  `json:"ucm"`
	Calls     int             `json:"calls"`
	OpName    string          `json:"opname"`
	Query     string          `json:"query"`
	Variables json.RawMessage `json:"variables"`
	Args      []interface{}   `json:"args"`
	RetNil    bool            `json:"retnil"`
	RetErr    string          `json:"reterr"`
	RetSame   bool            `json:"retsame"`
	HasGetter bool            `json:"hasgetter"`
	VarErr    string          `json:"varerr"`
	InputType string          `json:"inputtype"`
}

// Run executes the tasks in the runner process (restarting it if it dies: a crash of the
// process is itself an observation).
func (b *Batch) Run(tasks []*Task) (map[string]*Result, error) {
	out := map[string]*Result{}
	pending := tasks
	for len(pending) > 0 {
		var in bytes.Buffer
		for _, t := range pending {
			data, _ := json.Marshal(t)
			in.Write(data)
			in.WriteByte('\n')
		}
		cmd := exec.Command(b.runner)
		cmd.Stdin = &in
		var stdout, stderr bytes.Buffer
		cmd.Stdout = &stdout
		cmd.Stderr = &stderr
		runErr := cmd.Run()
		sc := bufio.NewScanner(&stdout)
		sc.Buffer(make([]byte, 1<<20), 1<<26)
		n := 0
		for sc.Scan() {
			var r Result
			if err := json.Unmarshal(sc.Bytes(), &r); err == nil {
				out[r.ID] = &r
				n++
			}
		}
		if runErr == nil {
			break
		}
		// the process died at task n (e.g. stack overflow, which recover cannot catch)
		if n >= len(pending) {
			break
		}
		msg := stderr.String()
		if len(msg) > 400 {
			msg = msg[:400]
		}
		out[pending[n].ID] = &Result{ID: pending[n].ID, Panic: "runner process died: " + msg}
		pending = pending[n+1:]
	}
	return out, nil
}
