package rt

import (
	"encoding/json"
	"fmt"
	"os"
	"reflect"
	"sort"
	"strings"
	"unicode"

	"github.com/vektah/gqlparser/v2/ast"
	"github.com/vektah/gqlparser/v2/validator"

	"verifharness/core"
	"verifharness/obs"
	"verifharness/props/conv"
)

// ---- C04: each helper call sends one request whose variables are valid and faithful ----

type callJudge struct {
	p       *Prog
	schema  *ast.Schema
	fails   []jfail
	precond bool           // the argument values are valid values (no nil at a non-null position)
	scalars map[string]int // custom scalar -> number of non-nil values passed
}

func (j *callJudge) failf(class, format string, a ...interface{}) {
	if len(j.fails) < 6 {
		j.fails = append(j.fails, jfail{class, fmt.Sprintf(format, a...)})
	}
}

func upperFirst(s string) string {
	s = strings.TrimLeft(s, "_")
	if s == "" {
		return s
	}
	r := []rune(s)
	r[0] = unicode.ToUpper(r[0])
	return string(r)
}

func emptyDump(d interface{}) bool {
	switch dk(d) {
	case "nil", "nilslice", "nilmap":
		return true
	case "slice":
		return len(d.(dmap)["v"].([]interface{})) == 0
	case "val":
		switch x := d.(dmap)["v"].(type) {
		case string:
			return x == ""
		case float64:
			return x == 0
		case bool:
			return !x
		case map[string]interface{}:
			return len(x) == 0
		case nil:
			return true
		}
	}
	return false
}

var absent = &struct{}{}

// expect: the JSON the documentation promises for a Go argument value of GraphQL type t.
func (j *callJudge) expect(where string, d interface{}, t *ast.Type, depth int, special bool) interface{} {
	if depth > 16 {
		return nil
	}
	switch dk(d) {
	case "nil", "nilslice", "nilmap":
		if t.NonNull {
			j.precond = false
		}
		if special && dk(d) == "nilslice" {
			return nilSpecialSlice{nullable: !t.NonNull}
		}
		return nil
	case "ptr":
		return j.expect(where, d.(dmap)["v"], t, depth+1, special)
	case "slice":
		out := []interface{}{}
		et := t
		if t.Elem != nil {
			et = t.Elem
		}
		for i, e := range d.(dmap)["v"].([]interface{}) {
			out = append(out, j.expect(fmt.Sprintf("%s[%d]", where, i), e, et, depth+1, special))
		}
		return out
	case "struct":
		def := j.schema.Types[t.Name()]
		st := d.(dmap)
		out := map[string]interface{}{}
		if def == nil || def.Kind != ast.InputObject {
			j.failf("C04/struct-for-non-input-type", "%s: a Go struct is passed for GraphQL type %s", where, t.Name())
			return out
		}
		byName, byTag := map[string]dmap{}, map[string]dmap{}
		for _, f := range st["f"].([]interface{}) {
			fm := f.(dmap)
			byName[fm["n"].(string)] = fm
			tag := strings.Split(fm["tag"].(string), ",")[0]
			if tag == "-" {
				tag = j.p.Em.Premarshal[st["t"].(string)][fm["n"].(string)]
			}
			byTag[tag] = fm
		}
		for _, f := range def.Fields {
			fm, ok := byName[upperFirst(f.Name)]
			if !ok {
				fm, ok = byTag[f.Name] // renamed through `for: ..., alias:`
			}
			if !ok {
				j.failf("C04/input-field-without-go-field", "%s: input field %s.%s has no field in Go struct %v", where, def.Name, f.Name, st["t"])
				continue
			}
			tagParts := strings.Split(fm["tag"].(string), ",")
			special := tagParts[0] == "-"
			marked := len(tagParts) > 1 && tagParts[1] == "omitempty"
			v := j.expect(where+"."+f.Name, fm["v"], f.Type, depth+1, special)
			switch {
			case special:
				// handled by the generated MarshalJSON: omitempty is read from the premarshal
				// struct (not visible by reflection); the documented exception applies
				if emptyDump(fm["v"]) {
					out[f.Name] = maybeAbsent{v}
				} else {
					out[f.Name] = v
				}
			case marked && emptyDump(fm["v"]):
				if f.Type.NonNull && f.DefaultValue == nil {
					j.precond = false // omitting a required field: the caller's empty value is not a valid one
				}
			default:
				out[f.Name] = v
			}
		}
		return out
	case "val":
		v := d.(dmap)["v"]
		def := j.schema.Types[t.Name()]
		if def != nil && def.Kind == ast.Scalar && !def.BuiltIn {
			j.scalars[def.Name]++
		}
		if def != nil && def.Kind == ast.Enum {
			s, _ := v.(string)
			ok := false
			for _, ev := range def.EnumValues {
				if ev.Name == s {
					ok = true
				}
			}
			if !ok {
				j.precond = false // "" or another string that is not a value of the enum
			}
		}
		return v
	}
	return nil
}

// maybeAbsent: the key may be present with this value or left out (empty value of a field with
// a custom marshaler, whose omitempty marking is not visible to the oracle).
type maybeAbsent struct{ v interface{} }

// nilSpecialSlice: a nil slice whose elements go through generated marshaling code
type nilSpecialSlice struct{ nullable bool }

func jsonEq(where string, want, got interface{}, diff *[]string) {
	if len(*diff) > 3 {
		return
	}
	switch w := want.(type) {
	case nilSpecialSlice:
		if got == nil {
			return
		}
		if g, ok := got.([]interface{}); ok && len(g) == 0 {
			if w.nullable {
				*diff = append(*diff, fmt.Sprintf("%s: a nil slice (unset optional list) of custom-marshaled elements is sent as [] instead of null", where))
			}
			return
		}
		*diff = append(*diff, fmt.Sprintf("%s: want null, got %v", where, got))
	case map[string]interface{}:
		g, ok := got.(map[string]interface{})
		if !ok {
			*diff = append(*diff, fmt.Sprintf("%s: want an object, got %v", where, got))
			return
		}
		for k, wv := range w {
			gv, present := g[k]
			if ma, ok := wv.(maybeAbsent); ok {
				if present {
					jsonEq(where+"."+k, ma.v, gv, diff)
				}
				continue
			}
			if !present {
				*diff = append(*diff, fmt.Sprintf("%s: key %q is missing (want %v)", where, k, wv))
				continue
			}
			jsonEq(where+"."+k, wv, gv, diff)
		}
		for k, gv := range g {
			if _, ok := w[k]; !ok {
				*diff = append(*diff, fmt.Sprintf("%s: unexpected key %q = %v", where, k, gv))
			}
		}
	case []interface{}:
		g, ok := got.([]interface{})
		if !ok || len(g) != len(w) {
			*diff = append(*diff, fmt.Sprintf("%s: want a list of %d, got %v", where, len(w), got))
			return
		}
		for i := range w {
			jsonEq(fmt.Sprintf("%s[%d]", where, i), w[i], g[i], diff)
		}
	case nil:
		if got != nil {
			*diff = append(*diff, fmt.Sprintf("%s: want null, got %v", where, got))
		}
	default:
		if fw, ok := toF(want); ok {
			if fg, ok2 := toF(got); !ok2 || fw != fg {
				*diff = append(*diff, fmt.Sprintf("%s: want %v, got %v", where, want, got))
			}
			return
		}
		if !reflect.DeepEqual(want, got) {
			*diff = append(*diff, fmt.Sprintf("%s: want %v, got %v", where, want, got))
		}
	}
}

func coerce(schema *ast.Schema, op *ast.OperationDefinition, vars map[string]interface{}) (err error, panicked bool) {
	defer func() {
		if v := recover(); v != nil {
			panicked = true
		}
	}()
	_, gerr := validator.VariableValues(schema, op, vars)
	if gerr != nil {
		return gerr, false
	}
	return nil, false
}

func inputDecl(em *obs.Emitted, op string) *obs.ODecl {
	for _, d := range em.Decls {
		if d.Kind == "struct" && d.Name == "__"+op+"Input" {
			return d
		}
	}
	return nil
}

func RunC04(tier string, seed int64, outDir string, replay string) (*core.Result, error) {
	res := core.NewResult("C04", tier, seed)
	res.Rule = "random programs of the supported fragment (plus hazard families) are generated and compiled with a driver; every query/mutation helper is called by reflection with random argument values of its parameter types (nil and non-nil pointers, nil / empty / non-empty slices at every depth, every enum constant, input objects to depth 5) against a recording client; the recorded request is judged: exactly one request, operation name and document, variables = the JSON the documentation promises for the arguments (keys, GraphQL names, null for nil, omitempty exactly when empty), validator.VariableValues coerces them when the arguments are valid values, user marshalers called once per non-nil value; non-trivial = every call of an operation with variables; distinct by (program, operation, arguments)"
	nProg, nCalls := 36, 8
	if tier == "thorough" {
		nProg, nCalls = 500, 24
	}
	rng := core.NewRng(seed)
	var cases []*conv.Case
	var replayCase *rtCase
	if replay != "" {
		data, err := os.ReadFile(replay)
		if err != nil {
			return nil, err
		}
		var wrap struct {
			Replay rtCase `json:"replay"`
		}
		if err := json.Unmarshal(data, &wrap); err != nil {
			return nil, err
		}
		replayCase = &wrap.Replay
		cases = []*conv.Case{replayCase.Case}
	} else {
		for i := 0; i < nProg; i++ {
			cases = append(cases, GenCase(rng, i))
		}
	}
	b, err := NewBatch(cases, res.Dist)
	if err != nil {
		return nil, err
	}
	defer b.Close()
	type meta struct {
		p  *Prog
		op *ast.OperationDefinition
	}
	metas := map[string]*meta{}
	var tasks []*Task
	for _, p := range b.Progs {
		for _, op := range p.Ex.Doc.Operations {
			if op.Operation == ast.Subscription {
				continue
			}
			if _, ok := p.Em.Response[op.Name]; !ok {
				continue
			}
			n := nCalls
			if len(op.VariableDefinitions) == 0 {
				n = 1
			}
			for k := 0; k < n; k++ {
				id := fmt.Sprintf("%s/%s/call%d", p.Name, op.Name, k)
				sd := rng.Int63()
				if replayCase != nil && replayCase.Seed != 0 {
					if replayCase.Op != op.Name {
						continue
					}
					sd = replayCase.Seed
				}
				metas[id] = &meta{p: p, op: op}
				tasks = append(tasks, &Task{ID: id, Prog: p.Name, Op: op.Name, Kind: "call", Seed: sd})
				if replayCase != nil && replayCase.Seed != 0 {
					break
				}
			}
		}
	}
	results, err := b.Run(tasks)
	if err != nil {
		return nil, err
	}
	res.Extra["programs_compiled"] = len(b.Progs)
	nt := newNumTable()
	obsTerms := map[string][]string{}
	for _, t := range tasks {
		m := metas[t.ID]
		r := results[t.ID]
		if r == nil {
			continue
		}
		argsKey, _ := json.Marshal(r.Args)
		res.Count(m.p.Name+m.op.Name+string(argsKey), len(m.op.VariableDefinitions) > 0)
		rp := &rtCase{Case: m.p.Case, Op: m.op.Name, Seed: t.Seed}
		fail := func(class, what string) {
			res.Fail(core.Failure{Case: t.ID, Class: class, What: what, Replay: rp})
		}
		if replay != "" {
			out, _ := json.MarshalIndent(r, "", " ")
			fmt.Printf("result: %s\n", out)
		}
		if r.Panic != "" || r.Timeout {
			fail("C04/panic-or-hang", "calling the helper panicked or hung: "+r.Panic)
			continue
		}
		if r.Calls != 1 {
			fail("C04/request-count", fmt.Sprintf("the helper made %d requests through the client (error: %q)", r.Calls, r.RetErr))
			continue
		}
		if r.OpName != m.op.Name {
			fail("C04/operation-name", fmt.Sprintf("request carries operation name %q, want %q", r.OpName, m.op.Name))
		}
		if r.Query != m.p.Query[m.op.Name] {
			fail("C04/document", "the request's query is not the document emitted for the operation")
		}
		if doc, err := ParseEmitted(m.p.Ex.Schema, r.Query); err != nil || len(doc.Operations) != 1 || doc.Operations[0].Name != m.op.Name {
			fail("C04/document", fmt.Sprintf("the request's query is not a valid document with exactly the operation %s: %v", m.op.Name, err))
		}
		if r.VarErr != "" {
			fail("C04/variables-marshal-error", "marshaling the variables failed: "+r.VarErr)
			continue
		}
		var vars interface{}
		if len(r.Variables) > 0 {
			if err := json.Unmarshal(r.Variables, &vars); err != nil {
				fail("C04/variables-not-json", err.Error())
				continue
			}
		}
		if len(m.op.VariableDefinitions) == 0 {
			if vars != nil {
				fail("C04/unexpected-variables", fmt.Sprintf("an operation without variables sent %s", r.Variables))
			}
			continue
		}
		if k := dupKeys(r.Variables); k != "" {
			fail("C04/duplicate-key", fmt.Sprintf("the variables JSON has key %q twice in one object: %.300s", k, r.Variables))
		}
		in := inputDecl(m.p.Em, m.op.Name)
		if in == nil || len(in.Fields) != len(r.Args) || len(r.Args) != len(m.op.VariableDefinitions) {
			fail("C04/parameters", fmt.Sprintf("the helper has %d value parameters for %d declared variables", len(r.Args), len(m.op.VariableDefinitions)))
			continue
		}
		j := &callJudge{p: m.p, schema: m.p.Ex.Schema, precond: true, scalars: map[string]int{}}
		want := map[string]interface{}{}
		var argItems []string
		for i, vd := range m.op.VariableDefinitions {
			tagParts := strings.Split(in.Fields[i][2], ",")
			special := tagParts[0] == "-"
			marked := len(tagParts) > 1 && tagParts[1] == "omitempty"
			v := j.expect("$"+vd.Variable, r.Args[i], vd.Type, 0, special)
			switch {
			case special && emptyDump(r.Args[i]):
				want[vd.Variable] = maybeAbsent{v}
			case !special && marked && emptyDump(r.Args[i]):
				if vd.Type.NonNull && vd.DefaultValue == nil {
					j.precond = false
				}
			default:
				want[vd.Variable] = v
			}
			argItems = append(argItems, fmt.Sprintf("(%s, %s)", coqStr(in.Fields[i][0]), dumpTerm(r.Args[i], nt)))
		}
		var diff []string
		jsonEq("variables", want, vars, &diff)
		for _, d := range diff {
			class := "C04/variables-not-faithful"
			if strings.Contains(d, "custom-marshaled elements is sent as []") {
				class = "C04/nil-slice-of-custom-marshaled-sent-as-empty-list"
			} else if strings.Contains(d, "unexpected key") {
				class = "C04/undeclared-key"
			} else if strings.Contains(d, "is missing") {
				class = "C04/key-omitted"
			}
			fail(class, d)
		}
		for _, f := range j.fails {
			fail(f.Class, f.What)
		}
		res.Dist(fmt.Sprintf("valid-arguments:%v", j.precond))
		if j.precond {
			vm, _ := vars.(map[string]interface{})
			// (gqlparser v2.5.19 itself panics on a null inside a nested list: that is the oracle's
			// defect, counted and skipped)
			err, oraclePanic := coerce(m.p.Ex.Schema, m.op, vm)
			if oraclePanic {
				res.Dist("oracle:VariableValues-panicked")
			} else if err != nil {
				fail("C04/variables-do-not-coerce", fmt.Sprintf("validator.VariableValues rejects %.300s: %v", r.Variables, err))
			}
		}
		// user marshalers: once per non-nil value
		usesBind := false
		for _, d := range m.p.Case.Defs {
			if strings.Contains(d.Text, "bind:") {
				usesBind = true
			}
		}
		if !usesBind {
			var scs []string
			for sc := range m.p.Case.Cfg.Marshalers {
				scs = append(scs, sc)
			}
			sort.Strings(scs)
			for _, sc := range scs {
				mu := m.p.Case.Cfg.Marshalers[sc]
				if mu[0] == "" {
					continue
				}
				key := mu[0][strings.LastIndex(mu[0], ".")+1:]
				if n := j.scalars[sc]; r.UCM[key] != n {
					fail("C04/custom-marshaler-calls", fmt.Sprintf("the arguments hold %d non-nil value(s) of scalar %s (marshaler %s), but it was called %d time(s)", n, sc, mu[0], r.UCM[key]))
				}
			}
		}
		if jt, err := jsonTerm(r.Variables, nt); err == nil {
			obsTerms[m.p.Name] = append(obsTerms[m.p.Name], fmt.Sprintf("{| co_input := %s; co_args := [%s]; co_vars := %s |}", coqStr(in.Name), strings.Join(argItems, "; "), jt))
		}
	}
	var terms []string
	caseIndex := map[string]interface{}{}
	res.Extra["case_index"] = caseIndex
	nObs := 0
	for _, p := range b.Progs {
		if len(obsTerms[p.Name]) == 0 {
			continue
		}
		ct, ok := conv.CaseTerm(p.Idx, p.Case, &conv.Observed{Class: "ok", Em: p.Em})
		if !ok {
			continue
		}
		nObs += len(obsTerms[p.Name])
		terms = append(terms, fmt.Sprintf("{| c_id := %d; c_prog := %s; c_obs := [%s] |}", p.Idx, ct, strings.Join(obsTerms[p.Name], ";\n  ")))
		caseIndex[fmt.Sprint(p.Idx)] = &rtCase{Case: p.Case}
	}
	shard := 4
	for k := 0; k*shard < len(terms); k++ {
		end := (k + 1) * shard
		if end > len(terms) {
			end = len(terms)
		}
		var sb strings.Builder
		sb.WriteString("From Coq Require Import ZArith.\nFrom Verif Require Import Base.Str Gen.Casing Gen.Gql Gen.Directive Gen.Convert Rt.JsonDecode Rt.JsonEncode Corr.Convcorr Corr.Rtcorr.\n")
		sb.WriteString("Definition cases : list call_case := [\n" + strings.Join(terms[k*shard:end], ";\n") + "\n].\n")
		sb.WriteString("Definition MISMATCH := Eval vm_compute in call_mismatches cases.\nPrint MISMATCH.\n")
		fn := fmt.Sprintf("%s/cases_call_%d.v", outDir, k)
		if err := os.WriteFile(fn, []byte(sb.String()), 0o644); err != nil {
			return nil, err
		}
		res.CasesV = append(res.CasesV, fn)
	}
	res.ModelCases = nObs
	return res, nil
}
