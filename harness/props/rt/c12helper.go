package rt

import (
	"encoding/json"
	"fmt"
	"os"
	"strings"

	"github.com/vektah/gqlparser/v2/ast"

	"verifharness/core"
	"verifharness/props/conv"
)

// HelperLegC12 adds the generated helper's part of C12 to a result: the helper returns the
// client's error unchanged together with a non-nil response struct, also when it fails before
// sending (no client obtainable from the client_getter).
func HelperLegC12(res *core.Result, tier string, seed int64, outDir string, replay string) error {
	nProg := 16
	if tier == "thorough" {
		nProg = 200
	}
	rng := core.NewRng(seed + 7)
	var cases []*conv.Case
	var replayCase *rtCase
	if replay != "" {
		data, err := os.ReadFile(replay)
		if err != nil {
			return err
		}
		var wrap struct {
			Replay rtCase `json:"replay"`
		}
		if err := json.Unmarshal(data, &wrap); err != nil {
			return err
		}
		replayCase = &wrap.Replay
		cases = []*conv.Case{replayCase.Case}
	} else {
		for i := 0; i < nProg; i++ {
			cases = append(cases, GenCaseOpt(rng, i, true))
		}
	}
	b, err := NewBatch(cases, func(k string) { res.Dist("helper:" + k) })
	if err != nil {
		return err
	}
	defer b.Close()
	type meta struct {
		p    *Prog
		op   string
		fail string
	}
	metas := map[string]*meta{}
	var tasks []*Task
	for _, p := range b.Progs {
		for _, op := range p.Ex.Doc.Operations {
			if op.Operation == ast.Subscription {
				continue
			}
			if _, ok := p.Em.Response[op.Name]; !ok {
				continue
			}
			fails := []string{"", "client boom"}
			if p.Case.Cfg.ClientGetter != "" {
				fails = append(fails, "getter")
			}
			for _, f := range fails {
				if replayCase != nil && (replayCase.Op != op.Name || replayCase.Mutation != f) {
					continue
				}
				id := fmt.Sprintf("helper/%s/%s/%s", p.Name, op.Name, strings.ReplaceAll(f, " ", "-"))
				metas[id] = &meta{p, op.Name, f}
				tasks = append(tasks, &Task{ID: id, Prog: p.Name, Op: op.Name, Kind: "call", Seed: rng.Int63(), Fail: f})
			}
		}
	}
	results, err := b.Run(tasks)
	if err != nil {
		return err
	}
	var terms []string
	for _, t := range tasks {
		m := metas[t.ID]
		r := results[t.ID]
		if r == nil {
			continue
		}
		res.Count(t.ID+fmt.Sprint(t.Seed), true)
		res.Dist("helper-call:" + map[string]string{"": "ok", "client boom": "client-fails", "getter": "getter-fails"}[m.fail])
		rp := &rtCase{Case: m.p.Case, Op: m.op, Mutation: m.fail, Seed: t.Seed, HelperLeg: true}
		fail := func(class, what string) {
			res.Fail(core.Failure{Case: t.ID, Class: class, What: what, Replay: rp})
		}
		if replay != "" {
			out, _ := json.MarshalIndent(r, "", " ")
			fmt.Printf("result: %s\n", out)
		}
		if r.Panic != "" || r.Timeout {
			fail("C12/helper/panic-or-hang", "the helper panicked or hung: "+r.Panic)
			continue
		}
		switch m.fail {
		case "":
			if r.RetErr != "" {
				fail("C12/helper/error-invented", "the client returned nil but the helper returned "+r.RetErr)
			}
			if r.RetNil {
				fail("C12/helper/nil-data", "the helper returned a nil response struct on success")
			}
		case "getter":
			if !r.RetSame {
				fail("C12/helper/error-changed", fmt.Sprintf("the client getter's error was not returned unchanged (got %q)", r.RetErr))
			}
			if r.Calls != 0 {
				fail("C12/helper/request-without-client", "a request was made although no client was obtainable")
			}
			if r.RetNil {
				fail("C12/helper/nil-data-when-client-getter-fails", "the helper returned a NIL response struct when the client getter failed")
			}
		default:
			if !r.RetSame {
				fail("C12/helper/error-changed", fmt.Sprintf("the client's error was not returned unchanged (got %q)", r.RetErr))
			}
			if r.RetNil {
				fail("C12/helper/nil-data", "the helper returned a nil response struct when the client failed")
			}
		}
		bv := func(x bool) string {
			if x {
				return "true"
			}
			return "false"
		}
		terms = append(terms, fmt.Sprintf("({| h_getter := %s; h_getter_fails := %s; h_client_fails := %s |}, {| ho_requests := %d; ho_err_is_injected := %s; ho_err_nil := %s; ho_data_nonnil := %s |})",
			bv(r.HasGetter), bv(m.fail == "getter"), bv(m.fail == "client boom"), r.Calls, bv(r.RetSame), bv(r.RetErr == ""), bv(!r.RetNil)))
	}
	if len(terms) > 0 {
		var sb strings.Builder
		sb.WriteString("From Verif Require Import Base.Str Rt.Helper.\n")
		sb.WriteString("Definition cases : list (helper_case * helper_out) := [\n" + strings.Join(terms, ";\n") + "\n].\n")
		sb.WriteString("Definition MISMATCH := Eval vm_compute in helper_mismatches cases.\nPrint MISMATCH.\n")
		fn := outDir + "/cases_helper.v"
		if err := os.WriteFile(fn, []byte(sb.String()), 0o644); err != nil {
			return err
		}
		res.CasesV = append(res.CasesV, fn)
		res.ModelCases += len(terms)
	}
	res.Rule += "; helper leg: every query/mutation helper of random compiled programs (half of them with a client_getter) is called with a client that succeeds, a client that fails, and a getter that fails; the returned error must BE the injected one and the response struct non-nil"
	return nil
}
