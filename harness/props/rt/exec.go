package rt

import (
	"bytes"
	"encoding/json"
	"fmt"
	"sort"
	"strings"

	"github.com/vektah/gqlparser/v2/ast"

	"verifharness/core"
	"verifharness/export"
)

// OObj is a JSON object with its keys in order.
type OObj struct {
	Keys     []string
	Vals     map[string]interface{}
	Abstract bool // the value sits at an interface/union-typed position
	// Outsiders: concrete object types of the schema that are NOT possible at this position
	Outsiders []string
}

func (o *OObj) Set(k string, v interface{}) {
	if _, ok := o.Vals[k]; !ok {
		o.Keys = append(o.Keys, k)
	}
	o.Vals[k] = v
}

func (o *OObj) MarshalJSON() ([]byte, error) {
	var b bytes.Buffer
	b.WriteByte('{')
	for i, k := range o.Keys {
		if i > 0 {
			b.WriteByte(',')
		}
		kb, _ := json.Marshal(k)
		b.Write(kb)
		b.WriteByte(':')
		vb, err := json.Marshal(o.Vals[k])
		if err != nil {
			return nil, err
		}
		b.Write(vb)
	}
	b.WriteByte('}')
	return b.Bytes(), nil
}

// respGen is a reference executor: it produces responses a spec-conformant server could return
// for a (validated) document: any concrete type at abstract positions, null at nullable
// positions, lists of length 0..3 at any nesting, fields absent through @skip/@include.
type respGen struct {
	r       *core.Rng
	schema  *ast.Schema
	doc     *ast.QueryDocument
	binding func(scalar string) string // Go type bound to a custom scalar
	pNull   float64
	nodes   int // values produced so far: large responses are thinned out (lists of <= 1)
}

func (g *respGen) skipped(ds ast.DirectiveList) bool {
	for _, d := range ds {
		if a := d.Arguments.ForName("if"); a != nil && a.Value != nil && a.Value.Kind == ast.BooleanValue {
			if d.Name == "skip" && a.Value.Raw == "true" {
				return true
			}
			if d.Name == "include" && a.Value.Raw == "false" {
				return true
			}
		}
	}
	return false
}

func (g *respGen) possible(name string) []string {
	def := g.schema.Types[name]
	if def == nil {
		return nil
	}
	if def.Kind == ast.Object {
		return []string{name}
	}
	var out []string
	for _, t := range g.schema.GetPossibleTypes(def) {
		out = append(out, t.Name)
	}
	return out
}

func (g *respGen) applies(cond, concrete string) bool {
	if cond == "" || cond == concrete {
		return true
	}
	for _, p := range g.possible(cond) {
		if p == concrete {
			return true
		}
	}
	return false
}

func (g *respGen) collect(sels ast.SelectionSet, concrete string, order *[]string, into map[string][]*ast.Field, visited map[string]bool) {
	for _, s := range sels {
		switch s := s.(type) {
		case *ast.Field:
			if g.skipped(s.Directives) {
				continue
			}
			if _, ok := into[s.Alias]; !ok {
				*order = append(*order, s.Alias)
			}
			into[s.Alias] = append(into[s.Alias], s)
		case *ast.InlineFragment:
			if !g.skipped(s.Directives) && g.applies(s.TypeCondition, concrete) {
				g.collect(s.SelectionSet, concrete, order, into, visited)
			}
		case *ast.FragmentSpread:
			if g.skipped(s.Directives) || visited[s.Name] {
				continue
			}
			if fr := g.doc.Fragments.ForName(s.Name); fr != nil && g.applies(fr.TypeCondition, concrete) {
				visited[s.Name] = true
				g.collect(fr.SelectionSet, concrete, order, into, visited)
			}
		}
	}
}

func (g *respGen) object(sels ast.SelectionSet, concrete string, depth int) *OObj {
	o := &OObj{Vals: map[string]interface{}{}}
	into := map[string][]*ast.Field{}
	var order []string
	g.collect(sels, concrete, &order, into, map[string]bool{})
	for _, k := range order {
		f := into[k][0]
		if f.Name == "__typename" {
			o.Set(k, concrete)
			continue
		}
		if f.Definition == nil {
			continue
		}
		var sub ast.SelectionSet
		for _, x := range into[k] {
			sub = append(sub, x.SelectionSet...)
		}
		o.Set(k, g.value(f.Definition.Type, sub, depth+1))
	}
	return o
}

func (g *respGen) value(t *ast.Type, sub ast.SelectionSet, depth int) interface{} {
	if !t.NonNull && g.r.Chance(g.pNull) {
		return nil
	}
	g.nodes++
	if t.Elem != nil {
		n := g.r.Intn(4)
		if depth > 5 || g.nodes > 400 {
			n = g.r.Intn(2)
		}
		out := make([]interface{}, 0, n)
		for i := 0; i < n; i++ {
			out = append(out, g.value(t.Elem, sub, depth+1))
		}
		return out
	}
	def := g.schema.Types[t.NamedType]
	switch def.Kind {
	case ast.Scalar:
		switch def.Name {
		case "Int":
			return g.r.Intn(1000) - 500
		case "Float":
			return []interface{}{1.5, 0, -2.25, 1e3}[g.r.Intn(4)]
		case "String":
			return []string{"", "s", "hello world", "unicode é ✓", "with \"quotes\" and \\ backslash", "<html> & more"}[g.r.Intn(6)]
		case "Boolean":
			return g.r.Chance(0.5)
		case "ID":
			return fmt.Sprintf("id%d", g.r.Intn(100))
		}
		if bt := g.binding(def.Name); bt == "map[string]interface{}" {
			m := &OObj{Vals: map[string]interface{}{}}
			if g.r.Chance(0.7) {
				m.Set("k", g.r.Intn(10))
			}
			return m
		}
		return fmt.Sprintf("custom-%d", g.r.Intn(50))
	case ast.Enum:
		return def.EnumValues[g.r.Intn(len(def.EnumValues))].Name
	case ast.Object:
		return g.object(sub, def.Name, depth)
	case ast.Interface, ast.Union:
		ps := g.possible(def.Name)
		if len(ps) == 0 {
			return nil
		}
		o := g.object(sub, ps[g.r.Intn(len(ps))], depth)
		o.Abstract = true
		in := map[string]bool{}
		for _, p := range ps {
			in[p] = true
		}
		var names []string
		for n, d := range g.schema.Types {
			if d.Kind == ast.Object && !in[n] && !strings.HasPrefix(n, "__") && n != "Query" && n != "Mutation" && n != "Subscription" {
				names = append(names, n)
			}
		}
		sort.Strings(names)
		o.Outsiders = names
		return o
	}
	return nil
}

// GenResponse builds a conformant `data` value for one operation of the EMITTED document.
func GenResponse(r *core.Rng, schema *ast.Schema, emitted *ast.QueryDocument, binding func(string) string, pNull float64) *OObj {
	g := &respGen{r: r, schema: schema, doc: emitted, binding: binding, pNull: pNull}
	op := emitted.Operations[0]
	root := "Query"
	switch op.Operation {
	case ast.Mutation:
		root = "Mutation"
	case ast.Subscription:
		root = "Subscription"
	}
	return g.object(op.SelectionSet, root, 0)
}

// ParseEmitted parses and validates the document genqlient emitted for an operation.
func ParseEmitted(schema *ast.Schema, text string) (*ast.QueryDocument, error) {
	doc, errs := export.ParseAndValidate(schema, "emitted", text)
	if len(errs) > 0 {
		return nil, errs
	}
	return doc, nil
}
