package rt

import (
	"github.com/vektah/gqlparser/v2/ast"

	"verifharness/core"
)

// simpleInput: the variable's type reaches only builtin scalars, enums and input objects made
// of such (custom scalars are bound to arbitrary Go types: what JSON they accept is the
// binding's business).
func simpleInput(schema *ast.Schema, t *ast.Type, seen map[string]bool) bool {
	if t.Elem != nil {
		return simpleInput(schema, t.Elem, seen)
	}
	def := schema.Types[t.NamedType]
	if def == nil {
		return false
	}
	switch def.Kind {
	case ast.Scalar:
		switch def.Name {
		case "Int", "Float", "String", "Boolean", "ID":
			return true
		}
		return false
	case ast.Enum:
		return true
	case ast.InputObject:
		if seen[def.Name] {
			return true
		}
		seen[def.Name] = true
		for _, f := range def.Fields {
			if !simpleInput(schema, f.Type, seen) {
				return false
			}
		}
		return true
	}
	return false
}

// randInputValue: a JSON value that coerces to the GraphQL input type t: null at nullable
// positions, lists of length 0-2 (the empty list on purpose), input objects with optional
// fields present, null or absent.
func randInputValue(r *core.Rng, schema *ast.Schema, t *ast.Type, depth int) interface{} {
	if !t.NonNull && (r.Chance(0.2) || depth > 3) {
		return nil
	}
	if t.Elem != nil {
		n := []int{0, 0, 1, 2}[r.Intn(4)]
		if depth > 3 {
			n = 0
		}
		out := []interface{}{}
		for i := 0; i < n; i++ {
			out = append(out, randInputValue(r, schema, t.Elem, depth+1))
		}
		return out
	}
	def := schema.Types[t.NamedType]
	switch def.Kind {
	case ast.Enum:
		return def.EnumValues[r.Intn(len(def.EnumValues))].Name
	case ast.InputObject:
		obj := map[string]interface{}{}
		for _, f := range def.Fields {
			if !f.Type.NonNull && f.DefaultValue == nil && r.Chance(0.35) {
				continue // absent
			}
			if !f.Type.NonNull && depth > 3 {
				continue
			}
			obj[f.Name] = randInputValue(r, schema, f.Type, depth+1)
		}
		return obj
	}
	switch def.Name {
	case "Int":
		return []interface{}{0, 1, -7}[r.Intn(3)]
	case "Float":
		return []interface{}{0.0, 1.5}[r.Intn(2)]
	case "Boolean":
		return r.Chance(0.5)
	}
	return []interface{}{"", "s", "ID-1"}[r.Intn(3)]
}

// randVariables: a variables object for the operation, or nil when a variable's type is not simple.
func randVariables(r *core.Rng, schema *ast.Schema, op *ast.OperationDefinition) map[string]interface{} {
	if len(op.VariableDefinitions) == 0 {
		return nil
	}
	vars := map[string]interface{}{}
	for _, v := range op.VariableDefinitions {
		if !simpleInput(schema, v.Type, map[string]bool{}) {
			return nil
		}
		if !v.Type.NonNull && v.DefaultValue == nil && r.Chance(0.25) {
			continue
		}
		vars[v.Variable] = randInputValue(r, schema, v.Type, 0)
	}
	return vars
}
