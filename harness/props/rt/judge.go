package rt

import (
	"bytes"
	"encoding/json"
	"fmt"
	"reflect"
	"strings"

	"github.com/vektah/gqlparser/v2/ast"
)

// ---- helpers over the reflection dump ----
type dmap = map[string]interface{}

func dk(d interface{}) string {
	if m, ok := d.(dmap); ok {
		if s, ok := m["k"].(string); ok {
			return s
		}
	}
	return ""
}

func deref(d interface{}) interface{} {
	for dk(d) == "ptr" {
		d = d.(dmap)["v"]
	}
	return d
}

func isZeroDump(d interface{}) bool {
	d = deref(d)
	switch dk(d) {
	case "nil", "nilslice", "nilmap":
		return true
	case "val":
		v := d.(dmap)["v"]
		switch x := v.(type) {
		case string:
			return x == ""
		case float64:
			return x == 0
		case bool:
			return !x
		case nil:
			return true
		case map[string]interface{}:
			return len(x) == 0
		}
		return false
	case "struct":
		for _, f := range d.(dmap)["f"].([]interface{}) {
			if !isZeroDump(f.(dmap)["v"]) {
				return false
			}
		}
		return true
	case "slice":
		return false
	}
	return false
}

type judge struct {
	p      *Prog
	schema *ast.Schema
	doc    *ast.QueryDocument // emitted document of the operation
	fails  []jfail
	impls  map[string]map[string]bool // typename -> set of implementation struct names (over all interfaces)
}

type jfail struct{ Class, What string }

func (j *judge) failf(class, format string, a ...interface{}) {
	if len(j.fails) < 6 {
		j.fails = append(j.fails, jfail{class, fmt.Sprintf(format, a...)})
	}
}

func newJudge(p *Prog, doc *ast.QueryDocument) *judge {
	j := &judge{p: p, schema: p.Ex.Schema, doc: doc, impls: map[string]map[string]bool{}}
	for _, m := range p.Em.Dispatch {
		for tn, impl := range m {
			if j.impls[tn] == nil {
				j.impls[tn] = map[string]bool{}
			}
			j.impls[tn][impl] = true
		}
	}
	return j
}

// fieldsFor: every Go field (in the struct or its embedded structs) that carries response key k
func (j *judge) fieldsFor(st dmap, key string, depth int, out *[]interface{}) {
	if depth > 8 {
		return
	}
	tname, _ := st["t"].(string)
	for _, f := range st["f"].([]interface{}) {
		fm := f.(dmap)
		if emb, _ := fm["e"].(bool); emb {
			inner := deref(fm["v"])
			if dk(inner) == "struct" {
				j.fieldsFor(inner.(dmap), key, depth+1, out)
			}
			continue
		}
		tag := strings.Split(fm["tag"].(string), ",")[0]
		if tag == "-" {
			tag = j.p.Em.Premarshal[tname][fm["n"].(string)]
		}
		if tag == key {
			*out = append(*out, fm["v"])
		}
	}
}

func numEq(a interface{}, b interface{}) bool {
	fa, oka := toF(a)
	fb, okb := toF(b)
	return oka && okb && fa == fb
}
func toF(v interface{}) (float64, bool) {
	switch x := v.(type) {
	case float64:
		return x, true
	case int:
		return float64(x), true
	case json.Number:
		f, err := x.Float64()
		return f, err == nil
	}
	return 0, false
}

func (j *judge) respGenFor() *respGen {
	return &respGen{schema: j.schema, doc: j.doc}
}

// compare a JSON value of GraphQL type t with the Go value dumped
func (j *judge) compare(where string, jv interface{}, gv interface{}, t *ast.Type, sub ast.SelectionSet, depth int) {
	if depth > 12 {
		return
	}
	if jv == nil {
		g := deref(gv)
		if dk(gv) == "ptr" {
			j.failf("C02/null-not-nil", "%s: JSON null decoded into a non-nil pointer", where)
			return
		}
		switch dk(g) {
		case "nil", "nilslice", "nilmap":
		case "slice":
			elemBase := t
			for elemBase.Elem != nil {
				elemBase = elemBase.Elem
			}
			j.failf("C02/null-list-becomes-empty-slice", "%s: JSON null for a list (%s) decoded into an empty NON-nil slice", where, t.String())
		default:
			if !isZeroDump(g) {
				j.failf("C02/null-not-zero", "%s: JSON null decoded into a non-zero value", where)
			}
		}
		return
	}
	g := deref(gv)
	switch x := jv.(type) {
	case []interface{}:
		if dk(g) != "slice" {
			j.failf("C02/list-not-slice", "%s: JSON list decoded into %s", where, dk(g))
			return
		}
		elems := g.(dmap)["v"].([]interface{})
		if len(elems) != len(x) {
			j.failf("C02/list-length", "%s: JSON list of %d decoded into a slice of %d", where, len(x), len(elems))
			return
		}
		et := t
		if t.Elem != nil {
			et = t.Elem
		}
		for i := range x {
			j.compare(fmt.Sprintf("%s[%d]", where, i), x[i], elems[i], et, sub, depth+1)
		}
	case *OObj:
		def := j.schema.Types[t.Name()]
		if def != nil && def.Kind == ast.Scalar {
			// custom scalar bound to a map
			if dk(g) == "val" {
				want, _ := json.Marshal(x)
				got, _ := json.Marshal(g.(dmap)["v"])
				var a, b interface{}
				_ = json.Unmarshal(want, &a)
				_ = json.Unmarshal(got, &b)
				if !reflect.DeepEqual(a, b) {
					j.failf("C02/scalar-value", "%s: custom scalar value differs", where)
				}
			}
			return
		}
		concrete := t.Name()
		if tn, ok := x.Vals["__typename"].(string); ok {
			concrete = tn
		}
		switch dk(g) {
		case "iface":
			dyn, _ := g.(dmap)["t"].(string)
			if !j.impls[concrete][dyn] {
				j.failf("C02/wrong-dynamic-type", "%s: response __typename %q decoded into Go type %s, which is not the struct generated for it", where, concrete, dyn)
				return
			}
			inner := deref(g.(dmap)["v"])
			if dk(inner) == "struct" {
				j.checkObj(where+"<"+concrete+">", inner.(dmap), x, sub, concrete, depth+1)
			}
		case "struct":
			j.checkObj(where, g.(dmap), x, sub, concrete, depth+1)
		case "val":
			// bound to an opaque user type
		default:
			j.failf("C02/object-not-struct", "%s: JSON object decoded into %s", where, dk(g))
		}
	default:
		if dk(g) != "val" {
			if dk(g) == "nil" || dk(g) == "nilslice" {
				j.failf("C02/value-lost", "%s: JSON value %v decoded into nil", where, jv)
			}
			return
		}
		gvv := g.(dmap)["v"]
		switch y := x.(type) {
		case string:
			if s, ok := gvv.(string); !ok || s != y {
				j.failf("C02/scalar-value", "%s: JSON %q decoded into %v", where, y, gvv)
			}
		case bool:
			if b, ok := gvv.(bool); !ok || b != y {
				j.failf("C02/scalar-value", "%s: JSON %v decoded into %v", where, y, gvv)
			}
		default:
			if !numEq(x, gvv) {
				// an ID given as a number is decoded into a Go string by encoding/json? no: it fails; values we generate are typed
				j.failf("C02/scalar-value", "%s: JSON %v decoded into %v", where, x, gvv)
			}
		}
	}
}

func (j *judge) checkObj(where string, st dmap, obj *OObj, sels ast.SelectionSet, concrete string, depth int) {
	g := j.respGenFor()
	into := map[string][]*ast.Field{}
	var order []string
	g.collect(sels, concrete, &order, into, map[string]bool{})
	for _, k := range order {
		jv, present := obj.Vals[k]
		if !present {
			continue
		}
		var locs []interface{}
		j.fieldsFor(st, k, 0, &locs)
		if len(locs) == 0 {
			j.failf("C02/unreadable", "%s: response key %q has no Go field in %v (nor in its embedded fragment structs)", where, k, st["t"])
			continue
		}
		f0 := into[k][0]
		var sub ast.SelectionSet
		for _, x := range into[k] {
			sub = append(sub, x.SelectionSet...)
		}
		var t *ast.Type
		if f0.Name == "__typename" {
			t = ast.NonNullNamedType("String", nil)
		} else if f0.Definition != nil {
			t = f0.Definition.Type
		} else {
			continue
		}
		for _, loc := range locs {
			j.compare(where+"."+k, jv, loc, t, sub, depth+1)
		}
	}
}

// ---- C06: re-marshaled JSON against the response ----
func dupKeys(data []byte) string {
	dec := json.NewDecoder(bytes.NewReader(data))
	type frame struct {
		obj  bool
		keys map[string]bool
		key  bool
	}
	var st []*frame
	for {
		tok, err := dec.Token()
		if err != nil {
			return ""
		}
		switch t := tok.(type) {
		case json.Delim:
			switch t {
			case '{':
				st = append(st, &frame{obj: true, keys: map[string]bool{}, key: true})
				continue
			case '[':
				st = append(st, &frame{})
				continue
			case '}', ']':
				st = st[:len(st)-1]
			}
		case string:
			if len(st) > 0 && st[len(st)-1].obj && st[len(st)-1].key {
				top := st[len(st)-1]
				if top.keys[t] {
					return t
				}
				top.keys[t] = true
				top.key = false
				continue
			}
		}
		if len(st) > 0 && st[len(st)-1].obj {
			st[len(st)-1].key = true
		}
	}
}

func isZeroJSON(v interface{}) bool {
	switch x := v.(type) {
	case nil:
		return true
	case string:
		return x == ""
	case float64:
		return x == 0
	case bool:
		return !x
	case []interface{}:
		return len(x) == 0
	case map[string]interface{}:
		for _, e := range x {
			if !isZeroJSON(e) {
				return false
			}
		}
		return true
	}
	return false
}

// reEq: the re-marshaled value `re` equals the response `resp` up to key order and the
// null-vs-zero loss.
func (j *judge) reEq(where string, resp, re interface{}) {
	switch x := resp.(type) {
	case nil:
		if arr, ok := re.([]interface{}); ok && len(arr) == 0 {
			j.failf("C06/null-list-reencoded-as-empty-list", "%s: response null re-marshals as []", where)
			return
		}
		if !isZeroJSON(re) {
			j.failf("C06/reencode-differs", "%s: response null re-marshals as %v", where, re)
		}
	case *OObj:
		m, ok := re.(map[string]interface{})
		if !ok {
			j.failf("C06/reencode-differs", "%s: response object re-marshals as %T", where, re)
			return
		}
		for _, k := range x.Keys {
			rv, ok := m[k]
			if !ok {
				if k == "__typename" {
					j.failf("C06/typename-missing", "%s: __typename missing from the re-marshaled abstract value", where)
				} else {
					j.failf("C06/key-missing", "%s: key %q missing from the re-marshaled JSON", where, k)
				}
				continue
			}
			j.reEq(where+"."+k, x.Vals[k], rv)
		}
		for k, rv := range m {
			if _, ok := x.Vals[k]; !ok && !isZeroJSON(rv) {
				j.failf("C06/extra-key", "%s: re-marshaled JSON has key %q = %v that the response did not have", where, k, rv)
			}
		}
	case []interface{}:
		arr, ok := re.([]interface{})
		if !ok || len(arr) != len(x) {
			j.failf("C06/reencode-differs", "%s: response list of %d re-marshals as %v", where, len(x), re)
			return
		}
		for i := range x {
			j.reEq(fmt.Sprintf("%s[%d]", where, i), x[i], arr[i])
		}
	case string:
		if s, ok := re.(string); !ok || s != x {
			j.failf("C06/reencode-differs", "%s: %q re-marshals as %v", where, x, re)
		}
	case bool:
		if b, ok := re.(bool); !ok || b != x {
			j.failf("C06/reencode-differs", "%s: %v re-marshals as %v", where, x, re)
		}
	default:
		if !numEq(x, re) {
			j.failf("C06/reencode-differs", "%s: %v re-marshals as %v", where, x, re)
		}
	}
}

// scalarCounts: how many non-null values of each custom scalar type the response carries
// (the user's unmarshaler / marshaler for that scalar must run for each of them).
func (j *judge) scalarCounts(obj *OObj, sels ast.SelectionSet, concrete string, out map[string]int, depth int) {
	if depth > 40 {
		out["\x00truncated"]++ // the count is a lower bound only
		return
	}
	g := j.respGenFor()
	into := map[string][]*ast.Field{}
	var order []string
	g.collect(sels, concrete, &order, into, map[string]bool{})
	var walk func(v interface{}, t *ast.Type, sub ast.SelectionSet, d int)
	walk = func(v interface{}, t *ast.Type, sub ast.SelectionSet, d int) {
		if v == nil {
			return
		}
		if d > 40 {
			out["\x00truncated"]++
			return
		}
		if arr, ok := v.([]interface{}); ok {
			et := t
			if t.Elem != nil {
				et = t.Elem
			}
			for _, e := range arr {
				walk(e, et, sub, d+1)
			}
			return
		}
		def := j.schema.Types[t.Name()]
		if def == nil {
			return
		}
		if def.Kind == ast.Scalar {
			if !def.BuiltIn {
				out[def.Name]++
			}
			return
		}
		if o, ok := v.(*OObj); ok {
			c := t.Name()
			if tn, ok := o.Vals["__typename"].(string); ok {
				c = tn
			}
			j.scalarCounts(o, sub, c, out, d+1)
		}
	}
	for _, k := range order {
		v, present := obj.Vals[k]
		f0 := into[k][0]
		if !present || f0.Definition == nil || f0.Name == "__typename" {
			continue
		}
		var sub ast.SelectionSet
		for _, x := range into[k] {
			sub = append(sub, x.SelectionSet...)
		}
		walk(v, f0.Definition.Type, sub, depth+1)
	}
}
