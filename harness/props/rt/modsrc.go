package rt

// Source of the helper package `example.com/rt` and of the runner command that are written
// into the scratch module next to the generated packages.

const rtPkgSrc = `// Package rt: registry of generated operations + reflection dumper + task runner (verification harness).
package rt

import (
	"context"
	"encoding/json"
	"fmt"
	"math/rand"
	"net/http"
	"reflect"
	"sort"
	"strings"
	"time"

	"github.com/Khan/genqlient/graphql"

	"example.com/cg"
	"example.com/m"
)

type Op struct {
	New func() interface{} // fresh *<Op>Response
	Fn  interface{}        // the generated helper function
}

var Registry = map[string]map[string]Op{}

func Register(prog string, ops map[string]Op) { Registry[prog] = ops }

// ---- dumper ----
func Dump(v reflect.Value) interface{} {
	if !v.IsValid() {
		return map[string]interface{}{"k": "nil"}
	}
	switch v.Kind() {
	case reflect.Ptr:
		if v.IsNil() {
			return map[string]interface{}{"k": "nil"}
		}
		return map[string]interface{}{"k": "ptr", "v": Dump(v.Elem())}
	case reflect.Interface:
		if v.IsNil() {
			return map[string]interface{}{"k": "nil"}
		}
		e := v.Elem()
		name := e.Type().String()
		if e.Kind() == reflect.Ptr {
			name = e.Type().Elem().Name()
			if e.IsNil() {
				return map[string]interface{}{"k": "iface", "t": name, "v": map[string]interface{}{"k": "nil"}}
			}
			return map[string]interface{}{"k": "iface", "t": name, "v": Dump(e.Elem())}
		}
		return map[string]interface{}{"k": "iface", "t": name, "v": Dump(e)}
	case reflect.Slice:
		if v.IsNil() {
			return map[string]interface{}{"k": "nilslice"}
		}
		if v.Type().Elem().Kind() == reflect.Uint8 {
			return map[string]interface{}{"k": "val", "v": string(v.Bytes())}
		}
		out := []interface{}{}
		for i := 0; i < v.Len(); i++ {
			out = append(out, Dump(v.Index(i)))
		}
		return map[string]interface{}{"k": "slice", "v": out}
	case reflect.Struct:
		fs := []interface{}{}
		for i := 0; i < v.NumField(); i++ {
			sf := v.Type().Field(i)
			if sf.PkgPath != "" && !sf.Anonymous {
				continue
			}
			fs = append(fs, map[string]interface{}{"n": sf.Name, "e": sf.Anonymous, "tag": sf.Tag.Get("json"), "v": Dump(v.Field(i))})
		}
		return map[string]interface{}{"k": "struct", "t": v.Type().Name(), "f": fs}
	case reflect.Map:
		if v.IsNil() {
			return map[string]interface{}{"k": "nilmap"}
		}
		return map[string]interface{}{"k": "val", "v": toAny(v)}
	default:
		return map[string]interface{}{"k": "val", "v": toAny(v)}
	}
}

// toAny converts without Interface() (values reached through unexported embedded structs).
func toAny(v reflect.Value) interface{} {
	switch v.Kind() {
	case reflect.String:
		return v.String()
	case reflect.Bool:
		return v.Bool()
	case reflect.Int, reflect.Int8, reflect.Int16, reflect.Int32, reflect.Int64:
		return v.Int()
	case reflect.Uint, reflect.Uint8, reflect.Uint16, reflect.Uint32, reflect.Uint64:
		return v.Uint()
	case reflect.Float32, reflect.Float64:
		return v.Float()
	case reflect.Map:
		out := map[string]interface{}{}
		it := v.MapRange()
		for it.Next() {
			out[fmt.Sprint(toAny(it.Key()))] = toAny(it.Value())
		}
		return out
	case reflect.Slice, reflect.Array:
		out := []interface{}{}
		for i := 0; i < v.Len(); i++ {
			out = append(out, toAny(v.Index(i)))
		}
		return out
	case reflect.Interface, reflect.Ptr:
		if v.IsNil() {
			return nil
		}
		return toAny(v.Elem())
	}
	return fmt.Sprint(v)
}

func resetCalls() {
	for k := range m.Calls {
		delete(m.Calls, k)
	}
}

func snapCalls() map[string]int {
	out := map[string]int{}
	for k, v := range m.Calls {
		out[k] = v
	}
	return out
}

// ---- tasks ----
type Task struct {
	ID   string          ` + "`json:\"id\"`" + `
	Prog string          ` + "`json:\"prog\"`" + `
	Op   string          ` + "`json:\"op\"`" + `
	Kind string          ` + "`json:\"kind\"`" + ` // decode | call
	JSON json.RawMessage ` + "`json:\"json,omitempty\"`" + `
	Seed int64           ` + "`json:\"seed,omitempty\"`" + `
	Fail string          ` + "`json:\"fail,omitempty\"`" + ` // call: make the client return this error
}

type Result struct {
	ID        string      ` + "`json:\"id\"`" + `
	Err       string      ` + "`json:\"err,omitempty\"`" + `
	Panic     string      ` + "`json:\"panic,omitempty\"`" + `
	Timeout   bool        ` + "`json:\"timeout,omitempty\"`" + `
	Dump      interface{} ` + "`json:\"dump,omitempty\"`" + `
	Dump2     interface{} ` + "`json:\"dump2,omitempty\"`" + `
	Remarshal string      ` + "`json:\"remarshal,omitempty\"`" + `
	ReErr     string      ` + "`json:\"reerr,omitempty\"`" + `
	RoundTrip bool        ` + "`json:\"roundtrip\"`" + `
	Round2Err string      ` + "`json:\"round2err,omitempty\"`" + `
	UserCallsDecode  map[string]int ` + "`json:\"ucd,omitempty\"`" + ` // calls of user (un)marshalers during the first decode
	UserCallsMarshal map[string]int ` + "`json:\"ucm,omitempty\"`" + ` // ... during the re-marshal / the helper call
	// call
	Calls     int             ` + "`json:\"calls,omitempty\"`" + `
	OpName    string          ` + "`json:\"opname,omitempty\"`" + `
	Query     string          ` + "`json:\"query,omitempty\"`" + `
	Variables json.RawMessage ` + "`json:\"variables,omitempty\"`" + `
	Args      []interface{}   ` + "`json:\"args,omitempty\"`" + `
	ArgNames  []string        ` + "`json:\"argnames,omitempty\"`" + `
	RetNil    bool            ` + "`json:\"retnil,omitempty\"`" + `
	RetErr    string          ` + "`json:\"reterr,omitempty\"`" + `
	RetSame   bool            ` + "`json:\"retsame,omitempty\"`" + ` // the returned error IS the injected one
	HasGetter bool            ` + "`json:\"hasgetter,omitempty\"`" + `
	VarErr    string          ` + "`json:\"varerr,omitempty\"`" + `
	InputType string          ` + "`json:\"inputtype,omitempty\"`" + ` // inputrt: name of the generated input struct
}

type recClient struct {
	reqs []*graphql.Request
	err  error // what MakeRequest returns
}

func (c *recClient) MakeRequest(ctx context.Context, req *graphql.Request, resp *graphql.Response) error {
	c.reqs = append(c.reqs, req)
	return c.err
}

// random value of a generated parameter type
func randValue(r *rand.Rand, t reflect.Type, depth int, enums map[string][]string) reflect.Value {
	switch t.Kind() {
	case reflect.Ptr:
		if r.Intn(4) == 0 || depth > 4 {
			return reflect.Zero(t)
		}
		p := reflect.New(t.Elem())
		p.Elem().Set(randValue(r, t.Elem(), depth+1, enums))
		return p
	case reflect.Slice:
		if t.Elem().Kind() == reflect.Uint8 {
			return reflect.ValueOf([]byte("\"raw\""))
		}
		n := r.Intn(3)
		if depth > 4 {
			n = 0
		}
		if n == 0 && r.Intn(3) == 0 {
			return reflect.Zero(t) // nil slice
		}
		s := reflect.MakeSlice(t, n, n)
		for i := 0; i < n; i++ {
			s.Index(i).Set(randValue(r, t.Elem(), depth+1, enums))
		}
		return s
	case reflect.Struct:
		v := reflect.New(t).Elem()
		for i := 0; i < t.NumField(); i++ {
			if t.Field(i).PkgPath == "" {
				v.Field(i).Set(randValue(r, t.Field(i).Type, depth+1, enums))
			}
		}
		return v
	case reflect.String:
		if vals, ok := enums[t.Name()]; ok && len(vals) > 0 {
			return reflect.ValueOf(vals[r.Intn(len(vals))]).Convert(t)
		}
		return reflect.ValueOf([]string{"", "s", "hello"}[r.Intn(3)]).Convert(t)
	case reflect.Int, reflect.Int64, reflect.Int32:
		return reflect.ValueOf(int64(r.Intn(5))).Convert(t)
	case reflect.Float64:
		return reflect.ValueOf([]float64{0, 1.5, 2}[r.Intn(3)]).Convert(t)
	case reflect.Bool:
		return reflect.ValueOf(r.Intn(2) == 0).Convert(t)
	case reflect.Map:
		if r.Intn(3) == 0 {
			return reflect.Zero(t)
		}
		m := reflect.MakeMap(t)
		if r.Intn(2) == 0 {
			m.SetMapIndex(reflect.ValueOf("a"), reflect.ValueOf(1.0))
		}
		return m
	case reflect.Interface:
		return reflect.Zero(t)
	}
	return reflect.Zero(t)
}

var Enums = map[string]map[string][]string{} // prog -> Go enum type -> values

func RunTask(t *Task) (res *Result) {
	res = &Result{ID: t.ID}
	ops, ok := Registry[t.Prog]
	if !ok {
		res.Err = "unknown program"
		return
	}
	op, ok := ops[t.Op]
	if !ok {
		res.Err = "unknown operation"
		return
	}
	done := make(chan struct{})
	go func() {
		defer close(done)
		defer func() {
			if v := recover(); v != nil {
				res.Panic = fmt.Sprint(v)
			}
		}()
		switch t.Kind {
		case "decode":
			v := op.New()
			resetCalls()
			err := json.Unmarshal(t.JSON, v)
			res.UserCallsDecode = snapCalls()
			if err != nil {
				res.Err = err.Error()
			}
			res.Dump = Dump(reflect.ValueOf(v))
			if err == nil {
				resetCalls()
				out, merr := json.Marshal(v)
				res.UserCallsMarshal = snapCalls()
				if merr != nil {
					res.ReErr = merr.Error()
				} else {
					res.Remarshal = string(out)
					v2 := op.New()
					if e2 := json.Unmarshal(out, v2); e2 != nil {
						res.Round2Err = e2.Error()
					} else {
						res.RoundTrip = reflect.DeepEqual(v, v2)
						if !res.RoundTrip {
							res.Dump2 = Dump(reflect.ValueOf(v2))
						}
					}
				}
			}
		case "inputrt":
			// a valid variables object decoded into the operation's generated input struct,
			// marshaled and decoded again.  The struct type is learnt from a dry call.
			fn := reflect.ValueOf(op.Fn)
			ft := fn.Type()
			cl := &recClient{}
			cg.Client, cg.Fail = cl, nil
			var args []reflect.Value
			for i := 0; i < ft.NumIn(); i++ {
				it := ft.In(i)
				switch {
				case it.Implements(reflect.TypeOf((*context.Context)(nil)).Elem()):
					args = append(args, reflect.ValueOf(context.Background()).Convert(it))
				case it == reflect.TypeOf((*graphql.Client)(nil)).Elem():
					args = append(args, reflect.ValueOf(graphql.Client(cl)))
				default:
					args = append(args, reflect.Zero(it))
				}
			}
			fn.Call(args)
			if len(cl.reqs) == 0 || cl.reqs[0].Variables == nil {
				res.Err = "harness: no variables struct"
				return
			}
			vt := reflect.TypeOf(cl.reqs[0].Variables)
			if vt.Kind() != reflect.Ptr {
				res.Err = "harness: variables are not a pointer to a struct"
				return
			}
			res.InputType = vt.Elem().Name()
			v1 := reflect.New(vt.Elem()).Interface()
			if err := json.Unmarshal(t.JSON, v1); err != nil {
				res.Err = err.Error()
				res.Dump = Dump(reflect.ValueOf(v1))
				return
			}
			res.Dump = Dump(reflect.ValueOf(v1))
			out, merr := json.Marshal(v1)
			if merr != nil {
				res.ReErr = merr.Error()
				return
			}
			res.Remarshal = string(out)
			v2 := reflect.New(vt.Elem()).Interface()
			if e2 := json.Unmarshal(out, v2); e2 != nil {
				res.Round2Err = e2.Error()
				return
			}
			res.RoundTrip = reflect.DeepEqual(v1, v2)
			if !res.RoundTrip {
				res.Dump2 = Dump(reflect.ValueOf(v2))
			}
		case "call":
			fn := reflect.ValueOf(op.Fn)
			ft := fn.Type()
			r := rand.New(rand.NewSource(t.Seed))
			cl := &recClient{}
			var injected error
			cg.Client, cg.Fail = cl, nil
			switch t.Fail {
			case "":
			case "getter":
				injected = fmt.Errorf("no client obtainable")
				cg.Fail = injected
			default:
				injected = fmt.Errorf("%s", t.Fail)
				cl.err = injected
			}
			hasClientParam := false
			var args []reflect.Value
			for i := 0; i < ft.NumIn(); i++ {
				it := ft.In(i)
				switch {
				case it.Implements(reflect.TypeOf((*context.Context)(nil)).Elem()):
					args = append(args, reflect.ValueOf(context.Background()).Convert(it))
				case it == reflect.TypeOf((*graphql.Client)(nil)).Elem():
					hasClientParam = true
					args = append(args, reflect.ValueOf(graphql.Client(cl)))
				default:
					a := randValue(r, it, 0, Enums[t.Prog])
					args = append(args, a)
					res.Args = append(res.Args, Dump(a))
				}
			}
			outs := fn.Call(args)
			res.Calls = len(cl.reqs)
			if len(cl.reqs) > 0 {
				res.OpName = cl.reqs[0].OpName
				res.Query = cl.reqs[0].Query
				if cl.reqs[0].Variables != nil {
					resetCalls()
					b, err := json.Marshal(cl.reqs[0].Variables)
					if err != nil {
						res.VarErr = err.Error()
					}
					res.Variables = b
					res.UserCallsMarshal = snapCalls()
				}
			}
			if len(outs) > 0 {
				first := outs[0]
				res.RetNil = (first.Kind() == reflect.Ptr || first.Kind() == reflect.Interface) && first.IsNil()
				last := outs[len(outs)-1]
				if !last.IsNil() {
					res.RetErr = last.Interface().(error).Error()
					res.RetSame = injected != nil && last.Interface().(error) == injected
				}
				res.HasGetter = !hasClientParam
			}
		}
	}()
	select {
	case <-done:
	case <-time.After(5 * time.Second):
		res.Timeout = true
	}
	return
}

var _ = http.StatusOK
var _ = sort.Strings
var _ = strings.TrimSpace
`

const runnerSrc = `package main

import (
	"bufio"
	"encoding/json"
	"fmt"
	"os"

	"example.com/rt"
%s
)

func main() {
	in := bufio.NewScanner(os.Stdin)
	in.Buffer(make([]byte, 1<<20), 1<<26)
	out := bufio.NewWriter(os.Stdout)
	defer out.Flush()
	for in.Scan() {
		var t rt.Task
		if err := json.Unmarshal(in.Bytes(), &t); err != nil {
			fmt.Fprintln(os.Stderr, "bad task:", err)
			continue
		}
		b, _ := json.Marshal(rt.RunTask(&t))
		out.Write(b)
		out.WriteString("\n")
		out.Flush()
	}
}
`
