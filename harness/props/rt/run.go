package rt

import (
	"bytes"
	"encoding/json"
	"fmt"
	"os"
	"sort"
	"strings"

	"github.com/vektah/gqlparser/v2/ast"

	"verifharness/core"
	"verifharness/props/conv"
)

type rtCase struct {
	Case     *conv.Case  `json:"case"`
	Op       string      `json:"op"`
	Response interface{} `json:"response"`
	Mutation string      `json:"mutation,omitempty"`
	Seed     int64       `json:"seed,omitempty"`
	MustErr  bool        `json:"must_err,omitempty"`
	ResponseRaw json.RawMessage `json:"-"`
	HelperLeg bool       `json:"helper_leg,omitempty"`
	Vars      json.RawMessage `json:"vars,omitempty"` // C06 input leg: the variables object decoded into the operation's input struct
}

func bindingFor(c *conv.Case) func(string) string {
	ec := c.ExportConfig()
	return func(s string) string { return ec.Bindings[s].Type }
}

// mutate returns a mutated copy of a response and whether the decoder MUST report an error
// (an abstract value whose __typename is missing, empty, not a string or unknown).
func mutate(r *core.Rng, v interface{}, kind string) (interface{}, bool) { return mutateAt(r, v, kind, -1) }

// mutateAt: as mutate, on the pick-th abstract object of the response (pick < 0: a random one).
func mutateAt(r *core.Rng, v interface{}, kind string, pick int) (interface{}, bool) {
	// collect paths to objects with __typename
	type ref struct {
		parent interface{}
		key    string
		idx    int
	}
	var typed []*OObj
	var all []ref
	var walk func(x interface{}, p interface{}, k string, i int)
	walk = func(x interface{}, p interface{}, k string, i int) {
		all = append(all, ref{p, k, i})
		switch y := x.(type) {
		case *OObj:
			if _, ok := y.Vals["__typename"]; ok && y.Abstract {
				typed = append(typed, y)
			}
			for _, kk := range y.Keys {
				walk(y.Vals[kk], y, kk, 0)
			}
		case []interface{}:
			for ii, e := range y {
				walk(e, y, "", ii)
			}
		}
	}
	// deep copy through JSON is not order preserving for OObj; copy manually
	var cp func(x interface{}) interface{}
	cp = func(x interface{}) interface{} {
		switch y := x.(type) {
		case *OObj:
			o := &OObj{Vals: map[string]interface{}{}, Abstract: y.Abstract, Outsiders: y.Outsiders}
			for _, k := range y.Keys {
				o.Set(k, cp(y.Vals[k]))
			}
			return o
		case []interface{}:
			out := make([]interface{}, len(y))
			for i := range y {
				out[i] = cp(y[i])
			}
			return out
		}
		return x
	}
	root := cp(v)
	walk(root, nil, "", 0)
	set := func(rf ref, nv interface{}) {
		switch p := rf.parent.(type) {
		case *OObj:
			p.Vals[rf.key] = nv
		case []interface{}:
			p[rf.idx] = nv
		}
	}
	switch kind {
	case "typename-unknown", "typename-missing", "typename-empty", "typename-not-string", "typename-of-an-impossible-type":
		if len(typed) == 0 {
			return root, false
		}
		o := typed[r.Intn(len(typed))]
		if pick >= 0 {
			if pick >= len(typed) {
				return root, false
			}
			o = typed[pick]
		}
		switch kind {
		case "typename-unknown":
			o.Vals["__typename"] = "NoSuchTypeAnywhere"
		case "typename-of-an-impossible-type":
			// a real object type of the schema, but not one this position can hold
			if len(o.Outsiders) == 0 {
				return root, false
			}
			if impossibleIdx >= 0 {
				// the sweep walks through the outsiders one by one
				if impossibleIdx >= len(o.Outsiders) {
					return root, false
				}
				o.Vals["__typename"] = o.Outsiders[impossibleIdx]
			} else {
				o.Vals["__typename"] = o.Outsiders[r.Intn(len(o.Outsiders))]
			}
		case "typename-empty":
			o.Vals["__typename"] = ""
		case "typename-not-string":
			o.Vals["__typename"] = 42
		case "typename-missing":
			delete(o.Vals, "__typename")
			var ks []string
			for _, k := range o.Keys {
				if k != "__typename" {
					ks = append(ks, k)
				}
			}
			o.Keys = ks
		}
		return root, true
	case "swap-kind":
		if len(all) < 2 {
			return root, false
		}
		rf := all[1+r.Intn(len(all)-1)]
		repl := []interface{}{nil, 7, "str", true, []interface{}{}, []interface{}{[]interface{}{1}}, &OObj{Vals: map[string]interface{}{}}, 1e300, -0.5}[r.Intn(9)]
		set(rf, repl)
	case "dup-key":
		if len(all) < 2 {
			return root, false
		}
		// duplicate a key with another case
		for tries := 0; tries < 10; tries++ {
			rf := all[r.Intn(len(all))]
			if p, ok := rf.parent.(*OObj); ok && rf.key != "" {
				nk := strings.ToUpper(rf.key)
				if nk == rf.key {
					nk = strings.ToLower(rf.key)
				}
				p.Set(nk, []interface{}{nil, "x", 3}[r.Intn(3)])
				break
			}
		}
	case "deep-nest":
		if len(all) < 2 {
			return root, false
		}
		rf := all[1+r.Intn(len(all)-1)]
		var d interface{} = 1
		for i := 0; i < 200; i++ {
			d = []interface{}{d}
		}
		set(rf, d)
	}
	return root, false
}

// impossibleIdx >= 0: which outsider the "typename-of-an-impossible-type" mutation uses (the
// sweep); -1: a random one
var impossibleIdx = -1

var mutationKinds = []string{"typename-unknown", "typename-missing", "typename-empty", "typename-not-string", "swap-kind", "swap-kind", "dup-key", "deep-nest", "typename-of-an-impossible-type"}

func run(prop, tier string, seed int64, outDir, replay string) (*core.Result, error) {
	res := core.NewResult(prop, tier, seed)
	nProg, nResp := 36, 8
	if tier == "thorough" {
		nProg, nResp = 400, 30
	}
	rng := core.NewRng(seed)
	var cases []*conv.Case
	var replayCase *rtCase
	if replay != "" {
		data, err := os.ReadFile(replay)
		if err != nil {
			return nil, err
		}
		var wrap struct {
			Replay rtCase `json:"replay"`
		}
		if err := json.Unmarshal(data, &wrap); err != nil {
			return nil, err
		}
		replayCase = &wrap.Replay
		var rawWrap struct {
			Replay struct {
				Response json.RawMessage `json:"response"`
			} `json:"replay"`
		}
		_ = json.Unmarshal(data, &rawWrap)
		replayCase.ResponseRaw = rawWrap.Replay.Response
		cases = []*conv.Case{replayCase.Case}
	} else {
		for i := 0; i < nProg; i++ {
			cases = append(cases, GenCase(rng, i))
		}
	}
	b, err := NewBatch(cases, res.Dist)
	if err != nil {
		return nil, err
	}
	defer b.Close()
	type meta struct {
		p      *Prog
		op     string
		doc    *ast.QueryDocument
		resp   *OObj
		mut    string
		mustEr bool
		raw    []byte
	}
	metas := map[string]*meta{}
	var tasks []*Task
	for _, p := range b.Progs {
		var ops []string
		for op := range p.Query {
			ops = append(ops, op)
		}
		sort.Strings(ops)
		for _, op := range ops {
			if _, ok := p.Em.Response[op]; !ok {
				continue
			}
			doc, err := ParseEmitted(p.Ex.Schema, p.Query[op])
			if err != nil {
				res.Dist("emitted-doc-invalid")
				continue
			}
			for k := 0; k < nResp; k++ {
				resp := GenResponse(rng, p.Ex.Schema, doc, bindingFor(p.Case), []float64{0.05, 0.25, 0.5}[k%3])
				id := fmt.Sprintf("%s/%s/%d", p.Name, op, k)
				var payload interface{} = resp
				m := &meta{p: p, op: op, doc: doc, resp: resp}
				if prop == "C19" && k%2 == 1 {
					kind := mutationKinds[rng.Intn(len(mutationKinds))]
					payload, m.mustEr = mutate(rng, resp, kind)
					m.mut = kind
				}
				raw, _ := json.Marshal(payload)
				if replayCase != nil && replayCase.Response != nil {
					if replayCase.Op != "" && replayCase.Op != op {
						continue
					}
					raw = replayCase.ResponseRaw
					// judge against the REPLAYED response (key order kept)
					if o, err := parseOrdered(raw); err == nil {
						if oo, ok := o.(*OObj); ok {
							m.resp = oo
						}
					}
					m.mut = replayCase.Mutation
					m.mustEr = replayCase.MustErr
				}
				m.raw = raw
				metas[id] = m
				tasks = append(tasks, &Task{ID: id, Prog: p.Name, Op: op, Kind: "decode", JSON: raw})
				if replayCase != nil && replayCase.Response != nil {
					break
				}
			}
			// C06, "all valid variable objects": decode a variables object into the generated input
			// struct, marshal, decode again
			// (not for subscriptions: their helper takes a WebSocketClient and returns a channel)
			if prop == "C06" && len(doc.Operations) > 0 && doc.Operations[0].Operation != ast.Subscription && (replayCase == nil || replayCase.Vars != nil) {
				nIn := 3
				if tier == "thorough" {
					nIn = 8
				}
				for k := 0; k < nIn; k++ {
					var raw []byte
					if replayCase != nil {
						if replayCase.Op != op {
							break
						}
						raw = replayCase.Vars
					} else {
						vars := randVariables(rng, p.Ex.Schema, doc.Operations[0])
						if vars == nil {
							break
						}
						if err, panicked := coerce(p.Ex.Schema, doc.Operations[0], vars); err != nil || panicked {
							res.Dist("input-leg:variables-rejected-by-the-coercion-oracle")
							continue
						}
						raw, _ = json.Marshal(vars)
					}
					id := fmt.Sprintf("%s/%s/in%d", p.Name, op, k)
					metas[id] = &meta{p: p, op: op, doc: doc, raw: raw}
					tasks = append(tasks, &Task{ID: id, Prog: p.Name, Op: op, Kind: "inputrt", JSON: raw})
					if replayCase != nil {
						break
					}
				}
			}
			// C19: a sweep over the abstract positions of one response, each with a bad __typename
			if prop == "C19" && replayCase == nil {
				resp := GenResponse(rng, p.Ex.Schema, doc, bindingFor(p.Case), 0.05)
				// every abstract position (up to 6) with a bad __typename; the kind rotates with the
				// position, and the impossible-but-existing type is tried at every position too
				for pick := 0; pick < 6; pick++ {
					stop := false
					kinds := []string{[]string{"typename-unknown", "typename-missing", "typename-empty", "typename-not-string"}[pick%4]}
					for k := 0; k < 5; k++ {
						kinds = append(kinds, "typename-of-an-impossible-type")
					}
					for ki, kind := range kinds {
						impossibleIdx = ki - 1
						payload, must := mutateAt(rng, resp, kind, pick)
						impossibleIdx = -1
						if !must {
							if kind != "typename-of-an-impossible-type" {
								stop = true
							}
							continue
						}
						id := fmt.Sprintf("%s/%s/sweep%d-%s%d", p.Name, op, pick, kind, ki)
						raw, _ := json.Marshal(payload)
						metas[id] = &meta{p: p, op: op, doc: doc, resp: resp, mut: kind, mustEr: true, raw: raw}
						tasks = append(tasks, &Task{ID: id, Prog: p.Name, Op: op, Kind: "decode", JSON: raw})
					}
					if stop {
						break
					}
				}
			}
		}
	}
	results, err := b.Run(tasks)
	if err != nil {
		return nil, err
	}
	res.Extra["programs_compiled"] = len(b.Progs)
	nt := newNumTable()
	obsTerms := map[string][]string{} // program -> rt_obs terms
	modelObs := 0
	for _, t := range tasks {
		m := metas[t.ID]
		r := results[t.ID]
		if r == nil {
			continue
		}
		res.Count(string(m.raw)+m.p.Name+m.op, true)
		if t.Kind == "inputrt" {
			res.Dist("input-leg:decoded")
			if replay != "" {
				out, _ := json.MarshalIndent(r, "", " ")
				fmt.Printf("result: %s\n", out)
			}
			rp := &rtCase{Case: m.p.Case, Op: m.op, Vars: m.raw}
			failIn := func(class, what string) {
				res.Fail(core.Failure{Case: t.ID, Class: class, What: what, Replay: rp})
			}
			switch {
			case strings.HasPrefix(r.Err, "harness:"):
				res.Dist("input-leg:" + r.Err)
			case r.Panic != "" || r.Timeout:
				failIn("C06/input-panic-or-hang", "decoding a valid variables object into "+r.InputType+" panicked or hung: "+r.Panic)
			case r.Err != "":
				failIn("C06/input-decode-error", fmt.Sprintf("the valid variables object %.300s failed to decode into %s: %s", m.raw, r.InputType, r.Err))
			case r.ReErr != "":
				failIn("C06/input-marshal-error", "marshaling the decoded input value failed: "+r.ReErr)
			case r.Round2Err != "":
				failIn("C06/input-redecode-error", "unmarshaling the re-marshaled input failed: "+r.Round2Err)
			case !r.RoundTrip:
				diff := dumpDiff("v", r.Dump, r.Dump2)
				class := "C06/input-redecode-differs"
				if strings.HasSuffix(diff, "slice vs nilslice") {
					// an EMPTY list under omitempty is left out and comes back as nil
					class = "C06/input-redecode-differs/omitempty-empty-list"
				}
				failIn(class, fmt.Sprintf("variables %.300s: unmarshal(marshal(v)) is not deeply equal to v: %s (re-marshaled: %.300s)", m.raw, diff, r.Remarshal))
			}
			// the same observation for the in-kernel model
			if jt, err := jsonTerm(m.raw, nt); err == nil && r.Panic == "" && !r.Timeout && !strings.HasPrefix(r.Err, "harness:") && r.InputType != "" {
				rr := "RErr"
				if r.Err == "" {
					rr = "(ROk " + dumpTerm(deref(r.Dump), nt) + ")"
				}
				re := "None"
				if r.Err == "" && r.ReErr == "" && r.Remarshal != "" {
					if t2, err := jsonTerm([]byte(r.Remarshal), nt); err == nil {
						re = "(Some " + t2 + ")"
					}
				}
				term := fmt.Sprintf("{| ro_type := %s; ro_json := %s; ro_result := %s; ro_remarshal := %s |}", coqStr(r.InputType), jt, rr, re)
				if len(term) <= 60000 {
					obsTerms[m.p.Name] = append(obsTerms[m.p.Name], term)
					modelObs++
				}
			}
			continue
		}
		if jt, err := jsonTerm(m.raw, nt); err == nil && !r.Timeout {
			rr := "RErr"
			switch {
			case r.Panic != "":
				rr = "RPanic"
			case r.Err == "":
				rr = "(ROk " + dumpTerm(deref(r.Dump), nt) + ")"
			}
			re := "None"
			if r.Panic == "" && r.Err == "" && r.ReErr == "" && r.Remarshal != "" {
				if t, err := jsonTerm([]byte(r.Remarshal), nt); err == nil {
					re = "(Some " + t + ")"
				}
			}
			term := fmt.Sprintf("{| ro_type := %s; ro_json := %s; ro_result := %s; ro_remarshal := %s |}", coqStr(m.p.Em.Response[m.op]), jt, rr, re)
			// the kernel evaluation re-decodes an object once per embedded fragment struct at
			// every level: very large observations are judged by the Go oracle only
			if len(term) <= 60000 || tier == "thorough" && len(term) <= 200000 {
				obsTerms[m.p.Name] = append(obsTerms[m.p.Name], term)
				modelObs++
			} else {
				res.Dist("model:observation-too-large-for-kernel-run")
			}
		}
		var rawAny interface{}
		_ = json.Unmarshal(m.raw, &rawAny)
		rp := &rtCase{Case: m.p.Case, Op: m.op, Response: rawAny, Mutation: m.mut}
		foldClash := hasCaseFoldKeys(m.resp)
		fail := func(class, what string) {
			if foldClash && (prop == "C02" || prop == "C06") && !strings.Contains(class, "null-list") {
				// encoding/json matches keys case-insensitively: two response keys that differ only by case
				class = prop + "/case-insensitive-key-clash"
			}
			res.Fail(core.Failure{Case: t.ID, Class: class, What: what, Replay: rp})
		}
		if replay != "" {
			out, _ := json.MarshalIndent(r, "", " ")
			fmt.Printf("result: %s\n", out)
		}
		switch prop {
		case "C19":
			if m.mut != "" {
				res.Dist("mutation:" + m.mut)
			}
			if r.Panic != "" {
				fail("C19/panic", fmt.Sprintf("decoding panicked (%s): %s", m.mut, r.Panic))
			}
			if r.Timeout {
				fail("C19/hang", "decoding did not return")
			}
			if m.mustEr && r.Err == "" && r.Panic == "" && !usesStructOption(m.p.Case) {
				fail("C19/bad-typename-accepted/"+m.mut, "an abstract value with "+m.mut+" was decoded without an error")
			}
			if r.Err != "" {
				res.Dist("decode:error")
			} else {
				res.Dist("decode:ok")
			}
		case "C02", "C06":
			if r.Panic != "" || r.Timeout {
				fail(prop+"/panic-or-hang", "decoding a conformant response panicked or hung: "+r.Panic)
				continue
			}
			if r.Err != "" {
				fail("C02/decode-error", "a conformant response failed to decode: "+r.Err)
				continue
			}
			j := newJudge(m.p, m.doc)
			if prop == "C02" {
				d := deref(r.Dump)
				if dk(d) == "struct" {
					root := "Query"
					switch m.doc.Operations[0].Operation {
					case ast.Mutation:
						root = "Mutation"
					case ast.Subscription:
						root = "Subscription"
					}
					j.checkObj("operation "+m.op, d.(dmap), m.resp, m.doc.Operations[0].SelectionSet, root, 0)
				}
			} else {
				if r.ReErr != "" {
					fail("C06/marshal-error", "marshaling the decoded value failed: "+r.ReErr)
					continue
				}
				var re0 interface{}
				_ = json.Unmarshal([]byte(r.Remarshal), &re0)
				if jsonHasCaseFoldKeys(re0) {
					foldClash = true
				}
				if k := dupKeys([]byte(r.Remarshal)); k != "" {
					fail("C06/duplicate-key", fmt.Sprintf("the re-marshaled JSON has key %q twice in one object: %.300s", k, r.Remarshal))
				}
				if r.Round2Err != "" {
					fail("C06/redecode-error", "unmarshaling the re-marshaled JSON failed: "+r.Round2Err)
				} else if !r.RoundTrip {
					diff := dumpDiff("v", r.Dump, r.Dump2)
					class := "C06/redecode-differs"
					switch {
					case strings.HasSuffix(diff, "nilslice vs slice"):
						class = "C06/null-list-reencoded-as-empty-list"
					case strings.HasSuffix(diff, "nil vs ptr"):
						class = "C06/redecode-differs/key-carried-twice-with-different-pointerness"
					}
					fail(class, "unmarshal(marshal(v)) is not deeply equal to v: "+diff)
				}
				var re interface{}
				_ = json.Unmarshal([]byte(r.Remarshal), &re)
				if reClash := jsonHasCaseFoldKeys(re); reClash {
					foldClash = true
				}
				j.reEq("operation "+m.op, m.resp, re)
			}
			// the user's (un)marshalers must have been called for every value of their scalar
			usesBind := false
			for _, d := range m.p.Case.Defs {
				if strings.Contains(d.Text, "bind:") {
					usesBind = true
				}
			}
			if !usesBind && len(m.p.Case.Cfg.Marshalers) > 0 {
				root := "Query"
				switch m.doc.Operations[0].Operation {
				case ast.Mutation:
					root = "Mutation"
				case ast.Subscription:
					root = "Subscription"
				}
				counts := map[string]int{}
				j.scalarCounts(m.resp, m.doc.Operations[0].SelectionSet, root, counts, 0)
				fnKey := func(ref string) string { return ref[strings.LastIndex(ref, ".")+1:] }
				for sc, mu := range m.p.Case.Cfg.Marshalers {
					n := counts[sc]
					if prop == "C02" && mu[1] != "" {
						calls := r.UCD[fnKey(mu[1])]
						res.Dist(fmt.Sprintf("custom-unmarshaler:%v", n > 0))
						if n > 0 && calls < n {
							fail("C02/custom-unmarshaler-not-called", fmt.Sprintf("the response has %d non-null value(s) of scalar %s, whose binding names the unmarshaler %s, but it was called %d time(s)", n, sc, mu[1], calls))
						} else if n == 0 && calls > 0 && counts["\x00truncated"] == 0 {
							fail("C02/custom-unmarshaler-called-without-value", fmt.Sprintf("unmarshaler %s was called %d time(s) although the response has no value of scalar %s", mu[1], calls, sc))
						}
					}
					if prop == "C06" && mu[0] != "" {
						calls := r.UCM[fnKey(mu[0])]
						res.Dist(fmt.Sprintf("custom-marshaler:%v", n > 0))
						if n > 0 && calls < n {
							fail("C06/custom-marshaler-not-called", fmt.Sprintf("the decoded value has %d non-null value(s) of scalar %s, whose binding names the marshaler %s, but marshaling called it %d time(s)", n, sc, mu[0], calls))
						}
					}
				}
			}
			for _, f := range j.fails {
				fail(f.Class, f.What)
			}
		}
	}
	// ---- cases for the in-kernel model (one per program)
	var terms []string
	caseIndex := map[string]interface{}{}
	res.Extra["case_index"] = caseIndex
	for _, p := range b.Progs {
		if len(obsTerms[p.Name]) == 0 {
			continue
		}
		ct, ok := conv.CaseTerm(p.Idx, p.Case, &conv.Observed{Class: "ok", Em: p.Em})
		if !ok {
			continue
		}
		terms = append(terms, fmt.Sprintf("{| r_id := %d; r_prog := %s; r_obs := [%s] |}", p.Idx, ct, strings.Join(obsTerms[p.Name], ";\n  ")))
		caseIndex[fmt.Sprint(p.Idx)] = &rtCase{Case: p.Case}
	}
	shard := 4
	for k := 0; k*shard < len(terms); k++ {
		end := (k + 1) * shard
		if end > len(terms) {
			end = len(terms)
		}
		var sb strings.Builder
		sb.WriteString("From Coq Require Import ZArith.\nFrom Verif Require Import Base.Str Gen.Casing Gen.Gql Gen.Directive Gen.Convert Rt.JsonDecode Rt.JsonEncode Corr.Convcorr Corr.Rtcorr.\n")
		sb.WriteString("Definition cases : list rt_case := [\n" + strings.Join(terms[k*shard:end], ";\n") + "\n].\n")
		sb.WriteString("Definition MISMATCH := Eval vm_compute in rt_mismatches cases.\nPrint MISMATCH.\n")
		fn := fmt.Sprintf("%s/cases_rt_%d.v", outDir, k)
		if err := os.WriteFile(fn, []byte(sb.String()), 0o644); err != nil {
			return nil, err
		}
		res.CasesV = append(res.CasesV, fn)
	}
	res.ModelCases = modelObs
	return res, nil
}

// parseOrdered reads JSON keeping the order of object keys.
func parseOrdered(raw []byte) (interface{}, error) {
	dec := json.NewDecoder(bytes.NewReader(raw))
	dec.UseNumber()
	var val func() (interface{}, error)
	val = func() (interface{}, error) {
		tok, err := dec.Token()
		if err != nil {
			return nil, err
		}
		switch t := tok.(type) {
		case json.Delim:
			switch t {
			case '{':
				o := &OObj{Vals: map[string]interface{}{}}
				for dec.More() {
					kt, err := dec.Token()
					if err != nil {
						return nil, err
					}
					v, err := val()
					if err != nil {
						return nil, err
					}
					o.Set(kt.(string), v)
				}
				_, err := dec.Token()
				return o, err
			case '[':
				out := []interface{}{}
				for dec.More() {
					v, err := val()
					if err != nil {
						return nil, err
					}
					out = append(out, v)
				}
				_, err := dec.Token()
				return out, err
			}
		case json.Number:
			f, _ := t.Float64()
			return f, nil
		}
		return tok, nil
	}
	return val()
}

func coqStr(s string) string { return fmt.Sprintf("(b %q)", s) }

func RunC02(tier string, seed int64, outDir string, replay string) (*core.Result, error) {
	r, err := run("C02", tier, seed, outDir, replay)
	if r != nil {
		r.Rule = "random programs of the supported fragment are generated, compiled together with a reflection driver, and for every operation conformant responses are produced by a reference executor (any concrete type per abstract position, null at nullable positions with probability 5/25/50 %, lists of length 0..3 at any nesting, @skip/@include absences); real encoding/json decodes them into the generated types; the dump is judged against the response (every key readable in the struct and in every embedded fragment struct that selects it, dynamic type = struct for __typename, nulls); non-trivial = every (operation, response); distinct by response bytes"
	}
	return r, err
}
func RunC06(tier string, seed int64, outDir string, replay string) (*core.Result, error) {
	r, err := run("C06", tier, seed, outDir, replay)
	if r != nil {
		r.Rule = "as C02; the decoded value is marshaled again, re-unmarshaled and compared (reflect.DeepEqual); the re-marshaled JSON is compared with the response up to key order and the null-vs-zero loss, scanned for duplicate keys per object, and checked for __typename on every abstract value; non-trivial = every (operation, response)"
	}
	return r, err
}
func RunC19(tier string, seed int64, outDir string, replay string) (*core.Result, error) {
	r, err := run("C19", tier, seed, outDir, replay)
	if r != nil {
		r.Rule = "as C02, with every second response mutated (missing / empty / non-string / unknown __typename on an abstract value; scalar-object-list swaps and huge numbers at random positions; duplicate and case-variant keys; 200-deep nesting); decoding runs under recover and a timeout in a separate process (a stack overflow kills it and is observed); a bad __typename must yield an error; non-trivial = every decoded input"
	}
	return r, err
}


// hasCaseFoldKeys: some object of the response has two keys that differ only by letter case.
func hasCaseFoldKeys(v interface{}) bool {
	switch x := v.(type) {
	case *OObj:
		seen := map[string]bool{}
		for _, k := range x.Keys {
			l := strings.ToLower(k)
			if seen[l] {
				return true
			}
			seen[l] = true
		}
		for _, k := range x.Keys {
			if hasCaseFoldKeys(x.Vals[k]) {
				return true
			}
		}
	case []interface{}:
		for _, e := range x {
			if hasCaseFoldKeys(e) {
				return true
			}
		}
	}
	return false
}


func usesStructOption(c *conv.Case) bool {
	for _, d := range c.Defs {
		if strings.Contains(d.Text, "struct: true") {
			return true
		}
	}
	return false
}

func jsonHasCaseFoldKeys(v interface{}) bool {
	switch x := v.(type) {
	case map[string]interface{}:
		seen := map[string]bool{}
		for k := range x {
			l := strings.ToLower(k)
			if seen[l] {
				return true
			}
			seen[l] = true
		}
		for _, e := range x {
			if jsonHasCaseFoldKeys(e) {
				return true
			}
		}
	case []interface{}:
		for _, e := range x {
			if jsonHasCaseFoldKeys(e) {
				return true
			}
		}
	}
	return false
}


// dumpDiff: first path at which two reflection dumps differ.
func dumpDiff(path string, a, b interface{}) string {
	am, aok := a.(dmap)
	bm, bok := b.(dmap)
	if !aok || !bok {
		if fmt.Sprint(a) != fmt.Sprint(b) {
			return fmt.Sprintf("%s: %v vs %v", path, a, b)
		}
		return ""
	}
	if dk(am) != dk(bm) {
		return fmt.Sprintf("%s: %s vs %s", path, dk(am), dk(bm))
	}
	switch dk(am) {
	case "ptr":
		return dumpDiff(path+"*", am["v"], bm["v"])
	case "iface":
		if am["t"] != bm["t"] {
			return fmt.Sprintf("%s: dynamic type %v vs %v", path, am["t"], bm["t"])
		}
		return dumpDiff(path+"<"+fmt.Sprint(am["t"])+">", am["v"], bm["v"])
	case "slice":
		as, bs := am["v"].([]interface{}), bm["v"].([]interface{})
		if len(as) != len(bs) {
			return fmt.Sprintf("%s: slice length %d vs %d", path, len(as), len(bs))
		}
		for i := range as {
			if d := dumpDiff(fmt.Sprintf("%s[%d]", path, i), as[i], bs[i]); d != "" {
				return d
			}
		}
	case "struct":
		af, bf := am["f"].([]interface{}), bm["f"].([]interface{})
		for i := range af {
			if i < len(bf) {
				if d := dumpDiff(path+"."+fmt.Sprint(af[i].(dmap)["n"]), af[i].(dmap)["v"], bf[i].(dmap)["v"]); d != "" {
					return d
				}
			}
		}
	case "val":
		x, _ := json.Marshal(am["v"])
		y, _ := json.Marshal(bm["v"])
		if string(x) != string(y) {
			return fmt.Sprintf("%s: %s vs %s", path, x, y)
		}
	}
	return ""
}
