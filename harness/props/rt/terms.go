package rt

import (
	"bytes"
	"encoding/json"
	"fmt"
	"sort"
	"strings"

	"verifharness/coqfmt"
)

// numTable gives every distinct number an id (0 for the value 0).
type numTable struct{ ids map[float64]int }

func newNumTable() *numTable { return &numTable{ids: map[float64]int{0: 0}} }

func (t *numTable) id(f float64) int {
	if v, ok := t.ids[f]; ok {
		return v
	}
	v := len(t.ids)
	t.ids[f] = v
	return v
}

func isIntegral(f float64) bool {
	return f == float64(int64(f)) && f < 9.2e18 && f > -9.2e18
}

// jsonTerm renders raw JSON as a [jval] term, keeping key order and duplicates.
func jsonTerm(raw []byte, nt *numTable) (string, error) {
	dec := json.NewDecoder(bytes.NewReader(raw))
	dec.UseNumber()
	var parse func() (string, error)
	parse = func() (string, error) {
		tok, err := dec.Token()
		if err != nil {
			return "", err
		}
		switch t := tok.(type) {
		case json.Delim:
			switch t {
			case '{':
				var items []string
				for dec.More() {
					kt, err := dec.Token()
					if err != nil {
						return "", err
					}
					v, err := parse()
					if err != nil {
						return "", err
					}
					items = append(items, coqfmt.Pair(coqfmt.Str(kt.(string)), v))
				}
				if _, err := dec.Token(); err != nil {
					return "", err
				}
				return "(JObj " + coqfmt.List(items) + ")", nil
			case '[':
				var items []string
				for dec.More() {
					v, err := parse()
					if err != nil {
						return "", err
					}
					items = append(items, v)
				}
				if _, err := dec.Token(); err != nil {
					return "", err
				}
				return "(JArr " + coqfmt.List(items) + ")", nil
			}
			return "", fmt.Errorf("unexpected delimiter")
		case json.Number:
			f, err := t.Float64()
			if err != nil {
				return "", err
			}
			return fmt.Sprintf("(JNum %d%%Z %s)", nt.id(f), coqfmt.Bool(isIntegral(f) && !strings.ContainsAny(string(t), ".eE"))), nil
		case string:
			return "(JStr " + coqfmt.Str(t) + ")", nil
		case bool:
			return "(JBool " + coqfmt.Bool(t) + ")", nil
		case nil:
			return "JNull", nil
		}
		return "", fmt.Errorf("unexpected token %T", tok)
	}
	return parse()
}

func anyTerm(v interface{}, nt *numTable) string {
	switch x := v.(type) {
	case nil:
		return "JNull"
	case string:
		return "(JStr " + coqfmt.Str(x) + ")"
	case bool:
		return "(JBool " + coqfmt.Bool(x) + ")"
	case float64:
		return fmt.Sprintf("(JNum %d%%Z true)", nt.id(x))
	case map[string]interface{}:
		var ks []string
		for k := range x {
			ks = append(ks, k)
		}
		sort.Strings(ks)
		var items []string
		for _, k := range ks {
			items = append(items, coqfmt.Pair(coqfmt.Str(k), anyTerm(x[k], nt)))
		}
		return "(JObj " + coqfmt.List(items) + ")"
	case []interface{}:
		var items []string
		for _, e := range x {
			items = append(items, anyTerm(e, nt))
		}
		return "(JArr " + coqfmt.List(items) + ")"
	}
	return "JNull"
}

// dumpTerm renders the reflection dump as a [gval] term.
func dumpTerm(d interface{}, nt *numTable) string {
	m, ok := d.(dmap)
	if !ok {
		return "VZero"
	}
	switch dk(m) {
	case "nil":
		return "VNilPtr"
	case "nilslice":
		return "VNilSlice"
	case "nilmap":
		return "VZero"
	case "ptr":
		return "(VPtr " + dumpTerm(m["v"], nt) + ")"
	case "iface":
		return "(VIface " + coqfmt.Str(fmt.Sprint(m["t"])) + " " + dumpTerm(m["v"], nt) + ")"
	case "slice":
		var items []string
		for _, e := range m["v"].([]interface{}) {
			items = append(items, dumpTerm(e, nt))
		}
		return "(VSlice " + coqfmt.List(items) + ")"
	case "struct":
		var items []string
		for _, f := range m["f"].([]interface{}) {
			fm := f.(dmap)
			items = append(items, coqfmt.Pair(coqfmt.Str(fmt.Sprint(fm["n"])), dumpTerm(fm["v"], nt)))
		}
		return "(VStruct " + coqfmt.Str(fmt.Sprint(m["t"])) + " " + coqfmt.List(items) + ")"
	case "val":
		return "(VScalar " + anyTerm(m["v"], nt) + ")"
	}
	return "VZero"
}
