//go:build verif

package ws

import (
	"encoding/json"
	"fmt"
	"sort"
	"strings"

	"verifharness/core"
)

type SrvFrame struct {
	Type    string `json:"type"`    // next | complete | error | ack | ping | garbage | badpayload | errpayload
	Sub     int    `json:"sub"`     // subscription index; -1: an id nobody subscribed
}

type Action struct {
	Op    string    `json:"op"` // call | step | server | lost | recv | recverr
	Kind  string    `json:"kind,omitempty"`
	T     string    `json:"t,omitempty"`
	Sub   int       `json:"sub,omitempty"`
	Frame *SrvFrame `json:"frame,omitempty"`
	Query string    `json:"query,omitempty"`
}

type Spec struct {
	ID             string   `json:"id"`
	FaultK         int      `json:"fault_k"`
	FailAfterClose bool     `json:"fail_after_close"`
	FailFrom       bool     `json:"fail_from,omitempty"` // a dead connection: EVERY connection operation from the k-th on fails
	ConnParams     bool     `json:"conn_params"`
	CloseAtEnd     bool     `json:"close_at_end"`
	Actions        []Action `json:"actions"`
}

type SubTrace struct {
	ID         string   `json:"id"`
	Sent       []string `json:"sent"`      // payload descriptors of well-formed next frames the server sent for it, in order
	Delivered  []string `json:"delivered"`
	Ended      string   `json:"ended"`     // "", complete, unsubscribe, close
	ClosedSeen bool     `json:"closed_seen"`
	SubscribeOK bool    `json:"subscribe_ok"`
	RecvAfterEnd int    `json:"recv_after_end"`
	CompleteSent bool   `json:"complete_sent"`
}

type Trace struct {
	Spec        *Spec             `json:"spec"`
	Frames      []Frame           `json:"frames"`
	Calls       []*CallResult     `json:"calls"`
	Subs        []*SubTrace       `json:"subs"`
	ReaderPanic string            `json:"reader_panic,omitempty"`
	ReaderPoint string            `json:"reader_point,omitempty"` // last pause point of the reader before a panic
	Stuck       []string          `json:"stuck,omitempty"`        // API calls that did not return although all writes completed
	StuckStates map[string]string `json:"stuck_states,omitempty"`
	ReaderEnd   string            `json:"reader_end"`             // done | none | <state>
	ConnCloses  int               `json:"conn_closes"`
	Dialed      int               `json:"dialed"`
	ErrsSeen    []string          `json:"errs_seen,omitempty"`
	ErrChanClosed bool            `json:"err_chan_closed"`
	StartOK     bool              `json:"start_ok"`
	CloseDone   bool              `json:"close_done"`
	CloseErr    string            `json:"close_err,omitempty"`
	Lost        bool              `json:"lost"`
	Log         []string          `json:"log,omitempty"`
	InboundLeft int               `json:"inbound_left"`
	Performed   []PAct            `json:"performed,omitempty"`
	ModelOn     bool              `json:"model_on"`
	ModelSkip   string            `json:"model_skip,omitempty"`
	Overlap     bool              `json:"overlap"` // two API calls were in flight at the same time
	CallAfterClose bool           `json:"call_after_close,omitempty"` // Subscribe / Unsubscribe was called after Close
	SubsAtClose int               `json:"subs_at_close"`              // subscriptions that existed when Close was called (-1: Close not called)
	StartOps    []StartOp         `json:"start_ops,omitempty"`
	StartDone   bool              `json:"start_done"`
	StartErr    string            `json:"start_err,omitempty"`
	APIOK       []bool            `json:"api_ok,omitempty"`
	Steps       []string          `json:"steps"` // state digest after each action (for the model correspondence)
}

var payloadCounter int

func (s *Sched) frameBytes(f *SrvFrame, tr *Trace) ([]byte, bool) {
	id := "no-such-subscription"
	if f.Sub >= 0 {
		s.mu.Lock()
		if f.Sub >= len(s.Subs) || s.Subs[f.Sub].ID == "" {
			s.mu.Unlock()
			return nil, false
		}
		id = s.Subs[f.Sub].ID
		s.mu.Unlock()
	}
	payloadCounter++
	k := payloadCounter
	switch f.Type {
	case "next":
		if f.Sub >= 0 {
			tr.Subs[f.Sub].Sent = append(tr.Subs[f.Sub].Sent, fmt.Sprintf(`data:{"n":%d}`, k))
		}
		return []byte(fmt.Sprintf(`{"type":"next","id":%q,"payload":{"data":{"n":%d}}}`, id, k)), true
	case "errpayload":
		if f.Sub >= 0 {
			tr.Subs[f.Sub].Sent = append(tr.Subs[f.Sub].Sent, fmt.Sprintf("errors:1:e%d", k))
		}
		return []byte(fmt.Sprintf(`{"type":"next","id":%q,"payload":{"data":null,"errors":[{"message":"e%d"}]}}`, id, k)), true
	case "badpayload":
		return []byte(fmt.Sprintf(`{"type":"next","id":%q,"payload":[1,2]}`, id)), true
	case "complete":
		if f.Sub >= 0 {
			tr.Subs[f.Sub].CompleteSent = true
		}
		return []byte(fmt.Sprintf(`{"type":"complete","id":%q}`, id)), true
	case "error":
		return []byte(fmt.Sprintf(`{"type":"error","id":%q,"payload":[{"message":"boom"}]}`, id)), true
	case "ack":
		return []byte(`{"type":"connection_ack"}`), true
	case "ping":
		return []byte(`{"type":"ping"}`), true
	case "garbage":
		return []byte(`not json`), true
	}
	return nil, false
}

func (s *Sched) digest() string {
	st := s.States()
	names := make([]string, 0, len(st))
	for n := range st {
		names = append(names, n)
	}
	sort.Strings(names)
	var parts []string
	for _, n := range names {
		parts = append(parts, n+"="+st[n])
	}
	s.mu.Lock()
	defer s.mu.Unlock()
	return fmt.Sprintf("%s frames=%d closes=%d panic=%v", strings.Join(parts, " "), len(s.Frames), s.ConnCloses, s.ReaderPanic != "")
}

const subscriptionQuery = "\nsubscription S {\n\tcount\n}\n"

type PAct struct {
	Label string `json:"label"`
	Obs   string `json:"obs"`
}

// Exec runs one schedule on the real client.
func Exec(spec *Spec) *Trace {
	var params map[string]interface{}
	if spec.ConnParams {
		params = map[string]interface{}{"token": "t0k", "n": 1}
	}
	s := NewSched(spec.FaultK, spec.FailAfterClose, params)
	s.FailFrom = spec.FailFrom
	defer s.Detach()
	tr := &Trace{Spec: spec, SubsAtClose: -1}
	calls := map[string]*CallResult{}
	callIdx := map[string]int{}
	var callOrder []string
	unsubCalled := map[int]bool{}
	closeCalled := false
	modelOn := false
	startOK := func() bool {
		c := calls["start"]
		return c != nil && c.Done && c.Err == "" && c.Panic == ""
	}
	markEnds := func() {
		for _, c := range tr.Calls {
			// Close ends every subscription whether or not it also reports an error (a failed
			// complete or close frame does not keep it from returning); Unsubscribe ends its
			// subscription when it returns nil
			if c.Done && c.Panic == "" && (c.Err == "" || c.Kind == "Close") {
				switch c.Kind {
				case "Unsubscribe":
					if c.Arg < len(tr.Subs) && tr.Subs[c.Arg].Ended == "" {
						tr.Subs[c.Arg].Ended = "unsubscribe"
					}
				case "Close":
					// (the subscriptions that existed when Close was called)
					for i, st := range tr.Subs {
						if st.Ended == "" && i < tr.SubsAtClose {
							st.Ended = "close"
						}
					}
				}
			}
		}
	}
	obs := func() string {
		s.mu.Lock()
		defer s.mu.Unlock()
		rtag := 0
		if t := s.Threads["reader"]; t != nil {
			switch {
			case t.state == "done":
				rtag = 8
			case t.state == "paused":
				rtag = map[string]int{"reader.loop": 1, "conn.read": 2, "reader.afterLookup": 3, "forward.beforeSend": 4,
					"handleErr.beforeLock": 5, "handleErr.locked": 6, "reader.exit": 7}[t.Point]
			}
		}
		var cts []string
		for _, n := range callOrder {
			t := s.Threads[n]
			tag := 0
			switch {
			case t.state == "done":
				tag = 3
			case t.state == "paused" && t.Point == "conn.write":
				tag = 1
			case t.state == "paused" && t.Point == "close.beforeLock":
				tag = 2
			}
			cts = append(cts, fmt.Sprintf("%d%%nat", tag))
		}
		pan := s.ReaderPanic != ""
		for _, c := range calls {
			if c.Panic != "" {
				pan = true
			}
		}
		return fmt.Sprintf("{| o_reader := %d%%nat; o_calls := [%s]; o_frames := %d%%nat; o_closes := %d%%nat; o_panicked := %v |}",
			rtag, strings.Join(cts, "; "), len(s.Frames)-1, s.ConnCloses, pan)
	}
	record := func(label string) {
		if modelOn {
			tr.Performed = append(tr.Performed, PAct{Label: label, Obs: obs()})
		}
	}
	optSub := func(i int) string {
		if i < 0 {
			return "None"
		}
		return fmt.Sprintf("(Some %d%%nat)", i)
	}
	var do func(a Action)
	do = func(a Action) {
		switch a.Op {
		case "call":
			switch a.Kind {
			case "Start":
				c := s.CallStart(a.T)
				calls[a.T] = c
				tr.Calls = append(tr.Calls, c)
			case "Subscribe":
				if !startOK() {
					return // only a started client is in scope
				}
				q := a.Query
				if q == "" {
					q = subscriptionQuery
				}
				tr.Subs = append(tr.Subs, &SubTrace{})
				if closeCalled {
					tr.CallAfterClose = true
				}
				for _, c := range tr.Calls {
					if c.Kind != "Start" && !c.Done {
						tr.Overlap = true
					}
				}
				callIdx[a.T] = len(callOrder)
				callOrder = append(callOrder, a.T)
				c := s.CallSubscribe(a.T, q)
				calls[a.T] = c
				tr.Calls = append(tr.Calls, c)
				record("LCallSub")
			case "Unsubscribe":
				if a.Sub >= len(tr.Subs) || unsubCalled[a.Sub] {
					return
				}
				if c := calls[fmt.Sprintf("sub%d", a.Sub)]; c == nil || !c.Done || c.Err != "" || c.Panic != "" {
					return // one Unsubscribe per id OBTAINED
				}
				unsubCalled[a.Sub] = true
				if closeCalled {
					tr.CallAfterClose = true
				}
				for _, c := range tr.Calls {
					if c.Kind != "Start" && !c.Done {
						tr.Overlap = true
					}
				}
				callIdx[a.T] = len(callOrder)
				callOrder = append(callOrder, a.T)
				c := s.CallUnsubscribe(a.T, a.Sub)
				calls[a.T] = c
				tr.Calls = append(tr.Calls, c)
				record(fmt.Sprintf("(LCallUnsub %d%%nat)", a.Sub))
			case "Close":
				if closeCalled || !startOK() {
					return
				}
				closeCalled = true
				tr.SubsAtClose = len(tr.Subs)
				for _, c := range tr.Calls {
					if c.Kind != "Start" && !c.Done {
						tr.Overlap = true
					}
				}
				callIdx[a.T] = len(callOrder)
				callOrder = append(callOrder, a.T)
				c := s.CallClose(a.T)
				calls[a.T] = c
				tr.Calls = append(tr.Calls, c)
				record("LCallClose")
			}
		case "step":
			if !s.Enabled(a.T) {
				return
			}
			info, ok := s.StepX(a.T)
			if !ok {
				return
			}
			if a.T == "start" {
				tr.StartOps = append(tr.StartOps, StartOp{Point: info.Point, Fault: info.ErrAny, Frame: s.lastFrameTypeSafe(info.Point)})
				if startOK() && !modelOn {
					if s.WaitReader() {
						s.mu.Lock()
						empty := len(s.inbound) == 0
						s.mu.Unlock()
						if empty {
							modelOn = true
						} else {
							tr.ModelSkip = "frames left over from the handshake"
						}
					}
				}
				return
			}
			tidTerm := "TReader"
			choice := 0
			if a.T != "reader" {
				tidTerm = fmt.Sprintf("(TCall %d%%nat)", callIdx[a.T])
				if info.Point == "conn.write" && strings.HasPrefix(info.Detail, "complete:") {
					id := strings.TrimPrefix(info.Detail, "complete:")
					s.mu.Lock()
					for _, sub := range s.Subs {
						if sub.ID == id {
							choice = sub.Idx
						}
					}
					s.mu.Unlock()
				}
			}
			record(fmt.Sprintf("(LStep %s %d%%nat %v)", tidTerm, choice, info.Fault))
		case "server":
			b, ok := s.frameBytes(a.Frame, tr)
			if !ok {
				return
			}
			s.ServerSend(b)
			var term string
			switch a.Frame.Type {
			case "next", "errpayload":
				term = fmt.Sprintf("(FData %s %d%%N)", optSub(a.Frame.Sub), payloadCounter)
			case "complete":
				term = fmt.Sprintf("(FComplete %s)", optSub(a.Frame.Sub))
			case "garbage":
				term = "FGarbage"
			case "ack", "ping":
				term = "(FBad None)"
			default:
				term = fmt.Sprintf("(FBad %s)", optSub(a.Frame.Sub))
			}
			record("(LServer " + term + ")")
		case "lost":
			s.ConnLost()
			tr.Lost = true
			record("LLost")
		case "recv":
			if a.Sub < len(tr.Subs) {
				ended := tr.Subs[a.Sub].Ended == "unsubscribe" || tr.Subs[a.Sub].Ended == "close"
				if r := s.AppRecv(a.Sub); r == "msg" && ended {
					tr.Subs[a.Sub].RecvAfterEnd++
				}
				record(fmt.Sprintf("(LRecv %d%%nat)", a.Sub))
			}
		case "recverr":
			s.AppRecvErr()
			record("LRecvErr")
		}
		markEnds()
	}
	for _, a := range spec.Actions {
		do(a)
	}
	// ---- drain: let every connection write complete; API calls must then return ----
	appPausedAtConn := func() []string {
		var out []string
		s.mu.Lock()
		for _, n := range s.order {
			t := s.Threads[n]
			if t.Result != nil && t.state == "paused" && (t.Point == "conn.write" || t.Point == "conn.dial" || t.Point == "close.beforeLock") {
				out = append(out, n)
			}
			if t.Result != nil && t.Result.Kind == "Start" && t.state == "paused" && t.Point == "conn.read" {
				out = append(out, n)
			}
		}
		s.mu.Unlock()
		return out
	}
	stepAll := func(names []string) bool {
		progress := false
		for _, n := range names {
			if n == "start" {
				s.mu.Lock()
				isRead := s.Threads[n].Point == "conn.read"
				empty := len(s.inbound) == 0
				s.mu.Unlock()
				if isRead && empty {
					s.ServerSend([]byte(`{"type":"connection_ack"}`))
				}
			}
			if s.Enabled(n) {
				do(Action{Op: "step", T: n})
				progress = true
			}
		}
		return progress
	}
	readers := func() []string {
		var out []string
		for _, n := range s.ThreadNames() {
			if strings.HasPrefix(n, "reader") {
				out = append(out, n)
			}
		}
		return out
	}
	for i := 0; i < 64; i++ {
		p1 := stepAll(appPausedAtConn())
		p2 := stepAll(readers()) // fair scheduling: the reader runs too (but the application receives nothing)
		if !p1 && !p2 {
			break
		}
	}
	s.quiesce(4 * settle)
	markEnds()
	for _, c := range tr.Calls {
		if !c.Done {
			tr.Stuck = append(tr.Stuck, c.Kind)
		}
	}
	if len(tr.Stuck) > 0 {
		tr.StuckStates = s.States()
	}
	// ---- helpful application: receive everything pending, then (optionally) Close ----
	pump := func() {
		for i := 0; i < 40; i++ {
			progress := false
			for idx := range tr.Subs {
				for j := 0; j < 6; j++ {
					s.mu.Lock()
					pending := false
					for _, n := range s.order {
						t := s.Threads[n]
						if t.state == "paused" && t.Point == "forward.beforeSend" && t.Detail == fmt.Sprint(idx) {
							pending = true
						}
					}
					s.mu.Unlock()
					if !pending {
						break
					}
					before := len(s.Subs[idx].Delivered)
					do(Action{Op: "recv", Sub: idx})
					progress = true
					if len(s.Subs[idx].Delivered) == before {
						break
					}
				}
			}
			s.mu.Lock()
			nerr := len(s.ErrsSeen)
			s.mu.Unlock()
			do(Action{Op: "recverr"})
			s.mu.Lock()
			if len(s.ErrsSeen) != nerr {
				progress = true
			}
			s.mu.Unlock()
			if stepAll(readers()) {
				progress = true
			}
			if stepAll(appPausedAtConn()) {
				progress = true
			}
			if !progress {
				break
			}
		}
	}
	pump()
	if spec.CloseAtEnd && !closeCalled && startOK() {
		do(Action{Op: "call", Kind: "Close", T: "close"})
		pump()
	}
	do(Action{Op: "lost"}) // eventually the connection goes away: the reader must then terminate
	pump()
	s.quiesce(4 * settle)
	markEnds()
	// final observations (outside the model: plain channel observations)
	for idx, st := range tr.Subs {
		if r := s.AppRecv(idx); r == "closed" {
			st.ClosedSeen = true
		} else if r == "msg" {
			if st.Ended == "unsubscribe" || st.Ended == "close" {
				st.RecvAfterEnd++
			}
			if r2 := s.AppRecv(idx); r2 == "closed" {
				st.ClosedSeen = true
			}
		}
	}
	for i := 0; i < 3; i++ {
		if s.AppRecvErr() == "closed" {
			break
		}
	}
	s.mu.Lock()
	tr.Frames = append([]Frame(nil), s.Frames...)
	tr.InboundLeft = len(s.inbound)
	tr.ReaderPanic = s.ReaderPanic
	tr.ReaderPoint = s.ReaderPanicPoint
	tr.ConnCloses = s.ConnCloses
	tr.Dialed = s.Dialed
	tr.ErrsSeen = append([]string(nil), s.ErrsSeen...)
	tr.ErrChanClosed = s.ErrChanClosed
	tr.Log = append([]string(nil), s.Log...)
	tr.ReaderEnd = "none"
	for _, n := range s.order {
		if strings.HasPrefix(n, "reader") {
			t := s.Threads[n]
			if t.state == "done" {
				tr.ReaderEnd = "done"
			} else if t.state == "paused" {
				tr.ReaderEnd = "paused@" + t.Point
			} else {
				tr.ReaderEnd = t.state
			}
		}
	}
	for i, sub := range s.Subs {
		if i < len(tr.Subs) {
			tr.Subs[i].ID = sub.ID
			tr.Subs[i].Delivered = append([]string(nil), sub.Delivered...)
		}
	}
	s.mu.Unlock()
	for _, c := range tr.Calls {
		switch c.Kind {
		case "Start":
			tr.StartOK = c.Done && c.Err == "" && c.Panic == ""
			tr.StartDone = c.Done
			tr.StartErr = c.Err
		case "Close":
			tr.CloseDone = c.Done && c.Panic == ""
			tr.CloseErr = c.Err
		case "Subscribe":
			if c.SubIdx < len(tr.Subs) {
				tr.Subs[c.SubIdx].SubscribeOK = c.Done && c.Err == "" && c.Panic == ""
			}
		}
	}
	tr.ModelOn = modelOn
	for _, n := range callOrder {
		c := calls[n]
		tr.APIOK = append(tr.APIOK, c.Done && c.Err == "" && c.Panic == "")
	}
	return tr
}

type StartOp struct {
	Point string `json:"point"`
	Fault bool   `json:"fault"`
	Frame string `json:"frame,omitempty"` // for reads: type of the frame consumed
}

func (s *Sched) lastFrameTypeSafe(point string) string {
	if point != "conn.read" {
		return ""
	}
	s.mu.Lock()
	defer s.mu.Unlock()
	return s.lastFrameType
}

func panicKind(p string) string {
	switch {
	case strings.Contains(p, "close of closed channel"):
		return "close-of-closed-channel"
	case strings.Contains(p, "send on closed channel"):
		return "send-on-closed-channel"
	case strings.Contains(p, "nil pointer"):
		return "nil-deref"
	case strings.Contains(p, "close of nil channel"):
		return "close-of-nil-channel"
	}
	return "other"
}

func isPrefix(a, b []string) bool {
	if len(a) > len(b) {
		return false
	}
	for i := range a {
		if a[i] != b[i] {
			return false
		}
	}
	return true
}

// Findings are (property, class, what) triples judged on a trace of the IMPLEMENTATION.
type Finding struct{ Prop, Class, What string }

func Judge(tr *Trace) []Finding {
	var out []Finding
	add := func(p, c, w string) { out = append(out, Finding{p, c, w}) }
	// ---- C13 ----
	if tr.ReaderPanic != "" {
		add("C13", "C13/reader-panic/"+panicKind(tr.ReaderPanic)+"@"+tr.ReaderPoint, "background reader panicked: "+tr.ReaderPanic)
	}
	for _, c := range tr.Calls {
		if c.Panic != "" {
			add("C13", "C13/api-panic/"+c.Kind+"/"+panicKind(c.Panic), c.Kind+" panicked: "+c.Panic)
		}
	}
	if len(tr.Stuck) > 0 {
		st, _ := json.Marshal(tr.StuckStates)
		add("C13", "C13/api-call-stuck/"+strings.Join(tr.Stuck, "+"), "API call(s) did not return although every connection write completed; thread states: "+string(st))
	}
	if tr.StartOK && tr.ReaderEnd != "done" && tr.ReaderPanic == "" {
		add("C13", "C13/reader-not-terminated/"+tr.ReaderEnd, "reader still alive after close/connection loss with a receiving application: "+tr.ReaderEnd)
	}
	// ---- C14 ----
	if tr.ReaderPanic != "" && panicKind(tr.ReaderPanic) == "close-of-closed-channel" {
		add("C14", "C14/closed-twice/reader@"+tr.ReaderPoint, "a subscription channel was closed twice: "+tr.ReaderPanic)
	}
	for _, c := range tr.Calls {
		if c.Panic != "" && panicKind(c.Panic) == "close-of-closed-channel" {
			add("C14", "C14/closed-twice/"+c.Kind, "a subscription channel was closed twice in "+c.Kind)
		}
	}
	for i, st := range tr.Subs {
		if !isPrefix(st.Delivered, st.Sent) {
			// distinguish wrong channel / duplicates / order
			cls := "C14/order-or-loss"
			seen := map[string]bool{}
			for _, d := range st.Delivered {
				if seen[d] {
					cls = "C14/duplicate"
				}
				seen[d] = true
				mine := false
				for _, x := range st.Sent {
					if x == d {
						mine = true
					}
				}
				if !mine {
					cls = "C14/foreign-payload"
				}
			}
			add("C14", cls, fmt.Sprintf("subscription %d received %v, server sent it %v", i, st.Delivered, st.Sent))
		}
		// (a subscription whose Subscribe FAILED was never handed to the application: a message the
		// reader had already looked up for it may still arrive on the orphaned channel)
		if st.RecvAfterEnd > 0 && st.SubscribeOK {
			add("C14", "C14/delivery-after-end", fmt.Sprintf("subscription %d received %d message(s) after it ended (%s)", i, st.RecvAfterEnd, st.Ended))
		}
		if st.SubscribeOK && st.Ended == "" && st.CompleteSent && tr.InboundLeft == 0 && len(tr.ErrsSeen) == 0 && tr.ReaderPanic == "" && !st.ClosedSeen && tr.ReaderEnd == "done" && !tr.Lost {
			add("C14", "C14/not-closed-after-complete", fmt.Sprintf("server completed subscription %d but its channel was never closed", i))
		}
		if st.SubscribeOK && (st.Ended == "unsubscribe" || st.Ended == "close") && !st.ClosedSeen && tr.ReaderPanic == "" {
			add("C14", "C14/not-closed-after-end", fmt.Sprintf("subscription %d ended by %s but its channel was never closed", i, st.Ended))
		}
	}
	// a conversation in which nothing can go wrong -- no connection fault, no loss, and the server
	// sends only well-formed next / complete frames for ids it was given -- must not make the
	// reader give up: every later message of every subscription depends on it
	if cleanSpec(tr.Spec) && tr.StartOK && tr.ReaderPanic == "" {
		var errs []string
		for _, e := range tr.ErrsSeen {
			// the controller itself drops the connection at the very end of a schedule without Close
			if !strings.Contains(e, "verif: connection lost") {
				errs = append(errs, e)
			}
		}
		if len(errs) > 0 {
			add("C14", "C14/reader-gave-up-without-cause", fmt.Sprintf("no fault, no loss, only well-formed frames for known ids, yet the client reported %v and stopped reading: nothing more can be delivered", errs))
		}
	}
	// ---- C15 ----
	if len(tr.Frames) > 0 {
		f0 := tr.Frames[0]
		want := "null"
		if tr.Spec.ConnParams {
			want = `{"n":1,"token":"t0k"}`
		}
		if f0.Type != "connection_init" || f0.Payload != want {
			add("C15", "C15/grammar/init-first", fmt.Sprintf("first frame is %s payload %s (want connection_init %s)", f0.Type, f0.Payload, want))
		}
	}
	subscribed := map[string]bool{}
	completed := map[string]bool{}
	closeAt := -1
	okIDs := map[string]bool{}
	for _, st := range tr.Subs {
		if st.SubscribeOK {
			okIDs[st.ID] = true
		}
	}
	// C15 quantifies over API call SEQUENCES (x faults): the conversation grammar is judged on
	// traces whose API calls did not overlap; overlapping calls are C13's subject.
	for i, f := range tr.Frames {
		if tr.Overlap || tr.CallAfterClose {
			break
		}
		if closeAt >= 0 {
			add("C15", "C15/grammar/frame-after-close", fmt.Sprintf("frame %d (%s %s) written after the close frame", i, f.Type, f.ID))
			break
		}
		switch {
		case f.MsgType == 8:
			closeAt = i
		case f.Type == "connection_init":
			if i != 0 {
				add("C15", "C15/grammar/second-init", "connection_init written again")
			}
		case f.Type == "subscribe":
			if subscribed[f.ID] || f.ID == "" {
				add("C15", "C15/grammar/id-not-fresh", "subscribe id reused or empty: "+f.ID)
			}
			subscribed[f.ID] = true
			if !strings.Contains(f.Payload, "subscription S") {
				add("C15", "C15/grammar/subscribe-payload", "subscribe frame does not carry the request: "+f.Payload)
			}
		case f.Type == "complete":
			if !subscribed[f.ID] {
				add("C15", "C15/grammar/complete-unknown-id", "complete for an id that was never subscribed on the wire: "+f.ID)
			} else if completed[f.ID] {
				add("C15", "C15/grammar/complete-twice", "second complete frame for id "+f.ID)
			}
			completed[f.ID] = true
		default:
			add("C15", "C15/grammar/unknown-frame", f.Type)
		}
	}
	for _, c := range tr.Calls {
		if c.Kind == "Start" && c.Done && c.Err != "" {
			if tr.Dialed > 0 && tr.ConnCloses == 0 && !strings.Contains(firstLog(tr, "step start @conn.dial"), "x") && dialSucceeded(tr) {
				add("C15", "C15/start-fault-leaves-connection-open", "Start failed ("+c.Err+") but the dialled connection was not closed")
			}
			if tr.ReaderEnd != "none" {
				add("C15", "C15/start-fault-leaves-reader", "Start failed but a reader goroutine exists")
			}
		}
		if c.Kind == "Start" && c.Done && c.Err == "" && tr.Spec.FaultK > 0 && faultHitDuringStart(tr) {
			add("C15", "C15/start-hides-fault", "a connection operation failed during Start but Start returned nil")
		}
	}
	if tr.CloseDone && tr.StartOK {
		if tr.ConnCloses == 0 {
			add("C15", "C15/close-leaves-connection-open", "Close returned ("+tr.CloseErr+") without closing the connection")
		}
		if !tr.ErrChanClosed {
			add("C15", "C15/close-leaves-errchan-open", "Close returned ("+tr.CloseErr+") without closing the error channel")
		}
	}
	return out
}

// cleanSpec: no connection operation is made to fail, the connection is not lost, and every
// server frame after the handshake is a next (data or GraphQL errors) or complete frame for a
// subscription index (whose id the server can only know from a subscribe frame).
func cleanSpec(sp *Spec) bool {
	if sp.FaultK != 0 || sp.FailFrom {
		return false
	}
	apiSeen, acked, closeSeen := false, false, false
	for _, a := range sp.Actions {
		switch a.Op {
		case "lost":
			return false
		case "call":
			if a.Kind != "Start" {
				apiSeen = true
			}
			if a.Kind == "Close" {
				closeSeen = true
			} else if closeSeen {
				// a call after Close (its writes may fail, its subscription may be unregistered
				// again): not a conversation in which nothing can go wrong
				return false
			}
		case "server":
			if a.Frame == nil {
				return false
			}
			switch a.Frame.Type {
			case "next", "errpayload", "complete":
				if a.Frame.Sub < 0 {
					return false
				}
			case "ack", "ping":
				// part of the handshake only (a ping after it is outside what C13/C14 quantify over)
				if apiSeen || acked {
					return false
				}
				if a.Frame.Type == "ack" {
					acked = true
				}
			default:
				return false
			}
		}
	}
	return true
}

func firstLog(tr *Trace, prefix string) string {
	for _, l := range tr.Log {
		if strings.HasPrefix(l, prefix) {
			return l
		}
	}
	return ""
}

// the dial itself succeeded iff the fault was not on operation 1
func dialSucceeded(tr *Trace) bool { return tr.Spec.FaultK != 1 }

func faultHitDuringStart(tr *Trace) bool {
	// operations of a fault-free Start: dial, write init, read ack (+1 per pre-ack frame)
	return tr.Spec.FaultK >= 1 && tr.Spec.FaultK <= 3
}

// ---------- schedule generator ----------
type genState struct {
	r          *core.Rng
	spec       *Spec
	nsubs      int
	subOK      []bool // Subscribe returned ok (approximation used only for generation)
	unsub      []bool
	closed     bool
	lost       bool
	serverMsgs int
}

// GenSpec produces a random schedule: Start (fault-free unless faultK hits it), then a random
// interleaving of API calls, thread steps, server frames, receives.
func GenSpec(r *core.Rng, id int, maxSubs, maxSrv, length int) *Spec {
	sp := &Spec{ID: fmt.Sprintf("r%d", id)}
	sp.ConnParams = r.Chance(0.3)
	sp.CloseAtEnd = r.Chance(0.7)
	if r.Chance(0.25) {
		sp.FaultK = 1 + r.Intn(12)
	}
	sp.FailAfterClose = r.Chance(0.15)
	if sp.FaultK > 3 && r.Chance(0.3) {
		sp.FailFrom = true
	}
	// every third schedule is a conversation in which nothing can go wrong (no fault, no loss,
	// only well-formed frames for known ids)
	// every fifth schedule may go on calling Subscribe after Close (C13: any interleaving of
	// application calls; the conversation grammar of C15 is not judged on those)
	lateCalls := id%5 == 3
	clean := id%3 == 1
	if clean {
		sp.FaultK, sp.FailFrom = 0, false
	}
	acts := []Action{{Op: "call", Kind: "Start", T: "start"}, {Op: "step", T: "start"}, {Op: "step", T: "start"}}
	if r.Chance(0.2) {
		acts = append(acts, Action{Op: "server", Frame: &SrvFrame{Type: r.Pick([]string{"ping", "ping", "garbage"}), Sub: -1}}, Action{Op: "step", T: "start"})
	}
	acts = append(acts, Action{Op: "server", Frame: &SrvFrame{Type: "ack", Sub: -1}}, Action{Op: "step", T: "start"})
	nsubs, nsrv := 0, 0
	unsub := map[int]bool{}
	closed := false
	threads := []string{"reader"}
	for len(acts) < length {
		switch k := r.Intn(100); {
		case k < 10 && nsubs < maxSubs && (!closed || lateCalls):
			name := fmt.Sprintf("sub%d", nsubs)
			acts = append(acts, Action{Op: "call", Kind: "Subscribe", T: name})
			threads = append(threads, name)
			if r.Chance(0.8) {
				acts = append(acts, Action{Op: "step", T: name})
			}
			nsubs++
		case k < 17 && nsubs > 0:
			i := r.Intn(nsubs)
			if !unsub[i] {
				unsub[i] = true
				name := fmt.Sprintf("unsub%d", i)
				acts = append(acts, Action{Op: "call", Kind: "Unsubscribe", T: name, Sub: i})
				threads = append(threads, name)
			}
		case k < 21 && !closed:
			closed = true
			acts = append(acts, Action{Op: "call", Kind: "Close", T: "close"})
			threads = append(threads, "close")
		case k < 45 && nsrv < maxSrv:
			nsrv++
			sub := -1
			if nsubs > 0 && r.Chance(0.9) {
				sub = r.Intn(nsubs)
			}
			typ := r.Pick([]string{"next", "next", "next", "next", "errpayload", "complete", "complete", "error", "badpayload", "garbage", "ping"})
			if clean {
				// nothing that entitles the client to give up
				if typ == "error" || typ == "badpayload" || typ == "garbage" || typ == "ping" {
					typ = "next"
				}
				if sub < 0 {
					if nsubs == 0 {
						continue
					}
					sub = 0
				}
			}
			acts = append(acts, Action{Op: "server", Frame: &SrvFrame{Type: typ, Sub: sub}})
		case k < 47:
			if clean {
				acts = append(acts, Action{Op: "step", T: "reader"})
				continue
			}
			acts = append(acts, Action{Op: "lost"})
		case k < 62 && nsubs > 0:
			acts = append(acts, Action{Op: "recv", Sub: r.Intn(nsubs)})
		case k < 66:
			acts = append(acts, Action{Op: "recverr"})
		default:
			acts = append(acts, Action{Op: "step", T: threads[r.Intn(len(threads))]})
			if r.Chance(0.5) {
				acts = append(acts, Action{Op: "step", T: "reader"})
			}
		}
	}
	sp.Actions = acts
	return sp
}
