//go:build verif

package ws

import (
	"encoding/json"
	"fmt"
	"os"
	"path/filepath"
	"regexp"
	"strings"

	"verifharness/core"
)

func corpusSpecs() []*Spec {
	start := []Action{{Op: "call", Kind: "Start", T: "start"}, {Op: "step", T: "start"}, {Op: "step", T: "start"},
		{Op: "server", Frame: &SrvFrame{Type: "ack", Sub: -1}}, {Op: "step", T: "start"}}
	sub0 := []Action{{Op: "call", Kind: "Subscribe", T: "sub0"}, {Op: "step", T: "sub0"}}
	mk := func(id string, closeAtEnd bool, rest ...Action) *Spec {
		acts := append(append([]Action{}, start...), sub0...)
		return &Spec{ID: id, CloseAtEnd: closeAtEnd, Actions: append(acts, rest...)}
	}
	st := func(t string) Action { return Action{Op: "step", T: t} }
	srv := func(typ string, sub int) Action { return Action{Op: "server", Frame: &SrvFrame{Type: typ, Sub: sub}} }
	return []*Spec{
		mk("k-happy", true, srv("next", 0), st("reader"), st("reader"), st("reader"), Action{Op: "recv", Sub: 0}, srv("next", 0), st("reader"), st("reader"), st("reader"), Action{Op: "recv", Sub: 0}),
		mk("k-unsub-then-close", false, Action{Op: "call", Kind: "Unsubscribe", T: "unsub0", Sub: 0}, st("unsub0"), Action{Op: "call", Kind: "Close", T: "close"}, st("close"), st("close"), st("close")),
		mk("k-complete-twice", true, srv("complete", 0), srv("complete", 0), st("reader"), st("reader"), st("reader"), st("reader"), st("reader"), st("reader"), st("reader")),
		mk("k-next-after-complete", true, srv("complete", 0), srv("next", 0), st("reader"), st("reader"), st("reader"), st("reader"), st("reader"), st("reader"), st("reader")),
		mk("k-unsub-after-complete", true, srv("complete", 0), st("reader"), st("reader"), st("reader"), st("reader"), Action{Op: "call", Kind: "Unsubscribe", T: "unsub0", Sub: 0}, st("unsub0")),
		mk("k-unsub-while-sending", true, srv("next", 0), st("reader"), st("reader"), st("reader"), Action{Op: "call", Kind: "Unsubscribe", T: "unsub0", Sub: 0}, st("unsub0"), st("reader")),
		mk("k-close-while-reader-in-handleErr", false, Action{Op: "lost"}, st("reader"), st("reader"), st("reader"), st("reader"), Action{Op: "call", Kind: "Close", T: "close"}, st("close"), st("close"), st("close")),
		mk("k-stale-lookup-then-unsub", true, srv("next", 0), st("reader"), st("reader"), Action{Op: "call", Kind: "Unsubscribe", T: "unsub0", Sub: 0}, st("unsub0"), st("reader"), st("reader")),
		mk("k-unsub-after-close", false, Action{Op: "call", Kind: "Close", T: "close"}, st("close"), st("close"), st("close"), Action{Op: "call", Kind: "Unsubscribe", T: "unsub0", Sub: 0}, st("unsub0")),
		// a late `next` for a subscription the application has left must be swallowed, also after a
		// further Subscribe: the other subscriptions go on receiving
		mk("k-late-next-after-resubscribe", true, Action{Op: "call", Kind: "Unsubscribe", T: "unsub0", Sub: 0}, st("unsub0"),
			Action{Op: "call", Kind: "Subscribe", T: "sub1"}, st("sub1"),
			srv("next", 0), st("reader"), st("reader"), st("reader"),
			srv("next", 1), st("reader"), st("reader"), st("reader"), Action{Op: "recv", Sub: 1},
			srv("next", 1), st("reader"), st("reader"), st("reader"), Action{Op: "recv", Sub: 1}),
		mk("k-late-next-after-server-complete-and-resubscribe", true, srv("complete", 0), st("reader"), st("reader"), st("reader"), st("reader"),
			Action{Op: "call", Kind: "Subscribe", T: "sub1"}, st("sub1"),
			srv("next", 0), st("reader"), st("reader"), st("reader"),
			srv("next", 1), st("reader"), st("reader"), st("reader"), Action{Op: "recv", Sub: 1}),
		{ID: "k-close-write-fails", FailAfterClose: true, Actions: append(append(append([]Action{}, start...), sub0...), Action{Op: "call", Kind: "Close", T: "close"}, st("close"), st("close"), st("close"))},
	}
}

// faultSweep: the k-th connection operation fails, for every k over a fixed API sequence.
func faultSweep() []*Spec {
	var out []*Spec
	base := []Action{{Op: "call", Kind: "Start", T: "start"}, {Op: "step", T: "start"}, {Op: "step", T: "start"},
		{Op: "server", Frame: &SrvFrame{Type: "ping", Sub: -1}}, {Op: "step", T: "start"},
		{Op: "server", Frame: &SrvFrame{Type: "ack", Sub: -1}}, {Op: "step", T: "start"},
		{Op: "call", Kind: "Subscribe", T: "sub0"}, {Op: "step", T: "sub0"},
		{Op: "call", Kind: "Subscribe", T: "sub1"}, {Op: "step", T: "sub1"},
		{Op: "server", Frame: &SrvFrame{Type: "next", Sub: 0}}, {Op: "step", T: "reader"}, {Op: "step", T: "reader"}, {Op: "step", T: "reader"}, {Op: "recv", Sub: 0},
		{Op: "call", Kind: "Unsubscribe", T: "unsub0", Sub: 0}, {Op: "step", T: "unsub0"},
		{Op: "call", Kind: "Subscribe", T: "sub2"}, {Op: "step", T: "sub2"},
		{Op: "call", Kind: "Close", T: "close"}, {Op: "step", T: "close"}, {Op: "step", T: "close"}, {Op: "step", T: "close"}, {Op: "step", T: "close"}, {Op: "step", T: "close"},
	}
	for k := 1; k <= 14; k++ {
		for _, fac := range []bool{false, true} {
			out = append(out, &Spec{ID: fmt.Sprintf("fault%d-%v", k, fac), FaultK: k, FailAfterClose: fac, CloseAtEnd: true, ConnParams: k%2 == 0, Actions: base})
		}
		if k > 3 {
			// the connection dies at its k-th operation
			out = append(out, &Spec{ID: fmt.Sprintf("dead-from-%d", k), FaultK: k, FailFrom: true, CloseAtEnd: true, Actions: base})
		}
	}
	return out
}

// startRetryLeg (C15): Start fails at its k-th connection operation (k = 2: the init write,
// k = 3: the read of the acknowledgement), the application calls Start AGAIN.  "Start ...
// leave[s] no ... open connection behind" and "connection_init first, then, only after an
// acknowledgement, subscribe frames": the retry is a new conversation on a new connection --
// it dials again, writes connection_init and reads the acknowledgement before it reports success.
func startRetryLeg(res *core.Result) {
	// runs a call to its end: steps it as long as it stops at yield points
	finish := func(s *Sched, name string, c *CallResult) {
		for i := 0; i < 200 && !c.Done; i++ {
			if !s.Step(name) {
				s.quiesce(settle)
				if !s.Step(name) {
					break
				}
			}
		}
		s.quiesce(settle)
	}
	// (a) Close right after the failed Start (a deferred Close): it returns, without a panic
	for _, k := range []int{2, 3} {
		func() {
			s := NewSched(k, false, nil)
			defer s.Detach()
			id := fmt.Sprintf("start-fault%d-then-close", k)
			res.Count(id, true)
			res.Dist("start-fault-then-close")
			c1 := s.CallStart("start")
			s.Step("start")
			s.Step("start")
			if k == 3 {
				s.ServerSend([]byte(`{"type":"connection_ack"}`))
				s.Step("start")
			}
			finish(s, "start", c1) // whatever Start still does on its way out
			if !c1.Done || c1.Err == "" {
				return
			}
			cc := s.CallClose("close")
			finish(s, "close", cc)
			rp := map[string]interface{}{"start_retry_fault_k": k}
			if cc.Panic != "" {
				res.Fail(core.Failure{Case: id, Class: "C15/close-after-failed-start-panic",
					What: fmt.Sprintf("Start failed at connection operation %d; the Close that follows (a deferred Close) panicked: %s", k, cc.Panic), Replay: rp})
			}
		}()
	}
	for _, k := range []int{2, 3} {
		func() {
			s := NewSched(k, false, nil)
			defer s.Detach()
			id := fmt.Sprintf("start-retry-fault%d", k)
			res.Count(id, true)
			res.Dist("start-retry")
			c1 := s.CallStart("start")
			s.Step("start") // dial
			s.Step("start") // write connection_init (fails for k = 2)
			if k == 3 {
				s.ServerSend([]byte(`{"type":"connection_ack"}`))
				s.Step("start") // the read fails
			}
			finish(s, "start", c1) // whatever Start still does on its way out
			if !c1.Done || c1.Err == "" {
				return // the fault did not make Start fail: judged by the every-k sweep, not here
			}
			s.mu.Lock()
			dialedBefore, framesBefore := s.Dialed, len(s.Frames)
			s.mu.Unlock()
			c2 := s.CallStart("start2")
			s.Step("start2") // dial
			s.Step("start2") // write connection_init
			s.ServerSend([]byte(`{"type":"connection_ack"}`))
			s.Step("start2") // read the acknowledgement
			s.quiesce(settle)
			s.mu.Lock()
			dialed := s.Dialed
			var newFrames []Frame
			if len(s.Frames) > framesBefore {
				newFrames = append(newFrames, s.Frames[framesBefore:]...)
			}
			s.mu.Unlock()
			rp := map[string]interface{}{"start_retry_fault_k": k}
			if c2.Panic != "" {
				res.Fail(core.Failure{Case: id, Class: "C15/start-retry-panic", What: "the second Start panicked: " + c2.Panic, Replay: rp})
				return
			}
			if !c2.Done {
				res.Fail(core.Failure{Case: id, Class: "C15/start-retry-stuck", What: "the second Start did not return although dial, init write and acknowledgement were all served", Replay: rp})
				return
			}
			if c2.Err != "" {
				return // refusing a retry is not against the property
			}
			if dialed != dialedBefore+1 {
				res.Fail(core.Failure{Case: id, Class: "C15/start-retry-on-dead-connection",
					What: fmt.Sprintf("Start failed at connection operation %d (the connection was closed), a second Start reported success without dialling again (%d dial(s) in all): everything that follows is written to the dead connection, without connection_init and acknowledgement", k, dialed), Replay: rp})
				return
			}
			if len(newFrames) == 0 || newFrames[0].Type != "connection_init" {
				res.Fail(core.Failure{Case: id, Class: "C15/start-retry-without-init",
					What: fmt.Sprintf("the second Start reported success without writing connection_init first on the new connection (frames: %v)", newFrames), Replay: rp})
			}
			// (b) the Close that ends the retried session: no panic, and the SECOND connection is
			// closed (the first attempt must have left nothing behind that makes Close give up)
			s.mu.Lock()
			closesBefore := s.ConnCloses
			s.mu.Unlock()
			cc := s.CallClose("close")
			finish(s, "close", cc)
			s.mu.Lock()
			closesAfter := s.ConnCloses
			s.mu.Unlock()
			if cc.Panic != "" {
				res.Fail(core.Failure{Case: id, Class: "C15/close-after-start-retry-panic",
					What: fmt.Sprintf("Start failed at connection operation %d, the second Start succeeded; the Close of that session panicked: %s (connection closed: %v)", k, cc.Panic, closesAfter > closesBefore), Replay: rp})
				return
			}
			if cc.Done && closesAfter == closesBefore {
				res.Fail(core.Failure{Case: id, Class: "C15/close-after-start-retry-leaks-connection",
					What: fmt.Sprintf("Start failed at connection operation %d, the second Start succeeded; Close returned without closing the second connection", k), Replay: rp})
			}
		}()
	}
}

// RunFor explores schedules and reports the findings of one property.
func RunFor(prop string) func(tier string, seed int64, outDir string, replay string) (*core.Result, error) {
	return func(tier string, seed int64, outDir string, replay string) (*core.Result, error) {
		res := core.NewResult(prop, tier, seed)
		res.Rule = "schedules of the real WebSocket client under a deterministic controller (yield hooks + scripted connection + paused forwarder): fixed corpus of known-bad interleavings, an every-k connection-fault sweep (with and without writes failing after the close frame, and with a connection that is dead from its k-th operation on), a Start that is retried after a failed handshake (C15), and random schedules (<=3 subscriptions, <=8 server frames incl. next/complete/error/malformed/unknown id, one Unsubscribe per id, one Close, connection loss, receives, thread steps at lock/lookup/send granularity) followed by a drain (all writes complete; helpful application); non-trivial = Start was attempted; distinct by action list + fault plan"
		if replay != "" {
			data, err := os.ReadFile(replay)
			if err != nil {
				return nil, err
			}
			var leg struct {
				Replay struct {
					K int `json:"start_retry_fault_k"`
				} `json:"replay"`
			}
			if json.Unmarshal(data, &leg) == nil && leg.Replay.K > 0 {
				startRetryLeg(res)
				return res, nil
			}
			var wrap struct {
				Replay Spec `json:"replay"`
			}
			if err := json.Unmarshal(data, &wrap); err != nil {
				return nil, err
			}
			tr := Exec(&wrap.Replay)
			tb, _ := json.MarshalIndent(tr, "", " ")
			fmt.Printf("replay trace:\n%s\n", tb)
			for _, f := range Judge(tr) {
				if f.Prop == prop {
					res.Fail(core.Failure{Case: wrap.Replay.ID, Class: f.Class, What: f.What, Replay: &wrap.Replay})
				}
			}
			res.Count(wrap.Replay.ID, true)
			return res, nil
		}
		if prop == "C15" {
			startRetryLeg(res)
		}
		n := 400
		if tier == "thorough" {
			n = 6000
		}
		rng := core.NewRng(seed)
		specs := append(corpusSpecs(), faultSweep()...)
		for i := 0; i < n; i++ {
			specs = append(specs, GenSpec(rng, i, 3, 8, 20+rng.Intn(30)))
		}
		var wsCases, startCases []string
		caseIndex := map[string]interface{}{}
		res.Extra["case_index"] = caseIndex
		for i, sp := range specs {
			tr := Exec(sp)
			if t := wsCaseTerm(i, tr); t != "" {
				wsCases = append(wsCases, t)
				caseIndex[fmt.Sprint(i)] = sp
			}
			if t := startCaseTerm(i, tr); t != "" {
				startCases = append(startCases, t)
				caseIndex[fmt.Sprint(i)] = sp
			}
			key, _ := json.Marshal(sp)
			res.Count(string(key), true)
			res.Dist(fmt.Sprintf("subs:%d", len(tr.Subs)))
			if sp.FaultK > 0 {
				res.Dist("fault:kth-op")
			}
			if tr.ReaderPanic != "" {
				res.Dist("reader-panic")
			}
			res.Dist("reader_end:" + strings.SplitN(tr.ReaderEnd, "@", 2)[0])
			if i%131 == 0 {
				res.Sample(map[string]interface{}{"spec": sp, "frames": tr.Frames, "subs": tr.Subs, "calls": tr.Calls, "reader_end": tr.ReaderEnd})
			}
			for _, f := range Judge(tr) {
				if f.Prop == prop {
					res.Fail(core.Failure{Case: sp.ID, Class: f.Class, What: f.What, Replay: sp})
				}
			}
		}
		shard := 100
		for k := 0; k*shard < len(wsCases); k++ {
			end := (k + 1) * shard
			if end > len(wsCases) {
				end = len(wsCases)
			}
			var sb strings.Builder
			sb.WriteString("From Verif Require Import Base.Str Rt.Ws Corr.Wscorr.\n")
			sb.WriteString("Definition cases : list ws_case := [\n" + strings.Join(wsCases[k*shard:end], ";\n") + "\n].\n")
			sb.WriteString("Definition MISMATCH := Eval vm_compute in ws_mismatches cases.\nPrint MISMATCH.\n")
			sb.WriteString("Definition SPECFAIL := Eval vm_compute in ws_specfails cases.\nPrint SPECFAIL.\n")
			name := filepath.Join(outDir, fmt.Sprintf("cases_%d.v", k))
			if err := os.WriteFile(name, []byte(sb.String()), 0o644); err != nil {
				return nil, err
			}
			res.CasesV = append(res.CasesV, name)
		}
		if len(startCases) > 0 {
			var sb strings.Builder
			sb.WriteString("From Verif Require Import Base.Str Rt.Ws Corr.Wscorr.\n")
			sb.WriteString("Definition cases : list start_case := [\n" + strings.Join(startCases, ";\n") + "\n].\n")
			sb.WriteString("Definition MISMATCH := Eval vm_compute in start_mismatches cases.\nPrint MISMATCH.\n")
			name := filepath.Join(outDir, "cases_start.v")
			if err := os.WriteFile(name, []byte(sb.String()), 0o644); err != nil {
				return nil, err
			}
			res.CasesV = append(res.CasesV, name)
		}
		res.ModelCases = len(wsCases) + len(startCases)
		res.Extra["ws_model_cases"] = len(wsCases)
		res.Extra["start_model_cases"] = len(startCases)
		return res, nil
	}
}

var payloadNum = regexp.MustCompile(`(?:"n":|:e)(\d+)`)

func wsCaseTerm(idx int, tr *Trace) string {
	if !tr.ModelOn || len(tr.Performed) == 0 {
		return ""
	}
	var acts []string
	for _, p := range tr.Performed {
		acts = append(acts, "("+p.Label+", "+p.Obs+")")
	}
	var del []string
	for _, st := range tr.Subs {
		var ps []string
		for _, d := range st.Delivered {
			m := payloadNum.FindStringSubmatch(d)
			if m == nil {
				return ""
			}
			ps = append(ps, m[1]+"%N")
		}
		del = append(del, "["+strings.Join(ps, "; ")+"]")
	}
	var oks []string
	for _, b := range tr.APIOK {
		oks = append(oks, fmt.Sprint(b))
	}
	// the frames written after the handshake, as the model's wframe terms
	frames := "Some ["
	for i, f := range tr.Frames {
		if f.Type == "connection_init" && i == 0 {
			continue
		}
		t := ""
		switch {
		case f.MsgType == 8:
			t = "WClose"
		case f.Type == "subscribe" && f.Sub >= 0:
			t = fmt.Sprintf("WSubscribe %d", f.Sub)
		case f.Type == "complete" && f.Sub >= 0:
			t = fmt.Sprintf("WComplete %d", f.Sub)
		}
		if t == "" {
			frames = ""
			break
		}
		if !strings.HasSuffix(frames, "[") {
			frames += "; "
		}
		frames += t
	}
	if frames == "" {
		frames = "None"
	} else {
		frames += "]"
	}
	return fmt.Sprintf("{| w_id := %d; w_acts := [%s]; w_delivered := [%s]; w_api_ok := [%s]; w_frames := %s |}",
		idx, strings.Join(acts, ";\n  "), strings.Join(del, "; "), strings.Join(oks, "; "), frames)
}

func startCaseTerm(idx int, tr *Trace) string {
	if !tr.StartDone || len(tr.StartOps) == 0 {
		return ""
	}
	var ops []string
	for _, o := range tr.StartOps {
		ops = append(ops, fmt.Sprintf("(%v, %v, %v)", o.Fault, o.Frame == "connection_ack", o.Frame == "garbage"))
	}
	closes := tr.ConnCloses
	if tr.StartOK {
		closes = 0 // later closes belong to Close, not to Start
	}
	return fmt.Sprintf("{| sc_id := %d; sc_ops := [%s]; sc_ok := %v; sc_closes := %d%%nat; sc_reader := %v |}",
		idx, strings.Join(ops, "; "), tr.StartOK, closes, tr.ReaderEnd != "none")
}
