//go:build verif

// Package ws: deterministic controller for the real WebSocket subscription client.
// Every goroutine of the client is stopped at named pause points (the verif yield hooks,
// the scripted connection's operations, the forwarder just before its channel send); a
// schedule is a list of actions, each releasing one thread up to its next pause point or
// performing an environment step (server frame, connection loss, application receive).
package ws

import (
	"bytes"
	"context"
	"encoding/json"
	"errors"
	"fmt"
	"net/http"
	"runtime"
	"strconv"
	"sync"
	"time"

	"github.com/Khan/genqlient/graphql"
	"github.com/vektah/gqlparser/v2/gqlerror"
)

func gid() int64 {
	var buf [64]byte
	n := runtime.Stack(buf[:], false)
	f := bytes.Fields(buf[:n])
	id, _ := strconv.ParseInt(string(f[1]), 10, 64)
	return id
}

type resumeMsg struct {
	err  error  // for connection operations: the fault to return
	data []byte // for reads: the frame
}

type Thread struct {
	Name    string
	state   string // running | paused | done
	Point   string // where it is paused
	Detail  string
	resume  chan resumeMsg
	Result  *CallResult
	steps   int
}

type CallResult struct {
	Kind   string `json:"kind"`
	Arg    int    `json:"arg"`
	Err    string `json:"err,omitempty"`
	Panic  string `json:"panic,omitempty"`
	SubIdx int    `json:"sub_idx"`
	Done   bool   `json:"done"`
}

// Message delivered on a subscription channel (mirror of the generated <Op>WsResponse).
type Msg struct {
	Data       *json.RawMessage       `json:"data"`
	Extensions map[string]interface{} `json:"extensions,omitempty"`
	Errors     gqlerror.List          `json:"errors,omitempty"`
}

type Sub struct {
	Idx       int
	ID        string // "" until Subscribe returned / frame seen
	Ch        chan Msg
	Delivered []string // payloads (data JSON or "errors:<n>") received by the application
	Closed    bool     // application observed the close
}

type Frame struct {
	MsgType int    `json:"mt"`
	Type    string `json:"type,omitempty"`
	ID      string `json:"id,omitempty"`
	Payload string `json:"payload,omitempty"`
	Sub     int    `json:"sub"` // index of the subscription the id belongs to, -1 unknown
}

type Sched struct {
	mu      sync.Mutex
	cond    *sync.Cond
	byGid   map[int64]*Thread
	Threads map[string]*Thread
	order   []string

	client   graphql.WebSocketClient
	errChan  chan error
	inbound  [][]byte
	lost     bool
	opCount  int // completed connection operations (dial, write, read)
	FaultK   int // the k-th connection operation fails (1-based); 0 none
	FailAfterClose bool // writes fail once a close frame was written
	FailFrom bool // every connection operation from the FaultK-th on fails
	closeFrameWritten bool

	Frames     []Frame
	ConnCloses int
	Dialed     int
	Subs       []*Sub
	ReaderPanic string
	ReaderPanicPoint string
	lastFrameType string
	ErrsSeen   []string
	ErrChanClosed bool
	Log        []string
	connParams map[string]interface{}
}

var errFault = errors.New("verif: injected connection fault")
var errLost = errors.New("verif: connection lost")

var active *Sched
var activeMu sync.Mutex

func NewSched(faultK int, failAfterClose bool, connParams map[string]interface{}) *Sched {
	s := &Sched{byGid: map[int64]*Thread{}, Threads: map[string]*Thread{}, FaultK: faultK,
		FailAfterClose: failAfterClose, connParams: connParams}
	s.cond = sync.NewCond(&s.mu)
	activeMu.Lock()
	active = s
	activeMu.Unlock()
	graphql.VerifYield = func(point string) {
		activeMu.Lock()
		a := active
		activeMu.Unlock()
		if a != nil {
			a.yield(point)
		}
	}
	graphql.VerifPanic = func(v interface{}) {
		activeMu.Lock()
		a := active
		activeMu.Unlock()
		if a != nil {
			a.mu.Lock()
			a.ReaderPanic = fmt.Sprint(v)
			if t := a.thread(); t != nil {
				a.ReaderPanicPoint = t.Point
				if t.Point == "conn.read" || t.Point == "reader.afterLookup" {
					a.ReaderPanicPoint = t.Point + ":" + a.lastFrameType
				}
			}
			a.logf("reader panic: %v", v)
			a.mu.Unlock()
		}
	}
	var opts []graphql.WebSocketOption
	if connParams != nil {
		opts = append(opts, graphql.WithConnectionParams(connParams))
	}
	s.client = graphql.NewClientUsingWebSocket("ws://verif/graphql", &dialer{s}, opts...)
	return s
}

func (s *Sched) logf(format string, a ...interface{}) {
	if len(s.Log) < 400 {
		s.Log = append(s.Log, fmt.Sprintf(format, a...))
	}
}

// Detach stops this controller from receiving hook calls; leftover goroutines of a finished
// schedule then run freely (and end or stay blocked without being observed).
func (s *Sched) Detach() {
	activeMu.Lock()
	if active == s {
		active = nil
	}
	activeMu.Unlock()
	s.mu.Lock()
	for _, t := range s.Threads {
		if t.state == "paused" {
			t.state = "running"
			select {
			case t.resume <- resumeMsg{err: errLost}:
			default:
			}
		}
	}
	s.mu.Unlock()
}

func (s *Sched) thread() *Thread {
	g := gid()
	t := s.byGid[g]
	return t
}

// pause is called on the client's own goroutines.
func (s *Sched) pause(point, detail string, readerIfUnknown bool) resumeMsg {
	s.mu.Lock()
	t := s.thread()
	if t == nil {
		if !readerIfUnknown {
			s.mu.Unlock()
			return resumeMsg{}
		}
		name := "reader"
		if _, dup := s.Threads[name]; dup {
			name = fmt.Sprintf("reader%d", len(s.Threads))
		}
		t = &Thread{Name: name, resume: make(chan resumeMsg, 1)}
		s.byGid[gid()] = t
		s.Threads[name] = t
		s.order = append(s.order, name)
	}
	t.state = "paused"
	t.Point = point
	t.Detail = detail
	s.cond.Broadcast()
	s.mu.Unlock()
	m := <-t.resume
	return m
}

func (s *Sched) yield(point string) {
	activeMu.Lock()
	isActive := active == s
	activeMu.Unlock()
	if !isActive {
		return
	}
	s.pause(point, "", point[:6] == "reader" || point[:6] == "handle")
	if point == "reader.exit" {
		s.mu.Lock()
		if t := s.thread(); t != nil {
			t.state = "done"
			t.Point = "done"
			s.cond.Broadcast()
		}
		s.mu.Unlock()
	}
}

// quiesce waits until no registered thread is running, or the timeout passes; it
// returns the names of threads still running (blocked on something outside the controller's
// view: the client mutex or the error-channel send).
func (s *Sched) quiesce(timeout time.Duration) []string {
	deadline := time.Now().Add(timeout)
	for {
		s.mu.Lock()
		var running []string
		for _, n := range s.order {
			if s.Threads[n].state == "running" {
				running = append(running, n)
			}
		}
		s.mu.Unlock()
		if len(running) == 0 {
			return nil
		}
		if time.Now().After(deadline) {
			// still running after the settle time: blocked on something the controller does not
			// control (client mutex, error-channel send); do not wait for it again until it shows up
			s.mu.Lock()
			for _, n := range running {
				if s.Threads[n].state == "running" {
					s.Threads[n].state = "blocked"
				}
			}
			s.mu.Unlock()
			return running
		}
		time.Sleep(50 * time.Microsecond)
	}
}

const settle = 40 * time.Millisecond

// ---- scripted connection ----
type dialer struct{ s *Sched }

func (d *dialer) DialContext(ctx context.Context, url string, h http.Header) (graphql.WSConn, error) {
	s := d.s
	m := s.pause("conn.dial", "", false)
	s.mu.Lock()
	s.Dialed++
	s.mu.Unlock()
	if m.err != nil {
		return nil, m.err
	}
	return &conn{s}, nil
}

type conn struct{ s *Sched }

func (c *conn) WriteMessage(mt int, data []byte) error {
	s := c.s
	f := Frame{MsgType: mt, Sub: -1}
	if mt == 1 {
		var w struct {
			Type    string          `json:"type"`
			ID      string          `json:"id"`
			Payload json.RawMessage `json:"payload"`
		}
		_ = json.Unmarshal(data, &w)
		f.Type, f.ID, f.Payload = w.Type, w.ID, string(w.Payload)
	} else if mt == 8 {
		f.Type = "close"
	}
	if f.Type == "subscribe" && f.ID != "" {
		// the fresh id is learnt here (whether or not the write will succeed)
		s.mu.Lock()
		if t := s.thread(); t != nil && t.Result != nil && t.Result.Kind == "Subscribe" && s.Subs[t.Result.SubIdx].ID == "" {
			s.Subs[t.Result.SubIdx].ID = f.ID
		}
		s.mu.Unlock()
	}
	m := s.pause("conn.write", f.Type+":"+f.ID, false)
	if m.err != nil {
		return m.err
	}
	s.mu.Lock()
	if f.ID != "" {
		for _, sub := range s.Subs {
			if sub.ID == f.ID {
				f.Sub = sub.Idx
			}
		}
	}
	if mt == 8 {
		s.closeFrameWritten = true
	}
	s.Frames = append(s.Frames, f)
	s.mu.Unlock()
	return nil
}

func (c *conn) ReadMessage() (int, []byte, error) {
	m := c.s.pause("conn.read", "", true)
	if m.err != nil {
		return 0, nil, m.err
	}
	return 1, m.data, nil
}

func (c *conn) Close() error {
	c.s.mu.Lock()
	c.s.ConnCloses++
	c.s.mu.Unlock()
	return nil
}

// forward mirrors the generated <Op>ForwardData, with a pause just before the channel send.
func (s *Sched) forwarder(idx int) graphql.ForwardDataFunction {
	return func(interfaceChan interface{}, raw json.RawMessage) error {
		var gqlResp graphql.Response
		var wsResp Msg
		if err := json.Unmarshal(raw, &gqlResp); err != nil {
			return err
		}
		if len(gqlResp.Errors) == 0 {
			if err := json.Unmarshal(raw, &wsResp); err != nil {
				return err
			}
		} else {
			wsResp.Errors = gqlResp.Errors
		}
		ch, ok := interfaceChan.(chan Msg)
		if !ok {
			return errors.New("failed to cast interface into 'chan Msg'")
		}
		s.pause("forward.beforeSend", strconv.Itoa(idx), true)
		ch <- wsResp
		return nil
	}
}

// ---- actions ----

// faultFor decides, at the moment a connection operation is released, whether it fails.
func (s *Sched) faultFor(isWrite bool) error {
	s.opCount++
	if s.FaultK > 0 && (s.opCount == s.FaultK || (s.FailFrom && s.opCount > s.FaultK)) {
		return errFault
	}
	if isWrite && s.FailAfterClose && s.closeFrameWritten {
		return errFault
	}
	return nil
}

// Enabled reports whether Step(name) can make progress.
func (s *Sched) Enabled(name string) bool {
	s.mu.Lock()
	defer s.mu.Unlock()
	t := s.Threads[name]
	if t == nil || t.state != "paused" {
		return false
	}
	switch t.Point {
	case "conn.read":
		return len(s.inbound) > 0 || s.lost || s.ConnCloses > 0
	case "forward.beforeSend":
		// blocked in the channel send: only the application's receive moves it
		return false
	case "close.beforeLock", "handleErr.beforeLock", "reader.loop":
		return !s.mutexHeldLocked()
	}
	return true
}

// the client mutex is held across a pause only by a reader stopped at handleErr.locked
func (s *Sched) mutexHeldLocked() bool {
	for _, n := range s.order {
		t := s.Threads[n]
		if (t.state == "paused" || t.state == "blocked") && t.Point == "handleErr.locked" {
			return true
		}
	}
	return false
}

func (s *Sched) chanClosedLocked(idx int) bool {
	return idx < len(s.Subs) && s.Subs[idx].Closed
}

// StepInfo describes the released pause point.
type StepInfo struct {
	Point, Detail string
	Fault         bool // an injected fault
	ErrAny        bool // the operation returned any error (fault or connection loss)
}

// Step releases a paused thread up to its next pause point.
func (s *Sched) Step(name string) bool { _, ok := s.StepX(name); return ok }

func (s *Sched) StepX(name string) (StepInfo, bool) {
	s.mu.Lock()
	t := s.Threads[name]
	if t == nil || t.state != "paused" {
		s.mu.Unlock()
		return StepInfo{}, false
	}
	info := StepInfo{Point: t.Point, Detail: t.Detail}
	var m resumeMsg
	switch t.Point {
	case "conn.dial":
		m.err = s.faultFor(false)
	case "conn.write":
		m.err = s.faultFor(true)
	case "conn.read":
		if len(s.inbound) > 0 {
			if err := s.faultFor(false); err != nil {
				m.err = err
			} else {
				m.data = s.inbound[0]
				s.inbound = s.inbound[1:]
				var ft struct {
					Type string `json:"type"`
				}
				if json.Unmarshal(m.data, &ft) != nil {
					ft.Type = "garbage"
				}
				s.lastFrameType = ft.Type
			}
		} else {
			m.err = errLost
			s.opCount++
		}
	}
	s.logf("step %s @%s %s", name, t.Point, t.Detail)
	info.Fault = m.err != nil && m.err != errLost
	info.ErrAny = m.err != nil
	t.state = "running"
	t.steps++
	s.mu.Unlock()
	t.resume <- m
	s.quiesce(settle)
	return info, true
}

// WaitReader waits until the reader goroutine has reached its first pause point.
func (s *Sched) WaitReader() bool {
	deadline := time.Now().Add(time.Second)
	for time.Now().Before(deadline) {
		s.mu.Lock()
		t := s.Threads["reader"]
		ok := t != nil && t.state == "paused"
		s.mu.Unlock()
		if ok {
			return true
		}
		time.Sleep(50 * time.Microsecond)
	}
	return false
}

func (s *Sched) spawn(name string, res *CallResult, f func() error) {
	t := &Thread{Name: name, resume: make(chan resumeMsg, 1), Result: res, state: "running"}
	s.mu.Lock()
	s.Threads[name] = t
	s.order = append(s.order, name)
	s.logf("call %s", name)
	s.mu.Unlock()
	started := make(chan struct{})
	go func() {
		s.mu.Lock()
		s.byGid[gid()] = t
		s.mu.Unlock()
		close(started)
		defer func() {
			if v := recover(); v != nil {
				res.Panic = fmt.Sprint(v)
			}
			s.mu.Lock()
			res.Done = true
			t.state = "done"
			t.Point = "done"
			s.cond.Broadcast()
			s.mu.Unlock()
		}()
		if err := f(); err != nil {
			res.Err = err.Error()
		}
	}()
	<-started
	s.quiesce(settle)
}

func (s *Sched) CallStart(name string) *CallResult {
	res := &CallResult{Kind: "Start"}
	s.spawn(name, res, func() error {
		ch, err := s.client.Start(context.Background())
		s.mu.Lock()
		s.errChan = ch
		s.mu.Unlock()
		return err
	})
	return res
}

func (s *Sched) CallSubscribe(name string, query string) *CallResult {
	s.mu.Lock()
	sub := &Sub{Idx: len(s.Subs), Ch: make(chan Msg)}
	s.Subs = append(s.Subs, sub)
	s.mu.Unlock()
	res := &CallResult{Kind: "Subscribe", SubIdx: sub.Idx}
	s.spawn(name, res, func() error {
		id, err := s.client.Subscribe(&graphql.Request{Query: query, OpName: "S"}, sub.Ch, s.forwarder(sub.Idx))
		if err == nil {
			s.mu.Lock()
			sub.ID = id
			s.mu.Unlock()
		}
		return err
	})
	return res
}

func (s *Sched) CallUnsubscribe(name string, idx int) *CallResult {
	res := &CallResult{Kind: "Unsubscribe", Arg: idx, SubIdx: idx}
	s.mu.Lock()
	id := ""
	if idx < len(s.Subs) {
		id = s.Subs[idx].ID
	}
	s.mu.Unlock()
	s.spawn(name, res, func() error { return s.client.Unsubscribe(id) })
	return res
}

func (s *Sched) CallClose(name string) *CallResult {
	res := &CallResult{Kind: "Close"}
	s.spawn(name, res, func() error { return s.client.Close() })
	return res
}

func (s *Sched) ServerSend(frame []byte) {
	s.mu.Lock()
	s.inbound = append(s.inbound, frame)
	s.logf("server sends %s", frame)
	s.mu.Unlock()
}

func (s *Sched) ConnLost() {
	s.mu.Lock()
	s.lost = true
	s.logf("connection lost")
	s.mu.Unlock()
}

func describe(m Msg) string {
	if len(m.Errors) > 0 {
		return fmt.Sprintf("errors:%d:%s", len(m.Errors), m.Errors[0].Message)
	}
	if m.Data == nil {
		return "data:null"
	}
	return "data:" + string(*m.Data)
}

// AppRecv: the application receives once from subscription idx's channel (waiting briefly).
// Returns what happened: "msg", "closed", "none".
func (s *Sched) AppRecv(idx int) string {
	s.mu.Lock()
	if idx >= len(s.Subs) {
		s.mu.Unlock()
		return "none"
	}
	sub := s.Subs[idx]
	// release a reader paused right before the send on this channel
	var rt *Thread
	for _, n := range s.order {
		t := s.Threads[n]
		if t.state == "paused" && t.Point == "forward.beforeSend" && t.Detail == strconv.Itoa(idx) {
			rt = t
		}
	}
	if rt != nil {
		rt.state = "running"
		rt.steps++
		s.logf("app receives on %d (releasing %s)", idx, rt.Name)
	}
	s.mu.Unlock()
	if rt != nil {
		rt.resume <- resumeMsg{}
	}
	var out string
	wait := 200 * time.Microsecond
	if rt != nil {
		wait = settle
	}
	select {
	case m, ok := <-sub.Ch:
		s.mu.Lock()
		if ok {
			sub.Delivered = append(sub.Delivered, describe(m))
			out = "msg"
		} else {
			sub.Closed = true
			out = "closed"
		}
		s.mu.Unlock()
	case <-time.After(wait):
		out = "none"
	}
	s.quiesce(settle)
	return out
}

func (s *Sched) AppRecvErr() string {
	s.mu.Lock()
	ch := s.errChan
	s.mu.Unlock()
	if ch == nil {
		return "none"
	}
	var out string
	select {
	case e, ok := <-ch:
		s.mu.Lock()
		if ok {
			s.ErrsSeen = append(s.ErrsSeen, e.Error())
			out = "err"
		} else {
			s.ErrChanClosed = true
			out = "closed"
		}
		s.mu.Unlock()
	case <-time.After(2 * time.Millisecond):
		out = "none"
	}
	s.quiesce(settle)
	return out
}

// Snapshot of thread states.
func (s *Sched) States() map[string]string {
	s.mu.Lock()
	defer s.mu.Unlock()
	out := map[string]string{}
	for _, n := range s.order {
		t := s.Threads[n]
		st := t.state
		if st == "paused" {
			st = "paused@" + t.Point
		}
		out[n] = st
	}
	return out
}

func (s *Sched) ThreadNames() []string {
	s.mu.Lock()
	defer s.mu.Unlock()
	return append([]string(nil), s.order...)
}
