//go:build !verif

package ws

import (
	"errors"

	"verifharness/core"
)

// Without the verif build tag the hooks do not exist; the drivers refuse to run.
func RunFor(prop string) func(tier string, seed int64, outDir string, replay string) (*core.Result, error) {
	return func(string, int64, string, string) (*core.Result, error) {
		return nil, errors.New("ws drivers need -tags verif")
	}
}
