"""Per-property metadata used by ./check (Coq targets, trusted base, theorem status)."""

COMMON_TRUSTED = [
    "Coq 8.16.1 kernel (coqc), vm_compute (used in finite sweeps, refutation witnesses and the in-kernel correspondence); no native_compute",
    "axioms: none declared; Print Assumptions of every property theorem is re-run on every check and must be 'Closed under the global context'",
    "grep gate over coq/**/*.v on every check: Admitted|admit|Axiom|Parameter|Conjecture|Hypothesis/Variable outside a Section|Unset Guard|bypass_check|type-in-type",
    "translator harness/cmd/consts2v (go/ast over literals and constants, text search over templates) regenerates coq/Gen/Consts.v from /repo on every run",
    "correspondence harness (Go, harness/): generators, observers (go/ast reader of emitted code, stub clients/connections), coqfmt term printer; differential testing, not proof",
    "no extraction is used by the registered checks: the model is evaluated by coqc/vm_compute on cases files",
    "modelled rather than verified: the Gallina models under coq/Gen and coq/Rt are hand-written from /repo's Go source; agreement is established only by the per-run correspondence on generated cases",
]

PROPS = {
    "C16": {
        "coq": ["Properties/C16.v", "Corr/C16corr.v"],
        "trusted": [
            "ASCII-only GraphQL names (lexer grammar): unicode.ToUpper/ToLower modelled as ASCII case mapping",
            "go/parser + go/ast used to read the emitted declarations; gqlparser's schema parser/validator as the front end",
        ],
        "assumptions": ["enum type names that consist only of underscores are outside the generator (they yield an empty Go identifier; C01's naming hypothesis)"],
        "level_text": "Theorems over all casing configurations, type names and value lists (no bound): accepted => constants are a bijection with the schema values in order with the documented names; rejected <=> two positions clash; raw never clashes. Tied to the code by evaluating the model and the specification in the Coq kernel on hundreds of generated enums per run against what generate.Generate really emitted.",
        "level_note": "Trusted: Coq kernel + vm_compute; hand-written model of util.go/names.go/convert.go(enum case)/types.go(enum writer) validated by per-run correspondence; ASCII names; go/parser as observer; gqlparser front end.",
        "theorem_status": {"C16_ok_bijection": "proved", "C16_err_iff_clash": "proved", "C16_total": "proved",
                           "C16_raw_injective": "proved", "C16_emitted_bijection": "proved"},
    },
}
