"""Per-property metadata used by ./check (Coq targets, trusted base, theorem status)."""

COMMON_TRUSTED = [
    "Coq 8.16.1 kernel (coqc), vm_compute (used in finite sweeps, refutation witnesses and the in-kernel correspondence); no native_compute",
    "axioms: none declared; Print Assumptions of every property theorem is re-run on every check and must be 'Closed under the global context'",
    "grep gate over coq/**/*.v on every check: Admitted|admit|Axiom|Parameter|Conjecture|Hypothesis/Variable outside a Section|Unset Guard|bypass_check|type-in-type",
    "translator harness/cmd/consts2v (go/ast over literals and constants, text search over templates) regenerates coq/Gen/Consts.v from /repo on every run",
    "correspondence harness (Go, harness/): generators, observers (go/ast reader of emitted code, stub clients/connections), coqfmt term printer; differential testing, not proof",
    "no extraction is used by the registered checks: the model is evaluated by coqc/vm_compute on cases files",
    "modelled rather than verified: the Gallina models under coq/Gen and coq/Rt are hand-written from /repo's Go source; agreement is established only by the per-run correspondence on generated cases",
]

PROPS = {
    "C16": {
        "coq": ["Properties/C16.v", "Corr/C16corr.v"],
        "trusted": [
            "ASCII-only GraphQL names (lexer grammar): unicode.ToUpper/ToLower modelled as ASCII case mapping",
            "go/parser + go/ast used to read the emitted declarations; gqlparser's schema parser/validator as the front end",
        ],
        "assumptions": ["enum type names that consist only of underscores are outside the generator (they yield an empty Go identifier; C01's naming hypothesis)"],
        "level_text": "Theorems over all casing configurations, type names and value lists (no bound): accepted => constants are a bijection with the schema values in order with the documented names; rejected <=> two positions clash; raw never clashes. Tied to the code by evaluating the model and the specification in the Coq kernel on hundreds of generated enums per run against what generate.Generate really emitted.",
        "level_note": "Trusted: Coq kernel + vm_compute; hand-written model of util.go/names.go/convert.go(enum case)/types.go(enum writer) validated by per-run correspondence; ASCII names; go/parser as observer; gqlparser front end.",
        "theorem_status": {"C16_ok_bijection": "proved", "C16_err_iff_clash": "proved", "C16_total": "proved",
                           "C16_raw_injective": "proved", "C16_emitted_bijection": "proved"},
    },
    "C11": {
        "coq": ["Properties/C11.v", "Corr/C11corr.v"],
        "trusted": [
            "net/url's url.Parse/URL.String modelled only as split at first '#'/'?' of ordinary absolute URLs (generator restricts endpoints accordingly); http.NewRequest, Header.Set and Request.WithContext are observed, not modelled",
            "encoding/json's encoding of the POST body is observed (decoded by the harness), not modelled at byte level; variables enter the model as the bytes json.Marshal produced",
            "gqlparser's parser decides in the oracle which operation kind a document has",
        ],
        "assumptions": ["request strings are valid UTF-8 (json.Marshal replaces invalid bytes; the property quantifies over Unicode text)"],
        "level_text": "Theorems for all byte strings / parameter lists / endpoints / requests: QueryUnescape(QueryEscape s)=s (256-case sweep lifted + induction), ParseQuery(Values.Encode l) preserves every key's value list, the GET URL decodes to exactly the specified parameters with base and fragment untouched, POST fields verbatim, and the operation-kind gate for every generator-shaped document; the gate over arbitrary hand-written text is refuted (known finding). Model tied to client.go by byte-exact comparison of predicted and real request URLs/bodies on ~1500 generated requests per run, inside the Coq kernel.",
        "level_note": "Trusted: Coq kernel + vm_compute; hand-written model of client.go createGetRequest/createPostRequest and of net/url's query codec, validated per run (byte-exact URL equality); endpoint syntax restricted to ordinary absolute URLs; JSON body encoding observed not modelled.",
        "theorem_status": {"C11_codec_roundtrip": "proved", "C11_values_roundtrip": "proved", "C11_get_roundtrip": "proved",
                           "C11_post_fields": "proved", "C11_gate_get_mutation": "proved", "C11_gate_get_subscription": "proved",
                           "C11_gate_post_subscription": "proved", "C11_gate_accepts_allowed": "proved",
                           "C11_gate_arbitrary_refuted": "refuted (witness: leading comment) - open finding C11/gate-textual-prefix-bypass"},
    },
    "C12": {
        "coq": ["Properties/C12.v", "Corr/C12corr.v"],
        "trusted": [
            "encoding/json decides whether the envelope (first JSON value of a 200 body / whole non-200 body) decodes into graphql.Response and how many errors it lists; that verdict is an INPUT of the model (computed by the harness with encoding/json on the same bytes)",
            "io.ReadAll and json.Decoder stream semantics: ReadAll fails on any read fault; Decoder.Decode succeeds iff the first value is complete in the bytes delivered before the fault (validated by every-k fault sweeps)",
            "net/http request construction; the Doer is a stub",
        ],
        "assumptions": ["the helper model (Rt/Helper.v) is three branches whose outcomes are template facts read by the translator; it is compared in-kernel with every observed helper call"],
        "level_text": "Theorems over every (Do result, status, body verdicts, fault position): the model's outcome satisfies the documented classification, the classification is exclusive (exactly one outcome), the body is closed exactly once iff a response was obtained and Close is the last event, data is decoded whenever the outcome is nil or a gqlerror list, non-200 carries the status. Tied to client.go by running the real POST/GET clients on ~3000 (status, body, fault-plan) cases per run incl. exhaustive fault-position and status sweeps, compared in-kernel with the model, plus an independent Go oracle on messages/data/extensions/close counts. Helper part: for the three ways a call can go (success, client fails, client getter fails) the helper returns exactly the error that occurred and a non-nil struct whenever a client was obtainable; 'also when no client is obtainable' is REFUTED (known finding); observed by calling every generated query/mutation helper of random compiled programs with injected failures.",
        "level_note": "Trusted: Coq kernel; the model is a decision procedure over abstract body verdicts supplied by encoding/json (third party); correspondence is differential testing with instrumented bodies; one open finding in the helper part.",
        "theorem_status": {"C12_exactly_one": "proved", "C12_classified": "proved", "C12_closed": "proved",
                           "C12_partial_data_kept": "proved", "C12_status_carried": "proved",
                           "C12_helper_returns_the_error_unchanged": "proved", "C12_helper_data_nonnil_partial": "proved (partial: client obtainable)",
                           "C12_helper_data_nonnil_refuted": "refuted part of the statement (known finding)"},
    },
}

WS_TRUSTED = [
    "Go scheduler / channel / mutex semantics taken as sequentially consistent small steps at the controller's granularity (yield hooks behind the `verif` build tag + scripted WSConn + paused forwarder); the Go memory model itself is not modelled (lock-set invariant in the model; `-race` runs of the real client in the thorough tier)",
    "uuid.NewString freshness: a server frame can only name an id that was handed out (subscription index in the model)",
    "the connection-ack timeout (a timer) is not modelled",
    "the generated forwarder is represented by the harness's forwarder with the same shape (decode payload, type-assert channel, send)",
]
PROPS["C13"] = {
    "coq": ["Properties/C13.v", "Corr/Wscorr.v"],
    "trusted": WS_TRUSTED,
    "assumptions": ["application behaviour as in the property: at most one Unsubscribe per id, one Close; connection writes complete"],
    "level_text": "Invariants of an unbounded small-step model of the WebSocket client (any number of subscriptions, server frames of any kind/order/multiplicity, faults, connection loss, any schedule): channels closed exactly when marked, the reader never blocks for good on the error channel, the client mutex is held across a scheduling point only in handleErr, every API call can always take its next step (or waits only for a reader step that is enabled and frees the mutex), and no goroutine panics unless the application ends a subscription while one of its messages is between lookup and channel send (that residual sender/closer race is refuted in the model and listed as an open finding). Tied to websocket.go/subscription.go by per-step in-kernel replay of every explored schedule of the real client under a deterministic controller.",
    "level_note": "partial: Go memory-model races are covered by the lock-set invariant on the model and by the translator's lock-discipline fact about subscriptionMap (read from the source on every run), not by a theorem about Go's memory model; no -race runs; timer behaviour not modelled; the residual send-on-closed-channel race is an open finding.",
    "theorem_status": {"C13_map_methods_hold_the_lock": "proved (translator fact: lock discipline of subscriptionMap read from the source)",
                       "C13_map_methods_do_not_reenter_the_lock": "proved (translator fact: no subscriptionMap method calls a lock-acquiring method while holding the lock)",
                       "C13_no_panic_partial": "proved (hypothesis: no end-of-subscription while its message is in flight)",
                       "C13_no_panic_refuted": "refuted full statement (witness schedule) - open finding",
                       "C13_api_returns": "proved", "C13_reader_never_stuck": "proved", "C13_lockset": "proved",
                       "C13_every_call_returns": "proved (global liveness: after ANY schedule with at most one Close, every unfinished API call can be brought to return by thread steps and application receives alone, against an adaptive adversary choosing which connection operations fail)",
                       "C13_two_closes_deadlock_in_the_model_refuted": "refuted without the one-Close hypothesis (two overlapping Close calls share the model's list of collected ids; outside the property's quantifier, the real code snapshots per call)",
                       "C13_reader_terminates": "proved (from every reachable closing or lost state the reader reaches its end under every fault assignment; inbound frames are consumed first, a helpful application receives)",
                       "C13_liveness_witness": "proved (non-vacuity)"},
}
PROPS["C14"] = {
    "coq": ["Properties/C14.v", "Corr/Wscorr.v"],
    "trusted": WS_TRUSTED,
    "assumptions": [],
    "level_text": "Theorems over every reachable state of the unbounded step model: each subscription channel is closed at most once and exactly when the subscription is marked ended; after the end nothing more is delivered and it is not closed again, whatever follows; Unsubscribe returning nil has ended the subscription; what a channel received is a prefix of the payloads sent for its id (delivered_prefix invariant). Tied to the code by the per-step in-kernel replay plus an in-kernel prefix oracle on the observed deliveries.",
    "level_note": "Trusted as for C13. Payload error surfacing is checked by the Go oracle on the real forwarder, not modelled.",
    "theorem_status": {"C14_closed_at_most_once": "proved", "C14_nothing_after_end": "proved", "C14_unsubscribe_ends": "proved",
                       "C14_received_is_a_prefix_of_sent": "proved (invariant over every reachable state: received = prefix of sent for the id; the rest dropped after the end, held by the reader or queued)",
                       "C14_nothing_lost_while_alive": "proved", "C14_witness_delivery": "proved (non-vacuity)"},
}
PROPS["C15"] = {
    "coq": ["Properties/C15.v", "Corr/Wscorr.v"],
    "trusted": WS_TRUSTED,
    "assumptions": [],
    "level_text": "Theorems: for every sequence of handshake operations with any fault/garbage/ack pattern Start leaves no reader and a closed connection on failure and writes init before reading the ack; a failed Subscribe write unregisters and writes nothing; subscribe frames carry pairwise distinct ids of registered subscriptions in every reachable state; for every sequential API call sequence, interleaving and fault choice the written frames form a valid conversation (fresh ids, at most one complete per id and only after its subscribe, nothing after close); Close collects only active ids, continues after a failed close-frame write and its final step always closes connection and error channel; every Close thread can always progress. Tied to the code by per-step replay incl. an every-k connection-fault sweep, and the Go oracle over the frames really written (init first, fresh ids, <=1 complete per id, nothing after close).",
    "level_note": "The grammar theorem quantifies over sequential API call sequences, as the property does; overlapping calls are C13's subject. connection_init / acknowledgement ordering is the separate Start model (C15_start_fault_cleanup). The payloads of init and subscribe frames are checked by the Go oracle on the frames really written, not modelled.",
    "theorem_status": {"C15_start_fault_cleanup": "proved", "C15_subscribe_fault_unregisters": "proved",
                       "C15_close_collects_only_active": "proved", "C15_close_goes_on": "proved",
                       "C15_close_always_releases": "proved", "C15_close_reaches_release": "proved",
                       "C15_subscribe_ids_are_fresh": "proved (invariant over every reachable state: subscribe frames carry pairwise distinct ids of registered subscriptions)",
                       "C15_conversation_grammar": "proved (for every sequential API call sequence x every interleaving with reader/server/receives x every fault choice: fresh subscribe ids, at most one complete per id and only after its subscribe frame, nothing after the close frame)",
                       "C15_conversation_accepted": "proved (the same as the executable left-to-right acceptance check conv_ok)",
                       "C15_conversation_witness": "proved (non-vacuity)"},
}

PROPS["C20"] = {
    "coq": ["Properties/C20.v", "Corr/C20corr.v"],
    "trusted": [
        "Generate and ReadAndValidateConfig are taken as functions without file-system side effects (the model's [gen] parameter); this is CHECKED per run: strace shows no mutating syscall under the project directory in any failing run",
        "os.MkdirAll / os.WriteFile semantics (truncating whole-file write; failure to open changes nothing); strace -f as the observer of opens-for-writing, renames, unlinks, mkdirs",
        "the generator's bytes are taken from an in-process generate.Generate call on the same configuration with the same /repo code",
    ],
    "assumptions": ["write errors (disk full, permission) are outside the property's error classes; the model covers two (target is a directory, parent is a file) for the tie only"],
    "level_text": "Theorems over every prior file system, generator result, output order and fault plan: a configuration/schema/operation/code-generation error leaves the file system unchanged with no mutating operation attempted; success writes exactly the generator's bytes to exactly its output paths, independent of map-iteration order; under any outcome writes only carry the generator's bytes. Tied to main.go by running the real binary under strace in multi-step sequences (pre-seeded longer last-good outputs, every error class incl. final-stage gofmt failures, shrinking outputs) and comparing exit status, final contents and the write-open sequence with the model in-kernel.",
    "level_note": "Trusted: Coq kernel; small hand-written model of main.go; the weight is in the tie (CLI + strace + in-process Generate as the reference for 'the bytes the generator produced').",
    "theorem_status": {"C20_error_no_write": "proved", "C20_error_reported": "proved", "C20_success_exact": "proved",
                       "C20_success_order_independent": "proved", "C20_writes_only_generated": "proved"},
}

PIPE_TRUSTED = [
    "gqlparser's lexer, parser and validator (the verdict V is a parameter of the model; the harness calls the validator directly on the union document as the reference), go/parser's string-literal extraction, doublestar globbing",
    "the per-operation converter is a parameter [conv] of the pipeline model; hypothesis of the invariance theorems: its result depends on the SET of definitions only (import-alias numbering of same-named packages is the known place where the real converter is order-sensitive; the byte-wise oracle watches it)",
    "gofmt / goimports normalise the import block (trusted)",
]
PROPS["C08"] = {
    "coq": ["Properties/C08.v", "Corr/Pipecorr.v"],
    "trusted": PIPE_TRUSTED,
    "assumptions": ["operation names are unique (validator rule UniqueOperationNames)"],
    "level_text": "Theorems for every enumeration order and multiplicity: the list of files read is a function of the SET of matched names (dedup + sort, with the lexicographic order proved total/antisymmetric/transitive and 'sorting two permutations gives the same list' proved once for all key functions); the emitted type sequence, operation sequence and the type map are independent of map-iteration / insertion order. Tied to parse.go/generate.go by generating each random multi-file project 6x in-process (byte equality) and comparing the order-sensitive structure of the real output (declaration order, operation order, export order, enum values after `extend` over several files) with the model in-kernel.",
    "level_note": "Trusted: Coq kernel; pipeline-level model with validator and converter as parameters; goimports for the import block; byte-identity across processes/working directories is checked in the thorough tier by CLI runs, not proved.",
    "theorem_status": {"C08_expand_order_independent": "proved", "C08_expand_is_the_set": "proved", "C08_types_order_independent": "proved",
                       "C08_ops_order_independent": "proved", "C08_typemap_order_independent": "proved"},
}
PROPS["C17"] = {
    "coq": ["Properties/C17.v", "Corr/Pipecorr.v"],
    "trusted": PIPE_TRUSTED,
    "assumptions": ["operation names are unique; validator and converter depend on the set of definitions only (hypotheses of C17_generate_layout_independent)"],
    "level_text": "Theorems: every definition of every file and Go literal is collected into one document; splitting files / moving definitions into literals / reordering files only permutes the collected definitions; and Generate returns the same output (or fails in both cases) for ANY two layouts whose collected definitions are permutations of each other (via order-independence of the type map and the sorts). Tied to the code by generating each random operation set from the one-file layout and 3 random layouts (files, extensions, raw/interpreted literals in 5 expression contexts) and comparing outputs byte-wise, plus the model's predicted operation set/order in-kernel.",
    "level_note": "partial: the converter is a parameter assumed order-insensitive; import-alias numbering is not modelled (oracle only).",
    "theorem_status": {"C17_collect_complete": "proved", "C17_split_file": "proved", "C17_go_literals": "proved",
                       "C17_reorder_files": "proved", "C17_generate_layout_independent": "proved (hypotheses on validator/converter parameters)"},
}
PROPS["C05"] = {
    "coq": ["Properties/C05.v", "Corr/Pipecorr.v"],
    "trusted": PIPE_TRUSTED,
    "assumptions": ["what the validator itself rejects is gqlparser's (third party): proved is that genqlient hands it every definition in one document and obeys its verdict"],
    "level_text": "Theorems over every source set, validator and converter: a successful Generate certifies that the validator accepted one document containing every definition of every matched file and every `# @genqlient` literal, that no file was skipped and every operation is named, not a Go keyword and converted; and whenever the validator rejects / an operation is anonymous or keyword-named / a file is unusable the result is an error. Tied to the code by single-fault injection over 23 fault classes at random layout positions and schema-change histories over one directory, comparing the real verdict and error class with the model in-kernel, with gqlparser's validator run directly by the harness as the reference.",
    "level_note": "partial: the validator's verdict is an oracle (validated differentially), the glue around it is proved.",
    "theorem_status": {"C05_all_validated": "proved", "C05_literals_included": "proved", "C05_reject": "proved"},
}

PROPS["C18"] = {
    "coq": ["Properties/C18.v", "Corr/C18corr.v"],
    "trusted": [
        "gqlparser attaches file and location to its parse/validation errors; go/token positions of string literals; fmt's %v of an int and strconv.Atoi are modelled at byte level (dec/atoi, round-trip proved)",
        "WHICH position each error site of convert.go / genqlient_directive.go passes to errorf is not modelled; it is covered by the oracle (true file and line known from the rendering) on 15 fault classes",
    ],
    "assumptions": ["paths without ':' (hypothesis no_colon; the statement without it is refuted in Coq)"],
    "level_text": "Byte-level theorems for every file name without ':' and all line numbers: Atoi(Sprint n)=n; a node on line l of a .graphql file prints file:l; a node on line l of a literal opened on Go line L prints file.go:(L+l-1); errorf prefers the explicit node position, then a wrapped genqlient position, then a wrapped gqlparser location. Tied to errors.go/parse.go by injecting one positioned fault (15 classes) into random programs laid out over .graphql files and raw/interpreted Go literals at random offsets and comparing the real message prefix with the model in-kernel and with the true location.",
    "level_note": "partial: the mapping error site -> position passed is oracle-checked, not proved; three open findings (sites inside convertDefinition report the schema's position; interpreted string literals with escaped newlines).",
    "theorem_status": {"C18_line_number_roundtrip": "proved", "C18_graphql_line": "proved", "C18_go_line": "proved",
                       "C18_go_line_colon_path_refuted": "refuted without the no-colon hypothesis (witness a:b/q.go)",
                       "C18_explicit_position_wins": "proved", "C18_wrapped_graphql_position": "proved", "C18_no_position_iff": "proved"},
}

PROPS["C03"] = {
    "coq": ["Properties/C03.v", "Corr/C03corr.v"],
    "trusted": [
        "gqlparser's parser and validator (front end for both the user's document and the re-parsed emitted document) and its formatter: that the printed text re-parses to the same AST is VALIDATED on every case (re-parse + re-validate + structural comparison), not proved",
        "harness/export: gqlparser AST -> Gallina terms; arguments, directives and variable definitions are compared as canonical renderings (opaque ids in the model)",
        "validator.Walk's traversal order (fields post-order, spreads in selection order) as read from gqlparser's source",
    ],
    "assumptions": ["String is not an interface/union in the schema (hypothesis of two theorems; true of every valid schema)"],
    "level_text": "Theorems over all fragment tables and selection sets (no acyclicity or size assumption): usedFragments terminates, lists no fragment twice and lists exactly the spread-reachable fragments; stripping the synthesised fields from the preprocessed document gives back the user's document exactly; the insertion is a leading __typename made only on interface/union-typed fields without a direct __typename, and afterwards every such field has one; preprocessing is idempotent (shared fragments). Tied to generate.go by exporting the user's AST and the re-parsed emitted document of every operation of random multi-operation programs and comparing the model's predicted document with it in-kernel, plus an independent in-kernel specification on the observed document.",
    "level_note": "partial: the printing leg (gqlparser formatter) is validated per case, not proved.",
    "theorem_status": {"C03_closure": "proved", "C03_only_typename_added": "proved", "C03_typename_placement": "proved",
                       "C03_typename_everywhere_needed": "proved", "C03_idempotent_shared": "proved"},
}

CONV_TRUSTED = [
    "gqlparser front end (parser, validator: field definitions, possible types) and the syntax of one `# @genqlient(...)` line (the exporter parses each such line the way parseDirective does); harness/export turns the validated AST, the line kinds of every source, the schema and the configuration into Gallina terms",
    "harness/obs reads the emitted declarations back with go/ast (import aliases replaced by package paths); gofmt/goimports are trusted to preserve declarations",
    "ref(): type-name strings of bindings are taken as well-formed (the generator only writes well-formed ones); expect_exact_fields and package_bindings are not modelled",
    "schema files contain no `# @genqlient` comment lines (input-object fields are scanned in the schema source by the real code)",
]
PROPS["C10"] = {
    "coq": ["Properties/C10.v", "Corr/Convcorr.v"],
    "trusted": CONV_TRUSTED,
    "assumptions": ["documentation transcribed in harness/props/conv/c10.go (docType/effective) for the implementation-side oracle"],
    "level_text": "Theorems over every directive and configuration: the option in force is the first set in the order node, for-entry, operation (typename never inherited from the operation, struct/flatten never via for); nothing above the nearest non-comment line is read for a node; conflicting or unknown options and options in non-applicable places are errors; and for every GraphQL type (any list depth) the Go type produced by convertType is the documented wrapper function of pointer / optional / use_struct_references around the named type (lists -> slices at every depth, pointer on the innermost named type only, bind replaces the whole type). Tied to genqlient_directive.go/convert.go by comparing EVERY emitted declaration of random decorated programs with the full converter model in-kernel, plus an executable transcription of the documentation applied to variables and response fields.",
    "level_note": "Trusted: Coq kernel; hand-written model of genqlient_directive.go and convert.go validated per run on every declaration; JSON-tag theorem not stated separately (covered by the correspondence).",
    "theorem_status": {"C10_json_tag_is_the_response_key": "proved", "C10_precedence": "proved", "C10_no_leak_past_code_line": "proved", "C10_conflicting_directives_rejected": "proved",
                       "C10_unknown_option_rejected": "proved", "C10_omitempty_on_field_rejected": "proved",
                       "C10_omitempty_on_nonnull_variable_rejected": "proved", "C10_bind_on_operation_rejected": "proved",
                       "C10_struct_flatten_via_for_rejected": "proved", "C10_directive_on_fragment_spread_rejected": "proved",
                       "C10_shape_eq_doc": "proved",
                       "C10_operation_omitempty_reach_refuted": "refuted: operation-level omitempty reaches non-null variables (open finding F-C10-1)"},
}

PROPS["C09"] = {
    "coq": ["Properties/C09.v", "Corr/Convcorr.v"],
    "trusted": CONV_TRUSTED + ["the readability oracle (harness/props/conv/paths.go) recomputes the response keys of every position from schema + document (CollectFields) and reads the __typename dispatch and premarshal tags of the emitted code with go/ast"],
    "assumptions": ["stability (alone vs together): one direction is a theorem (operations converted later never change or remove a declaration or operation entry of the earlier ones, for the whole converter model and every fuel); that an operation gets the SAME declarations alone as after other operations is decided by the oracle (the converter model predicts every declaration in both runs and is compared in-kernel) -- it is false for shared input types (open finding F-C09-1)"],
    "level_text": "Theorems: selectionsMatch holds iff two selection sets have the same tree of names; addType keeps every existing binding and binds a name only to a declaration of the same GraphQL type and the same selected names, anything else is a conflict error; the types of named fragments never replace an existing declaration (after the fix: commit; the formerly failing typename-equals-fragment-name program is proved to be rejected); no step of the whole converter (the four mutually recursive functions of convert.go, arguments, operations, the operation loop; every schema, configuration and fuel) changes or removes a declaration the type map already holds, so the declarations and operation entries generated for a list of operations are all there, unchanged, when further operations follow (Proofs/ConvertExt.v). Tied to convert.go/validation.go/names.go by comparing every emitted declaration of random programs with adversarially chosen names against the converter model in-kernel, a type-level readability oracle (every response key of every position is carried by the Go type generated for it, for every concrete type), and generating every operation alone and together.",
    "level_note": "partial: of alone-vs-together stability the direction 'later operations never change earlier ones' is a theorem over the whole converter model; 'an operation gets the same declarations alone as together' is oracle-checked (open finding: shared input types take the options of the first operation, documented upstream as issue 123).",
    "theorem_status": {"C09_match_is_structural": "proved", "C09_add_type_sound": "proved", "C09_clash_is_an_error": "proved",
                       "C09_fragment_types_never_overwrite": "proved", "C09_typename_vs_fragment_name": "proved (fixed finding)",
                       "C09_converter_never_changes_an_existing_declaration": "proved",
                       "C09_later_operations_never_change_earlier_declarations": "proved",
                       "C09_together_succeeds_only_if_the_prefix_alone_succeeds": "proved",
                       "C09_two_operations_witness": "proved"},
}

PROPS["C07"] = {
    "coq": ["Properties/C07.v", "Corr/Convcorr.v"],
    "trusted": CONV_TRUSTED + ["arbitrary BYTES first meet yaml.v2, go/parser and gqlparser's lexer/parser/validator (third party): the theorems start at the validated AST; the byte-level stream is exploration (recover + watchdog), reported as such"],
    "assumptions": ["the converter theorem assumes that names resolve (Gen/Wf.v: every named type, fragment and root type exists) and that every node's line number lies inside its source as parsePrecedingComment splits it (pos_okb): gqlparser's validator guarantees the first, the agreement of the lexer's line count with the split of the source (after fix fcb7a4e: \\n, \\r\\n and bare \\r) the second, and Corr/Convcorr.v evaluates the same booleans on every explored program (which include all three line terminators); the flatten index sites and OutOfFuel are not excluded by a theorem but exercised through the correspondence (the model must predict Ok/Err/Panic of every explored program)"],
    "level_text": "Theorems: usedFragments terminates for every fragment table (no acyclicity assumed); the whole comment-directive path (scan, add, for:, conflicts) returns a value or an error for every line sequence; the formerly crashing inline fragment without type condition is converted; for the WHOLE converter model (convert.go with the directive validation it calls, every configuration and source text): on programs whose names resolve and whose positions lie inside their sources, no unchecked map or pointer dereference and no out-of-range index is reachable -- only the flatten index sites remain (full theorem: none at all on programs of the validated shape); it never loops: fuel is only a depth bound (result independent of fuel once produced), and with acyclic fragment spreads the whole generation has one result for every large enough fuel, recursive input types included (a self-spreading fragment is proved to diverge); without the positions hypothesis the sourceLines index of parsePrecedingComment panics (refutation theorem; the real generator did so on bare-CR files until fix fcb7a4e). The converter model marks every unchecked map dereference of convert.go as an explicit Panic and every non-structural recursion with fuel, and must predict the real outcome (accepted / error class / panic) of every explored program in-kernel. Exploration: valid-but-unusual programs, genqlient.yaml variants through ReadAndValidateConfig, and byte-level mutations of all four input kinds, each under recover and a watchdog.",
    "level_note": "the converter (convert.go, genqlient_directive.go, validation.go as modelled) never panics and never loops on programs of the validated shape: theorems; raw bytes through yaml.v2 / go/parser / gqlparser and the parts of the generator outside the converter model (config loading, rendering, gofmt) are exploration only (recover + watchdog).",
    "theorem_status": {"C07_used_fragments_terminates": "proved", "C07_directive_add_total": "proved", "C07_directive_scan_total": "proved",
                       "C07_bare_inline_fragment_converts": "proved (fixed finding)",
                       "C07_converter_panics_only_at_flatten_index_sites_partial": "proved (partial: with names resolved and every node's line inside its source no unchecked dereference or index of the converter is reachable; the flatten index sites remain)",
                       "C07_line_index_site_refuted_without_positions": "refuted without the positions hypothesis (a source split into fewer lines than the lexer counted: the sourceLines index panics; this was finding F-C07-4, bare-CR files)",
                       "C07_line_index_panics_iff_out_of_range": "proved",
                       "C07_strong_hypotheses_imply_partial_hypotheses": "proved",
                       "C07_converter_hypotheses_satisfiable": "proved (non-vacuity)",
                       "C07_converter_never_panics": "proved (full: no Panic site of the converter model is reachable on programs of the validated shape, for every configuration, source text and fuel)",
                       "C07_converter_full_hypotheses_satisfiable": "proved (non-vacuity)",
                       "C07_generation_result_independent_of_fuel": "proved (no hypothesis: once any result is produced, more fuel gives the same)",
                       "C07_generation_terminates": "proved (never loops: acyclic fragment spreads + object implementations => one result for every large enough fuel; recursive input types included)",
                       "C07_recursive_input_types_terminate": "proved",
                       "C07_termination_checks_are_sound": "proved",
                       "C07_termination_witness": "proved (non-vacuity)",
                       "C07_self_spreading_fragment_diverges": "proved (the hypothesis is needed)",
                       "C07_fixed_fuel_is_a_depth_cap": "proved (a limit of the model, not of the generator: FUEL = 400 caps the nesting at about 130 levels)"},
}

PROPS["C01"] = {
    "coq": ["Properties/C01.v", "Corr/Convcorr.v", "Corr/Impcorr.v"],
    "trusted": CONV_TRUSTED + ["the Go compiler (go build of every emitted package in a scratch module that replaces genqlient with /repo and stubs the bound types) is the oracle for 'type-checks'; Gen/Typing.v models only the typing condition of the (un)marshal blocks, transcribed from the templates; gofmt/goimports are trusted to preserve typing"],
    "assumptions": ["supported fragment as generated by gen.DecorateSafe/RandomCfgSafe: options only where documented as valid, the same options on every occurrence of a repeated field, field keys distinct from fragment names under export casing"],
    "level_text": "Theorems: the (un)marshal blocks emitted for fields needing special handling type-check iff the field's Go type is `[]`^SliceDepth around `[*]Unwrap` (both templates, same condition); for every GraphQL type of any list depth and every pointer / optional / use_struct_references setting the type convertType builds makes them type-check exactly when no generic wrapper is involved, which happens exactly for optional: generic on a nullable type without an applicable pointer -- so 'always compiles' is refuted there (open finding) and proved elsewhere for the blocks. Whole-file compilation and acceptance are decided by compiling every emitted package of random supported programs with the real Go compiler; every declaration is compared with the converter model in-kernel.",
    "level_note": "partial: of closedness, theorems cover the converter's interfaces (every type a converter function returns, every field type of a returned field list, and the input struct and response type of every operation name a declaration of the final type map; no declaration is ever removed; every struct field and interface getter of every declaration of the final type map mentions only declared types, every implementation an interface declaration lists is declared: theorems for the whole converter model); duplicate identifiers and interface satisfaction are decided by the Go compiler on generated programs (oracle), not by theorems; seven open findings (listed in KNOWN_FINDINGS.json).",
    "theorem_status": {"C01_unmarshal_block_typed_iff": "proved", "C01_marshal_block_typed_iff": "proved", "C01_blocks_typed": "proved",
                       "C01_generic_wrapper_condition": "proved", "C01_blocks_generic_refuted": "refuted full statement for optional: generic (witness Option[I]) - open finding F-C01-1",
                       "C01_import_aliases_are_distinct": "proved (every sequence of references: distinct paths get distinct aliases, all marked used)",
                       "C01_import_allocation_is_total": "proved", "C01_alias_search_terminates": "proved (pigeonhole over pkg, pkg2, pkg3, ...)",
                       "C01_same_path_same_alias": "proved", "C01_alias_is_name_shaped": "proved",
                       "C01_alias_can_be_a_keyword_refuted": "refuted: makeIdentifier can return a Go keyword (last path segment `type`, `go`, `range`, ...): exact characterisation proved; not exhibited as a failing program (a package whose directory is named like a keyword), recorded as an observation in DESIGN.md",
                       "C01_returned_types_are_declared": "proved", "C01_operation_types_are_declared": "proved",
                       "C01_converter_keeps_the_type_map_closed": "proved", "C01_declarations_mention_only_declared_types": "proved",
                       "C01_closedness_witness": "proved",
                       "C01_converter_registers_every_listed_implementation": "proved", "C01_interface_implementations_are_declared": "proved",
                       "C01_implementations_witness": "proved"},
}

RT_TRUSTED = CONV_TRUSTED + [
    "encoding/json itself (scanner, reflection walk, RawMessage) is third-party code: Rt/JsonDecode.v models the part the generated code relies on (exact-then-case-folded key match, null rules per kind, last duplicate key wins, RawMessage capture) and is compared with the real library on every decoded input of every run",
    "bytes that are not JSON are rejected by encoding/json's scanner before generated code runs; the theorems start at parsed JSON values (numbers are compared by identity and integrality only)",
    "the runner (harness/props/rt/modsrc.go) compiles every generated package with a reflection dumper that prints the decoded Go value; the dump cannot tell a nil pointer from a nil interface",
    "the reference executor (harness/props/rt/exec.go) is an independent implementation of CollectFields with type conditions, response-key merging and @skip/@include on the EMITTED document",
    "the flag wrapper_hides_method of the model is `true` because unmarshal.go.tmpl embeds both *T and graphql.NoUnmarshalJSON in its first-pass wrapper: gen/consts2v reads that from the template on every run",
]
PROPS["C19"] = {
    "coq": ["Properties/C19.v", "Corr/Rtcorr.v"],
    "trusted": RT_TRUSTED,
    "assumptions": ["termination is a theorem about the model (for every type map whose embedded-struct / implementation edges form no cycle -- a boolean that Corr/Rtcorr.v evaluates on the type map of every explored program --, every Go type, JSON value and starting value); the real decoder's termination on every explored input is observed under a watchdog in a separate process"],
    "level_text": "Theorems over EVERY typemap, Go type, JSON value and depth: the generated decoders (struct UnmarshalJSON first/second pass, per-depth fill loops, __unmarshal<Interface> helpers) and the encoding/json fragment under them return a value or an error and never reach a panic site; without the method-hiding wrapper every non-null object would recurse forever (so the wrapper flag read from the template is load-bearing); a successfully decoded abstract value holds an implementation whose GraphQL type IS the response's __typename, decoded from the same object; missing, null, empty, non-string or unknown __typename and non-object values are errors; and they never loop: in every type map without a cycle of embedded structs / implementations (recursive GraphQL types included) decoding is defined for every fuel above a bound that depends on the JSON value only through its nesting depth, with one result per input (a struct that embeds itself, which Go rejects, is proved to diverge: the hypothesis is needed). Tied to the templates and to encoding/json by decoding conformant and mutated responses with the compiled generated code of random programs and comparing every outcome (value dump / error / panic) with the model in-kernel.",
    "level_note": "raw non-JSON bytes and the subscription forwarder are explored (recover + watchdog), not modelled.",
    "theorem_status": {"C19_no_panic": "proved", "C19_wrapper_is_needed": "proved", "C19_dispatch_is_by_typename": "proved",
                       "C19_missing_typename_is_an_error": "proved", "C19_empty_or_null_typename_is_an_error": "proved",
                       "C19_unknown_typename_is_an_error": "proved", "C19_scalar_or_list_for_an_abstract_value_is_an_error": "proved",
                       "C19_witness": "proved (non-vacuity)", "C19_templates_as_modelled": "proved (translator facts)",
                       "C19_result_independent_of_fuel": "proved (fuel monotonicity of all five decoders)", "C19_any_two_sufficient_fuels_agree": "proved",
                       "C19_never_mistyped": "proved (a decoded value has the Go kind of its type; interfaces hold one of their implementations)",
                       "C19_leaf_types_never_run_out_of_fuel": "proved (termination for the wrapper algebra of leaf types: fuel bounds the type depth, not the input)",
                       "C19_decode_terminates": "proved (never loops, ALL types incl. recursive ones: in a type map without a cycle of embedded structs / implementations decoding any JSON value into any type is defined for every large enough fuel)",
                       "C19_fuel_bound_depends_on_depth_only": "proved",
                       "C19_decode_total": "proved (one result per input, the same for every sufficient fuel)",
                       "C19_acyclicity_check_is_sound": "proved (the boolean the correspondence evaluates on every generated type map implies the theorem's hypothesis)",
                       "C19_recursive_types_are_covered": "proved (non-vacuity)",
                       "C19_self_embedding_struct_diverges": "proved (the hypothesis is needed: out of every fuel)"},
}
PROPS["C02"] = {
    "coq": ["Properties/C02.v", "Corr/Rtcorr.v"],
    "trusted": RT_TRUSTED,
    "assumptions": ["which Go field the documented naming rule assigns to a response key is decided by the oracle (judge.go: tag or premarshal tag of a field in the struct or any embedded struct); the theorems speak about the field the key RESOLVES to in the decoder"],
    "level_text": "Theorems: a decoded abstract value holds the struct generated for the response's __typename (same object decoded as that struct); in encoding/json's struct loop the value under a key is decoded into the field the key resolves to and is what that field holds at the end unless a later key resolves to the same field, unknown keys are ignored; nulls give nil pointer / nil slice / untouched interface, scalar and struct; and the statement's 'nulls become nil slices' is REFUTED for lists of abstract or custom-unmarshaled values (make([]T, 0): known finding). Success is characterised exactly: a JSON value decodes iff it conforms to the Go type (shape, every duplicate key, embedded fragments, special-field captures, __typename naming an implementation), everything else is an error (never a panic or divergence), and the executable form of conformance is what the per-response correspondence compares. That the responses of a spec-conformant SERVER conform, readability in embedded fragment structs and getters are decided by decoding reference-executor responses with the compiled generated code of random programs (oracle) and comparing every dump with the model in-kernel.",
    "level_note": "partial: that the converter's type map for an accepted operation makes every response of the GraphQL execution algorithm CONFORM (in the sense of the success theorem), and that every key is readable in every embedded fragment struct, is decided per run by the reference executor + reflection oracle, not by a theorem (no Gallina model of CollectFields); two open findings (null list -> empty slice; keys differing only by case).",
    "theorem_status": {"C02_abstract_value_holds_the_struct_for_its_typename": "proved", "C02_value_readable_at_its_field": "proved",
                       "C02_unknown_keys_are_ignored": "proved", "C02_null_rules": "proved",
                       "C02_null_list_becomes_nil_slice_refuted": "refuted part of the statement (witness by vm_compute; known finding)",
                       "C02_null_list_mechanism": "proved", "C02_witness": "proved (non-vacuity)",
                       "C02_embedded_fragment_gets_the_same_object": "proved", "C02_special_field_filled_from_its_capture": "proved",
                       "C02_conformant_responses_decode": "proved (conformance of a JSON value to a Go type -- shape incl. every duplicate key, embedded fragments, special-field captures, __typename dispatch -- is EXACTLY success of the generated decoders)",
                       "C02_value_iff_conformant_error_otherwise": "proved (acyclic type maps: a value on conformant input, an error on everything else; never a panic or divergence; independent of the value decoded into)",
                       "C02_conformance_is_checked_per_response": "proved (the executable check equals is_ok of the model decoder at every fuel: the per-response correspondence evaluates it)",
                       "C02_conformance_witness": "proved (non-vacuity)"},
}

PROPS["C06"] = {
    "coq": ["Properties/C06.v", "Corr/Rtcorr.v"],
    "trusted": RT_TRUSTED + ["encoding/json.Marshal on the __premarshal structs is modelled in Rt/JsonEncode.v (omitempty, nil pointer/slice/interface, the shallower TypeName field hiding an implementation's own `__typename`) and compared with the real output on every decoded value of every run; user marshalers are the harness's stubs"],
    "assumptions": ["the round-trip theorems state equality after gnorm (order of a struct value's association list, unlisted field = zero value: neither is observable in Go) and carry explicit hypotheses that exclude exactly the recorded findings; on the real code unmarshal(marshal(v)) deep-equals v is decided by reflect.DeepEqual on the compiled generated types in every run"],
    "level_text": "Theorems over EVERY typemap: FlattenedFields (breadth-first over embedded fragment structs) selects exactly one Go field per JSON name; the object a struct marshals to carries each key at most once; an abstract value marshals with __typename = the GraphQL name of its concrete type exactly once and first. decode(encode v) = v is proved for the wrapper algebra of leaf types (slices at any depth, optional pointer, scalar-like leaf; unbounded), for plain structs nested and recursive (the generated input types) -- also in the property's own form, v ranging over the results of decode --, and for response types with embedded fragment structs and lists of abstract values under hypotheses that exclude exactly the recorded findings, each of which is proved to be needed by a refutation with a value unmarshaling produces. A concrete two-type response is proved to round-trip exactly, and the statement is REFUTED for null lists of abstract values (re-marshaled as [], known finding). Tied to marshal.go.tmpl / marshal_helper.go.tmpl / types.go by marshaling every decoded value with the compiled generated code and comparing the JSON with Rt/JsonEncode.v in-kernel; deep equality of the re-decoded value and equality with the response up to the documented loss are oracle checks on the same runs.",
    "level_note": "marshaling terminates with one result for every value of every type (theorem; its hypothesis -- no struct contains itself by value, FlattenedFields defined -- is evaluated in-kernel on the type map of every explored program); not covered by a round-trip theorem: special fields other than lists of abstract values (custom marshalers, *Iface); four open findings (null list -> []; keys differing only by case; one key carried by a pointer and a non-pointer field; omitempty list [] -> nil).",
    "theorem_status": {"C06_one_field_per_json_name": "proved", "C06_each_key_once": "proved", "C06_typename_present_once": "proved",
                       "C06_witness_roundtrip": "proved (non-vacuity)", "C06_wrapper_roundtrip": "proved (round trip for slices^n around an optional pointer around a scalar-like type, unbounded)", "C06_wrapper_roundtrip_witness": "proved (non-vacuity)", "C06_null_list_roundtrip_refuted": "refuted part of the statement (witness by vm_compute; known finding)",
                       "C06_plain_struct_roundtrip": "proved (the generated input types and every struct of named non-special fields, nested and recursive: decode(encode v) = v up to gnorm for every value unmarshaling can produce)",
                       "C06_plain_struct_roundtrip_enough_fuel": "proved (a sufficient fuel exists when no struct contains itself by value)",
                       "C06_every_obtained_value_roundtrips": "proved (the property as worded, for plain types: v ranges over the results of decode itself)",
                       "C06_response_roundtrip": "proved (embedded fragment structs with case-distinct keys, lists of abstract values dispatched by __typename; the recorded findings excluded by explicit hypotheses)",
                       "C06_omitempty_empty_list_refuted": "refuted part of the statement (omitempty list field: [] is omitted and comes back nil; finding F-C06-4)",
                       "C06_embedded_case_collision_refuted": "refuted part of the statement (F-C06-2 between a struct and its embedded fragment)",
                       "C06_embedded_shared_key_refuted": "refuted part of the statement (F-C06-3)",
                       "C06_marshal_result_independent_of_fuel": "proved", "C06_marshal_terminates": "proved",
                       "C06_marshal_termination_check_is_sound": "proved", "C06_marshal_termination_witness": "proved",
                       "C06_by_value_cycle_diverges": "proved"},
}

PROPS["C04"] = {
    "coq": ["Properties/C04.v", "Corr/Rtcorr.v"],
    "trusted": RT_TRUSTED + ["gqlparser's validator.VariableValues is the oracle for 'coerces to the declared types'; the oracle's expectation for the variables JSON (harness/props/rt/c04.go) is a transcription of the documentation that reads the omitempty MARKING from the emitted struct tags (which options are in force is C10's subject)",
                             "argument values are drawn by reflection over the generated parameter types; calls whose arguments are not valid values (nil at a non-null position, a string that is no enum value, an empty value omitted for a required variable) are judged for faithfulness only"],
    "assumptions": ["'exactly one request' is a template fact (tripwire theorem) plus the recording client of every run, not a theorem about Go control flow"],
    "level_text": "Theorems over EVERY typemap and value: the variables object has keys only for the fields of the hidden input struct, each at most once; an ordinary variable or input field is absent exactly when it is marked omitempty and its Go value is empty in the encoding/json sense (characterised case by case), nothing else is omitted; nil pointers and nil slices are sent as null; the custom-marshaler exception (never omitted unless a nil pointer); the per-depth loops hand every element at every depth to the marshaler. Tied to marshal.go.tmpl / operation.go.tmpl / convert.go by calling every generated helper of random programs with random arguments against a recording client and comparing the recorded variables with Rt/JsonEncode.v in-kernel, plus the documentation oracle, gqlparser's coercion and call counts of the user marshalers.",
    "level_note": "partial: request count / operation name / document and coercibility are oracle-decided per run; one open finding (nil slice of custom-marshaled elements sent as []).",
    "theorem_status": {"C04_keys_only_for_declared_variables": "proved", "C04_omitted_exactly_when_marked_and_empty": "proved",
                       "C04_empty_is_the_encoding_json_notion": "proved", "C04_nil_is_null": "proved", "C04_custom_marshaler_exception": "proved",
                       "C04_marshaler_reaches_every_element": "proved", "C04_template_makes_one_request": "proved (translator fact)",
                       "C04_nil_slice_of_custom_marshaled_refuted": "refuted part of the statement (known finding)",
                       "C04_one_struct_field_per_declared_variable": "proved (convertArguments: one field per declared variable, keyed by its name)",
                       "C04_no_variables_no_struct": "proved"},
}
