"""Per-property metadata used by ./check (Coq targets, trusted base, theorem status)."""

COMMON_TRUSTED = [
    "Coq 8.16.1 kernel (coqc), vm_compute (used in finite sweeps, refutation witnesses and the in-kernel correspondence); no native_compute",
    "axioms: none declared; Print Assumptions of every property theorem is re-run on every check and must be 'Closed under the global context'",
    "grep gate over coq/**/*.v on every check: Admitted|admit|Axiom|Parameter|Conjecture|Hypothesis/Variable outside a Section|Unset Guard|bypass_check|type-in-type",
    "translator harness/cmd/consts2v (go/ast over literals and constants, text search over templates) regenerates coq/Gen/Consts.v from /repo on every run",
    "correspondence harness (Go, harness/): generators, observers (go/ast reader of emitted code, stub clients/connections), coqfmt term printer; differential testing, not proof",
    "no extraction is used by the registered checks: the model is evaluated by coqc/vm_compute on cases files",
    "modelled rather than verified: the Gallina models under coq/Gen and coq/Rt are hand-written from /repo's Go source; agreement is established only by the per-run correspondence on generated cases",
]

PROPS = {
    "C16": {
        "coq": ["Properties/C16.v", "Corr/C16corr.v"],
        "trusted": [
            "ASCII-only GraphQL names (lexer grammar): unicode.ToUpper/ToLower modelled as ASCII case mapping",
            "go/parser + go/ast used to read the emitted declarations; gqlparser's schema parser/validator as the front end",
        ],
        "assumptions": ["enum type names that consist only of underscores are outside the generator (they yield an empty Go identifier; C01's naming hypothesis)"],
        "level_text": "Theorems over all casing configurations, type names and value lists (no bound): accepted => constants are a bijection with the schema values in order with the documented names; rejected <=> two positions clash; raw never clashes. Tied to the code by evaluating the model and the specification in the Coq kernel on hundreds of generated enums per run against what generate.Generate really emitted.",
        "level_note": "Trusted: Coq kernel + vm_compute; hand-written model of util.go/names.go/convert.go(enum case)/types.go(enum writer) validated by per-run correspondence; ASCII names; go/parser as observer; gqlparser front end.",
        "theorem_status": {"C16_ok_bijection": "proved", "C16_err_iff_clash": "proved", "C16_total": "proved",
                           "C16_raw_injective": "proved", "C16_emitted_bijection": "proved"},
    },
    "C11": {
        "coq": ["Properties/C11.v", "Corr/C11corr.v"],
        "trusted": [
            "net/url's url.Parse/URL.String modelled only as split at first '#'/'?' of ordinary absolute URLs (generator restricts endpoints accordingly); http.NewRequest, Header.Set and Request.WithContext are observed, not modelled",
            "encoding/json's encoding of the POST body is observed (decoded by the harness), not modelled at byte level; variables enter the model as the bytes json.Marshal produced",
            "gqlparser's parser decides in the oracle which operation kind a document has",
        ],
        "assumptions": ["request strings are valid UTF-8 (json.Marshal replaces invalid bytes; the property quantifies over Unicode text)"],
        "level_text": "Theorems for all byte strings / parameter lists / endpoints / requests: QueryUnescape(QueryEscape s)=s (256-case sweep lifted + induction), ParseQuery(Values.Encode l) preserves every key's value list, the GET URL decodes to exactly the specified parameters with base and fragment untouched, POST fields verbatim, and the operation-kind gate for every generator-shaped document; the gate over arbitrary hand-written text is refuted (known finding). Model tied to client.go by byte-exact comparison of predicted and real request URLs/bodies on ~1500 generated requests per run, inside the Coq kernel.",
        "level_note": "Trusted: Coq kernel + vm_compute; hand-written model of client.go createGetRequest/createPostRequest and of net/url's query codec, validated per run (byte-exact URL equality); endpoint syntax restricted to ordinary absolute URLs; JSON body encoding observed not modelled.",
        "theorem_status": {"C11_codec_roundtrip": "proved", "C11_values_roundtrip": "proved", "C11_get_roundtrip": "proved",
                           "C11_post_fields": "proved", "C11_gate_get_mutation": "proved", "C11_gate_get_subscription": "proved",
                           "C11_gate_post_subscription": "proved", "C11_gate_accepts_allowed": "proved",
                           "C11_gate_arbitrary_refuted": "refuted (witness: leading comment) - open finding C11/gate-textual-prefix-bypass"},
    },
    "C12": {
        "coq": ["Properties/C12.v", "Corr/C12corr.v"],
        "trusted": [
            "encoding/json decides whether the envelope (first JSON value of a 200 body / whole non-200 body) decodes into graphql.Response and how many errors it lists; that verdict is an INPUT of the model (computed by the harness with encoding/json on the same bytes)",
            "io.ReadAll and json.Decoder stream semantics: ReadAll fails on any read fault; Decoder.Decode succeeds iff the first value is complete in the bytes delivered before the fault (validated by every-k fault sweeps)",
            "net/http request construction; the Doer is a stub",
        ],
        "assumptions": ["the generated helper's part of C12 (non-nil response struct, also when the client getter fails) is checked by the helper engine when built; known finding D8 is recorded there"],
        "level_text": "Theorems over every (Do result, status, body verdicts, fault position): the model's outcome satisfies the documented classification, the classification is exclusive (exactly one outcome), the body is closed exactly once iff a response was obtained and Close is the last event, data is decoded whenever the outcome is nil or a gqlerror list, non-200 carries the status. Tied to client.go by running the real POST/GET clients on ~3000 (status, body, fault-plan) cases per run incl. exhaustive fault-position and status sweeps, compared in-kernel with the model, plus an independent Go oracle on messages/data/extensions/close counts.",
        "level_note": "Trusted: Coq kernel; the model is a decision procedure over abstract body verdicts supplied by encoding/json (third party); correspondence is differential testing with instrumented bodies.",
        "theorem_status": {"C12_exactly_one": "proved", "C12_classified": "proved", "C12_closed": "proved",
                           "C12_partial_data_kept": "proved", "C12_status_carried": "proved"},
    },
}
