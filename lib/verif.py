import argparse, fcntl, glob, hashlib, json, os, re, shutil, subprocess, sys, time
from concurrent.futures import ThreadPoolExecutor

ROOT = os.path.dirname(os.path.dirname(os.path.abspath(__file__)))
COQ = os.path.join(ROOT, "coq")
HARNESS = os.path.join(ROOT, "harness")
BUILD = os.path.join(ROOT, "_build")
BIN = os.path.join(BUILD, "bin")
REPO = os.environ.get("VERIF_REPO", "/repo")
# evidence/ holds what the checks found on /repo as it is; the self-test tools (tools/mutcheck.sh,
# mutants_matrix.py, harmless_matrix.py), which run the same checks on a deliberately modified
# working tree, redirect their evidence to a scratch directory
EVID = os.environ.get("VERIF_EVIDENCE_DIR") or os.path.join(ROOT, "evidence")

GOENV = dict(os.environ, GOFLAGS="-mod=mod", GOPROXY="off", GOSUMDB="off",
             GOTOOLCHAIN="local", CGO_ENABLED=os.environ.get("CGO_ENABLED", "1"))

sys.path.insert(0, os.path.dirname(os.path.abspath(__file__)))
from props import PROPS, COMMON_TRUSTED  # noqa: E402

GATE_RE = re.compile(
    r"\b(Admitted|admit|Axiom|Axioms|Parameter|Parameters|Conjecture|Hypothesis|Variable)\b"
    r"|Unset\s+Guard|bypass_check|type-in-type|impredicative-set|Admit\s+Obligations|native_compute")


def sh(cmd, cwd=None, timeout=None, env=None, capture=True):
    p = subprocess.run(cmd, cwd=cwd, env=env or GOENV, timeout=timeout,
                       stdout=subprocess.PIPE if capture else None,
                       stderr=subprocess.STDOUT if capture else None,
                       shell=isinstance(cmd, str), text=True, errors="replace")
    return p.returncode, (p.stdout or "")


class Lock:
    def __enter__(self):
        os.makedirs(BUILD, exist_ok=True)
        self.f = open(os.path.join(BUILD, ".lock"), "w")
        fcntl.flock(self.f, fcntl.LOCK_EX)
        return self

    def __exit__(self, *a):
        fcntl.flock(self.f, fcntl.LOCK_UN)
        self.f.close()


def coq_files():
    out = []
    for line in open(os.path.join(COQ, "_CoqProject")):
        line = line.strip()
        if line.endswith(".v"):
            out.append(line)
    return out


REQ_RE = re.compile(r"From\s+Verif\s+Require\s+(?:Import|Export)?\s*([^.]*(?:\.[A-Za-z_][^.\s]*)*)\s*\.\s", re.S)


def direct_deps(vfile):
    """Verif-internal dependencies of a .v file (relative paths)."""
    try:
        src = open(os.path.join(COQ, vfile)).read()
    except OSError:
        return []
    src = re.sub(r"\(\*.*?\*\)", "", src, flags=re.S)
    deps = []
    for m in re.finditer(r"From\s+Verif\s+Require\s+(?:Import\s+|Export\s+)?(.*?)\.\s", src, re.S):
        for mod in m.group(1).split():
            deps.append(mod.replace(".", "/") + ".v")
    return deps


def cone(vfiles):
    seen, todo = [], list(vfiles)
    while todo:
        f = todo.pop()
        if f in seen:
            continue
        seen.append(f)
        todo.extend(direct_deps(f))
    return sorted(seen)


def count_statements(vfiles):
    n = 0
    names = []
    for f in vfiles:
        try:
            src = open(os.path.join(COQ, f)).read()
        except OSError:
            continue
        for m in re.finditer(r"^\s*(?:Theorem|Lemma|Example|Corollary|Fact|Remark|Proposition)\s+([A-Za-z0-9_']+)", src, re.M):
            n += 1
            names.append(m.group(1))
    return n, names


def property_theorems(prop):
    f = os.path.join(COQ, "Properties", prop + ".v")
    src = open(f).read()
    return re.findall(r"^\s*Theorem\s+([A-Za-z0-9_']+)", src, re.M)


def grep_gate():
    bad = []
    for f in glob.glob(os.path.join(COQ, "**", "*.v"), recursive=True):
        src = open(f).read()
        src_nc = re.sub(r"\(\*.*?\*\)", lambda m: "\n" * m.group(0).count("\n"), src, flags=re.S)
        for i, line in enumerate(src_nc.split("\n"), 1):
            if GATE_RE.search(line):
                # Variable/Hypothesis inside a Section are allowed
                if re.search(r"\b(Variable|Variables|Hypothesis|Hypotheses|Context)\b", line) and in_section(src_nc, i):
                    continue
                bad.append("%s:%d: %s" % (os.path.relpath(f, ROOT), i, line.strip()))
    return bad


def in_section(src, lineno):
    depth = 0
    for i, line in enumerate(src.split("\n"), 1):
        if i >= lineno:
            break
        if re.match(r"\s*Section\s+\w+", line):
            depth += 1
        elif re.match(r"\s*End\s+\w+", line) and depth > 0:
            depth -= 1
    return depth > 0


def build_go():
    os.makedirs(BIN, exist_ok=True)
    shutil.copyfile(os.path.join(REPO, "go.sum"), os.path.join(HARNESS, "go.sum"))
    rc, out = sh(["go", "build", "-tags", "verif", "-o", BIN + "/", "./cmd/..."], cwd=HARNESS, timeout=1200)
    return rc == 0, out


def run_translator():
    rc, out = sh([os.path.join(BIN, "consts2v"), "-repo", REPO, "-out", os.path.join(COQ, "Gen", "Consts.v")], timeout=120)
    return rc == 0, out


def coq_makefile():
    mk = os.path.join(COQ, "Makefile")
    cp = os.path.join(COQ, "_CoqProject")
    if not os.path.exists(mk) or os.path.getmtime(mk) < os.path.getmtime(cp):
        rc, out = sh(["coq_makefile", "-f", "_CoqProject", "-o", "Makefile"], cwd=COQ, timeout=120)
        if rc != 0:
            return False, out
    return True, ""


def coq_make(targets=None, timeout=3000):
    ok, out = coq_makefile()
    if not ok:
        return False, out
    cmd = ["make", "-j16"]
    if targets:
        cmd += targets
    rc, out = sh(cmd, cwd=COQ, timeout=timeout)
    return rc == 0, out


def setup():
    t0 = time.time()
    with Lock():
        ok, out = build_go()
        if not ok:
            print(out)
            print("setup: go build of harness failed")
            return 1
        ok, out = run_translator()
        if not ok:
            print(out)
            print("setup: translator failed")
            return 1
        ok, out = coq_make()
        if not ok:
            print(out[-6000:])
            print("setup: coq build failed")
            return 1
        build_ocaml()
    print("setup ok in %.1fs" % (time.time() - t0))
    return 0


def build_ocaml():
    d = os.path.join(ROOT, "ocaml")
    if os.path.exists(os.path.join(d, "build.sh")):
        rc, out = sh(["sh", "build.sh"], cwd=d, timeout=1200)
        if rc != 0:
            print(out[-3000:])
            return False
    return True


def parse_coq_lists(out):
    """Parse `NAME = [a; b; c]\n : list nat` blocks printed by Print."""
    res = {}
    for m in re.finditer(r"^([A-Z][A-Z0-9_]*) =\s*(.*?)\n\s*:\s", out, re.S | re.M):
        name, body = m.group(1), m.group(2)
        body = body.strip()
        if body.startswith("["):
            items = [int(x) for x in re.findall(r"\d+", body)]
            res.setdefault(name, []).extend(items)
        else:
            res[name] = body
    return res


def run_cases_v(path):
    d = os.path.dirname(path)
    t0 = time.time()
    rc, out = sh(["coqc", "-Q", COQ, "Verif", "-w", "-notation-overridden", os.path.basename(path)], cwd=d, timeout=3000)
    return path, rc, out, time.time() - t0


def load_known():
    p = os.path.join(ROOT, "KNOWN_FINDINGS.json")
    if not os.path.exists(p):
        return []
    return json.load(open(p)).get("findings", [])


def write_replay(prop, name, payload):
    d = os.path.join(BUILD, "replay", prop)
    os.makedirs(d, exist_ok=True)
    p = os.path.join(d, name + ".json")
    json.dump(payload, open(p, "w"), indent=1, default=str)
    return p


def check(prop, tier, seed, replay):
    t0 = time.time()
    meta = PROPS[prop]
    run_dir = os.path.join(BUILD, "run", prop)
    shutil.rmtree(run_dir, ignore_errors=True)
    os.makedirs(run_dir, exist_ok=True)
    violations = []          # (replay_path, suffix)
    notes = []
    obligations = 0
    discharged = 0

    # ---- 1. build: harness against /repo's tree, translator, Coq cone -----------------
    targets_v = meta["coq"]
    cone_files = cone(targets_v)
    with Lock():
        ok_go, out_go = build_go()
        ok_tr, out_tr = (False, "") if not ok_go else run_translator()
        proofs_ok, out_mk = (False, "translator did not run") if not ok_tr else \
            coq_make([f[:-2] + ".vo" for f in targets_v])
    if not ok_go:
        # the harness no longer compiles against /repo: the tie is broken
        rp = write_replay(prop, "harness-build", {"property": prop, "broken": "harness build against /repo",
                                                   "detail": out_go[-4000:]})
        print(out_go[-3000:])
        print("VIOLATION property=%s replay=%s no-failing-input-found" % (prop, rp))
        write_evidence(prop, tier, seed, meta, None, 1, 0, [], {}, t0, 1, notes + ["harness build failed"])
        return 1
    n_stmts, stmt_names = count_statements(cone_files)
    thms = property_theorems(prop)
    obligations += n_stmts
    broken_detail = None
    if proofs_ok:
        discharged += n_stmts
    else:
        broken_detail = out_mk[-5000:]
        notes.append("coq build of the property's cone failed")

    # ---- 2. assumptions + grep gate -----------------------------------------------------
    assumptions_out = ""
    obligations += 1
    if proofs_ok:
        av = os.path.join(run_dir, "assump.v")
        with open(av, "w") as f:
            f.write("From Verif Require Import Properties.%s.\n" % prop)
            for t in thms:
                f.write('Print Assumptions %s.\n' % t)
        rc, assumptions_out = sh(["coqc", "-Q", COQ, "Verif", "-w", "-notation-overridden", "assump.v"], cwd=run_dir, timeout=600)
        closed = assumptions_out.count("Closed under the global context")
        allowed = meta.get("allowed_axioms", [])
        axioms = re.findall(r"^([A-Za-z_][A-Za-z0-9_.']*)\s*:", assumptions_out, re.M)
        bad_ax = [a for a in axioms if a.split(".")[-1] not in allowed]
        if rc == 0 and closed + (1 if axioms and not bad_ax else 0) >= 1 and not bad_ax and (closed == len(thms) or allowed):
            discharged += 1
        else:
            proofs_ok = False
            broken_detail = "Print Assumptions not clean:\n" + assumptions_out[-3000:]
    # thorough tier: the independent checker re-checks the compiled cone and lists its axioms
    coqchk_out = ""
    if tier == "thorough" and proofs_ok:
        obligations += 1
        rc_k, coqchk_out = sh(["coqchk", "-silent", "-o", "-Q", COQ, "Verif", "Verif.Properties.%s" % prop], cwd=COQ, timeout=3600)
        summary = coqchk_out[coqchk_out.find("CONTEXT SUMMARY"):] if "CONTEXT SUMMARY" in coqchk_out else coqchk_out[-1500:]
        clean = (rc_k == 0 and re.search(r"Axioms:\s*<none>", summary) and re.search(r"type-in-type:\s*<none>", summary)
                 and re.search(r"unsafe \(co\)fixpoints:\s*<none>", summary) and re.search(r"positivity is assumed:\s*<none>", summary))
        coqchk_out = summary.strip()
        if clean:
            discharged += 1
        else:
            proofs_ok = False
            broken_detail = "coqchk did not accept the cone or lists axioms:\n" + summary[-3000:]
    obligations += 1
    gate = grep_gate()
    if gate:
        proofs_ok = False
        broken_detail = "grep gate: " + "; ".join(gate[:10])
    else:
        discharged += 1

    # ---- 3. driver on the implementation ----------------------------------------------------
    cmd = [os.path.join(BIN, "vdrv"), "-prop", prop, "-tier", tier, "-seed", str(seed), "-out", run_dir]
    if replay:
        cmd += ["-replay", replay]
    env = dict(GOENV, VERIF_ROOT=ROOT, VERIF_REPO=REPO)
    rc, out_drv = sh(cmd, cwd=ROOT, timeout=meta.get("timeout", 3000) * (4 if tier == "thorough" else 1), env=env)
    res = None
    if rc == 0 and os.path.exists(os.path.join(run_dir, "result.json")):
        res = json.load(open(os.path.join(run_dir, "result.json")))
    else:
        print(out_drv[-4000:])
        rp = write_replay(prop, "driver-crash", {"property": prop, "broken": "driver did not complete", "detail": out_drv[-4000:]})
        print("VIOLATION property=%s replay=%s no-failing-input-found" % (prop, rp))
        write_evidence(prop, tier, seed, meta, None, obligations, discharged, thms, {}, t0, 1, notes + ["driver crashed"])
        return 1
    if replay:
        print(out_drv.strip())

    failures = list(res.get("failures") or [])
    case_index = res.get("extra", {}).get("case_index", {})

    # ---- 3b. the corpus: stored replays of every recorded finding (open ones must still be
    # explained by their entry, fixed ones must pass) and minimised past disagreements
    corpus_files = [] if replay else sorted(glob.glob(os.path.join(ROOT, "corpus", prop, "*.json")))
    corpus_ran = 0
    def run_corpus(item):
        i, path = item
        od = os.path.join(run_dir, "corpus_%d" % i)
        os.makedirs(od, exist_ok=True)
        c = [os.path.join(BIN, "vdrv"), "-prop", prop, "-tier", "quick", "-seed", str(seed), "-out", od, "-replay", path]
        rc_c, out_c = sh(c, cwd=ROOT, timeout=600, env=env)
        rj = os.path.join(od, "result.json")
        if rc_c == 0 and os.path.exists(rj):
            return path, json.load(open(rj)), None
        return path, None, out_c[-1500:]
    if corpus_files:
        with ThreadPoolExecutor(max_workers=6) as ex:
            for path, rj, err in ex.map(run_corpus, list(enumerate(corpus_files))):
                name = os.path.relpath(path, ROOT)
                if rj is None:
                    failures.append({"case": "corpus:" + name, "class": "%s/corpus-replay-crashed" % prop,
                                     "what": "replaying %s did not complete: %s" % (name, err), "replay": {"corpus_file": name}})
                    continue
                corpus_ran += 1
                for f in (rj.get("failures") or []):
                    f = dict(f)
                    f["case"] = "corpus:%s/%s" % (name, f.get("case"))
                    failures.append(f)

    # ---- 4. model on the same cases, inside the kernel ------------------------------------------
    corr_mismatch, spec_fail = [], []
    corr_ok = True
    cases_v = res.get("cases_v") or []
    kernel_s = 0.0
    if cases_v and not os.path.exists(os.path.join(COQ, targets_v[0][:-2] + ".vo")):
        corr_ok = False
    elif cases_v:
        with ThreadPoolExecutor(max_workers=8) as ex:
            for path, rc2, out2, dt in ex.map(run_cases_v, cases_v):
                kernel_s += dt
                if rc2 != 0:
                    corr_ok = False
                    notes.append("coqc failed on %s: %s" % (os.path.basename(path), out2[-1500:]))
                    continue
                lists = parse_coq_lists(out2)
                if "MISMATCH" not in lists:
                    corr_ok = False
                    notes.append("no MISMATCH list printed by %s" % os.path.basename(path))
                corr_mismatch += lists.get("MISMATCH", []) if isinstance(lists.get("MISMATCH", []), list) else []
                spec_fail += lists.get("SPECFAIL", []) if isinstance(lists.get("SPECFAIL", []), list) else []
    case_hash = res.get("extra", {}).get("case_hash", {})
    for cid in spec_fail:
        c = case_index.get(str(cid))
        h = case_hash.get(str(cid))
        same = [f for f in failures if (c is not None and f.get("replay") == c) or (h and f.get("replay_hash") == h)]
        failures.append({"case": str(cid), "class": (same[0]["class"] if same else "%s/spec-in-kernel" % prop),
                         "what": "specification function (evaluated in Coq) rejects the implementation's output",
                         "replay": c})

    # ---- 5. classification ------------------------------------------------------------------------
    known = [k for k in load_known() if k.get("property") == prop]
    open_known = [k for k in known if k.get("status") == "open"]
    new_failures = []
    matched = {}
    for f in failures:
        k = next((k for k in open_known if k.get("class") == f.get("class")), None)
        if k is not None:
            if k["id"] not in matched and os.environ.get("VERIF_SAVE_KNOWN"):
                write_replay(prop, "known-%s" % k["id"], {"property": prop, "case": f["case"], "class": f["class"], "what": f["what"],
                                                          "replay": f.get("replay"), "replay_cmd": "./check %s --replay <this file>" % prop})
            matched.setdefault(k["id"], 0)
            matched[k["id"]] += 1
        else:
            new_failures.append(f)

    # the correspondence obligation: model and implementation agree on every case, except cases
    # that ALSO fail the oracle with a class listed as an open known finding (there the model
    # follows the documented behaviour and the recorded defect is the difference)
    unexplained_all = [m for m in corr_mismatch if not explained_by_known(m, case_index, failures, open_known, case_hash)]
    obligations += 1
    if corr_ok and not unexplained_all:
        discharged += 1

    exit_code = 0
    seen_classes = set()
    for f in new_failures:
        if f["class"] in seen_classes or len(seen_classes) >= 8:
            continue
        seen_classes.add(f["class"])
        rp = write_replay(prop, "fail-%s-%s" % (re.sub(r"[^A-Za-z0-9_.-]", "_", str(f["case"]))[:50],
                                                re.sub(r"[^A-Za-z0-9_.-]", "_", str(f["class"]).split("/", 1)[-1])[:40]),
                          {"property": prop, "case": f["case"], "class": f["class"], "what": f.get("what", ""),
                           "replay": f.get("replay"),
                           "replay_cmd": "./check %s --replay <this file>" % prop})
        violations.append((rp, ""))
        print("  failing input (%s): %s" % (f["class"], str(f.get("what", ""))[:400]))
    if not new_failures:
        unexplained = unexplained_all
        if not proofs_ok:
            rp = write_replay(prop, "proof-broken", {"property": prop,
                              "broken": "proof obligations of Properties/%s.v (theorems: %s)" % (prop, ", ".join(thms)),
                              "detail": broken_detail})
            violations.append((rp, " no-failing-input-found"))
        elif unexplained or not corr_ok:
            first = case_index.get(str(unexplained[0])) if unexplained else None
            rp = write_replay(prop, "correspondence-broken", {"property": prop,
                              "broken": "correspondence Corr/%scorr (model vs implementation)" % prop,
                              "mismatching_case_ids": unexplained[:50], "first_case": first, "notes": notes})
            violations.append((rp, " no-failing-input-found"))

    for k in open_known:
        print("KNOWN-FINDING: property=%s %s" % (prop, k["what"]))
    for rp, suffix in violations:
        print("VIOLATION property=%s replay=%s%s" % (prop, rp, suffix))
        exit_code = 1

    write_evidence(prop, tier, seed, meta, res, obligations, discharged, thms,
                   {"assumptions_output": assumptions_out.strip()[:2000], "coqchk_summary": coqchk_out[:1500],
                    "corr_mismatches": len(corr_mismatch), "corr_mismatches_explained_by_known_findings": len(corr_mismatch) - len(unexplained_all), "spec_failures_in_kernel": len(spec_fail),
                    "kernel_eval_s": round(kernel_s, 2), "known_findings_matched": matched,
                    "statements_in_cone": n_stmts, "cone_files": cone_files,
                    "oracle_failures_on_impl": len(failures), "corpus_replays_run": corpus_ran},
                   t0, len(violations), notes)
    if exit_code == 0:
        print("%s %s: ok  (theorems %d, cone statements %d, impl cases %d, kernel-evaluated cases %d, known findings %d) %.1fs" % (
            prop, tier, len(thms), n_stmts, res["evaluations"], res.get("model_cases", 0), len(open_known), time.time() - t0))
    return exit_code


def explained_by_known(cid, case_index, failures, open_known, case_hash=None):
    """A correspondence mismatch is explained when the same case also failed the oracle
    with a class listed as an open finding (the model is of the documented behaviour there)."""
    h = (case_hash or {}).get(str(cid))
    for f in failures:
        if (str(f.get("case")) == str(cid) or (h and f.get("replay_hash") == h)) and any(k.get("class") == f.get("class") for k in open_known):
            return True
    return False


def write_evidence(prop, tier, seed, meta, res, obligations, discharged, thms, extra, t0, nviol, notes):
    os.makedirs(EVID, exist_ok=True)
    cov = {
        "obligations": obligations,
        "discharged": discharged,
        "checker_cmd": ("cd coq && coq_makefile -f _CoqProject -o Makefile && make -j16 %s  (coqc 8.16.1, full .vo build); coqc assump.v (Print Assumptions); coqc cases_*.v (vm_compute correspondence)"
                        % " ".join(f[:-2] + ".vo" for f in meta["coq"]))
                       + ("; coqchk -silent -o -Q coq Verif Verif.Properties.%s (independent re-check of the compiled cone, axiom list)" % prop if tier == "thorough" else ""),
        "trusted_base": COMMON_TRUSTED + meta.get("trusted", []),
        "theorems": thms,
        "theorem_status": meta.get("theorem_status", {}),
    }
    if res is not None:
        cov.update({
            "evaluations": res["evaluations"],
            "distinct_nontrivial": res["distinct_nontrivial"],
            "rule": res["rule"],
            "samples": res.get("samples") or [],
            "distribution": res.get("distribution", {}),
            "traces_validated_against_impl": res.get("model_cases", 0),
            "disagreements_checked": res.get("model_cases", 0),
            "exhaustive": bool(res.get("exhaustive")),
            "driver_notes": res.get("notes") or [],
        })
        for k, v in (res.get("extra") or {}).items():
            if k not in ("case_index", "case_hash"):
                cov[k] = v
    cov.update(extra)
    ev = {
        "property_id": prop,
        "tier": tier,
        "seed": seed,
        "level": "proof",
        "coverage": cov,
        "assumptions": meta.get("assumptions", []) + notes,
        "wall_s": round(time.time() - t0, 2),
        "violations": nviol,
    }
    json.dump(ev, open(os.path.join(EVID, prop + ".json"), "w"), indent=1, default=str)


def main(argv):
    ap = argparse.ArgumentParser()
    ap.add_argument("prop", nargs="?")
    ap.add_argument("--setup", action="store_true")
    ap.add_argument("--tier", default=os.environ.get("VERIF_TIER", "quick"))
    ap.add_argument("--replay")
    a = ap.parse_args(argv)
    if a.setup:
        return setup()
    if not a.prop or a.prop not in PROPS:
        print("usage: ./check --setup | ./check Cxx [--tier quick|thorough] [--replay FILE]; known: %s" % " ".join(sorted(PROPS)))
        return 2
    if a.tier not in ("quick", "thorough"):
        a.tier = "quick"
    seed = int(os.environ.get("VERIF_SEED", "1") or "1")
    if a.replay and os.path.exists(a.replay):
        try:
            payload = json.load(open(a.replay))
        except Exception:
            payload = {}
        if "broken" in payload and "replay" not in payload:
            a.replay = None  # a proof/correspondence break is replayed by re-running the whole check
    return check(a.prop, a.tier, seed, a.replay)
