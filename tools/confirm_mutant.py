#!/usr/bin/env python3
"""confirm_mutant.py Cxx M  — independently confirm a sub-agent's seeded change in a scratch
worktree of /repo (demo passes clean; suite passes with the change; demo fails with the
change) and, if confirmed, store it under /verif/seeded/Cxx-M/."""
import json, os, re, shutil, subprocess, sys, glob

ENV = dict(os.environ, GOFLAGS="-mod=mod", GOPROXY="off", GOSUMDB="off", GOTOOLCHAIN="local")


def sh(cmd, cwd, timeout=1500):
    p = subprocess.run(cmd, cwd=cwd, env=ENV, shell=True, text=True, errors="replace",
                       stdout=subprocess.PIPE, stderr=subprocess.STDOUT, timeout=timeout)
    return p.returncode, p.stdout


def main():
    prop, m = sys.argv[1], sys.argv[2]
    root = os.environ.get("MUT_ROOT", "/var/tmp/mut2")
    base = subprocess.run("git -C /repo rev-parse --short HEAD", shell=True, text=True, stdout=subprocess.PIPE).stdout.strip()
    src = "%s/%s/_out" % (root, prop)
    diff = os.path.join(src, "%s.diff" % m)
    meta = json.load(open(os.path.join(src, "%s.json" % m)))
    demo_dir = os.path.join(src, "%s_demo" % m)
    tests = glob.glob(os.path.join(demo_dir, "*_test.go"))
    if not tests or not os.path.exists(diff):
        print(prop, m, "SKIP: no test file or diff")
        return 2
    run = re.search(r"-run\s+'?\"?([A-Za-z0-9_|^$]+)", meta.get("demo_cmd", ""))
    runname = run.group(1) if run else "."
    wt = "/var/tmp/confirm/%s_%s" % (prop, m)
    subprocess.run("git -C /repo worktree remove --force %s 2>/dev/null; rm -rf %s" % (wt, wt), shell=True)
    os.makedirs("/var/tmp/confirm", exist_ok=True)
    rc, out = sh("git -C /repo worktree add -q --detach %s %s" % (wt, base), "/")
    if rc != 0:
        print(prop, m, "worktree failed", out)
        return 2
    result = {"property": prop, "mutant": m}
    try:
        placed = []
        def place():
            for t in tests:
                pk = re.search(r"^package\s+(\w+)", open(t).read(), re.M).group(1)
                d = "graphql" if pk.startswith("graphql") else ("generate" if pk.startswith("generate") else "internal/integration")
                dst = os.path.join(wt, d, os.path.basename(t))
                shutil.copyfile(t, dst)
                placed.append((dst, d))
            return sorted(set(d for _, d in placed))
        def unplace():
            for dst, _ in placed:
                if os.path.exists(dst):
                    os.remove(dst)
            placed.clear()
        dirs = place()
        demo = "go test -vet=off -count=1 -run '%s' %s" % (runname, " ".join("./%s/" % d for d in dirs))
        rc1, out1 = sh(demo, wt)
        result["demo_clean_pass"] = rc1 == 0
        unplace()
        sh("git checkout -- . ", wt)
        rc, out = sh("git apply %s" % diff, wt)
        if rc != 0:
            print(prop, m, "APPLY FAILED", out)
            return 1
        rc2, out2 = sh("go build ./... && go test -vet=off -count=1 ./...", wt)
        if rc2 != 0 and "TestSubscription" in out2:
            rc2, out2 = sh("go build ./... && go test -vet=off -count=1 ./...", wt)
        result["suite_pass_with_mutant"] = rc2 == 0
        place()
        rc3, out3 = sh(demo, wt)
        result["demo_fails_with_mutant"] = rc3 != 0
        result["demo_cmd"] = demo
        result["demo_output_with_mutant_tail"] = out3[-1500:]
        ok = result["demo_clean_pass"] and result["suite_pass_with_mutant"] and result["demo_fails_with_mutant"]
        result["confirmed"] = ok
        if not ok:
            result["clean_out"] = out1[-1500:]
            result["suite_out"] = out2[-2500:]
        if ok:
            dst = "/verif/seeded/%s-%s" % (prop, m)
            shutil.rmtree(dst, ignore_errors=True)
            os.makedirs(dst)
            shutil.copyfile(diff, os.path.join(dst, "patch.diff"))
            for f in os.listdir(demo_dir):
                shutil.copyfile(os.path.join(demo_dir, f), os.path.join(dst, f))
            json.dump({"property": prop, "summary": meta.get("summary"), "needs": meta.get("needs"),
                       "origin": "independent sub-agent given only the property text and a scratch worktree",
                       "confirmed_by": "tools/confirm_mutant.py in a scratch worktree of /repo@%s: demo passes on clean tree; `go build ./... && go test -vet=off -count=1 ./...` passes with patch; demo fails with patch" % base,
                       "demo_cmd": "place the *_test.go file in %s/ of a checkout, then: %s" % (",".join(dirs), demo),
                       "demo_failure_tail": out3[-800:]},
                      open(os.path.join(dst, "meta.json"), "w"), indent=1)
        print(prop, m, "CONFIRMED" if ok else "NOT CONFIRMED", json.dumps({k: v for k, v in result.items() if k.endswith("pass") or k.endswith("mutant") or k == "demo_clean_pass"}))
        if not ok:
            json.dump(result, open("/var/tmp/confirm/%s_%s.fail.json" % (prop, m), "w"), indent=1)
        return 0 if ok else 1
    finally:
        subprocess.run("git -C /repo worktree remove --force %s; rm -rf %s" % (wt, wt), shell=True)


if __name__ == "__main__":
    sys.exit(main())
