#!/usr/bin/env python3
"""Decode Coq `list N` string literals ([66; 73; ...]) in stdin into quoted text."""
import re, sys
s = sys.stdin.read()
s = re.sub(r"\s+", " ", s)
def dec(m):
    nums = [int(x) for x in re.findall(r"\d+", m.group(0))]
    if all(9 <= n < 127 for n in nums):
        return '"' + "".join(chr(n) for n in nums) + '"'
    return m.group(0)
s = re.sub(r"\[\d+(?:; \d+)*\]", dec, s)
s = s.replace("[]", '""')
print(s)
