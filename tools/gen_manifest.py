#!/usr/bin/env python3
"""Regenerates MANIFEST.json from lib/props.py (single source of truth for what is claimed)."""
import json, os, sys
ROOT = os.path.dirname(os.path.dirname(os.path.abspath(__file__)))
sys.path.insert(0, os.path.join(ROOT, "lib"))
from props import PROPS
ALL = ["C%02d" % i for i in range(1, 21)]
checks = []
for pid in ALL:
    if pid not in PROPS or PROPS[pid].get("unclaimed"):
        continue
    m = PROPS[pid]
    checks.append({
        "property_id": pid,
        "quick_cmd": "./check %s --tier quick" % pid,
        "thorough_cmd": "./check %s --tier thorough" % pid,
        "evidence_file": "evidence/%s.json" % pid,
        "replay_cmd_template": "./check %s --replay {path}" % pid,
        "engine": m.get("engine", "coq+vdrv"),
        "level_claimed": {"category": "proof", "text": m["level_text"], "design_ref": m.get("design_ref", "DESIGN.md section 6")},
        "level_note": m["level_note"],
        "technique": m.get("technique", "machine-checked proof in Coq 8.16.1 of theorems about a hand-written Gallina model; model tied to /repo by a per-run in-kernel (vm_compute) correspondence on generated cases plus a regenerated constants file"),
    })
na = [{"property_id": p, "reason": (PROPS.get(p, {}).get("unclaimed") or "check not built yet in this session; see DESIGN.md section 6 for the planned model and theorems")}
      for p in ALL if p not in PROPS or PROPS[p].get("unclaimed")]
man = {
    "version": 1,
    "setup_cmd": "./check --setup",
    "hooks": {
        "guard": "verif",
        "enable": "go build -tags verif (the harness module replaces github.com/Khan/genqlient with /repo and builds with -tags verif)",
        "baseline_off_cmd": "for m in . ./internal/lint; do (cd /repo/$m && GOFLAGS=-mod=mod GOPROXY=off GOSUMDB=off GOTOOLCHAIN=local go test -json -vet=off -count=1 -timeout 25m ./...); done",
        "source_commits": json.load(open(os.path.join(ROOT, "lib", "hook_commits.json"))) if os.path.exists(os.path.join(ROOT, "lib", "hook_commits.json")) else [],
        "add_only": True,
    },
    "engines": [
        {"name": "coq", "path": "coq/", "serves_properties": [c["property_id"] for c in checks],
         "kind_free_text": "Coq 8.16.1 development (coq_makefile + make, full .vo): models in Base/ Gen/ Rt/, lemmas in Proofs/, property theorems in Properties/, correspondence evaluators in Corr/"},
        {"name": "vdrv", "path": "harness/cmd/vdrv", "serves_properties": [c["property_id"] for c in checks],
         "kind_free_text": "Go driver built against /repo (replace directive, -tags verif): seeded generators, runs the real code, applies the property oracle to the implementation, emits cases_*.v for the in-kernel model evaluation"},
        {"name": "consts2v", "path": "harness/cmd/consts2v", "serves_properties": [c["property_id"] for c in checks],
         "kind_free_text": "translator: regenerates coq/Gen/Consts.v from /repo's Go sources and templates on every run"},
    ],
    "checks": checks,
    "not_applicable": na,
    "notes": "Every check: exit 0 = proofs built, assumptions closed, correspondence empty, oracle held; exit 1 + VIOLATION line otherwise. KNOWN_FINDINGS.json lists genuine defects of the unchanged tree (printed as KNOWN-FINDING lines).",
}
json.dump(man, open(os.path.join(ROOT, "MANIFEST.json"), "w"), indent=1)
print("claimed:", [c["property_id"] for c in checks])
