#!/usr/bin/env python3
"""Run every behaviour-preserving rewrite under /verif/harmless (made by sub-agents who were asked
for harmless clean-ups: renames, extracted helpers, inverted conditions, library calls...) against
the quick checks of the properties its files belong to, and write harmless/RESULTS.json.  Every
alarm here is a FALSE alarm of the machinery (the brief allows a `no-failing-input-found` report
when a rewrite breaks a proof obligation or the correspondence; a `failing input` would be a bug
of the oracle).  Applies each patch to /repo's working tree and reverts it (never commits)."""
import json, os, re, subprocess, sys, glob, time

GEN = ["C01", "C03", "C05", "C07", "C08", "C09", "C10", "C16", "C17", "C18", "C20"]
RT = ["C02", "C04", "C06", "C19", "C12"]
CHECKS = {"ws": ["C13", "C14", "C15"], "http": ["C11", "C12", "C04"], "gen": GEN + ["C02"], "tmpl": GEN + RT}

def sh(cmd, cwd="/verif", timeout=1200):
    p = subprocess.run(cmd, cwd=cwd, shell=True, text=True, errors="replace", stdout=subprocess.PIPE, stderr=subprocess.STDOUT, timeout=timeout)
    return p.returncode, p.stdout

def main():
    only = sys.argv[1:]
    path = "/verif/harmless/RESULTS.json"
    out = json.load(open(path)) if os.path.exists(path) else {}
    for d in sorted(glob.glob("/verif/harmless/*-R*")):
        name = os.path.basename(d)
        if only and name not in only:
            continue
        patch = os.path.join(d, "patch.diff")
        rc, o = sh("git apply --check %s" % patch, cwd="/repo")
        if rc != 0:
            out[name] = {"applies": False}
            print(name, "does not apply"); continue
        res = {"applies": True, "checks": {}}
        for chk in CHECKS[name.split("-")[0]]:
            sh("git apply %s" % patch, cwd="/repo")
            try:
                t0 = time.time()
                rc, o = sh("VERIF_EVIDENCE_DIR=/verif/_build/evidence_selftest ./check %s --tier quick" % chk)
            finally:
                sh("git checkout -- .", cwd="/repo")
            viol = re.findall(r"^VIOLATION .*$", o, re.M)
            inputs = sorted(set(re.findall(r"failing input \(([^)]*)\)", o)))
            res["checks"][chk] = {"exit": rc, "alarm": rc != 0, "no_failing_input_found": any("no-failing-input-found" in v for v in viol) and not inputs,
                                  "classes": inputs[:4], "seconds": round(time.time() - t0, 1)}
            if rc != 0:
                print(name, chk, "ALARM", inputs or "no-failing-input-found"); sys.stdout.flush()
        out[name] = res
        print(name, "done", sum(1 for c in res["checks"].values() if c["alarm"]), "alarms of", len(res["checks"])); sys.stdout.flush()
        json.dump(out, open(path, "w"), indent=1, sort_keys=True)

if __name__ == "__main__":
    main()
