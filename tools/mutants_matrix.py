#!/usr/bin/env python3
"""Run every seeded change under /verif/seeded against its own property's quick check (and the
extra checks named in ALSO) and write seeded/RESULTS.json.  Applies each patch to /repo's working
tree and reverts it (never commits)."""
import json, os, re, subprocess, sys, glob, time

ALSO = {  # seeded change -> other checks that are expected to see it
    "C19-B": ["C10"], "C04-B": ["C10"], "C04-D": ["C10"], "C13-D": ["C15"], "C19-A": ["C09"], "C02-A": ["C09"],
    "C06-B": ["C09"], "C03-D": ["C02"], "C08-A": ["C17"], "C14-B": ["C13"],
    "C04-F": ["C10"], "C15-D": ["C14"], "C06-F": ["C04"], "C15-E": ["C14"], "C15-F": ["C13"], "C13-E": ["C15"], "C19-E": ["C10"],
    "C10-G": ["C04"], "C07-H": ["C17"], "C04-H": ["C10"], "C16-H": ["C09"], "C19-G": ["C09"], "C19-H": ["C09"], "C13-G": ["C15"], "C04-G": ["C06"], "C06-G": ["C04"], "C02-H": ["C09"], "C15-G": ["C14"], "C14-H": ["C13"],
}

def sh(cmd, cwd="/verif", timeout=900):
    p = subprocess.run(cmd, cwd=cwd, shell=True, text=True, errors="replace", stdout=subprocess.PIPE, stderr=subprocess.STDOUT, timeout=timeout)
    return p.returncode, p.stdout

def main():
    only = sys.argv[1:]
    out = {}
    for d in sorted(glob.glob("/verif/seeded/C*-*")):
        name = os.path.basename(d)
        if only and name not in only:
            continue
        patch = os.path.join(d, "patch.diff")
        prop = name.split("-")[0]
        rc, o = sh("git apply --check %s" % patch, cwd="/repo")
        if rc != 0:
            out[name] = {"applies": False}
            print(name, "does not apply")
            continue
        res = {"applies": True, "checks": {}}
        for chk in [prop] + ALSO.get(name, []):
            sh("git apply %s" % patch, cwd="/repo")
            try:
                t0 = time.time()
                rc, o = sh("VERIF_EVIDENCE_DIR=/verif/_build/evidence_selftest ./check %s --tier quick" % chk)
            finally:
                sh("git checkout -- .", cwd="/repo")
            viol = re.findall(r"^VIOLATION .*$", o, re.M)
            inputs = re.findall(r"failing input \(([^)]*)\)", o)
            res["checks"][chk] = {"exit": rc, "violations": len(viol), "no_failing_input_found": any("no-failing-input-found" in v for v in viol) and not inputs,
                                  "classes": sorted(set(inputs))[:4], "seconds": round(time.time() - t0, 1)}
            print(name, chk, "exit", rc, res["checks"][chk]["classes"] or ("no-failing-input-found" if res["checks"][chk]["no_failing_input_found"] else ""))
            sys.stdout.flush()
        out[name] = res
    prev = {}
    if only and os.path.exists("/verif/seeded/RESULTS.json"):
        prev = json.load(open("/verif/seeded/RESULTS.json"))
    prev.update(out)
    json.dump(prev, open("/verif/seeded/RESULTS.json", "w"), indent=1, sort_keys=True)

if __name__ == "__main__":
    main()
