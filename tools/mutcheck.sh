#!/bin/sh
# usage: tools/mutcheck.sh <patch.diff> <Cxx> [tier]  -- apply a seeded change to /repo, run the check, undo it.
set -u
PATCH=$1; PROP=$2; TIER=${3:-quick}
cd /repo || exit 2
if ! git apply --check "$PATCH" 2>/dev/null; then echo "patch does not apply: $PATCH"; exit 3; fi
git apply "$PATCH"
cd /verif && VERIF_EVIDENCE_DIR=/verif/_build/evidence_selftest ./check "$PROP" --tier "$TIER" > /verif/_build/mut_last.log 2>&1
RC=$?
git -C /repo checkout -- . 
grep -E "VIOLATION|KNOWN-FINDING|failing input|: ok" /verif/_build/mut_last.log | head -8
echo "exit=$RC"
