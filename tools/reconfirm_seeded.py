#!/usr/bin/env python3
"""reconfirm_seeded.py [ids...] — for every kept seeded change, at /repo's CURRENT HEAD and in a
scratch worktree outside /repo and /verif: does the patch still apply, does the sub-agent's demo
still pass on the clean tree and still fail with the change?  `fix:` commits made after a change
was seeded can make it harmless (the property holds again with it applied); the table in
DESIGN.md section 15 reads this file so that a correspondence-only report on such a change is
not mistaken for a missed failing input.  Writes /verif/seeded/RECONFIRM.json."""
import json, os, re, shutil, subprocess, sys, glob
from concurrent.futures import ThreadPoolExecutor

ENV = dict(os.environ, GOFLAGS="-mod=mod", GOPROXY="off", GOSUMDB="off", GOTOOLCHAIN="local")
ROOT = "/var/tmp/reconfirm"


def sh(cmd, cwd, timeout=1500):
    p = subprocess.run(cmd, cwd=cwd, env=ENV, shell=True, text=True, errors="replace",
                       stdout=subprocess.PIPE, stderr=subprocess.STDOUT, timeout=timeout)
    return p.returncode, p.stdout


def one(sid, base):
    d = "/verif/seeded/" + sid
    meta = json.load(open(d + "/meta.json"))
    tests = glob.glob(d + "/*_test.go")
    res = {"id": sid, "head": base}
    if not tests:
        res["status"] = "no-demo"
        return res
    run = re.search(r"-run\s+'?\"?([A-Za-z0-9_|^$]+)", meta.get("demo_cmd", ""))
    runname = run.group(1) if run else "."
    wt = "%s/%s" % (ROOT, sid)
    subprocess.run("git -C /repo worktree remove --force %s 2>/dev/null; rm -rf %s" % (wt, wt), shell=True)
    rc, out = sh("git -C /repo worktree add -q --detach %s %s" % (wt, base), "/")
    if rc != 0:
        res["status"] = "worktree-failed"
        return res
    try:
        rc, _ = sh("git apply --check %s/patch.diff" % d, wt)
        res["applies"] = rc == 0
        if rc != 0:
            res["status"] = "does-not-apply"
            return res
        placed = []
        for t in tests:
            pk = re.search(r"^package\s+(\w+)", open(t).read(), re.M).group(1)
            sub = "graphql" if pk.startswith("graphql") else ("generate" if pk.startswith("generate") else "internal/integration")
            dst = os.path.join(wt, sub, os.path.basename(t))
            shutil.copyfile(t, dst)
            placed.append(sub)
        demo = "go test -vet=off -count=1 -run '%s' %s" % (runname, " ".join("./%s/" % s for s in sorted(set(placed))))
        rc1, out1 = sh(demo, wt)
        res["demo_clean_pass"] = rc1 == 0
        sh("git apply %s/patch.diff" % d, wt)
        rc2, out2 = sh(demo, wt)
        res["demo_fails_with_change"] = rc2 != 0
        if rc1 != 0:
            res["status"] = "demo-fails-on-clean-head"
            res["clean_tail"] = out1[-600:]
        elif rc2 != 0:
            res["status"] = "still-breaks"
        else:
            res["status"] = "demo-no-longer-fails"
        return res
    finally:
        subprocess.run("git -C /repo worktree remove --force %s 2>/dev/null; rm -rf %s" % (wt, wt), shell=True)


def main():
    base = subprocess.run("git -C /repo rev-parse --short HEAD", shell=True, text=True, stdout=subprocess.PIPE).stdout.strip()
    ids = sys.argv[1:] or sorted(os.path.basename(p) for p in glob.glob("/verif/seeded/C*-*"))
    os.makedirs(ROOT, exist_ok=True)
    with ThreadPoolExecutor(max_workers=6) as ex:
        results = list(ex.map(lambda s: one(s, base), ids))
    subprocess.run("git -C /repo worktree prune; rm -rf %s" % ROOT, shell=True)
    path = "/verif/seeded/RECONFIRM.json"
    old = {}
    if os.path.exists(path) and sys.argv[1:]:
        old = json.load(open(path))
    for r in results:
        old[r["id"]] = r
        print(r["id"], r["status"])
    json.dump(old, open(path, "w"), indent=1, sort_keys=True)


if __name__ == "__main__":
    main()
