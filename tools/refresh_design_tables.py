#!/usr/bin/env python3
"""Regenerate the two generated tables of DESIGN.md (status table in section 0, seeded-change table
in section 15) from lib/props.py, KNOWN_FINDINGS.json and seeded/RESULTS.json."""
import re, subprocess
p = "/verif/DESIGN.md"
s = open(p).read()
def table(cmd):
    return subprocess.run(["python3", cmd], text=True, stdout=subprocess.PIPE, check=True).stdout.strip()
for begin, end, cmd in (("<!-- status-table-begin -->", "<!-- status-table-end -->", "/verif/tools/render_status_table.py"),
                        ("<!-- seeded-table-begin -->", "<!-- seeded-table-end -->", "/verif/tools/render_seeded_table.py"),
                        ("<!-- harmless-table-begin -->", "<!-- harmless-table-end -->", "/verif/tools/render_harmless_table.py")):
    if begin in s and end in s:
        i = s.index(begin) + len(begin); j = s.index(end)
        s = s[:i] + "\n" + table(cmd) + "\n" + s[j:]
open(p, "w").write(s)
