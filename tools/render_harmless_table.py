#!/usr/bin/env python3
"""Render the table of behaviour-preserving rewrites (harmless/*/meta.json + harmless/RESULTS.json)."""
import json, os, glob, re
res = json.load(open("/verif/harmless/RESULTS.json")) if os.path.exists("/verif/harmless/RESULTS.json") else {}
rows = []
for d in sorted(glob.glob("/verif/harmless/*-R*")):
    name = os.path.basename(d)
    meta = json.load(open(os.path.join(d, "meta.json")))
    summ = re.sub(r"\s+", " ", meta.get("summary") or "")
    summ = summ[:170] + ("..." if len(summ) > 170 else "")
    r = res.get(name, {})
    if not r.get("applies", False):
        out = "does not apply to the current HEAD"
    else:
        alarms = ["%s (%s)" % (k, ", ".join(c["classes"]) or "no-failing-input-found") for k, c in sorted(r["checks"].items()) if c["alarm"]]
        out = ("ALARM: " + "; ".join(alarms)) if alarms else "no alarm in %d checks (%s)" % (len(r["checks"]), ", ".join(sorted(r["checks"])))
    rows.append("| %s | %s | %s |" % (name, summ.replace("|", "\\|"), out))
print("| rewrite | what it is | quick checks of the properties its files belong to |\n|---|---|---|")
print("\n".join(rows))
