#!/usr/bin/env python3
"""Render the table of seeded changes (seeded/*/meta.json + seeded/RESULTS.json) as markdown."""
import json, os, glob, re
res = json.load(open("/verif/seeded/RESULTS.json"))
rec = json.load(open("/verif/seeded/RECONFIRM.json")) if os.path.exists("/verif/seeded/RECONFIRM.json") else {}
HEADTXT = {"still-breaks": "fails", "demo-no-longer-fails": "passes (the demonstrated input is harmless now)", "does-not-apply": "-", "demo-fails-on-clean-head": "outdated (fails on the repaired tree too)", "no-demo": "-"}
rows = []
for d in sorted(glob.glob("/verif/seeded/C*-*")):
    name = os.path.basename(d)
    meta = json.load(open(os.path.join(d, "meta.json")))
    summ = re.sub(r"\s+", " ", meta.get("summary") or "")
    summ = summ[:150] + ("..." if len(summ) > 150 else "")
    r = res.get(name, {})
    if not r.get("applies", False):
        outcome = "no longer applies (the code it changed was repaired or rewritten by a `fix:` commit)"
    else:
        parts = []
        for chk, c in r["checks"].items():
            if c["exit"] == 0:
                parts.append("%s: NOT reported" % chk)
            elif c["classes"]:
                parts.append("%s: failing input (%s)" % (chk, ", ".join(x.split("/", 1)[-1] for x in c["classes"][:2])))
            else:
                parts.append("%s: no-failing-input-found (proof or correspondence broken)" % chk)
        outcome = "; ".join(parts)
    rows.append("| %s | %s | %s | %s |" % (name, summ.replace("|", "\\|"), HEADTXT.get(rec.get(name, {}).get("status"), "?"), outcome.replace("|", "\\|")))
print("| seeded change | what it is | its own demo at HEAD with the change | reported by (quick tier) |\n|---|---|---|---|")
print("\n".join(rows))
