#!/usr/bin/env python3
"""Render the per-property status table (lib/props.py theorem_status + KNOWN_FINDINGS.json)."""
import json, sys
sys.path.insert(0, "/verif/lib")
from props import PROPS
k = json.load(open("/verif/KNOWN_FINDINGS.json"))["findings"]
print("| property | theorems in `Properties/Cxx.v` (status) | open findings | fixed findings |\n|---|---|---|---|")
for p in sorted(PROPS):
    ts = PROPS[p].get("theorem_status", {})
    def short(v):
        v = v.split("(")[0].strip()
        return v
    thms = "; ".join("%s: %s" % (n.replace(p + "_", ""), short(v)) for n, v in ts.items())
    op = ", ".join(f["id"] for f in k if f["property"] == p and f["status"] == "open") or "-"
    fx = ", ".join("%s (%s)" % (f["id"], f.get("commit", "")) for f in k if f["property"] == p and f["status"] == "fixed") or "-"
    print("| %s | %s | %s | %s |" % (p, thms, op, fx))
